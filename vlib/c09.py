"""C09 -- generation is a pure function: same inputs, byte-identical files.

T: the translator c09t lists every map range (and clock / rand / goroutine use) of internal/configs,
   version1, version2 into coq/gen/MapRanges.v; Determ/ProofsInventory.v and Properties/C09.v are re-compiled
   against it; every site must be covered by named theorems of the hand-maintained Determ/ProofsTable.v.
X+S: the harness c09 renders fixtures through the real Configurator / template executors / LocalManager
   60 times in each of 3 fresh processes and calls the map-ranging functions 400 times each; the
   decidable specification (all renderings equal, no `changed` after the first) and the site models are
   evaluated in Rocq on what the implementation produced."""
import concurrent.futures, json, os, re
from . import common as C

ONLY = ["Base", "Determ", "gen/MapRanges.v", "Properties/C09.v"]
GEN = os.path.join(C.COQ, "gen", "MapRanges.v")
PROCS = 3

UNIT_KIND = {   # harness kind -> (model kind code, site id)
    "generateAPIKeyClients": (0, "generateAPIKeyClients#0"),
    "upstreamMapToSlice": (1, "upstreamMapToSlice#0"),
    "filterMasterAnnotations": (2, "filterMasterAnnotations#0"),
    "filterMinionAnnotations": (2, "filterMinionAnnotations#0"),
    "filterMasterAnnotations.map": (3, "filterMasterAnnotations#0"),
    "filterMinionAnnotations.map": (3, "filterMinionAnnotations#0"),
    "mergeMasterAnnotationsIntoMinion": (4, "mergeMasterAnnotationsIntoMinion#0"),
    "generateTLSPassthroughHostsConfig": (5, "generateTLSPassthroughHostsConfig#0"),
    "GenerateVirtualServerConfig": (6, "virtualServerConfigurator.GenerateVirtualServerConfig#0"),
    "generatePolicies": (7, "virtualServerConfigurator.generatePolicies#0"),
    # no map range of its own in the tree as it stands (labels.Set.String sorts): a pseudo-site, deterministic by default
    "GenerateEndpointsKey": (8, "GenerateEndpointsKey"),
    "controller.Endpoints": (9, "getIPAddressesFromEndpoints"),
}
PSEUDO_SITES = {"GenerateEndpointsKey", "getIPAddressesFromEndpoints"}
# unit kinds that project the order-sensitive half of a site the table marks "off the generation path"
OFFPATH_PROJECTION = {"filterMasterAnnotations", "filterMinionAnnotations"}

TRUSTED = [
    "Rocq 8.16.1 kernel incl. vm_compute (no native_compute); no axioms (Print Assumptions: closed)",
    "the translator harness/overlay/internal/verifh/c09t (go/parser + go/types over the three packages, export data from `go list -export`): "
    "trusted to list every range statement whose operand has map type and to classify the loop body syntactically; it is re-run on every check; "
    "of internal/k8s only configuration.go (the Configuration that orders what the Configurator renders) is inventoried",
    "the hand-written consumer models in coq/Determ/Model.v (one per site) -- tied to the code by the unit family of the harness "
    "(real generateAPIKeyClients, upstreamMapToSlice, filter*/merge* annotations, generateTLSPassthroughHostsConfig, GenerateVirtualServerConfig) "
    "and by the class/operand/targets the translator reports for each site",
    "Go semantics: code without map ranges, goroutines, select, clocks or random numbers is a function of its inputs; "
    "text/template ranges over maps in sorted key order (documented behaviour of the standard library)",
    "sha256 digests stand for file contents when the specification is evaluated in Rocq (the harness compares the bytes themselves as well)",
    "the sort.* calls that order a site's output are pinned verbatim (comparator included) in the coverage table: the site theorems assume the comparator is "
    "bytewise < on the map key itself, a strict total order on distinct keys (C09_sort_needs_distinct_keys shows the assumption is necessary); the unit family "
    "probes the real comparator with near-duplicate keys on every run",
    "history independence is proved for a generator that leaves its inputs alone (C09_history_independent, C09_render_history_deepcopy); that the real generator "
    "does is CHECKED (deep comparison of every input object after every call, and the history family), not proved",
    "the harness' replacement of Manager.Reload by a counter (no nginx binary); file comparison is the real LocalManager / configContentsChanged on a scratch directory",
]


# ------------------------------------------------------------------ T

def regenerate(run):
    tbin = C.go_build("c09t")
    os.makedirs(os.path.dirname(GEN), exist_ok=True)
    inv = os.path.join(C.WORK, "cases", "c09_inventory.json")
    rc, log = C.sh([tbin, "-repo", C.REPO, "-out", GEN, "-json", inv], cwd=C.REPO, env=C.go_env(), timeout=900)
    if rc != 0:
        raise C.TieBroken("translator c09t failed on %s: %s" % (C.REPO, log[-1500:]))
    d = json.load(open(inv))
    return d.get("sites") or [], d.get("nondet") or []


def inventory_obligations(run, sites, nondet):
    """compile what depends on gen/MapRanges.v, then ask Rocq for the status of every site"""
    rc, out = C.coq_make(only=ONLY, tag="c09", timeout=1500)
    built = rc == 0
    body = ("From NIC Require Import Determ.Model Determ.ProofsTable gen.MapRanges.\n"
            "Definition rows : list (list Z) := Eval vm_compute in\n"
            "  map (fun s => [Z.of_nat (s_index s); Z.of_nat (s_line s); Z.of_nat (fst (site_status s))]) MapRanges.sites.\n"
            "Print rows.\n"
            "Definition stale_entries := Eval vm_compute in stale MapRanges.sites.\nPrint stale_entries.\n"
            "Definition dup_free := Eval vm_compute in no_dup_sites MapRanges.sites.\nPrint dup_free.\n")
    path = os.path.join(C.WORK, "cases", "C09_inventory.v")
    C.write_cases_v(path, body)
    rc2, out2 = C.coqc(path, timeout=600)
    rows = C.parse_z_lists(out2, "rows") if rc2 == 0 else None
    if rows is None or len(rows) != len(sites):
        raise C.TieBroken("could not evaluate the coverage table against gen/MapRanges.v: %s\n%s" % (out2[-1200:], out[-800:]))
    status = {}
    for s, (idx, line, code) in zip(sites, rows):
        sid = "%s#%d" % (s["Func"], s["Index"])
        status[sid] = code
        where = "%s/%s:%d %s (range %s, class %s, targets %s, sorted by %s)" % (s["Pkg"], s["File"], s["Line"], sid, s["Operand"], s["Class"], s.get("Targets") or [], s.get("Sorts") or [])
        if code == 9:
            run.add_obligation(False, "inventory:" + sid, "map-range site not in the coverage table Determ/ProofsTable.v (new or renamed site): " + where)
        elif code == 8:
            run.add_obligation(False, "inventory:" + sid, "map-range site changed: the translator's class/operand/targets no longer match the coverage table: "
                               + where + " -- " + (s.get("Why") or ""))
        else:
            run.add_obligation(True, "inventory:" + sid)
    stale = re.findall(r'\("([^"]*)",\s*(\d+)\)', out2.split("stale_entries")[1].split("dup_free")[0]) if "stale_entries" in out2 else []
    run.add_obligation(not stale, "inventory:no-stale-entry", "coverage table entries without a site in the source: %s" % stale)
    run.add_obligation(bool(re.search(r'dup_free\s*=\s*true', out2)), "inventory:distinct-site-ids", "two sites share (function, index)")
    run.add_obligation(not nondet, "inventory:no-other-nondeterminism",
                       "time.Now / rand / go / select in the generation packages: %s" % [(n["Kind"], n["File"], n["Func"], n["Line"]) for n in nondet][:6])
    if not built:
        bad = [k for k, v in status.items() if v >= 8]
        run.add_obligation(False, "build:Determ+Properties/C09", "make of the C09 development failed (sites at fault: %s): %s" % (bad, out[-700:]))
    run.cov["inventory"] = {"sites": len(sites),
                            "deterministic": sum(1 for v in status.values() if v == 0),
                            "deterministic_under_named_hypothesis": sum(1 for v in status.values() if v == 1),
                            "order_sensitive_off_generation_path": sum(1 for v in status.values() if v == 2),
                            "order_sensitive_finding": sorted(k for k, v in status.items() if v == 3),
                            "unclassified_or_changed": sorted(k for k, v in status.items() if v >= 8),
                            "other_nondeterminism_uses": len(nondet)}
    return status


# ------------------------------------------------------------------ X + S

def run_processes(binary, args, tag):
    outs = [os.path.join(C.WORK, "cases", "c09_%s_p%d.jsonl" % (tag, i)) for i in range(PROCS)]

    def one(o):
        return C.run_harness(binary, args + ["-out", o, "-repo", C.REPO], timeout=3000)
    with concurrent.futures.ThreadPoolExecutor(max_workers=PROCS) as ex:
        res = list(ex.map(one, outs))
    for (rc, log), o in zip(res, outs):
        if rc != 0:
            raise C.TieBroken("c09 harness failed rc=%d: %s" % (rc, log[-1500:]))
    return [C.read_jsonl(o) for o in outs]


RE_APIKEY_HDR = re.compile(r'^\s*map \$apikey_auth_token \$apikey_auth_client_name_\S+ \{$')
RE_APIKEY_PARAM = re.compile(r'^\s*"[0-9a-f]{64}" "[^"]*";$')
RE_LRZ_HDR = re.compile(r'^\s*map \$jwt_\S+ \$rl_\S+_group_\S+ \{$')


def cross_process_diff(fa, fb):
    """first differing line between the first renderings of two processes (same attribution rules as the harness)"""
    for name in sorted(set(fa) | set(fb)):
        a, b = fa.get(name, ""), fb.get(name, "")
        if a == b:
            continue
        la, lb = a.split("\n"), b.split("\n")
        n = 0
        while n < len(la) and n < len(lb) and la[n] == lb[n]:
            n += 1
        x, y = (la[n] if n < len(la) else ""), (lb[n] if n < len(lb) else "")
        block = ""
        for i in range(n - 1, -1, -1):
            if n < len(la) and la[i].strip().endswith("{") and len(la[i]) - len(la[i].lstrip()) < len(la[n]) - len(la[n].lstrip()):
                block = la[i].strip()
                break
        same = sorted(la) == sorted(lb)
        site = "unattributed"
        if same:
            if RE_APIKEY_HDR.match(x) and RE_APIKEY_HDR.match(y):
                site = "virtualServerConfigurator.GenerateVirtualServerConfig#0"
            elif RE_APIKEY_HDR.match(block) and RE_APIKEY_PARAM.match(x) and RE_APIKEY_PARAM.match(y):
                site = "generateAPIKeyClients#0"
            elif RE_LRZ_HDR.match(x) and RE_LRZ_HDR.match(y):
                site = "virtualServerConfigurator.generatePolicies#0"
        return {"round": 0, "file": name, "line": n + 1, "a": x, "b": y, "block": block, "same_multiset": same, "site": site, "between_processes": True}
    return None


def merge(per_proc):
    """one case per id; renderings of the processes concatenated (the first rendering of a later
    process legitimately reports changed=true on its fresh directory: masked), unit outputs united"""
    merged = []
    for versions in zip(*per_proc):
        c = json.loads(json.dumps(versions[0]))
        o = c["obs"]
        c["procs"] = len(versions)
        if c["fam"] == "render":
            for v in versions[1:]:
                vo = v["obs"]
                for k in ("error", "panic"):
                    if vo.get(k) and not o.get(k):
                        o[k] = vo[k]
                rs = json.loads(json.dumps(vo.get("renderings") or []))
                if rs:
                    rs[0]["changed"] = False
                    rs[0]["reloaded"] = False
                    rs[0]["fresh_process"] = True
                o["renderings"] = (o.get("renderings") or []) + rs
                if vo.get("diff") and not o.get("diff"):
                    o["diff"] = vo["diff"]
                if not o.get("diff") and vo.get("first") != o.get("first"):
                    o["diff"] = cross_process_diff(o.get("first") or {}, vo.get("first") or {})
            o["distinct"] = len({json.dumps(r["files"]) for r in o.get("renderings") or []})
            for v in versions[1:]:
                for m in v["obs"].get("mutated") or []:
                    if m not in (o.get("mutated") or []):
                        o.setdefault("mutated", []).append(m)
        elif c["fam"] == "history":
            # everything that must equal the fresh rendering of B in process 0
            o["others"] = [o.get("b_after_a"), o.get("b_again")]
            for v in versions[1:]:
                vo = v["obs"]
                for k in ("error", "panic"):
                    if vo.get(k) and not o.get(k):
                        o[k] = vo[k]
                o["others"] += [vo.get("b_after_a"), vo.get("b_again"), vo.get("b_fresh")]
                for m in vo.get("mutated") or []:
                    if m not in (o.get("mutated") or []):
                        o.setdefault("mutated", []).append(m)
                if vo.get("diff") and not o.get("diff"):
                    o["diff"] = vo["diff"]
                if not o.get("diff") and vo.get("b_first") != o.get("b_first"):
                    o["diff"] = cross_process_diff(o.get("b_first") or {}, vo.get("b_first") or {})
        else:
            seen = {json.dumps(x): i for i, x in enumerate(o.get("outs") or [])}
            for v in versions[1:]:
                vo = v["obs"]
                for k in ("error", "panic"):
                    if vo.get(k) and not o.get(k):
                        o[k] = vo[k]
                if vo.get("bindings") != o.get("bindings"):
                    o["error"] = "the fixture itself differs between processes"
                for x, n in zip(vo.get("outs") or [], vo.get("counts") or []):
                    k = json.dumps(x)
                    if k in seen:
                        o["counts"][seen[k]] += n
                    else:
                        seen[k] = len(o["outs"])
                        o["outs"].append(x)
                        o["counts"].append(n)
        merged.append(c)
    return merged


def cq_pairs(l):
    return C.cq_list(["(%s, %s)" % (C.cq_str(a), C.cq_str(b)) for a, b in l])


def case_to_coq(c, status):
    o = c["obs"]
    if c["fam"] == "render":
        table, index, seq = [], {}, []
        for r in o["renderings"]:
            k = json.dumps(r["files"])
            if k not in index:
                index[k] = len(table)
                table.append(cq_pairs([(f["name"], f["sha"]) for f in r["files"]]))
            seq.append("(%d%%nat, %s)" % (index[k], C.cq_bool(r["changed"] or r["reloaded"])))
        site = (o.get("diff") or {}).get("site")
        return "render_case_ix %d %s %s %d %s %d%%nat" % (c["id"], C.cq_list(table), C.cq_list(seq), o.get("max_map", 0),
                                                         C.cq_bool(status.get(site) == 3), len(o.get("mutated") or []))
    if c["fam"] == "history":
        fd = lambda fs: cq_pairs([(f["name"], f["sha"]) for f in fs or []])
        return "history_case %d %s %s %d%%nat %s" % (c["id"], fd(o.get("b_fresh")), C.cq_list([fd(x) for x in o["others"]]),
                                                    len(o.get("mutated") or []), C.cq_bool(not o.get("a_equals_b")))
    kind, sid = UNIT_KIND[c["kind"]]
    code = status.get(sid, 0 if sid in PSEUDO_SITES else 9)
    det = code <= 1 and c["kind"] not in OFFPATH_PROJECTION
    return "unit_case %d %d %s %s %s %s %s %s" % (
        c["id"], kind, C.cq_bool(det), C.cq_bool(code == 0), cq_pairs(o.get("bindings") or []),
        C.cq_list([C.cq_str(x) for x in o.get("aux") or []]), cq_pairs(o.get("aux2") or []),
        C.cq_list([C.cq_list([C.cq_str(x) for x in out]) for out in (o.get("outs") or [])[:40]]))


def bad_case(c):
    o = c.get("obs")
    return (not isinstance(o, dict)) or o.get("error") or o.get("panic")


def evaluate(cases, status, tag):
    good = [c for c in cases if not bad_case(c)]
    res = []
    shard = 40
    for k in range(0, len(good), shard):
        part = good[k:k + shard]
        body = "From NIC Require Import Base.SMap Determ.Model Determ.Cases.\n"
        body += "Definition results : list (list Z) := Eval vm_compute in\n  [" + ";\n   ".join(case_to_coq(c, status) for c in part) + "].\nPrint results.\n"
        path = os.path.join(C.WORK, "cases", "C09_%s_%d.v" % (tag, k // shard))
        C.write_cases_v(path, body)
        rc, out = C.coqc(path)
        r = C.parse_z_lists(out, "results")
        if rc != 0 or r is None or len(r) != len(part):
            raise C.TieBroken("coqc could not evaluate the C09 cases file %s: %s" % (path, out[-1500:]))
        res += r
    return res


def slim(c):
    """a case small enough for a replay / sample: the input plus the essentials of the observation"""
    s = {k: c[k] for k in ("id", "fam", "kind", "plus", "seed", "p", "rounds")}
    o = c["obs"]
    if c["fam"] == "render":
        s["obs"] = {"renderings": len(o.get("renderings") or []), "distinct_renderings": o.get("distinct"), "bytes": o.get("bytes"),
                    "first_difference": o.get("diff"), "changed_after_first": sum(1 for r in (o.get("renderings") or [])[1:] if r["changed"]),
                    "reloads_after_first": sum(1 for r in (o.get("renderings") or [])[1:] if r["reloaded"] and not r.get("fresh_process"))}
        if o.get("mutated"):
            s["obs"]["inputs_modified_by_the_generator"] = o["mutated"]
        if o.get("resync"):
            s["obs"]["changes_reported_for_unchanged_objects"] = o["resync"]
    elif c["fam"] == "history":
        s["obs"] = {"scenario": o.get("scenario"), "files_for_B_differ_from_a_fresh_rendering": o.get("diff"),
                    "inputs_modified_by_the_generator": o.get("mutated"), "b_fresh": o.get("b_fresh"), "b_after_a": o.get("b_after_a")}
    else:
        s["obs"] = {"bindings": o.get("bindings"), "distinct_outputs": len(o.get("outs") or []), "outputs": (o.get("outs") or [])[:3], "counts": (o.get("counts") or [])[:8]}
    for k in ("error", "panic"):
        if isinstance(o, dict) and o.get(k):
            s["obs"][k] = o[k]
    return s


def judge(run, cases, res, status, verbose=False):
    byid = {c["id"]: c for c in cases}
    observed_dependent = set()
    by = run.cov.setdefault("by_kind", {})
    for c in cases:
        if bad_case(c):
            o = c.get("obs") or {}
            run.failing({"kind": "harness-case-error", "fixture": c.get("kind")}, [slim(c)],
                        "case %s (%s/%s) could not be run on the implementation: %s" % (c.get("id"), c.get("fam"), c.get("kind"), (o.get("error") or o.get("panic") or "")[:300]),
                        theorem="harness c09", found_input=False)
    for row in res:
        cid, agree, spec, nontrivial, tag = row
        c = byid[cid]
        o = c["obs"]
        key = "%s:%s%s" % (c["fam"], o.get("scenario") or c["kind"], ":plus" if c["plus"] else "")
        by[key] = by.get(key, 0) + 1
        run.count_case({k: c[k] for k in ("fam", "kind", "plus", "seed", "p")}, bool(nontrivial))
        run.cov["traces_validated_against_impl"] += 1
        if c["fam"] == "render":
            run.cov["renderings"] = run.cov.get("renderings", 0) + len(o["renderings"])
            run.cov["bytes_rendered"] = run.cov.get("bytes_rendered", 0) + o.get("bytes", 0) * len(o["renderings"])
            if verbose:
                print("replay case %d (%s): %d renderings in %d processes, %d distinct; spec=%d; first difference: %s"
                      % (cid, c["kind"], len(o["renderings"]), c.get("procs", 1), o.get("distinct", 0), spec, json.dumps(o.get("diff"))))
            if o.get("mutated"):
                run.failing({"kind": "input-mutated", "resource": c["kind"]}, [slim(c)],
                            "the generator wrote into the objects it was given (%s fixture): %s" % (c["kind"], "; ".join(o["mutated"])[:600]),
                            theorem="Determ.Proofs.history_independent (hypothesis: the step leaves its inputs alone)")
            if o.get("resync"):
                run.failing({"kind": "resync-reports-change", "resource": c["kind"]}, [slim(c)],
                            "delivering an UNCHANGED object again makes the Configuration report a change (%s fixture): %s" % (c["kind"], "; ".join(o["resync"])[:500]),
                            theorem="Determ.Model.spec_ok: re-processing an unchanged resource never looks like a change")
            files_differ = len({json.dumps(r["files"]) for r in o["renderings"]}) > 1 or any(r["changed"] or r["reloaded"] for r in o["renderings"][1:])
            if files_differ and (o.get("diff") or {}).get("between_processes"):
                d = o["diff"]
                run.failing({"kind": "process-dependent-output", "resource": c["kind"]}, [slim(c)],
                            "two processes render the same %s to different bytes (each process agrees with itself): %s line %s: %r vs %r"
                            % (c["kind"], d.get("file"), d.get("line"), d.get("a"), d.get("b")),
                            theorem="Determ.Model.spec_ok over the renderings of 3 processes (C09_spec_ok_sound)")
            elif files_differ:
                d = o.get("diff") or {}
                site = d.get("site", "unattributed")
                if not d:
                    site = "no-byte-difference:changed-or-reloaded"
                observed_dependent.add(site)
                run.failing({"kind": "order-dependent-output", "site": site, "level": "render", "resource": c["kind"]}, [slim(c)],
                            "re-rendering an unchanged %s gives different bytes (%d distinct renderings of %d; changed/reload reported %d times after the first): "
                            "%s line %s: %r vs %r (block %r, attributed to map range %s)"
                            % (c["kind"], o.get("distinct", 0), len(o["renderings"]), sum(1 for r in o["renderings"][1:] if r["changed"] or r["reloaded"]),
                               d.get("file"), d.get("line"), d.get("a"), d.get("b"), d.get("block"), site),
                            theorem="Determ.Model.spec_ok (C09_spec_ok_sound)")
        elif c["fam"] == "history":
            differs = [x for x in o["others"] if x != o.get("b_fresh")]
            if verbose:
                print("replay case %d (history %s): files for B equal to a fresh rendering in %d of %d renderings; inputs modified: %s; first difference: %s"
                      % (cid, o.get("scenario"), len(o["others"]) - len(differs), len(o["others"]), o.get("mutated"), json.dumps(o.get("diff"))))
            if o.get("mutated"):
                run.failing({"kind": "input-mutated", "resource": c["kind"], "scenario": o.get("scenario")}, [slim(c)],
                            "the generator wrote into the objects it was given (history %s): %s" % (o.get("scenario"), "; ".join(o["mutated"])[:500]),
                            theorem="Determ.Proofs.history_independent (hypothesis: the step leaves its inputs alone)")
            if differs and (o.get("scenario") or "").startswith("batch:"):
                d = o.get("diff") or {}
                run.failing({"kind": "batch-dependent-output", "entry": o.get("scenario")}, [slim(c)],
                            "a resource is rendered to different bytes alone and as part of a batch (%s, %s): %s line %s: alone %r vs in the batch %r (block %r)"
                            % (o.get("scenario"), "NGINX Plus" if c["plus"] else "NGINX", d.get("file"), d.get("line"), d.get("a"), d.get("b"), d.get("block")),
                            theorem="Determ.Model.history_ok (C09_history_independent: the per-resource state of the generator must not survive the resource)")
            elif differs:
                d = o.get("diff") or {}
                run.failing({"kind": "history-dependent-output", "resource": c["kind"], "scenario": o.get("scenario")}, [slim(c)],
                            "the files for the same resources depend on what was rendered before (history %s): a configurator that rendered input A first "
                            "and a fresh one disagree on input B: %s line %s: fresh %r vs after-A %r (block %r)"
                            % (o.get("scenario"), d.get("file"), d.get("line"), d.get("a"), d.get("b"), d.get("block")),
                            theorem="Determ.Model.history_ok (C09_history_ok_sound, C09_render_history_deepcopy)")
        else:
            kind, sid = UNIT_KIND[c["kind"]]
            code = status.get(sid, 0 if sid in PSEUDO_SITES else 9)
            offpath = c["kind"] in OFFPATH_PROJECTION
            if verbose:
                print("replay case %d (%s, n=%s): %d distinct outputs over %d calls; model-agrees=%d spec=%d"
                      % (cid, c["kind"], c["p"].get("n"), len(o.get("outs") or []), sum(o.get("counts") or []), agree, spec))
            if not spec:
                if offpath and code <= 2:
                    run.cov["offpath_order_dependence_observed"] = run.cov.get("offpath_order_dependence_observed", 0) + 1
                else:
                    observed_dependent.add(sid)
                    run.failing({"kind": "order-dependent-output", "site": sid, "level": "unit", "function": c["kind"]}, [slim(c)],
                                "%s returns %d different results for the same input (n=%s) over %d calls, e.g. %s vs %s"
                                % (c["kind"], len(o["outs"]), c["p"].get("n"), sum(o["counts"]), o["outs"][0][:3], o["outs"][1][:3]),
                                theorem="site theorem of %s in Determ/ProofsTable.v" % sid)
            if not agree:
                run.failing({"kind": "correspondence", "site": sid}, [slim(c)],
                            "the model of %s and the implementation disagree on case %d (expected %s, got %s)" % (sid, cid, (o.get("expect") or [])[:4], (o.get("outs") or [[]])[0][:4]),
                            theorem="correspondence Determ.Model ~ internal/configs", found_input=False)
    return observed_dependent


def check(run):
    n = 110 if run.tier == "quick" else 1200
    sites, nondet = regenerate(run)
    status = inventory_obligations(run, sites, nondet)
    run.proof_obligations()
    binary = C.go_build("c09")
    per_proc = run_processes(binary, ["-seed", str(run.seed), "-n", str(n), "-tier", run.tier], run.tier)
    if len({len(p) for p in per_proc}) != 1:
        raise C.TieBroken("the harness processes produced different numbers of cases")
    cases = merge(per_proc)
    res = evaluate(cases, status, run.tier)
    seen = judge(run, cases, res, status)
    # A new or changed map-range site (or another source of nondeterminism) breaks the proof obligation.  Do not stop at
    # "no failing input found": SEARCH for one -- more fixtures, other seeds -- and report what the search found.
    suspicious = sorted(k for k, v in status.items() if v >= 8)
    if (suspicious or nondet) and not any(g["failing_input_found"] for g in run._groups.values()):
        tries = 0
        for k in range(1, 4 if run.tier == "quick" else 8):
            tries += 1
            pp = run_processes(binary, ["-seed", str(run.seed * 7919 + k), "-n", str(3 * n), "-tier", run.tier], "%s_search%d" % (run.tier, k))
            cs = merge(pp)
            for c in cs:
                c["id"] += 100000 * k
            judge(run, cs, evaluate(cs, status, "%s_search%d" % (run.tier, k)), status)
            if any(g["failing_input_found"] for g in run._groups.values()):
                break
        run.cov["search_for_failing_input"] = {"because": suspicious + ["nondeterminism use"] * bool(nondet), "extra_runs": tries,
                                               "found": any(g["failing_input_found"] for g in run._groups.values())}
    # a site the model refutes must have been seen to differ on the real code (otherwise the finding is not reproduced)
    for sid, code in sorted(status.items()):
        if code == 3 and sid not in seen:
            run.failing({"kind": "refuted-site-not-observed", "site": sid}, [],
                        "the coverage table refutes %s but no run of the real code showed two different outputs" % sid,
                        theorem="correspondence Determ.Model ~ internal/configs", found_input=False)
    for c in [x for x in cases if x["fam"] == "render"][:2] + [x for x in cases if x["fam"] == "unit"][:1] + [x for x in cases if x["fam"] == "history"][:1]:
        run.sample(slim(c))
    run.cov["processes"] = PROCS
    run.cov["rule"] = ("render: 25 fixed fixtures (upstreams selected by 2-4 subselector labels, endpoint sets keyed by GenerateEndpointsKey as the controller keys them, and "
                       "`vsctl` / `ingctl` / `tsctl` fixtures that go through the controller's real createVirtualServerEx / createIngressEx / createTransportServerEx over stores of "
                       "Services, labelled Pods and THREE EndpointSlices per Service; `cmresync`: the real Configuration with cert-manager on, one VirtualServer and 2-4 solver Ingresses for its "
                       "host, an unchanged object delivered again every round (no change may be reported, the bytes must not move); slices: (main, a mirror without targetRef, one naming other pods: podEndpoints that share an address); "
                       "API-key Secret with 5 and 12 keys; 6 Secrets whose client ids collide under case folding / punctuation trimming / "
                       "separator folding / numeric padding; API-key policies in spec + routes + VirtualServerRoute subroutes; tiered rate-limit policies with 3-4 JWT claims in "
                       "one and two scopes; header lists, 5 upstreams x 4 endpoints, splits, matches; Ingress with 12+ annotations, 5 services, health checks; mergeable Ingress "
                       "with denied/inherited annotations and 3 minions; TransportServer with 5 upstreams; 5 TLS-passthrough TransportServers) + -n generated size variations, "
                       "each rebuilt from its seed and pushed through Configurator.AddOrUpdateResources 60 times in each of 3 fresh processes (endpoint sets reshuffled every "
                       "round), on the OSS and the Plus templates; after every call the Kubernetes objects handed in are deep-compared with a copy taken before.  "
                       "unit: 10 map-ranging functions x sizes 2..13 + 8 near-duplicate key sets (case, punctuation, separators, padding, unicode) x 400 calls x 3 processes.  "
                       "history: 8 update scenarios (master / minion / Ingress annotation, Policy, Secret, VirtualServer route, TransportServer upstream replaced by a modified copy "
                       "while all other objects keep their identity) x both template sets + -n/4 generated: input A, then B, then B again in one Configurator, B in a fresh "
                       "Configurator from pristine objects, in 3 processes; all renderings of B must be byte-identical and no stored object modified; plus settings histories: "
                       "4 custom-template ConfigMap keys (main / ingress / virtualserver / transportserver) x 7 sequences (set-remove-set same / other text, set-other-back, "
                       "unset-set-unset, ...) through the real ParseConfigMap -> CfgParams -> Configurator.UpdateConfig with one resource of every kind, compared with a fresh "
                       "Configurator given only the last ConfigMap; App Protect policies / log configurations deleted and re-created under their name (new UID and spec, generation 1 "
                       "again) delivered as one update through AddOrUpdateResources and AddOrUpdateAppProtectResource; batch versus single: 3 VirtualServers (the first with an OIDC "
                       "policy), an Ingress and a TransportServer through each of 7 batch entry points (AddOrUpdateResources in both orders, UpdateConfig, AddOrUpdateVirtualServers, "
                       "UpdateVirtualServers, UpdateEndpointsForVirtualServers, AddOrUpdateAppProtectResource) against each resource rendered alone by a fresh Configurator.  "
                       "What is compared is the state of the disk: EVERY file written and not deleted (NGINX configuration, secrets, App Protect and DoS files).  A case is distinct by "
                       "(family, fixture, plus, seed, sizes); non-trivial: largest unordered collection >= 2 entries (render/unit), A and B render differently (history).")
    run.cov["trusted_base"] = TRUSTED
    run.assumptions += [
        "map ranges in packages other than internal/configs{,/version1,/version2} that generation calls into are not inventoried (they are exercised by the renderings only)",
        "hypotheses named in the table and provided by other properties: one VirtualServer per host (C01), one TLS-passthrough TransportServer per host (C02), "
        "App Protect / DoS files of equal name carry equal content",
        "Go's map iteration order is modelled as fully adversarial; the runtime only produces some of the orders (rotations within a bucket for small maps)",
        "while fixes/F13.diff, fixes/F14.diff are not applied, known/C09.jsonl keeps F13/F14 open: a NEW order dependence at those three sites is reported as the known finding",
    ]


def replay(run, path):
    path = os.path.abspath(path)
    rp = json.load(open(path))
    sites, nondet = regenerate(run)
    status = inventory_obligations(run, sites, nondet)
    if not rp.get("cases"):
        print("replay: %s has no input (a proof / inventory obligation failed): %s" % (path, rp.get("what")))
        print("replay: current inventory status: %s" % json.dumps(run.cov.get("inventory")))
        run.proof_obligations()
        return
    binary = C.go_build("c09")
    per_proc = run_processes(binary, ["-replay", path], "replay")
    cases = merge(per_proc)
    res = evaluate(cases, status, "replay")
    judge(run, cases, res, status, verbose=True)
