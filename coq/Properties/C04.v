(* C04 -- Master/minion and VirtualServer/Route composition is exactly as declared.
   Only statements, each closed by [exact] and followed by Print Assumptions. *)
From Coq Require Import List ZArith String Bool.
From NIC Require Import Base.SMap Arb.Types Arb.Model Arb.Spec Arb.WinsProofs Arb.InvProofs Arb.ComposeProofs Arb.MinionProofs Arb.ListenerProofs Arb.MinionGen1 Arb.MinionGen2 Arb.Truth07 Arb.Truth09.
Import ListNotations.
Open Scope Z_scope.

(* For every route list (unbounded): the routes attached to a VirtualServer are exactly the
   referenced (by bare name in the VirtualServer's namespace, or by namespace/name), existing
   VirtualServerRoutes that pass the per-reference check -- nothing else. *)
Theorem C04_routes_exact :
  forall rs v routes r,
    In r (fst (build_vsrs rs v routes)) <->
    exists path route, In (path, route) routes /\ route <> ""%string /\
                       lookup (route_key v route) rs = Some r /\ vsr_ok_for r (v_host v) path = true.
Proof. exact vsrs_exact. Qed.
Print Assumptions C04_routes_exact.

(* For every route list (unbounded): a VirtualServerRoute is attached to a VirtualServer at most once,
   however many routes of the VirtualServer refer to it (a second attachment would render its upstreams
   and locations twice, F12). *)
Theorem C04_route_attached_once :
  forall rs v routes, NoDup (map fst (fst (build_vsrs_k rs v [] routes))).
Proof. exact vsrs_attached_once. Qed.
Print Assumptions C04_route_attached_once.

(* the per-reference check: host equal to the VirtualServer's; under a regex/exact route exactly one
   subroute with the identical path; under a prefix route every subroute below the prefix *)
Theorem C04_reference_check_meaning :
  forall r host path,
    host <> ""%string -> vsr_ok_for r host path = true ->
    r_host r = host /\
    (is_regex_or_exact path = true -> r_subpaths r = [path]) /\
    (is_regex_or_exact path = false -> path <> ""%string -> forall p, In p (r_subpaths r) -> String.prefix path p = true).
Proof. exact vsr_ok_for_meaning. Qed.
Print Assumptions C04_reference_check_meaning.

(* the minions rendered with a master are exactly the stored (valid, class-matching) minion
   Ingresses whose host equals the master's, in key order *)
Theorem C04_minions_exact :
  forall is_ host i, In i (minions_of is_ host) <-> exists k, In (k, i) is_ /\ is_minion i = true /\ host0 i = host.
Proof. exact minions_of_exact. Qed.
Print Assumptions C04_minions_exact.

Theorem C04_minions_attached_are_minions_of :
  forall is_ host, map mc_ing (fst (build_minions is_ host)) = minions_of is_ host.
Proof. exact build_minions_list. Qed.
Print Assumptions C04_minions_attached_are_minions_of.

(* Each path under a master's host is served by exactly one minion, the least claimant (earliest
   creationTimestamp, then UID) among the minions of that host that list the path -- for any number
   of minions and paths: a minion's mark for a path is `true` iff it is that least claimant.
   Hypotheses: the minions of the host have distinct keys and none lists a path twice; the claimants
   of the path have distinct UIDs (K1). *)
Theorem C04_path_served_by_least_minion :
  forall is_ host mk p,
    minions_ok (minions_of is_ host) ->
    uids_distinct (claimants (claims_of (minions_of is_ host)) p) ->
    let s := scan (minions_of is_ host) (mkMS [] [] []) in
    vp_get (ms_vp s) mk p = Some true <->
    option_map fst (least (claimants (claims_of (minions_of is_ host)) p)) = Some mk.
Proof. exact minion_path_owner. Qed.
Print Assumptions C04_path_served_by_least_minion.

(* The same without the restriction on the minions: a minion may list a path any number of times (validation
   allows it; defect F44 was there), the minions only have to be distinct objects -- which [minions_of] of a store
   keyed by namespace/name always are ([C04_minions_distinct]). *)
Theorem C04_path_served_by_least_minion_general :
  forall ms mk p,
    distinct_keys ms ->
    uids_distinct (claimants (claims_of ms) p) ->
    let s := scan ms (mkMS [] [] []) in
    vp_get (ms_vp s) mk p = Some true <->
    option_map fst (least (claimants (claims_of ms) p)) = Some mk.
Proof. exact minion_path_owner_gen. Qed.
Print Assumptions C04_path_served_by_least_minion_general.

Theorem C04_minions_distinct :
  forall is_ host, wf is_ -> keyed (fun i => mkey (i_meta i)) is_ -> distinct_keys (minions_of is_ host).
Proof. exact minions_of_distinct. Qed.
Print Assumptions C04_minions_distinct.

(* every minion that lists a path is the least claimant of it or carries a child warning: nobody loses a path
   silently *)
Theorem C04_losing_minion_is_warned :
  forall ms i p,
    distinct_keys ms -> uids_distinct (claimants (claims_of ms) p) -> In i ms -> In p (i_paths i) ->
    let s := scan ms (mkMS [] [] []) in
    option_map fst (least (claimants (claims_of ms) p)) = Some (mkey (i_meta i)) \/ cw_get (ms_cw s) (mkey (i_meta i)) <> [].
Proof. exact minion_warned. Qed.
Print Assumptions C04_losing_minion_is_warned.

(* and the ValidPaths rendered with each attached minion are exactly those marks *)
Theorem C04_valid_paths_are_the_marks :
  forall is_ host i,
    In i (minions_of is_ host) ->
    exists mc, In mc (fst (build_minions is_ host)) /\ mc_ing mc = i /\
               forall p, lookup p (mc_valid_paths mc) = vp_get (ms_vp (scan (minions_of is_ host) (mkMS [] [] []))) (mkey (i_meta i)) p.
Proof. exact build_minions_marks. Qed.
Print Assumptions C04_valid_paths_are_the_marks.

(* A minion never attaches to a resource that does not own the host: in the host map that buildHostsAndResources
   returns (for ANY object set the validators accept), an Ingress resource that carries a minion is a master, it sits
   under its own host -- i.e. it OWNS that host -- and the minion is a stored minion Ingress of exactly that host. *)
Theorem C04_minion_attached_to_host_owner :
  forall c o, cert_manager c = false -> objs_ok o -> objs_wf c o ->
  forall h ic m, lookup h (hosts_of_objs c o) = Some (RIng ic) -> In m (ic_minions ic) ->
    (exists k0, In (k0, mc_ing m) (o_ings o)) /\ is_minion (mc_ing m) = true /\
    is_master (ic_ing ic) = true /\ host0 (mc_ing m) = host0 (ic_ing ic) /\ h = host0 (ic_ing ic) /\ ic_master ic = true.
Proof. exact attached_minion_facts. Qed.
Print Assumptions C04_minion_attached_to_host_owner.

(* A route never attaches to a VirtualServer that does not own the host: a VirtualServer resource of the host map
   sits under its own host, and every route attached to it is a stored VirtualServerRoute of that very host. *)
Theorem C04_route_attached_to_host_owner :
  forall c o, cert_manager c = false -> objs_ok o -> objs_wf c o ->
  forall h vc x, lookup h (hosts_of_objs c o) = Some (RVS vc) -> In x (vc_vsrs vc) ->
    (exists k0, In (k0, x) (o_vsrs o)) /\ h = v_host (vc_vs vc) /\ r_host x = v_host (vc_vs vc).
Proof. exact attached_vsr_facts. Qed.
Print Assumptions C04_route_attached_to_host_owner.

(* composition is a function of the current object set: no dependence on the order of events *)
Theorem C04_order_independent :
  forall c es1 es2, objs_after es1 = objs_after es2 ->
    hosts (run c es1) = hosts (run c es2) /\ lhosts (run c es1) = lhosts (run c es2) /\
    get_resources (run c es1) = get_resources (run c es2).
Proof. exact order_independent. Qed.
Print Assumptions C04_order_independent.

(* Non-vacuity: three minions claim /a; key order b < c < d, ages c oldest, d middle, b youngest:
   c serves /a, exactly one mark is true (the scenario of a seeded three-contender bug). *)
Definition mB := mkIng (mkMeta "ns" "b" "u1" 300 1 0) IMinion ["h"%string] ["/a"%string] false.
Definition mC := mkIng (mkMeta "ns" "c" "u2" 100 1 0) IMinion ["h"%string] ["/a"%string] false.
Definition mD := mkIng (mkMeta "ns" "d" "u3" 200 1 0) IMinion ["h"%string] ["/a"%string; "/d"%string] false.
Example C04_three_minions_one_path :
  map (fun mc => (mkey (i_meta (mc_ing mc)), mc_valid_paths mc))
      (fst (build_minions (of_list [("ns/b", mB); ("ns/c", mC); ("ns/d", mD)]%string) "h"))
  = [("ns/b", [("/a", false)]); ("ns/c", [("/a", true)]); ("ns/d", [("/d", true)])]%string.
Proof. vm_compute. reflexivity. Qed.
