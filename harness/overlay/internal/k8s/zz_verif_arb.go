//go:build verif

package k8s

import (
	"fmt"
	"io"
	"log/slog"
	"sort"
	"strings"

	conf_v1 "github.com/nginx/kubernetes-ingress/pkg/apis/configuration/v1"
	"github.com/nginx/kubernetes-ingress/pkg/apis/configuration/validation"
	networking "k8s.io/api/networking/v1"
	metav1 "k8s.io/apimachinery/pkg/apis/meta/v1"
)

// VerifArb wraps a real Configuration built the way createTestConfiguration does, and
// projects its state and outputs onto the attributes the Rocq model (coq/Arb/Types.v) carries.
type VerifArb struct {
	C    *Configuration
	lbc  *LoadBalancerController
	anns map[string]int
	// flags
	TLSPassthrough, CertManager bool
}

func VerifNewArb(class string, tlsPassthrough, certManager bool, anns map[string]int) *VerifArb {
	lbc := &LoadBalancerController{ingressClass: class, Logger: slog.New(slog.NewTextHandler(io.Discard, nil))}
	isPlus, ap, apDos, internalRoutes, snippets, ipv6Disabled := false, false, false, false, true, false
	c := NewConfiguration(
		lbc.HasCorrectIngressClass, isPlus, ap, apDos, internalRoutes,
		validation.NewVirtualServerValidator(validation.IsPlus(tlsPassthrough), validation.IsDosEnabled(apDos), validation.IsCertManagerEnabled(certManager)),
		validation.NewGlobalConfigurationValidator(map[int]bool{80: true, 443: true}),
		validation.NewTransportServerValidator(tlsPassthrough, snippets, isPlus),
		tlsPassthrough, snippets, certManager, ipv6Disabled,
	)
	return &VerifArb{C: c, lbc: lbc, anns: anns, TLSPassthrough: tlsPassthrough, CertManager: certManager}
}

func (a *VerifArb) ClassOK(obj interface{}) bool { return a.lbc.HasCorrectIngressClass(obj) }

func (a *VerifArb) ValidIngress(ing *networking.Ingress) bool {
	return validateIngress(ing, a.C.isPlus, a.C.appProtectEnabled, a.C.appProtectDosEnabled, a.C.internalRoutesEnabled, a.C.snippetsEnabled).ToAggregate() == nil
}
func (a *VerifArb) ValidVS(vs *conf_v1.VirtualServer) bool {
	return a.C.virtualServerValidator.ValidateVirtualServer(vs) == nil
}
func (a *VerifArb) ValidVSR(vsr *conf_v1.VirtualServerRoute) bool {
	return a.C.virtualServerValidator.ValidateVirtualServerRoute(vsr) == nil
}
func (a *VerifArb) ValidTS(ts *conf_v1.TransportServer) bool {
	return a.C.transportServerValidator.ValidateTransportServer(ts) == nil
}

// ---- projections (JSON) ----

type VMeta struct {
	NS   string `json:"ns"`
	Name string `json:"name"`
	UID  string `json:"uid"`
	TS   int64  `json:"ts"`
	Gen  int64  `json:"gen"`
	Ann  int    `json:"ann"`
}

type VIng struct {
	Meta      VMeta    `json:"meta"`
	Kind      string   `json:"kind"`
	Hosts     []string `json:"hosts"`
	Paths     []string `json:"paths"`
	Challenge bool     `json:"challenge"`
}

type VVS struct {
	Meta     VMeta       `json:"meta"`
	Host     string      `json:"host"`
	Routes   [][2]string `json:"routes"`
	Listener *[2]string  `json:"listener"`
}

type VVSR struct {
	Meta     VMeta    `json:"meta"`
	Host     string   `json:"host"`
	Subpaths []string `json:"subpaths"`
}

type VTS struct {
	Meta  VMeta  `json:"meta"`
	LName string `json:"lname"`
	Proto string `json:"proto"`
	Host  string `json:"host"`
}

type VListener struct {
	Name  string `json:"name"`
	Port  int    `json:"port"`
	Proto string `json:"proto"`
	IPv4  string `json:"ipv4"`
	IPv6  string `json:"ipv6"`
	Ssl   bool   `json:"ssl"`
}

type VMinion struct {
	Ing        VIng            `json:"ing"`
	ValidPaths map[string]bool `json:"valid_paths"`
}

type VRes struct {
	K string `json:"k"` // ing | vs | ts
	// ing
	Ing           *VIng               `json:"ing,omitempty"`
	Master        bool                `json:"master,omitempty"`
	Minions       []VMinion           `json:"minions,omitempty"`
	ValidHosts    map[string]bool     `json:"valid_hosts,omitempty"`
	ChildWarnings map[string][]string `json:"child_warnings,omitempty"`
	// vs
	VS        *VVS   `json:"vs,omitempty"`
	VSRs      []VVSR `json:"vsrs,omitempty"`
	HTTPPort  int    `json:"http_port,omitempty"`
	HTTPSPort int    `json:"https_port,omitempty"`
	HTTP4     string `json:"http4,omitempty"`
	HTTP6     string `json:"http6,omitempty"`
	HTTPS4    string `json:"https4,omitempty"`
	HTTPS6    string `json:"https6,omitempty"`
	// ts
	TS   *VTS   `json:"ts,omitempty"`
	Port int    `json:"port,omitempty"`
	IPv4 string `json:"ipv4,omitempty"`
	IPv6 string `json:"ipv6,omitempty"`

	Warnings []string `json:"warnings"`
}

type VChange struct {
	Op  string `json:"op"` // del | upd
	Res VRes   `json:"res"`
	Err bool   `json:"err"`
}

type VProblem struct {
	Obj     string `json:"obj"`
	UID     string `json:"uid"`
	IsError bool   `json:"is_error"`
	Reason  string `json:"reason"`
	Msg     string `json:"msg"`
}

func (a *VerifArb) annID(m map[string]string) int {
	keys := make([]string, 0, len(m))
	for k := range m {
		keys = append(keys, k)
	}
	sort.Strings(keys)
	var sb strings.Builder
	for _, k := range keys {
		fmt.Fprintf(&sb, "%q=%q;", k, m[k])
	}
	s := sb.String()
	if id, ok := a.anns[s]; ok {
		return id
	}
	id := len(a.anns) + 1
	a.anns[s] = id
	return id
}

func (a *VerifArb) Meta(m *metav1.ObjectMeta) VMeta {
	var ts int64
	if !m.CreationTimestamp.IsZero() {
		ts = m.CreationTimestamp.Unix()
	}
	return VMeta{NS: m.Namespace, Name: m.Name, UID: string(m.UID), TS: ts, Gen: m.Generation, Ann: a.annID(m.Annotations)}
}

func (a *VerifArb) Ing(ing *networking.Ingress) VIng {
	kind := "regular"
	if isMaster(ing) {
		kind = "master"
	} else if isMinion(ing) {
		kind = "minion"
	}
	v := VIng{Meta: a.Meta(&ing.ObjectMeta), Kind: kind, Hosts: []string{}, Paths: []string{}, Challenge: isChallengeIngress(ing)}
	for _, r := range ing.Spec.Rules {
		v.Hosts = append(v.Hosts, r.Host)
	}
	if len(ing.Spec.Rules) > 0 && ing.Spec.Rules[0].HTTP != nil {
		for _, p := range ing.Spec.Rules[0].HTTP.Paths {
			v.Paths = append(v.Paths, p.Path)
		}
	}
	return v
}

func (a *VerifArb) VS(vs *conf_v1.VirtualServer) VVS {
	v := VVS{Meta: a.Meta(&vs.ObjectMeta), Host: vs.Spec.Host, Routes: [][2]string{}}
	// annotations of VS/VSR/TS are not compared by IsEqual; keep the id 0 so that the model need not track them
	v.Meta.Ann = 0
	for _, r := range vs.Spec.Routes {
		v.Routes = append(v.Routes, [2]string{r.Path, r.Route})
	}
	if vs.Spec.Listener != nil {
		v.Listener = &[2]string{vs.Spec.Listener.HTTP, vs.Spec.Listener.HTTPS}
	}
	return v
}

func (a *VerifArb) VSR(vsr *conf_v1.VirtualServerRoute) VVSR {
	v := VVSR{Meta: a.Meta(&vsr.ObjectMeta), Host: vsr.Spec.Host, Subpaths: []string{}}
	v.Meta.Ann = 0
	for _, r := range vsr.Spec.Subroutes {
		v.Subpaths = append(v.Subpaths, r.Path)
	}
	return v
}

func (a *VerifArb) TS(ts *conf_v1.TransportServer) VTS {
	v := VTS{Meta: a.Meta(&ts.ObjectMeta), LName: ts.Spec.Listener.Name, Proto: ts.Spec.Listener.Protocol, Host: ts.Spec.Host}
	v.Meta.Ann = 0
	return v
}

func VerifListeners(ls []conf_v1.Listener) []VListener {
	out := []VListener{}
	for _, l := range ls {
		out = append(out, VListener{Name: l.Name, Port: l.Port, Proto: l.Protocol, IPv4: l.IPv4, IPv6: l.IPv6, Ssl: l.Ssl})
	}
	return out
}

func normWarnings(ws []string) []string {
	out := []string{}
	for _, w := range ws {
		if strings.HasPrefix(w, "listener ") && strings.Contains(w, " and host ") && strings.HasSuffix(w, " are taken by another resource") {
			body := strings.TrimSuffix(strings.TrimPrefix(w, "listener "), " are taken by another resource")
			i := strings.Index(body, " and host ")
			w = "listener|host " + body[:i] + "|" + body[i+len(" and host "):] + " is taken by another resource"
		}
		if strings.HasPrefix(w, "VirtualServerRoute ") {
			if i := strings.Index(w, " is invalid: "); i >= 0 {
				w = w[:i] + " is invalid"
			}
		}
		out = append(out, w)
	}
	sort.Strings(out)
	return out
}

func (a *VerifArb) Res(r Resource) VRes {
	switch impl := r.(type) {
	case *IngressConfiguration:
		ing := a.Ing(impl.Ingress)
		v := VRes{K: "ing", Ing: &ing, Master: impl.IsMaster, ValidHosts: map[string]bool{}, ChildWarnings: map[string][]string{}, Warnings: normWarnings(impl.Warnings)}
		for h, b := range impl.ValidHosts {
			v.ValidHosts[h] = b
		}
		for k, ws := range impl.ChildWarnings {
			v.ChildWarnings[k] = normWarnings(ws)
		}
		for _, m := range impl.Minions {
			vm := VMinion{Ing: a.Ing(m.Ingress), ValidPaths: map[string]bool{}}
			for p, b := range m.ValidPaths {
				vm.ValidPaths[p] = b
			}
			v.Minions = append(v.Minions, vm)
		}
		return v
	case *VirtualServerConfiguration:
		vs := a.VS(impl.VirtualServer)
		v := VRes{K: "vs", VS: &vs, HTTPPort: impl.HTTPPort, HTTPSPort: impl.HTTPSPort, HTTP4: impl.HTTPIPv4, HTTP6: impl.HTTPIPv6,
			HTTPS4: impl.HTTPSIPv4, HTTPS6: impl.HTTPSIPv6, Warnings: normWarnings(impl.Warnings)}
		for _, r := range impl.VirtualServerRoutes {
			v.VSRs = append(v.VSRs, a.VSR(r))
		}
		return v
	case *TransportServerConfiguration:
		ts := a.TS(impl.TransportServer)
		return VRes{K: "ts", TS: &ts, Port: impl.ListenerPort, IPv4: impl.IPv4, IPv6: impl.IPv6, Warnings: normWarnings(impl.Warnings)}
	}
	return VRes{K: "?"}
}

func (a *VerifArb) Changes(cs []ResourceChange) []VChange {
	out := []VChange{}
	for _, c := range cs {
		op := "upd"
		if c.Op == Delete {
			op = "del"
		}
		out = append(out, VChange{Op: op, Res: a.Res(c.Resource), Err: c.Error != ""})
	}
	return out
}

func (a *VerifArb) Problems(ps []ConfigurationProblem) []VProblem {
	out := []VProblem{}
	for _, p := range ps {
		var obj, uid string
		switch o := p.Object.(type) {
		case *networking.Ingress:
			obj, uid = getResourceKeyWithKind(ingressKind, &o.ObjectMeta), string(o.UID)
		case *conf_v1.VirtualServer:
			obj, uid = getResourceKeyWithKind(virtualServerKind, &o.ObjectMeta), string(o.UID)
		case *conf_v1.VirtualServerRoute:
			obj, uid = getResourceKeyWithKind(virtualServerRouteKind, &o.ObjectMeta), string(o.UID)
		case *conf_v1.TransportServer:
			obj, uid = getResourceKeyWithKind(transportServerKind, &o.ObjectMeta), string(o.UID)
		default:
			obj = fmt.Sprintf("?%T", p.Object)
		}
		msg := p.Message
		if p.IsError {
			msg = "invalid"
		}
		out = append(out, VProblem{Obj: obj, UID: uid, IsError: p.IsError, Reason: p.Reason, Msg: msg})
	}
	return out
}

// Hosts is c.hosts as host -> key with kind.
func (a *VerifArb) Hosts() map[string]string {
	a.C.lock.RLock()
	defer a.C.lock.RUnlock()
	out := map[string]string{}
	for h, r := range a.C.hosts {
		out[h] = r.GetKeyWithKind()
	}
	return out
}

// LHosts is c.listenerHosts as listener|host -> key with kind.
func (a *VerifArb) LHosts() map[string]string {
	a.C.lock.RLock()
	defer a.C.lock.RUnlock()
	out := map[string]string{}
	for k, r := range a.C.listenerHosts {
		out[k.String()] = r.GetKeyWithKind()
	}
	return out
}

// Resources is GetResources() projected.
func (a *VerifArb) Resources() []VRes {
	out := []VRes{}
	for _, r := range a.C.GetResources() {
		out = append(out, a.Res(r))
	}
	return out
}

// HostResources is c.hosts projected in full (host -> resource), for the shadow check.
func (a *VerifArb) StoredKeys() map[string][]string {
	a.C.lock.RLock()
	defer a.C.lock.RUnlock()
	out := map[string][]string{"ing": {}, "vs": {}, "vsr": {}, "ts": {}}
	for k := range a.C.ingresses {
		out["ing"] = append(out["ing"], k)
	}
	for k := range a.C.virtualServers {
		out["vs"] = append(out["vs"], k)
	}
	for k := range a.C.virtualServerRoutes {
		out["vsr"] = append(out["vsr"], k)
	}
	for k := range a.C.transportServers {
		out["ts"] = append(out["ts"], k)
	}
	for _, v := range out {
		sort.Strings(v)
	}
	return out
}
