(* chooseObjectMetaWinner is a strict total order on metas with distinct UIDs, and the
   running-holder fold computes its minimum whatever the traversal order. *)
From Coq Require Import List ZArith String Ascii Bool Lia Permutation.
From NIC Require Import Base.SMap Arb.Types Arb.Model Arb.Spec.
Import ListNotations.
Open Scope Z_scope.

Lemma sgtb_true a b : sgtb a b = true <-> slt b a.
Proof.
  unfold sgtb, slt. split.
  - destruct (String.compare a b) eqn:H; try discriminate. intros _.
    rewrite String.compare_antisym, H. reflexivity.
  - intros H. rewrite String.compare_antisym, H. reflexivity.
Qed.

Lemma wins_irrefl a : wins a a = false.
Proof.
  unfold wins. rewrite Z.eqb_refl. unfold sgtb. rewrite scompare_refl. reflexivity.
Qed.

Lemma wins_asym a b : wins a b = true -> wins b a = false.
Proof.
  unfold wins. destruct (m_ts a =? m_ts b) eqn:He.
  - apply Z.eqb_eq in He. rewrite He, Z.eqb_refl. intros H. apply sgtb_true in H.
    destruct (sgtb (m_uid b) (m_uid a)) eqn:H2; [|reflexivity].
    apply sgtb_true in H2. exfalso. exact (slt_irrefl _ (slt_trans _ _ _ H H2)).
  - rewrite Z.eqb_sym, He. intros H. apply Z.ltb_lt in H. apply Z.ltb_ge. lia.
Qed.

Lemma wins_total a b : m_uid a <> m_uid b -> wins a b = true \/ wins b a = true.
Proof.
  intros Hne. unfold wins. destruct (m_ts a =? m_ts b) eqn:He.
  - apply Z.eqb_eq in He. rewrite He, Z.eqb_refl.
    destruct (slt_total (m_uid a) (m_uid b)) as [H|[H|H]]; [right|contradiction|left]; apply sgtb_true; exact H.
  - rewrite Z.eqb_sym, He. apply Z.eqb_neq in He.
    destruct (Z.lt_ge_cases (m_ts a) (m_ts b)); [left|right]; apply Z.ltb_lt; lia.
Qed.

Lemma wins_trans a b c : wins a b = true -> wins b c = true -> wins a c = true.
Proof.
  unfold wins.
  destruct (Z.eqb_spec (m_ts a) (m_ts b)) as [Hab|Hab];
    destruct (Z.eqb_spec (m_ts b) (m_ts c)) as [Hbc|Hbc]; intros H1 H2.
  - destruct (Z.eqb_spec (m_ts a) (m_ts c)) as [_|Hac]; [|lia].
    apply sgtb_true. apply sgtb_true in H1. apply sgtb_true in H2. eapply slt_trans; eauto.
  - apply Z.ltb_lt in H2. destruct (Z.eqb_spec (m_ts a) (m_ts c)) as [Hac|_]; [lia|].
    apply Z.ltb_lt. lia.
  - apply Z.ltb_lt in H1. destruct (Z.eqb_spec (m_ts a) (m_ts c)) as [Hac|_]; [lia|].
    apply Z.ltb_lt. lia.
  - apply Z.ltb_lt in H1. apply Z.ltb_lt in H2.
    destruct (Z.eqb_spec (m_ts a) (m_ts c)) as [Hac|_]; [lia|].
    apply Z.ltb_lt. lia.
Qed.

(* ---- the least claimant, as a relation ---- *)

Definition uid_of (x : hold) : string := m_uid (snd x).

Lemma meta_eq_dec (a b : meta) : {a = b} + {a <> b}.
Proof. decide equality; auto using string_dec, Z.eq_dec. Qed.
Lemma pair_eq_dec (x y : hold) : {x = y} + {x <> y}.
Proof. decide equality; auto using string_dec, meta_eq_dec. Qed.

(* x is in l and beats every other element of l *)
Definition is_least (x : hold) (l : list hold) : Prop :=
  In x l /\ forall y, In y l -> y <> x -> wins (snd x) (snd y) = true.

(* K1 on a list of claimants: different claimants have different UIDs *)
Definition uids_distinct (l : list hold) : Prop :=
  forall x y, In x l -> In y l -> x <> y -> uid_of x <> uid_of y.

Lemma is_least_unique l x y : uids_distinct l -> is_least x l -> is_least y l -> x = y.
Proof.
  intros Hd [Hx Hxl] [Hy Hyl].
  destruct (pair_eq_dec x y) as [|Hne]; [assumption|].
  assert (H1 : wins (snd x) (snd y) = true) by (apply Hxl; auto).
  assert (H2 : wins (snd y) (snd x) = true) by (apply Hyl; auto).
  apply wins_asym in H1. congruence.
Qed.

(* the running holder, as the code computes it *)
Definition keep (cur : option hold) (x : hold) : option hold :=
  match cur with
  | None => Some x
  | Some y => if wins (snd y) (snd x) then Some y else Some x
  end.

Definition best (cur : option hold) (l : list hold) : option hold := fold_left keep l cur.

Lemma best_some cur l : cur <> None -> best cur l <> None.
Proof.
  revert cur. induction l as [|x l IH]; intros cur H; cbn; [exact H|].
  apply IH. destruct cur as [y|]; cbn; [destruct (wins _ _)|]; discriminate.
Qed.

Lemma best_inv (pre l : list hold) (cur : hold) :
  uids_distinct (pre +++ l) -> is_least cur pre ->
  forall x, best (Some cur) l = Some x -> is_least x (pre +++ l).
Proof.
  revert pre cur. induction l as [|a l IH]; intros pre cur Hd Hl x Hb; cbn in Hb.
  - inversion Hb; subst. rewrite app_nil_r. exact Hl.
  - replace (pre +++ a :: l) with ((pre +++ [a]) +++ l) in * by (rewrite <- app_assoc; reflexivity).
    destruct Hl as [Hin Hmin].
    destruct (wins (snd cur) (snd a)) eqn:Hw.
    + apply (IH (pre +++ [a]) cur); auto. split; [apply in_or_app; auto|].
      intros y Hy Hne. apply in_app_or in Hy. destruct Hy as [Hy|[<-|[]]]; auto.
    + apply (IH (pre +++ [a]) a); auto. split; [apply in_or_app; right; left; reflexivity|].
      intros y Hy Hne. apply in_app_or in Hy. destruct Hy as [Hy|[<-|[]]]; [|congruence].
      assert (Hca : cur = a \/ cur <> a) by (destruct (pair_eq_dec cur a); auto).
      destruct Hca as [->|Hca].
      * apply Hmin; auto.
      * assert (Huid : uid_of a <> uid_of cur).
        { apply Hd; [apply in_or_app; left; apply in_or_app; right; left; reflexivity
                    |apply in_or_app; left; apply in_or_app; left; exact Hin|congruence]. }
        destruct (wins_total (snd a) (snd cur) Huid) as [Hac|Hcur]; [|congruence].
        destruct (pair_eq_dec y cur) as [->|Hyc]; [exact Hac|].
        eapply wins_trans; [exact Hac|]. apply Hmin; auto.
Qed.

Lemma best_is_least l x : uids_distinct l -> best None l = Some x -> is_least x l.
Proof.
  destruct l as [|a l]; cbn; [discriminate|]. intros Hd Hb.
  apply (best_inv [a] l a); auto. split; [left; reflexivity|].
  intros y [<-|[]] Hne. congruence.
Qed.

Lemma best_nonempty l : l <> [] -> best None l <> None.
Proof. destruct l as [|a l]; [congruence|]. intros _. cbn. apply best_some. discriminate. Qed.

(* the specification function [least] computes the same element *)
Lemma least_is_least l x : uids_distinct l -> least l = Some x -> is_least x l.
Proof.
  revert x. induction l as [|a l IH]; cbn; [discriminate|]. intros x Hd.
  assert (Hd' : uids_distinct l) by (intros u v Hu Hv; apply Hd; right; assumption).
  destruct (least l) as [y|] eqn:Hl.
  - specialize (IH y Hd' eq_refl). destruct IH as [Hyin Hymin].
    destruct (prec (snd a) (snd y)) eqn:Hp; intros H; inversion H; subst.
    + split; [left; reflexivity|]. intros z [<-|Hz] Hne; [congruence|].
      destruct (pair_eq_dec z y) as [->|Hzy]; [exact Hp|].
      eapply wins_trans; [exact Hp|]. apply Hymin; auto.
    + split; [right; exact Hyin|]. intros z [Hz|Hz] Hne; [subst z|apply Hymin; auto].
      assert (Huid : uid_of x <> uid_of a) by (apply Hd; [right; exact Hyin|left; reflexivity|congruence]).
      destruct (wins_total (snd x) (snd a) Huid) as [?|Hzx]; [assumption|]. unfold prec in Hp. congruence.
  - intros H; inversion H; subst. destruct l; [|cbn in Hl; destruct (least l); [destruct (prec _ _)|]; discriminate].
    split; [left; reflexivity|]. intros z [<-|[]] Hne. congruence.
Qed.

Lemma least_nonempty l : l <> [] -> least l <> None.
Proof. destruct l as [|a l]; [congruence|]. intros _. cbn. destruct (least l); [destruct (prec _ _)|]; discriminate. Qed.

Theorem best_eq_least l : uids_distinct l -> best None l = least l.
Proof.
  intros Hd. destruct (list_eq_dec pair_eq_dec l []) as [->|Hne]; [reflexivity|].
  destruct (best None l) as [x|] eqn:Hb; [|exfalso; exact (best_nonempty _ Hne Hb)].
  destruct (least l) as [y|] eqn:Hl; [|exfalso; exact (least_nonempty _ Hne Hl)].
  f_equal. eapply is_least_unique; eauto using best_is_least, least_is_least.
Qed.

(* is_least does not depend on the order of the list *)
Lemma is_least_perm l l' x : Permutation l l' -> is_least x l -> is_least x l'.
Proof.
  intros Hp [Hin Hmin]. split; [eapply Permutation_in; eauto|].
  intros y Hy. apply Hmin. eapply Permutation_in; [apply Permutation_sym; exact Hp|exact Hy].
Qed.

Lemma uids_distinct_perm l l' : Permutation l l' -> uids_distinct l -> uids_distinct l'.
Proof.
  intros Hp Hd x y Hx Hy. apply Hd; eapply Permutation_in; try (apply Permutation_sym; exact Hp); assumption.
Qed.

(* the running-holder fold returns the same winner in any traversal order *)
Theorem best_perm_invariant l l' : uids_distinct l -> Permutation l l' -> best None l = best None l'.
Proof.
  intros Hd Hp. rewrite (best_eq_least l Hd).
  assert (Hd' := uids_distinct_perm _ _ Hp Hd). rewrite (best_eq_least l' Hd').
  destruct (list_eq_dec pair_eq_dec l []) as [->|Hne].
  - apply Permutation_nil in Hp. subst. reflexivity.
  - assert (Hne' : l' <> []) by (intros ->; apply Permutation_sym, Permutation_nil in Hp; contradiction).
    destruct (least l) as [x|] eqn:H1; [|exfalso; exact (least_nonempty _ Hne H1)].
    destruct (least l') as [y|] eqn:H2; [|exfalso; exact (least_nonempty _ Hne' H2)].
    f_equal. apply (is_least_unique l' x y Hd'); [|eapply least_is_least; eauto].
    eapply is_least_perm; [exact Hp|]. eapply least_is_least; eauto.
Qed.

(* ---- the fold over (key, claim) pairs ---- *)

Lemma claimants_cons c cs h :
  claimants (c :: cs) h = if String.eqb (fst c) h then snd c :: claimants cs h else claimants cs h.
Proof. unfold claimants. cbn. destruct (String.eqb (fst c) h); reflexivity. Qed.

Lemma lookup_claim1_eq hs c : lookup (fst c) (claim1 hs c) = keep (lookup (fst c) hs) (snd c).
Proof.
  unfold claim1, keep. destruct (lookup (fst c) hs) as [y|] eqn:Hl.
  - destruct (wins (snd y) (snd (snd c))); [exact Hl|apply lookup_insert_eq].
  - apply lookup_insert_eq.
Qed.

Lemma lookup_claim1_neq hs c h : h <> fst c -> lookup h (claim1 hs c) = lookup h hs.
Proof.
  intros Hne. unfold claim1. destruct (lookup (fst c) hs) as [y|]; [destruct (wins _ _)|]; try reflexivity;
    apply lookup_insert_neq; exact Hne.
Qed.

Lemma lookup_fold_claim1 cs : forall hs h,
  lookup h (fold_left claim1 cs hs) = best (lookup h hs) (claimants cs h).
Proof.
  induction cs as [|c cs IH]; intros hs h; [reflexivity|].
  cbn [fold_left]. rewrite IH, claimants_cons.
  destruct (String.eqb (fst c) h) eqn:Hk.
  - apply String.eqb_eq in Hk. subst h. rewrite lookup_claim1_eq. reflexivity.
  - apply String.eqb_neq in Hk. rewrite lookup_claim1_neq by congruence. reflexivity.
Qed.

Theorem holders_owner cs h :
  uids_distinct (claimants cs h) ->
  lookup h (holders cs) = least (claimants cs h).
Proof.
  intros Hd. unfold holders. rewrite lookup_fold_claim1. cbn [lookup]. apply best_eq_least. exact Hd.
Qed.

Lemma run_claims_fst w cs : forall hs, fst (run_claims w hs cs) = fold_left claim1 cs hs.
Proof.
  induction cs as [|c cs IH]; intros hs; [reflexivity|].
  cbn [run_claims fold_left]. specialize (IH (claim1 hs c)).
  destruct (run_claims w (claim1 hs c) cs) as [hs' ws]. exact IH.
Qed.

Lemma wf_claim1 hs c : wf hs -> wf (claim1 hs c).
Proof.
  intros H. unfold claim1. destruct (lookup (fst c) hs) as [y|]; [destruct (wins _ _)|]; auto using wf_insert.
Qed.

Lemma wf_holders cs : forall hs, wf hs -> wf (fold_left claim1 cs hs).
Proof. induction cs as [|c cs IH]; intros hs H; cbn; auto using wf_claim1. Qed.
