(* Lex/CheckProofs.v -- wf_conf is a VERIFIED checker: soundness against a declarative
   well-formedness predicate.

   The declarative side (no automaton, no accumulator):
     bare_tail / var_tail / bare_word    the regular grammar of unquoted words
                                         (ordinary byte | backslash any-byte | dollar left-brace* ...)
     q_body qc                           the body of a quoted word: ([^qc bs] | bs any-byte)*
     Lexes s ts                          the string s is a sequence of: whitespace, comments (# .. LF or
                                         end of file), the structural bytes ; { } and words; a bare word
                                         must be followed by whitespace ; or {, a quoted word by whitespace
                                         ; { or a right parenthesis that starts the next bare word; the
                                         file may not end inside a word.  ts = the tokens, words unescaped.
     Forest ts ds                        flatten ds = ts : the token list is exactly a forest of
                                         directives (every directive named, terminated by ; or owning a
                                         balanced block)
     WellFormed s := exists ts ds, Lexes s ts /\ Forest ts ds /\ every word shorter than 4096 bytes

   Theorems
     lex_sound       lex s = Some ts -> Lexes s ts
     wf_conf_sound   wf_conf s = true -> WellFormed s
     conf_tree_sound parse_conf s = Some ds -> exists ts, Lexes s ts /\ Forest ts ds *)
From Coq Require Import List String Ascii Bool Arith.
From NIC Require Import Lex.Lexer Lex.Parser Lex.Check Lex.LexerProofs Lex.ParserProofs.
Import ListNotations.
Open Scope string_scope.

(* ---------------------------------------------------------------- the grammar *)

Inductive bare_tail : string -> Prop :=
| bt_nil : bare_tail ""
| bt_esc : forall c r, bare_tail r -> bare_tail (String ch_bs (String c r))
| bt_var : forall r, var_tail r -> bare_tail (String ch_dollar r)
| bt_ord : forall c r, bare_ok c = true -> bare_tail r -> bare_tail (String c r)
with var_tail : string -> Prop :=
| vt_brace : forall r, var_tail r -> var_tail (String ch_open r)
| vt_tail : forall r, bare_tail r -> var_tail r.

Inductive bare_word : string -> Prop :=
| bw_esc : forall c r, bare_tail r -> bare_word (String ch_bs (String c r))
| bw_var : forall r, var_tail r -> bare_word (String ch_dollar r)
| bw_ord : forall c r, start_ok c = true -> bare_tail r -> bare_word (String c r).

Inductive q_body (qc : ascii) : string -> Prop :=
| qb_nil : q_body qc ""
| qb_esc : forall c r, q_body qc r -> q_body qc (String ch_bs (String c r))
| qb_ord : forall c r, c <> qc -> c <> ch_bs -> q_body qc r -> q_body qc (String c r).

Inductive Lexes : string -> list token -> Prop :=
| L_eof : Lexes "" []
| L_ws : forall c s ts, is_ws c = true -> Lexes s ts -> Lexes (String c s) ts
| L_comment : forall s ts, CommentRest s ts -> Lexes (String ch_hash s) ts
| L_semi : forall s ts, Lexes s ts -> Lexes (String ch_semi s) (TSemi :: ts)
| L_open : forall s ts, Lexes s ts -> Lexes (String ch_open s) (TOpen :: ts)
| L_close : forall s ts, Lexes s ts -> Lexes (String ch_close s) (TClose :: ts)
| L_bare : forall w s ts, bare_word w -> Term s ts -> Lexes (w ++ s) (TWord (unescape w) :: ts)
| L_dq : forall b s ts, q_body ch_dq b -> AfterQ s ts ->
                        Lexes (String ch_dq (b ++ String ch_dq s)) (TWord (unescape b) :: ts)
| L_sq : forall b s ts, q_body ch_sq b -> AfterQ s ts ->
                        Lexes (String ch_sq (b ++ String ch_sq s)) (TWord (unescape b) :: ts)
with CommentRest : string -> list token -> Prop :=
| CR_eof : CommentRest "" []
| CR_lf : forall s ts, Lexes s ts -> CommentRest (String ch_lf s) ts
| CR_skip : forall c s ts, c <> ch_lf -> CommentRest s ts -> CommentRest (String c s) ts
with Term : string -> list token -> Prop :=
| T_ws : forall c s ts, is_ws c = true -> Lexes s ts -> Term (String c s) ts
| T_semi : forall s ts, Lexes s ts -> Term (String ch_semi s) (TSemi :: ts)
| T_open : forall s ts, Lexes s ts -> Term (String ch_open s) (TOpen :: ts)
with AfterQ : string -> list token -> Prop :=
| A_ws : forall c s ts, is_ws c = true -> Lexes s ts -> AfterQ (String c s) ts
| A_semi : forall s ts, Lexes s ts -> AfterQ (String ch_semi s) (TSemi :: ts)
| A_open : forall s ts, Lexes s ts -> AfterQ (String ch_open s) (TOpen :: ts)
| A_paren : forall r s ts, bare_tail r -> Term s ts ->
                           AfterQ (String ch_rparen (r ++ s)) (TWord (unescape (String ch_rparen r)) :: ts).

Definition Forest (ts : list token) (ds : list directive) : Prop := flatten ds = ts.

Definition WellFormed (s : string) : Prop :=
  exists ts ds, Lexes s ts /\ Forest ts ds /\
                forall w, In (TWord w) ts -> String.length w < 4096.

(* ---------------------------------------------------------------- byte classes (256-byte sweeps) *)

Local Ltac sweep c := destruct c as [b0 b1 b2 b3 b4 b5 b6 b7]; destruct b0, b1, b2, b3, b4, b5, b6, b7.

Lemma bare_class : forall c,
    c = ch_bs \/ c = ch_dollar \/ is_ws c = true \/ c = ch_semi \/ c = ch_open \/ bare_ok c = true.
Proof.
  intros c. sweep c;
    first [ now (do 5 right) | now left | now (right; left) | now (do 2 right; left)
          | now (do 3 right; left) | now (do 4 right; left) ].
Qed.

Lemma between_class : forall c,
    is_ws c = true \/ c = ch_semi \/ c = ch_open \/ c = ch_close \/ c = ch_hash \/ c = ch_bs \/
    c = ch_dq \/ c = ch_sq \/ c = ch_dollar \/ start_ok c = true.
Proof.
  intros c. sweep c;
    first [ now (do 9 right) | now left | now (right; left) | now (do 2 right; left) | now (do 3 right; left)
          | now (do 4 right; left) | now (do 5 right; left) | now (do 6 right; left) | now (do 7 right; left)
          | now (do 8 right; left) ].
Qed.

Lemma needspace_class : forall c,
    is_ws c = true \/ c = ch_semi \/ c = ch_open \/ c = ch_rparen \/ step QNeedSpace c = (QErr, [Err]).
Proof.
  intros c. sweep c;
    first [ now (do 4 right) | now left | now (right; left) | now (do 2 right; left) | now (do 3 right; left) ].
Qed.

Lemma step_ws : forall c, is_ws c = true ->
    step QBare c = (QBetween, [TokEnd]) /\ step QVar c = (QBetween, [TokEnd]) /\
    step QBetween c = (QBetween, []) /\ step QNeedSpace c = (QBetween, []).
Proof. intros c H. sweep c; try discriminate H; repeat split. Qed.

Lemma keeps_bare_ok : forall c, bare_ok c = true -> keeps QBare c = true /\ keeps QVar c = true.
Proof. intros c H. sweep c; try discriminate H; split; reflexivity. Qed.

Lemma keeps_start_ok : forall c, start_ok c = true -> keeps QBetween c = true.
Proof. intros c H. sweep c; try discriminate H; reflexivity. Qed.

Lemma start_ok_bare : forall c, start_ok c = true -> bare_ok c = true.
Proof. intros c H. unfold start_ok in H. now apply andb_true_iff in H as [H _]. Qed.

(* ---------------------------------------------------------------- unfolding lex_from by one byte *)

Lemma lex_from_step : forall q c s acc q1 e1,
    step q c = (q1, e1) -> q1 <> QErr ->
    lex_from q acc (String c s) =
    match lex_from q1 (if ends_word e1 then [] else if keeps q c then c :: acc else acc) s with
    | Some ts => Some (toks_of acc e1 ++ ts)%list
    | None => None
    end.
Proof. intros * H Hq. cbn [lex_from]. rewrite H. destruct q1; try reflexivity. now elim Hq. Qed.

Lemma lex_from_err : forall q c s acc e1, step q c = (QErr, e1) -> lex_from q acc (String c s) = None.
Proof. intros * H. cbn [lex_from]. now rewrite H. Qed.

Definition str (l : list ascii) : string := string_of_list_ascii l.

Lemma str_app : forall a b, str (a ++ b) = str a ++ str b.
Proof. induction a as [|x a IH]; intros b; [reflexivity|]. cbn. now rewrite <- IH. Qed.

Lemma append_assoc : forall a b c : string, (a ++ b) ++ c = a ++ (b ++ c).
Proof. induction a as [|x a IH]; intros; [reflexivity|]. cbn. now rewrite IH. Qed.

Lemma append_nil_r : forall a : string, a ++ "" = a.
Proof. induction a as [|x a IH]; [reflexivity|]. cbn. now rewrite IH. Qed.

Definition wd (acc : list ascii) (w : string) : string := unescape (str (rev acc) ++ w).

Lemma wd_cons : forall c acc w, wd (c :: acc) w = wd acc (String c w).
Proof. intros. unfold wd. cbn [rev]. rewrite str_app, append_assoc. reflexivity. Qed.

Lemma wd_nil : forall acc, wd acc "" = word_of acc.
Proof. intros. unfold wd, word_of. now rewrite append_nil_r. Qed.

Lemma wd_empty : forall w, wd [] w = unescape w.
Proof. reflexivity. Qed.

(* ---------------------------------------------------------------- the invariant, per DFA state *)

Definition Inv (q : lstate) (acc : list ascii) (s : string) (ts : list token) : Prop :=
  match q with
  | QBetween => acc = [] -> Lexes s ts
  | QComment => acc = [] -> CommentRest s ts
  | QNeedSpace => acc = [] -> AfterQ s ts
  | QBare => exists w s' ts', s = w ++ s' /\ bare_tail w /\ ts = TWord (wd acc w) :: ts' /\ Term s' ts'
  | QVar => exists w s' ts', s = w ++ s' /\ var_tail w /\ ts = TWord (wd acc w) :: ts' /\ Term s' ts'
  | QBareEsc => exists c w s' ts', s = String c (w ++ s') /\ bare_tail w /\
                                   ts = TWord (wd acc (String c w)) :: ts' /\ Term s' ts'
  | QDQ => exists b s' ts', s = b ++ String ch_dq s' /\ q_body ch_dq b /\
                            ts = TWord (wd acc b) :: ts' /\ AfterQ s' ts'
  | QDQEsc => exists c b s' ts', s = String c (b ++ String ch_dq s') /\ q_body ch_dq b /\
                                 ts = TWord (wd acc (String c b)) :: ts' /\ AfterQ s' ts'
  | QSQ => exists b s' ts', s = b ++ String ch_sq s' /\ q_body ch_sq b /\
                            ts = TWord (wd acc b) :: ts' /\ AfterQ s' ts'
  | QSQEsc => exists c b s' ts', s = String c (b ++ String ch_sq s') /\ q_body ch_sq b /\
                                 ts = TWord (wd acc (String c b)) :: ts' /\ AfterQ s' ts'
  | QErr => False
  end.

(* one step of unfolding, for a step result given by computation *)
Local Ltac stepH H q1 e1 :=
  match type of H with
  | lex_from ?q ?acc (String ?c ?s) = _ =>
      rewrite (lex_from_step q c s acc q1 e1 eq_refl ltac:(discriminate)) in H
  end;
  cbn [ends_word toks_of app] in H;
  repeat match type of H with
         | context [keeps ?q ?c] => let v := eval vm_compute in (keeps q c) in change (keeps q c) with v in H
         end;
  cbn iota in H.

Local Ltac stepE H E q1 e1 :=
  rewrite (lex_from_step _ _ _ _ q1 e1 E ltac:(discriminate)) in H;
  cbn [ends_word toks_of app] in H.

Local Ltac getIH IH H ts0 L :=
  match type of H with
  | match lex_from ?q ?a ?s with _ => _ end = Some _ =>
      destruct (lex_from q a s) as [ts0|] eqn:L; [|discriminate H];
      injection H as H; apply IH in L
  end.

(* the part of the proof shared by QBare and QVar once the byte is known not to be a left-brace
   continuing a variable *)
Lemma bare_step_sound : forall (q : lstate) c s acc ts,
    (q = QBare \/ (q = QVar /\ c <> ch_open)) ->
    (forall q acc ts, lex_from q acc s = Some ts -> Inv q acc s ts) ->
    lex_from q acc (String c s) = Some ts ->
    exists w s' ts', String c s = w ++ s' /\ bare_tail w /\ ts = TWord (wd acc w) :: ts' /\ Term s' ts'.
Proof.
  intros q c s acc ts Hq IH H.
  assert (Sq : step q c = step_bare c).
  { destruct Hq as [-> | [-> Hc]]; [reflexivity|]. cbn [step].
    destruct (Ascii.eqb c ch_open) eqn:E; [apply Ascii.eqb_eq in E; now elim Hc | reflexivity]. }
  assert (Kq : forall x, keeps q x = true -> keeps q x = true) by auto.
  destruct (bare_class c) as [-> | [-> | [Hws | [-> | [-> | Hok]]]]].
  - (* backslash *)
    assert (E : step q ch_bs = (QBareEsc, [])) by (rewrite Sq; reflexivity).
    stepE H E QBareEsc (@nil ev).
    assert (K : keeps q ch_bs = true) by (destruct Hq as [-> | [-> _]]; reflexivity).
    rewrite K in H. getIH IH H ts0 L. cbn [Inv] in L.
    destruct L as (c' & w & s' & ts' & -> & Hw & -> & HT).
    exists (String ch_bs (String c' w)), s', ts'. repeat split; [now constructor | | exact HT].
    subst ts. now rewrite wd_cons.
  - (* dollar *)
    assert (E : step q ch_dollar = (QVar, [])) by (rewrite Sq; reflexivity).
    stepE H E QVar (@nil ev).
    assert (K : keeps q ch_dollar = true) by (destruct Hq as [-> | [-> _]]; reflexivity).
    rewrite K in H. getIH IH H ts0 L. cbn [Inv] in L.
    destruct L as (w & s' & ts' & -> & Hw & -> & HT).
    exists (String ch_dollar w), s', ts'. repeat split; [now constructor | | exact HT].
    subst ts. now rewrite wd_cons.
  - (* whitespace ends the word *)
    assert (E : step q c = (QBetween, [TokEnd])).
    { destruct (step_ws c Hws) as (E1 & E2 & _). destruct Hq as [-> | [-> _]]; assumption. }
    stepE H E QBetween [TokEnd]. getIH IH H ts0 L. cbn [Inv] in L. specialize (L eq_refl).
    exists "", (String c s), ts0. repeat split; [constructor | | now constructor].
    subst ts. now rewrite wd_nil.
  - (* ; *)
    assert (E : step q ch_semi = (QBetween, [TokEnd; Semi])) by (rewrite Sq; reflexivity).
    stepE H E QBetween [TokEnd; Semi]. getIH IH H ts0 L. cbn [Inv] in L. specialize (L eq_refl).
    exists "", (String ch_semi s), (TSemi :: ts0). repeat split; [constructor | | now constructor].
    subst ts. now rewrite wd_nil.
  - (* left brace *)
    assert (E : step q ch_open = (QBetween, [TokEnd; Open])) by (rewrite Sq; reflexivity).
    stepE H E QBetween [TokEnd; Open]. getIH IH H ts0 L. cbn [Inv] in L. specialize (L eq_refl).
    exists "", (String ch_open s), (TOpen :: ts0). repeat split; [constructor | | now constructor].
    subst ts. now rewrite wd_nil.
  - (* ordinary byte *)
    destruct (step_bare_ok c Hok) as [E1 E2]. destruct (keeps_bare_ok c Hok) as [K1 K2].
    assert (E : step q c = (QBare, [])) by (destruct Hq as [-> | [-> _]]; assumption).
    assert (K : keeps q c = true) by (destruct Hq as [-> | [-> _]]; assumption).
    stepE H E QBare (@nil ev). rewrite K in H. getIH IH H ts0 L. cbn [Inv] in L.
    destruct L as (w & s' & ts' & -> & Hw & -> & HT).
    exists (String c w), s', ts'. repeat split; [now constructor | | exact HT].
    subst ts. now rewrite wd_cons.
Qed.

(* quoted states, generic in the quote byte *)
Lemma quote_step_sound : forall (q qe : lstate) (qc : ascii) c s acc ts,
    ((q = QDQ /\ qe = QDQEsc /\ qc = ch_dq) \/ (q = QSQ /\ qe = QSQEsc /\ qc = ch_sq)) ->
    (forall q acc ts, lex_from q acc s = Some ts -> Inv q acc s ts) ->
    lex_from q acc (String c s) = Some ts ->
    exists b s' ts', String c s = b ++ String qc s' /\ q_body qc b /\ ts = TWord (wd acc b) :: ts' /\ AfterQ s' ts'.
Proof.
  intros q qe qc c s acc ts Hq IH H.
  destruct (Ascii.eqb c ch_bs) eqn:Eb.
  - apply Ascii.eqb_eq in Eb. subst c.
    assert (E : step q ch_bs = (qe, [])) by (destruct Hq as [(-> & -> & ->) | (-> & -> & ->)]; reflexivity).
    assert (Hne : qe <> QErr) by (destruct Hq as [(_ & -> & _) | (_ & -> & _)]; discriminate).
    rewrite (lex_from_step _ _ _ _ qe [] E Hne) in H. cbn [ends_word toks_of app] in H.
    assert (K : keeps q ch_bs = true) by (destruct Hq as [(-> & _ & _) | (-> & _ & _)]; reflexivity).
    rewrite K in H. getIH IH H ts0 L.
    assert (L' : exists c b s' ts', s = String c (b ++ String qc s') /\ q_body qc b /\
                                    ts0 = TWord (wd (ch_bs :: acc) (String c b)) :: ts' /\ AfterQ s' ts')
      by (destruct Hq as [(_ & -> & ->) | (_ & -> & ->)]; exact L).
    destruct L' as (c' & b & s' & ts' & -> & Hb & -> & HA).
    exists (String ch_bs (String c' b)), s', ts'. repeat split; [now constructor | | exact HA].
    subst ts. now rewrite wd_cons.
  - destruct (Ascii.eqb c qc) eqn:Eq.
    + apply Ascii.eqb_eq in Eq. subst c.
      assert (E : step q qc = (QNeedSpace, [TokEnd])) by (destruct Hq as [(-> & _ & ->) | (-> & _ & ->)]; reflexivity).
      stepE H E QNeedSpace [TokEnd]. getIH IH H ts0 L. cbn [Inv] in L. specialize (L eq_refl).
      exists "", s, ts0. repeat split; [constructor | | exact L]. subst ts. now rewrite wd_nil.
    + assert (E : step q c = (q, [])).
      { destruct Hq as [(-> & _ & ->) | (-> & _ & ->)]; cbn [step]; now rewrite Eb, Eq. }
      assert (K : keeps q c = true).
      { destruct Hq as [(-> & _ & ->) | (-> & _ & ->)]; cbn [keeps]; now rewrite Eq. }
      assert (Hne : q <> QErr) by (destruct Hq as [(-> & _) | (-> & _)]; discriminate).
      rewrite (lex_from_step _ _ _ _ q [] E Hne) in H. cbn [ends_word toks_of app] in H.
      rewrite K in H. getIH IH H ts0 L.
      assert (L' : exists b s' ts', s = b ++ String qc s' /\ q_body qc b /\
                                    ts0 = TWord (wd (c :: acc) b) :: ts' /\ AfterQ s' ts')
        by (destruct Hq as [(-> & _ & ->) | (-> & _ & ->)]; exact L).
      destruct L' as (b & s' & ts' & -> & Hb & -> & HA).
      exists (String c b), s', ts'. repeat split; [| | exact HA].
      * constructor; [now apply Ascii.eqb_neq | now apply Ascii.eqb_neq | exact Hb].
      * subst ts. now rewrite wd_cons.
Qed.

Theorem lex_from_sound : forall s q acc ts, lex_from q acc s = Some ts -> Inv q acc s ts.
Proof.
  induction s as [|c s IH]; intros q acc ts H.
  - cbn [lex_from] in H. destruct q; cbn [final_ok] in H; try discriminate H; injection H as <-; cbn [Inv]; intros _; constructor.
  - destruct q; cbn [Inv].
    + (* QBetween *)
      intros ->.
      destruct (between_class c) as [Hws | [-> | [-> | [-> | [-> | [-> | [-> | [-> | [-> | Hok]]]]]]]]].
      * destruct (step_ws c Hws) as (_ & _ & E & _). stepE H E QBetween (@nil ev).
        assert (K : keeps QBetween c = false) by (cbn [keeps]; now rewrite Hws).
        rewrite K in H. getIH IH H ts0 L. subst ts. apply L_ws; [exact Hws | now apply L].
      * stepH H QBetween [Semi]. getIH IH H ts0 L. subst ts. apply L_semi. now apply L.
      * stepH H QBetween [Open]. getIH IH H ts0 L. subst ts. apply L_open. now apply L.
      * stepH H QBetween [Close]. getIH IH H ts0 L. subst ts. apply L_close. now apply L.
      * stepH H QComment (@nil ev).
        getIH IH H ts0 L. subst ts. apply L_comment. now apply L.
      * stepH H QBareEsc (@nil ev).
        getIH IH H ts0 L. cbn [Inv] in L. destruct L as (c' & w & s' & ts' & -> & Hw & -> & HT). subst ts.
        rewrite wd_cons, wd_empty.
        change (String ch_bs (String c' (w ++ s'))) with (String ch_bs (String c' w) ++ s').
        apply L_bare; [now constructor | exact HT].
      * stepH H QDQ (@nil ev).
        getIH IH H ts0 L. cbn [Inv] in L. destruct L as (b & s' & ts' & -> & Hb & -> & HA). subst ts.
        rewrite wd_empty. now apply L_dq.
      * stepH H QSQ (@nil ev).
        getIH IH H ts0 L. cbn [Inv] in L. destruct L as (b & s' & ts' & -> & Hb & -> & HA). subst ts.
        rewrite wd_empty. now apply L_sq.
      * stepH H QVar (@nil ev).
        getIH IH H ts0 L. cbn [Inv] in L. destruct L as (w & s' & ts' & -> & Hw & -> & HT). subst ts.
        rewrite wd_cons, wd_empty.
        change (String ch_dollar (w ++ s')) with (String ch_dollar w ++ s').
        apply L_bare; [now constructor | exact HT].
      * pose proof (step_start_ok c Hok) as E. stepE H E QBare (@nil ev).
        rewrite (keeps_start_ok c Hok) in H. getIH IH H ts0 L. cbn [Inv] in L.
        destruct L as (w & s' & ts' & -> & Hw & -> & HT). subst ts.
        rewrite wd_cons, wd_empty.
        change (String c (w ++ s')) with (String c w ++ s').
        apply L_bare; [now constructor | exact HT].
    + (* QBare *) exact (bare_step_sound QBare c s acc ts (or_introl eq_refl) IH H).
    + (* QBareEsc *)
      stepH H QBare (@nil ev).
        getIH IH H ts0 L. cbn [Inv] in L. destruct L as (w & s' & ts' & -> & Hw & -> & HT). subst ts.
      exists c, w, s', ts'. repeat split; [exact Hw | now rewrite wd_cons | exact HT].
    + (* QVar *)
      destruct (Ascii.eqb c ch_open) eqn:Eo.
      * apply Ascii.eqb_eq in Eo. subst c. stepH H QVar (@nil ev).
       
        getIH IH H ts0 L. cbn [Inv] in L. destruct L as (w & s' & ts' & -> & Hw & -> & HT). subst ts.
        exists (String ch_open w), s', ts'. repeat split; [now constructor | now rewrite wd_cons | exact HT].
      * apply Ascii.eqb_neq in Eo.
        destruct (bare_step_sound QVar c s acc ts (or_intror (conj eq_refl Eo)) IH H)
          as (w & s' & ts' & E & Hw & Ets & HT).
        exists w, s', ts'. repeat split; [exact E | now apply vt_tail | exact Ets | exact HT].
    + (* QDQ *) exact (quote_step_sound QDQ QDQEsc ch_dq c s acc ts (or_introl (conj eq_refl (conj eq_refl eq_refl))) IH H).
    + (* QDQEsc *)
      stepH H QDQ (@nil ev).
        getIH IH H ts0 L. cbn [Inv] in L. destruct L as (b & s' & ts' & -> & Hb & -> & HA). subst ts.
      exists c, b, s', ts'. repeat split; [exact Hb | now rewrite wd_cons | exact HA].
    + (* QSQ *) exact (quote_step_sound QSQ QSQEsc ch_sq c s acc ts (or_intror (conj eq_refl (conj eq_refl eq_refl))) IH H).
    + (* QSQEsc *)
      stepH H QSQ (@nil ev).
        getIH IH H ts0 L. cbn [Inv] in L. destruct L as (b & s' & ts' & -> & Hb & -> & HA). subst ts.
      exists c, b, s', ts'. repeat split; [exact Hb | now rewrite wd_cons | exact HA].
    + (* QComment *)
      intros ->. destruct (Ascii.eqb c ch_lf) eqn:El.
      * apply Ascii.eqb_eq in El. subst c. stepH H QBetween (@nil ev).
       
        getIH IH H ts0 L. subst ts. apply CR_lf. now apply L.
      * assert (E : step QComment c = (QComment, [])) by (cbn [step]; now rewrite El).
        stepE H E QComment (@nil ev).
        getIH IH H ts0 L. subst ts. apply CR_skip; [now apply Ascii.eqb_neq | now apply L].
    + (* QNeedSpace *)
      intros ->. destruct (needspace_class c) as [Hws | [-> | [-> | [-> | E]]]].
      * destruct (step_ws c Hws) as (_ & _ & _ & E). stepE H E QBetween (@nil ev).
        assert (K : keeps QNeedSpace c = false).
        { cbn [keeps]. destruct (Ascii.eqb c ch_rparen) eqn:Er; [|reflexivity].
          apply Ascii.eqb_eq in Er. subst c. discriminate Hws. }
        rewrite K in H. getIH IH H ts0 L. subst ts. apply A_ws; [exact Hws | now apply L].
      * stepH H QBetween [Semi]. getIH IH H ts0 L. subst ts. apply A_semi. now apply L.
      * stepH H QBetween [Open]. getIH IH H ts0 L. subst ts. apply A_open. now apply L.
      * stepH H QBare (@nil ev).
        getIH IH H ts0 L. cbn [Inv] in L. destruct L as (w & s' & ts' & -> & Hw & -> & HT). subst ts.
        rewrite wd_cons, wd_empty. now apply A_paren.
      * rewrite (lex_from_err _ _ _ _ _ E) in H. discriminate H.
    + (* QErr *)
      rewrite (lex_from_err QErr c s acc [] eq_refl) in H. discriminate H.
Qed.

Theorem lex_sound : forall s ts, lex s = Some ts -> Lexes s ts.
Proof. intros s ts H. exact (lex_from_sound s QBetween [] ts H eq_refl). Qed.

Lemma words_short_sound : forall ts, words_short ts = true -> forall w, In (TWord w) ts -> String.length w < 4096.
Proof.
  unfold words_short. intros ts H w Hin. rewrite forallb_forall in H. specialize (H _ Hin). cbn in H.
  now apply Nat.ltb_lt.
Qed.

Theorem wf_conf_sound : forall s, wf_conf s = true -> WellFormed s.
Proof.
  unfold wf_conf. intros s H.
  destruct (lex s) as [ts|] eqn:L; [|discriminate].
  apply andb_true_iff in H as [Hw Hp].
  destruct (parse ts) as [ds|] eqn:P; [|discriminate].
  exists ts, ds. repeat split; [now apply lex_sound | now apply parse_sound | now apply words_short_sound].
Qed.

Theorem conf_tree_sound : forall s ds, parse_conf s = Some ds -> exists ts, Lexes s ts /\ Forest ts ds.
Proof.
  unfold parse_conf. intros s ds H. destruct (lex s) as [ts|] eqn:L; [|discriminate].
  exists ts. split; [now apply lex_sound | now apply parse_sound].
Qed.
