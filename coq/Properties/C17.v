(* C17 -- No object the API server can admit makes the controller crash.
   Only statements, each closed by [exact], each followed by Print Assumptions.

   The models (Shapes/Model.v) are nil-shape models: every Go dereference of an optional
   pointer and every [xs[0]] is an explicit [deref]/[index0] that yields a panic on nil/empty,
   in the order of the code, behind the guards of the code.  The shape spaces are finite; the
   sweeps are done inside Rocq by the kernel's VM and lifted with the completeness of the
   enumerations.  BOUND (which fields): see the shape types of Model.v -- for an Ingress:
   spec.defaultBackend (absent / service / resource / neither), spec.tls (0/1), 0-2 rules,
   rule.http nil or 0-2 paths, pathType nil / ImplementationSpecific with empty path / Prefix,
   each path's backend service / resource / neither, nginx.org/mergeable-ingress-type none /
   master / minion / garbage, the cert-manager challenge label, use-cluster-ip and health-check
   annotations; 4 prior states; all feature flags. *)
From Coq Require Import List Bool Arith.
From NIC Require Import Shapes.Model Shapes.Proofs Shapes.ProofsGeneral.
Import ListNotations.

(* The sweep itself, as a boolean computed over the whole Ingress shape space:
     ing_sweep P    = forallb (fun fl => forallb (fun c => forallb (fun sh =>
                        P {| sc_flags := fl; sc_ctx := c; sc_shape := sh |}) all_ing_shapes) all_ctx) all_iflags
     ing_no_panic s = negb (shape_admissible (sc_shape s)) || negb (is_panic (scenario_pipeline s))
   (stated through the two definitions so that the kernel compares names, not 586752 evaluations) *)
Theorem C17_no_panic_shapes_sweep : ing_sweep ing_no_panic = true.
Proof. exact ing_sweep_no_panic. Qed.
Print Assumptions C17_no_panic_shapes_sweep.

(* Every inhabitant of the shape type is in the enumeration that was swept. *)
Theorem C17_enumeration_complete : forall s : ing_shape, In s all_ing_shapes.
Proof. exact all_ing_shapes_complete. Qed.
Print Assumptions C17_enumeration_complete.

(* Lifted: for every setting of the seven feature flags, every prior state and every
   API-admissible Ingress shape, validating it, arbitrating it against the prior state,
   extending/generating every resource that holds a host and deleting it again never panics:
   the outcome is Ok or Rejected. *)
Theorem C17_no_panic_shapes :
  forall (fl : flags) (c : ctx) (sh : ing_shape),
    shape_admissible sh = true ->
    scenario_pipeline {| sc_flags := iflags_of fl; sc_ctx := c; sc_shape := sh |} <> OPanic.
Proof. exact ing_no_panic_shapes. Qed.
Print Assumptions C17_no_panic_shapes.

(* ---- beyond the finite space: the same model functions over UNBOUNDED Ingress objects and
   histories.  For all seven flags, any set of VirtualServer hosts, and every history of
   upserts of API-admissible Ingresses (any number of rules, paths, tls entries, any
   annotations/labels of the model) and deletions, starting from the empty store: no event
   panics in validation, arbitration (rebuildHosts incl. convertIngressToVSR and
   buildMinionConfigs), extension/generation of every host-holding resource, or deletion.
   ([run] returns None as soon as one step panics.)  Proved by induction on the history with
   the invariant "every stored Ingress passed validate_ingress and is admissible". *)
Theorem C17_ingress_history_no_panic :
  forall (fl : flags) (vss : list vserver) (evs : list event),
    forallb event_admissible evs = true ->
    run (iflags_of fl) {| s_ings := []; s_vss := vss |} evs <> None.
Proof. exact history_from_empty_no_panic. Qed.
Print Assumptions C17_ingress_history_no_panic.

(* One Ingress against ANY state whose stored Ingresses were validated: the four observed
   stages never panic. *)
Theorem C17_ingress_pipeline_no_panic_any_state :
  forall (fl : iflags) (st : state) (i : ingress),
    good fl st -> ing_admissible i = true -> ing_pipeline fl st i <> OPanic.
Proof. exact ing_pipeline_no_panic. Qed.
Print Assumptions C17_ingress_pipeline_no_panic_any_state.

(* The validator alone never panics, admissible or not (with fixes/F05.diff). *)
Theorem C17_validate_ingress_total : forall fl i, exists b, validate_ingress fl i = Val b.
Proof. exact validate_ingress_total. Qed.
Print Assumptions C17_validate_ingress_total.

(* Refuted for the unpatched tree (finding F05): with validateChallengeIngress as it stands
   before fixes/F05.diff, an API-admissible challenge Ingress whose only path has a resource
   backend panics. *)
Theorem C17_no_panic_unpatched_refuted :
  exists s, shape_admissible (sc_shape s) = true /\ scenario_pipeline_old s = OPanic.
Proof. exact no_panic_old_refuted. Qed.
Print Assumptions C17_no_panic_unpatched_refuted.

(* ---- custom resources.  Every shape of these spaces is admitted by the published CRD
   schemas (they mark nothing of what the spaces vary as required), so there is no
   admissibility hypothesis.  BOUND: VirtualServer / VirtualServerRoute: one route whose
   action is nil / empty / pass / redirect / return / proxy (request and response header
   blocks nil or not, requestHeaders.pass nil or not) / two at once; 0, 1 or 2 splits with
   action nil / pass / return; 0 or 1 match with 0 or 1 condition, action nil or not, 0 or 2
   splits (first action nil or not); 0 or 1 error page with return and redirect nil or not;
   a route reference or none; or one route that only references a VirtualServerRoute, with a
   prefix / exact / regex path; or spec.tls nil / {secret, redirect nil / {code nil or not},
   cert-manager nil or not} with spec.listener nil or not; or one upstream with healthCheck
   (tls nil or not) / sessionCookie / queue / buffers / backup+backupPort / backup only /
   backupPort only / integer pointers.  TransportServer: listener TCP / UDP / TLS passthrough,
   host, tls nil / {} / {secret}, 0 or 1 upstream with healthCheck nil / {match nil} /
   {match}, upstreamParameters nil / set / with UDP pointers, sessionParameters, action nil /
   {} / {pass}.  Policy: no, one or two sub-specs, with the optional structure of each.
   GlobalConfiguration: 5 listener lists.
   PARTNER OBJECTS (arbitration re-validates a VirtualServerRoute against the path of the route
   that references it, ValidateVirtualServerRouteForVirtualServer, with its [routes[0]] behind
   [len(routes) != 1]): VirtualServer prior states: none / an older VirtualServer on the host /
   a GlobalConfiguration / the referenced VirtualServerRoute stored with 0 subroutes, 1 subroute
   with the referencing path, 1 subroute with another path, 2 subroutes.  VirtualServerRoute
   shapes have 0, 1 or 2 subroutes (agreeing with the referencing path, or one with another
   path); prior states: orphan / a VirtualServer on the host referencing the route from a
   prefix, exact or regex path. *)

Theorem C17_virtualserver_no_panic_shapes :
  forall (fl : flags) (c : vctx) (s : vs_shape),
    crd_worst (vs_observe (f_plus fl) (f_certmgr fl) c (vs_of s)) <> OPanic.
Proof. exact vs_no_panic_shapes. Qed.
Print Assumptions C17_virtualserver_no_panic_shapes.

Theorem C17_virtualserverroute_no_panic_shapes :
  forall (fl : flags) (c : rctx) (s : vsr_shape),
    crd_worst (vsr_observe (f_plus fl) c (vsr_of s)) <> OPanic.
Proof. exact vsr_no_panic_shapes. Qed.
Print Assumptions C17_virtualserverroute_no_panic_shapes.

Theorem C17_transportserver_no_panic_shapes :
  forall (fl : flags) (c : tctx) (s : ts_shape),
    crd_worst (ts_observe (f_tlspass fl) c (ts_of s)) <> OPanic.
Proof. exact ts_no_panic_shapes. Qed.
Print Assumptions C17_transportserver_no_panic_shapes.

(* The re-validation of a referenced VirtualServerRoute during arbitration never panics, for
   subroute lists of any length and every kind of referencing path. *)
Theorem C17_revalidate_subroutes_total :
  forall k subs, exists b, revalidate_subroutes k subs = Val b.
Proof. exact revalidate_subroutes_total. Qed.
Print Assumptions C17_revalidate_subroutes_total.

(* Refuted for the unpatched tree (finding F43): a valid TransportServer with an empty tls
   block on an active TCP listener panics in generateSSLConfig. *)
Theorem C17_transportserver_unpatched_refuted :
  exists tp c s, validate_ts tp (ts_of s) = false /\
                 crd_worst (ts_observe_old tp c (ts_of s)) = OPanic.
Proof. exact ts_no_panic_old_refuted. Qed.
Print Assumptions C17_transportserver_unpatched_refuted.

Theorem C17_policy_no_panic_shapes :
  forall (fl : flags) (s : pol_shape),
    let o := pol_observe (f_plus fl) (f_approtect fl) (policy_of s) in
    po_validate o <> OPanic /\ po_extend o <> OPanic.
Proof. exact pol_no_panic_shapes. Qed.
Print Assumptions C17_policy_no_panic_shapes.

Theorem C17_globalconfiguration_no_panic_shapes :
  forall g : gc_shape, crd_worst (gc_observe g) <> OPanic.
Proof. exact gc_no_panic_shapes. Qed.
Print Assumptions C17_globalconfiguration_no_panic_shapes.

(* The enumerations that were swept are complete for their shape types. *)
Theorem C17_crd_enumerations_complete :
  (forall s : vs_shape, In s all_vs_shapes) /\ (forall s : vsr_shape, In s all_vsr_shapes) /\
  (forall s : ts_shape, In s all_ts_shapes) /\ (forall s : pol_shape, In s all_pol_shapes) /\
  (forall s : gc_shape, In s all_gc_shapes).
Proof. exact (conj all_vs_shapes_complete (conj all_vsr_shapes_complete (conj all_ts_shapes_complete (conj all_pol_shapes_complete all_gc_shapes_complete)))). Qed.
Print Assumptions C17_crd_enumerations_complete.

(* Non-vacuity: the space contains admissible shapes that are accepted, admissible shapes
   that are rejected, and the admissibility hypothesis is needed (a backend with neither
   service nor resource passes validation and panics in createIngressEx). *)
Example C17_nonvacuous_accepted :
  let sh := {| sh_default := Some KSvc; sh_tls := true;
               sh_rules := Rs2 (HPaths (Ps2 PImplEmpty KSvc KSvc)) (R2Path KSvc);
               sh_merge := MNone; sh_chal := false; sh_ann := AClusterIP |} in
  shape_admissible sh = true /\
  scenario_pipeline {| sc_flags := {| if_plus := true; if_certmgr := true |}; sc_ctx := CVs; sc_shape := sh |} = OOk.
Proof. vm_compute. split; reflexivity. Qed.

Example C17_nonvacuous_rejected : scenario_pipeline f05_scenario = ORejected.
Proof. vm_compute. reflexivity. Qed.

Example C17_hypothesis_needed :
  shape_admissible neither_shape = false /\
  scenario_pipeline {| sc_flags := {| if_plus := false; if_certmgr := false |}; sc_ctx := CEmpty;
                       sc_shape := neither_shape |} = OPanic.
Proof. exact inadmissible_can_panic. Qed.

(* the validators' guards are what make the generators' dereferences safe *)
Example C17_policy_guards_needed :
  validate_policy true true true (policy_of (Po1 (KRate (Rl false (Some false))))) = true /\
  gen_policy (policy_of (Po1 (KRate (Rl false (Some false))))) = Pan /\
  validate_policy true true true (policy_of (Po1 (KApiKey Ak0))) = true /\
  gen_policy (policy_of (Po1 (KApiKey Ak0))) = Pan.
Proof. exact policy_guards_needed. Qed.

Example C17_f43_fixed : crd_worst (ts_observe false TCGlobal (ts_of f43_shape)) = OOk.
Proof. exact f43_fixed_ok. Qed.

(* non-vacuity of the history theorem: a history with a master, two minions, a challenge
   Ingress and a deletion runs to a state with three stored Ingresses *)
Example C17_history_nonvacuous :
  let chal := {| i_key := 5; i_created := 5; i_default := None; i_tls := 0;
                 i_rules := [{| r_host := 1; r_http := Some [svc_path] |}];
                 i_merge := MNone; i_chal := true; i_ann := ANone |} in
  let evs := [EUpsert ctx_master; EUpsert ctx_minion; EUpsert chal; EUpsert (ingress_of f05_shape); EDelete 2] in
  forallb event_admissible evs = true /\
  option_map (fun st => List.length (s_ings st))
    (run {| if_plus := true; if_certmgr := true |} {| s_ings := []; s_vss := [{| v_host := 1; v_created := 0 |}] |} evs) = Some 2.
Proof. vm_compute. split; reflexivity. Qed.

(* the guard [len(routes) != 1] is needed: a VirtualServerRoute without subroutes is valid
   stand-alone, and with the guard weakened to [len(routes) > 1] its re-validation against an
   exact or regex path panics at routes[0] *)
Example C17_revalidation_guard_needed :
  validate_vsr false (vsr_of VrBare) = false /\
  revalidate_subroutes PkExact (vr_subroutes (vsr_of VrBare)) = Val true /\
  revalidate_subroutes_weak PkExact (vr_subroutes (vsr_of VrBare)) = Pan /\
  revalidate_subroutes_weak PkRegex (vr_subroutes (vsr_of VrBare)) = Pan.
Proof. exact revalidation_guard_needed. Qed.
