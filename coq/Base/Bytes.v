(* byte strings: Coq [string] built from byte values, so that any byte the implementation
   produced can be written in a generated cases file *)
From Coq Require Import List String Ascii Arith.
Import ListNotations.

Definition bs (l : list nat) : string :=
  string_of_list_ascii (map ascii_of_nat l).

Definition bytes_of (s : string) : list nat :=
  map nat_of_ascii (list_ascii_of_string s).

Fixpoint string_eqb_all (l : list (string * string)) : bool :=
  match l with
  | [] => true
  | (a, b) :: r => andb (String.eqb a b) (string_eqb_all r)
  end.
