//go:build verif

package externaldns

import (
	"context"
	"fmt"

	clientset "github.com/nginx/kubernetes-ingress/pkg/client/clientset/versioned"
	"k8s.io/apimachinery/pkg/types"
	"k8s.io/client-go/tools/cache"
	"k8s.io/client-go/tools/record"
)

// VerifCtl is the event-handler / work-queue layer of the ExternalDNS controller for the C20
// delivery family: the controller is built by the production NewController (real informer group,
// real listers over the informers' indexers, real rate-limited queue, real SyncFnFor).  The
// informers are not started (the generated fake clientset cannot LIST DNSEndpoints); the harness
// feeds their indexers and calls the handlers the way a running informer does.  The two handler
// values are built exactly as newNamespacedInformer builds the ones it registers.
type VerifCtl struct {
	c *ExtDNSController
	// VS is the handler of the controller's VirtualServer informer, Derived that of its
	// DNSEndpoint informer (owner reference -> VirtualServer key)
	VS, Derived          cache.ResourceEventHandler
	VSStore, DerivedStore cache.Indexer
}

func VerifNewCtl(ctx context.Context, rec record.EventRecorder, client clientset.Interface) *VerifCtl {
	c := NewController(BuildOpts(ctx, []string{""}, rec, client, 0, false))
	nsi := c.informerGroup[""]
	return &VerifCtl{
		c:            c,
		VS:           &QueuingEventHandler{Queue: c.queue},
		Derived:      &BlockingEventHandler{WorkFunc: externalDNSHandler(c.queue)},
		VSStore:      nsi.sharedInformerFactory.K8s().V1().VirtualServers().Informer().GetIndexer(),
		DerivedStore: nsi.sharedInformerFactory.Externaldns().V1().DNSEndpoints().Informer().GetIndexer(),
	}
}

func (v *VerifCtl) QueueLen() int { return v.c.queue.Len() }

// ProcessNext takes one key from the real queue and runs the real processItem on it (the body of
// runWorker's loop; a failed item is handed back to the caller instead of waiting out the rate
// limiter).  ok is false when the queue is empty.
func (v *VerifCtl) ProcessNext(ctx context.Context) (key string, err error, ok bool) {
	if v.c.queue.Len() == 0 {
		return "", nil, false
	}
	k, shutdown := v.c.queue.Get()
	if shutdown {
		return "", nil, false
	}
	defer v.c.queue.Done(k)
	err = v.c.processItem(ctx, k)
	v.c.queue.Forget(k)
	return fmt.Sprintf("%s/%s", k.Namespace, k.Name), err, true
}

// Requeue is what runWorker does after a failed item, without the delay.
func (v *VerifCtl) Requeue(namespace, name string) {
	v.c.queue.Add(types.NamespacedName{Namespace: namespace, Name: name})
}

func (v *VerifCtl) Shutdown() { v.c.queue.ShutDown() }
