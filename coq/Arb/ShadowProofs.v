(* C03: the set of resources NGINX has been given a configuration for equals the set of active resources,
   after every event of every history.  The change batches of the model (transcription of
   createResourceChangesFor*, squashResourceChanges, the re-pointing loop, orderDeletesFirst, the validation
   error attachment) are applied in order to a shadow: a delete removes the key, an addOrUpdate (re)places it.
   The theorem [applied_keys_are_active] says the keys of the shadow are the keys of GetResources().
   (What the configuration of a key is rendered FROM -- the attributes -- is decided on every run by the
   shadow specification on the implementation's own batches; a proof of attribute equality needs the
   API-server assumption K3, a spec change moves the generation, on whole histories.) *)
From Coq Require Import List ZArith String Ascii Bool Lia.
From NIC Require Import Base.SMap Arb.Types Arb.Model Arb.Spec Arb.WinsProofs Arb.InvProofs Arb.OwnerProofs
     Arb.ListenerProofs Arb.ClassProofs Arb.ChangeProofs Arb.ReportProofs Arb.Cases.
Import ListNotations.
Open Scope string_scope.
Open Scope Z_scope.



(* ---------- the keys of the shadow after a batch ---------- *)

Definition ckey (c : change) : string := rkey (c_res c).

Definition has_upd (k : string) (cs : list change) : bool :=
  existsb (fun c => String.eqb (ckey c) k && negb (is_delete c)) cs.
Definition has_del (k : string) (cs : list change) : bool :=
  existsb (fun c => String.eqb (ckey c) k && is_delete c) cs.

Lemma in_keys_remove_iff {A} k0 k (m : smap A) : wf m -> (In k0 (keys (remove k m)) <-> k0 <> k /\ In k0 (keys m)).
Proof.
  intros W. rewrite !in_keys_lookup. destruct (string_dec k0 k) as [->|Hne].
  - rewrite lookup_remove_eq by exact W. split; [congruence|tauto].
  - rewrite lookup_remove_neq by exact Hne. tauto.
Qed.

Lemma wf_apply_change sh c : wf sh -> wf (apply_change sh c).
Proof. intros W. unfold apply_change. destruct (c_op c); [apply wf_remove|apply wf_insert]; exact W. Qed.

Lemma keys_apply_change sh c k : wf sh ->
  (In k (keys (apply_change sh c)) <->
   if String.eqb (ckey c) k then is_delete c = false else In k (keys sh)).
Proof.
  intros W. unfold apply_change, is_delete, ckey. destruct (String.eqb (rkey (c_res c)) k) eqn:He.
  - apply String.eqb_eq in He. subst k. destruct (c_op c).
    + rewrite in_keys_remove_iff by exact W. split; [tauto|discriminate].
    + rewrite in_keys_insert. split; auto.
  - apply String.eqb_neq in He. destruct (c_op c).
    + rewrite in_keys_remove_iff by exact W. split; [tauto|]. intros H. split; [congruence|exact H].
    + rewrite in_keys_insert. split; [intros [H|H]; [congruence|exact H]|auto].
Qed.

(* with removals first, the keys after a batch: present iff updated, or untouched and present before *)
Lemma keys_after_batch : forall cs sh k b, wf sh -> deletes_first cs b = true ->
  (In k (keys (fold_left apply_change cs sh)) <->
   has_upd k cs = true \/ (has_del k cs = false /\ In k (keys sh))).
Proof.
  induction cs as [|c r IH]; intros sh k b W Hd; cbn [fold_left has_upd has_del existsb].
  - split; [auto|intros [H|[_ H]]; [discriminate|exact H]].
  - cbn [deletes_first] in Hd. fold (has_upd k r). fold (has_del k r).
    assert (Hd' : exists b', deletes_first r b' = true).
    { unfold is_delete in *. destruct (c_op c); [apply andb_true_iff in Hd; exists b; tauto|exists true; exact Hd]. }
    destruct Hd' as [b' Hd'].
    rewrite (IH (apply_change sh c) k b' (wf_apply_change sh c W) Hd').
    rewrite (keys_apply_change sh c k W).
    destruct (String.eqb (ckey c) k) eqn:He; cbn [andb].
    + unfold is_delete in *. destruct (c_op c) eqn:Hop; cbn [negb orb].
      * (* a delete of k: nothing after it may re-add unless an update follows; with removals first an update may follow *)
        split.
        -- intros [H|[_ H]]; [left; exact H|discriminate].
        -- intros [H|[H _]]; [left; exact H|discriminate].
      * split; [intros _; left; reflexivity|].
        intros _. destruct (has_upd k r) eqn:Hu; [left; reflexivity|]. right. split; [|reflexivity].
        (* after an update no delete follows *)
        assert (Hnd : forall l, deletes_first l true = true -> has_del k l = false).
        { induction l as [|x l IHl]; [reflexivity|]. cbn [deletes_first has_del existsb]. unfold is_delete.
          destruct (c_op x); [cbn; discriminate|]. intros Hx. rewrite andb_false_r. cbn. apply IHl. exact Hx. }
        apply Hnd. exact Hd.
    + cbn [orb]. tauto.
Qed.



(* ---------- the last change about a key ---------- *)

Lemma last_change_for_key k : forall cs acc s,
  last_change_for k cs acc = Some s -> (In s cs /\ ckey s = k) \/ acc = Some s.
Proof.
  induction cs as [|x cs IH]; intros acc s H; cbn [last_change_for] in H; [auto|].
  apply IH in H. destruct H as [[H1 H2]|H]; [left; split; [right; exact H1|exact H2]|].
  destruct (String.eqb (rkey (c_res x)) k) eqn:He; [|auto].
  inversion H; subst. left. split; [left; reflexivity|apply String.eqb_eq; exact He].
Qed.

Lemma last_change_for_app k : forall a b acc,
  last_change_for k (a +++ b) acc = last_change_for k b (last_change_for k a acc).
Proof. induction a as [|x a IH]; intros b acc; cbn [app last_change_for]; [reflexivity|apply IH]. Qed.

Lemma last_change_for_absent k : forall cs acc, (forall c, In c cs -> ckey c <> k) -> last_change_for k cs acc = acc.
Proof.
  induction cs as [|x cs IH]; intros acc H; cbn [last_change_for]; [reflexivity|].
  destruct (String.eqb (rkey (c_res x)) k) eqn:He.
  - exfalso. apply (H x); [left; reflexivity|apply String.eqb_eq; exact He].
  - apply IH. intros c Hc. apply H. right; exact Hc.
Qed.

Lemma last_change_for_present k : forall cs acc, (exists c, In c cs /\ ckey c = k) ->
  exists s, last_change_for k cs acc = Some s /\ In s cs /\ ckey s = k.
Proof.
  induction cs as [|x cs IH]; intros acc (c & Hc & Hk); [destruct Hc|]. cbn [last_change_for].
  destruct (existsb (fun y => String.eqb (ckey y) k) cs) eqn:Hex.
  - apply existsb_exists in Hex. destruct Hex as (y & Hy & Hyk). apply String.eqb_eq in Hyk.
    destruct (IH (if String.eqb (rkey (c_res x)) k then Some x else acc) (ex_intro _ y (conj Hy Hyk))) as (s & Hs & Hin & Hsk).
    exists s. split; [exact Hs|]. split; [right; exact Hin|exact Hsk].
  - assert (Habs : forall y, In y cs -> ckey y <> k).
    { intros y Hy E. assert (existsb (fun y => String.eqb (ckey y) k) cs = true).
      { apply existsb_exists. exists y. split; [exact Hy|apply String.eqb_eq; exact E]. } congruence. }
    rewrite (last_change_for_absent k cs _ Habs).
    destruct Hc as [<-|Hc]; [|exfalso; exact (Habs c Hc Hk)].
    unfold ckey in Hk. rewrite <- Hk, String.eqb_refl. exists x. split; [reflexivity|]. split; [left; reflexivity|reflexivity].
Qed.

(* removals first: the batch is a block of deletes followed by a block of updates *)
Lemma df_split : forall cs, deletes_first cs false = true ->
  exists ds us, cs = ds +++ us /\ (forall c, In c ds -> is_delete c = true) /\ (forall c, In c us -> is_delete c = false).
Proof.
  induction cs as [|x cs IH]; intros H.
  - exists [], []. split; [reflexivity|]. split; intros c [].
  - cbn [deletes_first] in H. destruct (c_op x) eqn:Hx.
    + cbn in H. destruct (IH H) as (ds & us & -> & Hd & Hu). exists (x :: ds), us. split; [reflexivity|]. split; [|exact Hu].
      intros c [<-|Hc]; [unfold is_delete; rewrite Hx; reflexivity|apply Hd; exact Hc].
    + exists [], (x :: cs). split; [reflexivity|]. split; [intros c []|].
      intros c [<-|Hc]; [unfold is_delete; rewrite Hx; reflexivity|].
      clear IH. revert c Hc. induction cs as [|y cs IHc]; intros c Hc; [destruct Hc|]. cbn [deletes_first] in H.
      destruct (c_op y) eqn:Hy; [cbn in H; discriminate|]. destruct Hc as [<-|Hc]; [unfold is_delete; rewrite Hy; reflexivity|apply IHc; assumption].
Qed.

Lemma has_upd_true k cs : has_upd k cs = true <-> exists c, In c cs /\ ckey c = k /\ is_delete c = false.
Proof.
  unfold has_upd. rewrite existsb_exists. split.
  - intros (c & Hc & H). apply andb_true_iff in H. destruct H as [H1 H2]. exists c. split; [exact Hc|]. split; [apply String.eqb_eq; exact H1|apply negb_true_iff; exact H2].
  - intros (c & Hc & H1 & H2). exists c. split; [exact Hc|]. rewrite H2. apply andb_true_iff. split; [apply String.eqb_eq; exact H1|reflexivity].
Qed.

Lemma has_del_true k cs : has_del k cs = true <-> exists c, In c cs /\ ckey c = k /\ is_delete c = true.
Proof.
  unfold has_del. rewrite existsb_exists. split.
  - intros (c & Hc & H). apply andb_true_iff in H. destruct H as [H1 H2]. exists c. split; [exact Hc|]. split; [apply String.eqb_eq; exact H1|exact H2].
  - intros (c & Hc & H1 & H2). exists c. split; [exact Hc|]. rewrite H2. apply andb_true_iff. split; [apply String.eqb_eq; exact H1|reflexivity].
Qed.

(* with removals first, the last change about a key is an update iff the batch updates the key at all *)
Lemma last_change_is_update k cs s : deletes_first cs false = true ->
  last_change_for k cs None = Some s -> (is_delete s = false <-> has_upd k cs = true).
Proof.
  intros Hd H. destruct (df_split cs Hd) as (ds & us & -> & Hds & Hus).
  rewrite last_change_for_app in H. rewrite has_upd_true. split.
  - intros Hs. apply last_change_for_key in H. destruct H as [[Hin Hk]|H].
    + exists s. split; [apply in_or_app; right; exact Hin|auto].
    + apply last_change_for_key in H. destruct H as [[Hin Hk]|H]; [|discriminate].
      rewrite (Hds s Hin) in Hs. discriminate.
  - intros (c & Hc & Hk & Hnd). apply in_app_or in Hc. destruct Hc as [Hc|Hc]; [rewrite (Hds c Hc) in Hnd; discriminate|].
    destruct (last_change_for_present k us (last_change_for k ds None) (ex_intro _ c (conj Hc Hk))) as (s' & Hs' & Hin & _).
    rewrite Hs' in H. inversion H; subst. apply Hus. exact Hin.
Qed.

(* ---------- squashing keeps exactly the last change of every key ---------- *)

Lemma squash_go_spec all_ : forall cs seen ds us, squash_go all_ cs seen = (ds, us) ->
  forall s, (In s ds \/ In s us) <->
            exists c, In c cs /\ existsb (String.eqb (ckey c)) seen = false /\ last_change_for (ckey c) all_ None = Some s.
Proof.
  induction cs as [|c0 r IH]; intros seen ds us H s; cbn [squash_go] in H.
  - inversion H; subst. split; [intros [[]|[]]|intros (c & [] & _)].
  - fold (ckey c0) in H. destruct (existsb (String.eqb (ckey c0)) seen) eqn:Hseen.
    + rewrite (IH _ _ _ H s). split.
      * intros (c & Hc & Hx). exists c. split; [right; exact Hc|exact Hx].
      * intros (c & [<-|Hc] & Hns & Hl); [congruence|]. exists c. auto.
    + destruct (squash_go all_ r (ckey c0 :: seen)) as [ds0 us0] eqn:Hr.
      pose proof (IH _ _ _ Hr s) as IHs.
      assert (Hrest : (exists c, In c (c0 :: r) /\ existsb (String.eqb (ckey c)) seen = false /\ last_change_for (ckey c) all_ None = Some s) <->
                      last_change_for (ckey c0) all_ None = Some s \/
                      (exists c, In c r /\ existsb (String.eqb (ckey c)) (ckey c0 :: seen) = false /\ last_change_for (ckey c) all_ None = Some s)).
      { split.
        - intros (c & [<-|Hc] & Hns & Hl); [left; exact Hl|].
          destruct (String.eqb (ckey c) (ckey c0)) eqn:He.
          + apply String.eqb_eq in He. left. rewrite <- He. exact Hl.
          + right. exists c. split; [exact Hc|]. split; [|exact Hl]. cbn [existsb]. rewrite He, Hns. reflexivity.
        - intros [Hl|(c & Hc & Hns & Hl)].
          + exists c0. split; [left; reflexivity|]. split; [exact Hseen|exact Hl].
          + exists c. split; [right; exact Hc|]. split; [|exact Hl]. cbn [existsb] in Hns. apply orb_false_iff in Hns. tauto. }
      rewrite Hrest. rewrite <- IHs.
      destruct (last_change_for (ckey c0) all_ None) as [s0|] eqn:Hl0.
      * destruct (c_op s0); inversion H; subst; cbn [In]; split.
        -- intros [[<-|Hd]|Hu]; [left; reflexivity|right; left; exact Hd|right; right; exact Hu].
        -- intros [Hs|[Hd|Hu]]; [inversion Hs; left; left; reflexivity|left; right; exact Hd|right; exact Hu].
        -- intros [Hd|[<-|Hu]]; [right; left; exact Hd|left; reflexivity|right; right; exact Hu].
        -- intros [Hs|[Hd|Hu]]; [inversion Hs; right; left; reflexivity|left; exact Hd|right; right; exact Hu].
      * inversion H; subst. split; [intros Hx; right; exact Hx|intros [Hx|Hx]; [discriminate|exact Hx]].
Qed.

Lemma in_squash cs s : In s (squash cs) <-> exists c, In c cs /\ last_change_for (ckey c) cs None = Some s.
Proof.
  unfold squash. destruct (squash_go cs cs []) as [ds us] eqn:H. rewrite in_app_iff. rewrite (squash_go_spec cs cs [] ds us H s).
  split; intros (c & Hc & Hx); exists c; cbn [existsb] in *; tauto.
Qed.

Lemma squash_has_upd k cs : deletes_first cs false = true -> has_upd k (squash cs) = has_upd k cs.
Proof.
  intros Hd. apply eq_true_iff_eq. rewrite has_upd_true. split.
  - intros (s & Hs & Hk & Hnd). apply in_squash in Hs. destruct Hs as (c & Hc & Hl).
    pose proof (last_change_for_key _ _ _ _ Hl) as [[_ Hks]|Hx]; [|discriminate].
    rewrite Hk in Hks. rewrite <- Hks in Hl. apply (last_change_is_update k cs s Hd Hl). exact Hnd.
  - intros Hu. pose proof Hu as Hu'. apply has_upd_true in Hu'. destruct Hu' as (c & Hc & Hk & _).
    destruct (last_change_for_present k cs None (ex_intro _ c (conj Hc Hk))) as (s & Hs & Hin & Hsk).
    exists s. split; [apply in_squash; exists c; rewrite Hk; auto|]. split; [exact Hsk|]. apply (last_change_is_update k cs s Hd Hs). exact Hu.
Qed.

Lemma squash_has_del k cs : deletes_first cs false = true -> has_del k (squash cs) = has_del k cs && negb (has_upd k cs).
Proof.
  intros Hd. apply eq_true_iff_eq. rewrite andb_true_iff, negb_true_iff, has_del_true. split.
  - intros (s & Hs & Hk & Hdel). apply in_squash in Hs. destruct Hs as (c & Hc & Hl).
    pose proof (last_change_for_key _ _ _ _ Hl) as [[Hin Hks]|Hx]; [|discriminate].
    rewrite Hk in Hks. rewrite <- Hks in Hl. split.
    + apply has_del_true. exists s. auto.
    + destruct (has_upd k cs) eqn:Hu; [|reflexivity]. apply (last_change_is_update k cs s Hd Hl) in Hu. congruence.
  - intros [Hdl Hnu]. apply has_del_true in Hdl. destruct Hdl as (c & Hc & Hk & _).
    destruct (last_change_for_present k cs None (ex_intro _ c (conj Hc Hk))) as (s & Hs & Hin & Hsk).
    exists s. split; [apply in_squash; exists c; rewrite Hk; auto|]. split; [exact Hsk|].
    destruct (is_delete s) eqn:Hds; [reflexivity|]. apply (last_change_is_update k cs s Hd Hs) in Hds. congruence.
Qed.



(* ---------- IsEqual implies the same object name and, for an Ingress, the same valid hosts ---------- *)

Lemma meta_eq_mkey a b : meta_eq a b = true -> mkey a = mkey b.
Proof.
  unfold meta_eq, mkey. intros H.
  apply andb_true_iff in H. destruct H as [H _]. apply andb_true_iff in H. destruct H as [H _].
  apply andb_true_iff in H. destruct H as [H1 H2]. apply String.eqb_eq in H1, H2. rewrite H1, H2. reflexivity.
Qed.

Lemma is_equal_rkey a b : is_equal a b = true -> rkey a = rkey b.
Proof.
  destruct a as [x|x|x], b as [y|y|y]; cbn [is_equal]; try discriminate; intros H; unfold rkey; cbn [kind_prefix res_meta]; f_equal.
  - apply andb_true_iff in H. destruct H as [H _]. apply andb_true_iff in H. destruct H as [H _]. apply andb_true_iff in H. destruct H as [H _].
    unfold meta_eq_ann in H. apply andb_true_iff in H. destruct H as [H _]. apply meta_eq_mkey. exact H.
  - apply andb_true_iff in H. destruct H as [H _]. apply meta_eq_mkey. exact H.
  - apply andb_true_iff in H. destruct H as [H _]. apply andb_true_iff in H. destruct H as [H _]. apply andb_true_iff in H. destruct H as [H _].
    apply meta_eq_mkey. exact H.
Qed.

Lemma smap_bool_eqb_eq : forall a b, smap_bool_eqb a b = true -> a = b.
Proof.
  unfold smap_bool_eqb. induction a as [|[k v] a IH]; intros [|[k' v'] b] H; cbn [all2] in H; try discriminate; [reflexivity|].
  apply andb_true_iff in H. destruct H as [H1 H2]. cbn [fst snd] in H1. apply andb_true_iff in H1. destruct H1 as [Hk Hv].
  apply String.eqb_eq in Hk. apply eqb_prop in Hv. subst. f_equal. apply IH. exact H2.
Qed.

Lemma is_equal_valid_hosts x y : is_equal (RIng x) (RIng y) = true -> ic_valid_hosts x = ic_valid_hosts y.
Proof.
  cbn [is_equal]. intros H. apply andb_true_iff in H. destruct H as [H _]. apply andb_true_iff in H. destruct H as [H _].
  apply andb_true_iff in H. destruct H as [_ H]. apply smap_bool_eqb_eq. exact H.
Qed.

(* ---------- what a host map must satisfy (both the old and the new one do: they are built) ---------- *)

Record coherent (H : smap resource) : Prop := {
  coh_wf : wf H;
  coh_same : forall h1 h2 r1 r2, lookup h1 H = Some r1 -> lookup h2 H = Some r2 -> rkey r1 = rkey r2 -> r1 = r2;
  coh_ing : forall h ic, lookup h H = Some (RIng ic) ->
            forall h', lookup h' (ic_valid_hosts ic) = Some true <-> lookup h' H = Some (RIng ic);
  (* a VirtualServer or a TransportServer sits under exactly one key *)
  coh_single : forall h1 h2 r, lookup h1 H = Some r -> lookup h2 H = Some r ->
               match r with RIng _ => False | _ => True end -> h1 = h2
}.

Definition key_in (H : smap resource) (k : string) : Prop := exists h r, lookup h H = Some r /\ rkey r = k.

(* ---------- membership in the three host lists ---------- *)

Lemma mem_lookup {A} k (m : smap A) : mem k m = true <-> lookup k m <> None.
Proof. unfold mem. destruct (lookup k m); split; congruence. Qed.

Lemma in_removed {A B} (old : smap A) (new : smap B) h : In h (removed_keys old new) <-> lookup h old <> None /\ lookup h new = None.
Proof.
  unfold removed_keys. rewrite filter_In, in_keys_lookup, negb_true_iff. split; intros [H1 H2]; split; auto.
  - destruct (lookup h new) eqn:E; [|reflexivity]. assert (mem h new = true) by (apply mem_lookup; congruence). congruence.
  - destruct (mem h new) eqn:E; [|reflexivity]. apply mem_lookup in E. congruence.
Qed.

Lemma in_added {A B} (old : smap A) (new : smap B) h : In h (added_keys old new) <-> lookup h new <> None /\ lookup h old = None.
Proof.
  unfold added_keys. rewrite filter_In, in_keys_lookup, negb_true_iff. split; intros [H1 H2]; split; auto.
  - destruct (lookup h old) eqn:E; [|reflexivity]. assert (mem h old = true) by (apply mem_lookup; congruence). congruence.
  - destruct (mem h old) eqn:E; [|reflexivity]. apply mem_lookup in E. congruence.
Qed.

Lemma in_updated_both old new h : In h (updated_hosts old new) -> exists o n, lookup h old = Some o /\ In (h, n) new.
Proof.
  unfold updated_hosts. rewrite in_flat_map. intros ([h0 n] & Hin & H). cbn [fst snd] in H.
  destruct (lookup h0 old) as [o|] eqn:Ho; [|destruct H].
  assert (h = h0).
  { destruct (negb (is_equal o n)); [destruct H as [H|[]]; auto|].
    destruct n as [x|x|x], o as [y|y|y]; try (destruct H; fail).
    repeat (apply in_app_or in H; destruct H as [H|H]);
      match type of H with In _ (if ?b then _ else _) => destruct b; [destruct H as [H|[]]; auto|destruct H] end. }
  subst h0. exists o, n. auto.
Qed.

Lemma not_equal_in_updated old new h o n : wf new -> lookup h old = Some o -> lookup h new = Some n -> is_equal o n = false -> In h (updated_hosts old new).
Proof.
  intros W Ho Hn He. unfold updated_hosts. rewrite in_flat_map. exists (h, n). split; [apply lookup_In; exact Hn|].
  cbn [fst snd]. rewrite Ho, He. left; reflexivity.
Qed.

Lemma not_updated_equal old new h o n : wf new -> lookup h old = Some o -> lookup h new = Some n -> ~ In h (updated_hosts old new) -> is_equal o n = true.
Proof.
  intros W Ho Hn Hni. destruct (is_equal o n) eqn:He; [reflexivity|]. exfalso. apply Hni. eapply not_equal_in_updated; eauto.
Qed.

(* ---------- the raw batch of createResourceChangesForHosts ---------- *)

Definition raw_changes (old new : smap resource) : list change :=
  create_changes rkey (removed_keys old new) (updated_hosts old new) (added_keys old new) old new.

Lemma raw_df old new : deletes_first (raw_changes old new) false = true.
Proof.
  unfold raw_changes, create_changes. apply deletes_first_app.
  - intros c Hc. apply in_app_or in Hc. destruct Hc as [Hc|Hc]; apply in_filter_map in Hc; destruct Hc as (h & _ & Hf).
    + destruct (lookup h old); inversion Hf; reflexivity.
    + destruct (lookup h old) as [o|]; [|discriminate]. destruct (lookup h new) as [n|]; [|discriminate].
      destruct (negb (String.eqb (rkey o) (rkey n))); inversion Hf; reflexivity.
  - intros c Hc. apply in_app_or in Hc. destruct Hc as [Hc|Hc]; apply in_filter_map in Hc; destruct Hc as (h & _ & Hf);
      destruct (lookup h new); inversion Hf; reflexivity.
Qed.

Lemma raw_upd old new k : has_upd k (raw_changes old new) = true <->
  exists h n, lookup h new = Some n /\ rkey n = k /\ (In h (updated_hosts old new) \/ In h (added_keys old new)).
Proof.
  rewrite has_upd_true. unfold raw_changes, create_changes. split.
  - intros (c & Hc & Hk & Hnd). apply in_app_or in Hc. destruct Hc as [Hc|Hc].
    + exfalso. apply in_app_or in Hc. destruct Hc as [Hc|Hc]; apply in_filter_map in Hc; destruct Hc as (h & _ & Hf).
      * destruct (lookup h old); inversion Hf; subst; discriminate.
      * destruct (lookup h old) as [o|]; [|discriminate]. destruct (lookup h new) as [n|]; [|discriminate].
        destruct (negb (String.eqb (rkey o) (rkey n))); inversion Hf; subst; discriminate.
    + apply in_app_or in Hc. destruct Hc as [Hc|Hc]; apply in_filter_map in Hc; destruct Hc as (h & Hh & Hf);
        destruct (lookup h new) as [n|] eqn:Hn; inversion Hf; subst; exists h, n; auto.
  - intros (h & n & Hn & Hk & [Hu|Ha]).
    + exists (mkCh AddOrUpdate n false). split; [|auto]. apply in_or_app. right. apply in_or_app. left.
      apply in_filter_map. exists h. rewrite Hn. auto.
    + exists (mkCh AddOrUpdate n false). split; [|auto]. apply in_or_app. right. apply in_or_app. right.
      apply in_filter_map. exists h. rewrite Hn. auto.
Qed.

Lemma raw_del old new k : has_del k (raw_changes old new) = true <->
  exists h o, lookup h old = Some o /\ rkey o = k /\
              (In h (removed_keys old new) \/ (In h (updated_hosts old new) /\ exists n, lookup h new = Some n /\ rkey n <> k)).
Proof.
  rewrite has_del_true. unfold raw_changes, create_changes. split.
  - intros (c & Hc & Hk & Hd). apply in_app_or in Hc. destruct Hc as [Hc|Hc].
    + apply in_app_or in Hc. destruct Hc as [Hc|Hc]; apply in_filter_map in Hc; destruct Hc as (h & Hh & Hf).
      * destruct (lookup h old) as [o|] eqn:Ho; inversion Hf; subst. exists h, o. auto.
      * destruct (lookup h old) as [o|] eqn:Ho; [|discriminate]. destruct (lookup h new) as [n|] eqn:Hn; [|discriminate].
        destruct (String.eqb (rkey o) (rkey n)) eqn:He; cbn in Hf; inversion Hf; subst. apply String.eqb_neq in He.
        exists h, o. split; [exact Ho|]. split; [reflexivity|]. right. split; [exact Hh|]. exists n. split; [exact Hn|]. unfold ckey; cbn. congruence.
    + exfalso. apply in_app_or in Hc. destruct Hc as [Hc|Hc]; apply in_filter_map in Hc; destruct Hc as (h & _ & Hf);
        destruct (lookup h new); inversion Hf; subst; discriminate.
  - intros (h & o & Ho & Hk & [Hr|[Hu (n & Hn & Hne)]]).
    + exists (mkCh Delete o false). split; [|auto]. apply in_or_app. left. apply in_or_app. left.
      apply in_filter_map. exists h. rewrite Ho. auto.
    + exists (mkCh Delete o false). split; [|auto]. apply in_or_app. left. apply in_or_app. right.
      apply in_filter_map. exists h. split; [exact Hu|]. rewrite Ho, Hn.
      assert (He : String.eqb (rkey o) (rkey n) = false) by (apply String.eqb_neq; congruence). rewrite He. reflexivity.
Qed.

(* ---------- the keys after the squashed batch are the keys of the new host map ---------- *)

Theorem hosts_keys_after old new : coherent old -> coherent new -> forall k,
  (has_upd k (squash (raw_changes old new)) = true \/
   (has_del k (squash (raw_changes old new)) = false /\ key_in old k)) <-> key_in new k.
Proof.
  intros CO CN k. pose proof (raw_df old new) as Hdf.
  rewrite (squash_has_upd k _ Hdf), (squash_has_del k _ Hdf). split.
  - intros [Hu|[Hd (h & o & Ho & Hk)]].
    + apply raw_upd in Hu. destruct Hu as (h & n & Hn & Hk & _). exists h, n. auto.
    + (* k was there and is not deleted: either it is still there at the same host, or a deletion is
         outweighed by an update, which also puts it there *)
      assert (Hdel_then : has_del k (raw_changes old new) = true -> key_in new k).
      { intros Hdel. rewrite Hdel in Hd. cbn [andb] in Hd. apply negb_false_iff in Hd.
        apply raw_upd in Hd. destruct Hd as (h2 & n2 & Hn2 & Hk2 & _). exists h2, n2. auto. }
      destruct (lookup h new) as [n|] eqn:Hn.
      * destruct (string_dec (rkey n) k) as [E|E]; [exists h, n; auto|].
        assert (Hne : is_equal o n = false).
        { destruct (is_equal o n) eqn:He; [|reflexivity]. apply is_equal_rkey in He. congruence. }
        pose proof (not_equal_in_updated old new h o n (coh_wf _ CN) Ho Hn Hne) as Hu.
        apply Hdel_then. apply raw_del. exists h, o. split; [exact Ho|]. split; [exact Hk|]. right. split; [exact Hu|]. exists n. auto.
      * apply Hdel_then. apply raw_del. exists h, o. split; [exact Ho|]. split; [exact Hk|]. left.
        apply in_removed. split; [congruence|exact Hn].
  - intros (h & n & Hn & Hk).
    destruct (has_upd k (raw_changes old new)) eqn:Hu; [left; reflexivity|]. right.
    assert (Hnu : ~ In h (updated_hosts old new) /\ ~ In h (added_keys old new)).
    { split; intros Hin; assert (has_upd k (raw_changes old new) = true) by (apply raw_upd; exists h, n; auto); congruence. }
    destruct Hnu as [Hnu Hna].
    destruct (lookup h old) as [o|] eqn:Ho.
    2:{ exfalso. apply Hna. apply in_added. split; [congruence|exact Ho]. }
    pose proof (not_updated_equal old new h o n (coh_wf _ CN) Ho Hn Hnu) as Heq.
    pose proof (is_equal_rkey _ _ Heq) as Hkk.
    split; [|exists h, o; split; [exact Ho|congruence]].
    cbn [negb]. rewrite andb_true_r.
    destruct (has_del k (raw_changes old new)) eqn:Hdel; [|reflexivity]. exfalso.
    apply raw_del in Hdel. destruct Hdel as (h1 & o1 & Ho1 & Hk1 & Hcase).
    assert (o1 = o) by (apply (coh_same _ CO h1 h o1 o Ho1 Ho); congruence). subst o1.
    assert (Hn1 : lookup h1 new = Some n).
    { destruct o as [x|x|x], n as [y|y|y]; try discriminate Heq.
      - pose proof (is_equal_valid_hosts x y Heq) as Hvh.
        apply (coh_ing _ CN h y Hn h1). rewrite <- Hvh. apply (coh_ing _ CO h1 x Ho1 h1). exact Ho1.
      - rewrite (coh_single _ CO h1 h _ Ho1 Ho I). exact Hn.
      - rewrite (coh_single _ CO h1 h _ Ho1 Ho I). exact Hn. }
    destruct Hcase as [Hr|[_ (n1 & Hn1' & Hne)]].
    + apply in_removed in Hr. destruct Hr as [_ Hr]. congruence.
    + rewrite Hn1 in Hn1'. inversion Hn1'; subst. congruence.
Qed.



(* ---------- the host map that buildHostsAndResources returns is coherent ---------- *)

Lemma valid_hosts_lookup (hs : smap hold) i : forall l m h,
  lookup h (fold_left (fun m h => insert h (match lookup h hs with
                                            | Some y => String.eqb (fst y) (ing_rkey i)
                                            | None => false end) m) l m) =
  if existsb (String.eqb h) l
  then Some (match lookup h hs with Some y => String.eqb (fst y) (ing_rkey i) | None => false end)
  else lookup h m.
Proof.
  induction l as [|x l IH]; intros m h; cbn [fold_left existsb]; [reflexivity|].
  rewrite IH. destruct (existsb (String.eqb h) l); [rewrite orb_true_r; reflexivity|]. rewrite orb_false_r.
  destruct (String.eqb h x) eqn:He.
  - apply String.eqb_eq in He. subst x. rewrite lookup_insert_eq. reflexivity.
  - apply String.eqb_neq in He. rewrite lookup_insert_neq by exact He. reflexivity.
Qed.

Lemma valid_hosts_true (hs : smap hold) i h :
  lookup h (valid_hosts_of hs i) = Some true <->
  In h (i_hosts i) /\ exists y, lookup h hs = Some y /\ fst y = ing_rkey i.
Proof.
  unfold valid_hosts_of. rewrite valid_hosts_lookup. destruct (existsb (String.eqb h) (i_hosts i)) eqn:Hex.
  - apply existsb_exists in Hex. destruct Hex as (x & Hx & He). apply String.eqb_eq in He. subst x. split.
    + intros H. split; [exact Hx|]. destruct (lookup h hs) as [y|]; [|discriminate]. exists y. split; [reflexivity|].
      inversion H as [H1]. apply String.eqb_eq. exact H1.
    + intros [_ (y & Hy & Hk)]. rewrite Hy, Hk, String.eqb_refl. reflexivity.
  - cbn. split; [discriminate|]. intros [Hin _]. exfalso.
    assert (existsb (String.eqb h) (i_hosts i) = true) by (apply existsb_exists; exists h; split; [exact Hin|apply String.eqb_refl]). congruence.
Qed.

Section Build.
  Variables (c : cfg) (is_ : smap ingress) (vs_ : smap vserver) (rs : smap vsroute) (ts_ : smap tserver)
            (g : option (list listener)).
  Hypothesis Wi : wf is_.
  Hypothesis Wv : wf vs_.
  Hypothesis Wt : wf ts_.
  Hypothesis Ki : keyed (fun i => mkey (i_meta i)) is_.
  Hypothesis Kv : keyed (fun v => mkey (v_meta v)) vs_.
  Hypothesis Kt : keyed (fun t => mkey (t_meta t)) ts_.
  Let B := build c is_ vs_ rs ts_ g.
  Let hs := holders (all_claims c is_ vs_ ts_).

  Lemma b_res_shape k r : lookup k (b_res B) = Some r ->
    match r with
    | RIng ic => (exists k0, In (k0, ic_ing ic) is_) /\ ic_valid_hosts ic = valid_hosts_of hs (ic_ing ic)
    | RVS vc => exists k0, In (k0, vc_vs vc) vs_
    | RTS tc => exists k0, In (k0, tc_ts tc) ts_
    end.
  Proof.
    unfold B, hs, build. pose proof (run_claims_fst host_warning (all_claims c is_ vs_ ts_) []) as Hf.
    destruct (run_claims host_warning [] (all_claims c is_ vs_ ts_)) as [hs0 claim_ws]. cbn [fst] in Hf.
    fold (holders (all_claims c is_ vs_ ts_)) in Hf. subst hs0.
    cbn [b_res]. intros Hl. apply of_list_lookup_in in Hl.
    apply in_app_or in Hl. destruct Hl as [H|H]; [|apply in_app_or in H; destruct H as [H|H]].
    - apply in_filter_map in H. destruct H as ([k0 i] & Hi & Hf). cbn [snd] in Hf.
      destruct (ing_claims_hosts c vs_ i); [|discriminate].
      destruct (if is_master i then build_minions is_ (host0 i) else ([], [])) as [mins cw].
      inversion Hf; subst. cbn [ic_ing ic_valid_hosts]. split; [exists k0; exact Hi|reflexivity].
    - apply in_map_iff in H. destruct H as ([k0 v] & Hf & Hv). cbn [snd] in Hf.
      destruct (build_vsrs rs v (v_routes v)) as [rl w].
      destruct (build_vs_cfg_proj g v (rl +++ filter (fun r0 => String.eqb (v_host v) (r_host r0)) (challenge_vsrs c vs_ is_)) w) as [P1 _].
      inversion Hf; subst. cbn [vc_vs]. rewrite P1. exists k0. exact Hv.
    - destruct (tls_passthrough c); [|destruct H].
      apply in_filter_map in H. destruct H as ([k0 t] & Ht & Hf). cbn [snd] in Hf.
      destruct (is_passthrough t); inversion Hf; subst. exists k0. exact Ht.
  Qed.

  Lemma b_hosts_res h r : lookup h (b_hosts B) = Some r -> lookup (rkey r) (b_res B) = Some r.
  Proof.
    unfold B. rewrite b_hosts_lookup. destruct (lookup h (holders (all_claims c is_ vs_ ts_))) as [y|]; [|discriminate].
    intros H. rewrite (b_res_key _ _ _ _ _ _ _ _ H). exact H.
  Qed.

  Lemma b_hosts_holder h r : lookup h (b_hosts B) = Some r ->
    exists m, In (h, (rkey r, m)) (all_claims c is_ vs_ ts_) /\ lookup h hs = Some (rkey r, m).
  Proof.
    unfold B, hs. rewrite b_hosts_lookup. destruct (lookup h (holders (all_claims c is_ vs_ ts_))) as [[k m]|] eqn:Hh; [|discriminate].
    cbn [fst]. intros H. pose proof (b_res_key _ _ _ _ _ _ _ _ H) as Hk. subst k. exists m. split; [|reflexivity].
    apply holder_is_claim. exact Hh.
  Qed.

  (* a claim carries the key of the object that makes it, so the kind and the name identify the object *)
  Lemma claim_of_ing h k m : In (h, (k, m)) (all_claims c is_ vs_ ts_) -> forall i, k = ing_rkey i ->
    exists k0 i2, In (k0, i2) is_ /\ ing_rkey i2 = k /\ In h (i_hosts i2).
  Proof.
    intros Hc i Hk. unfold all_claims in Hc. apply in_app_or in Hc. destruct Hc as [Hc|Hc]; [|apply in_app_or in Hc; destruct Hc as [Hc|Hc]].
    - unfold ing_claims in Hc. apply in_flat_map in Hc. destruct Hc as ([k0 i2] & Hin & Hc). cbn [snd] in Hc.
      destruct (ing_claims_hosts c vs_ i2); [|destruct Hc]. apply in_map_iff in Hc. destruct Hc as (h' & Heq & Hh').
      inversion Heq; subst. exists k0, i2. auto.
    - exfalso. unfold vs_claims in Hc. apply in_map_iff in Hc. destruct Hc as ([k0 v] & Heq & _). cbn [snd] in Heq.
      injection Heq as _E1 Hk2 _E3. rewrite Hk in Hk2. unfold vs_rkey, ing_rkey in Hk2. cbn in Hk2. discriminate.
    - exfalso. unfold ts_claims in Hc. destruct (tls_passthrough c); [|destruct Hc]. apply in_filter_map in Hc.
      destruct Hc as ([k0 t] & _ & Hf). cbn [snd] in Hf. destruct (is_passthrough t); [|discriminate]. injection Hf as _E1 Hk2 _E3.
      rewrite Hk in Hk2. unfold ts_rkey, ing_rkey in Hk2. cbn in Hk2. discriminate.
  Qed.

  Lemma claim_of_vs h k m : In (h, (k, m)) (all_claims c is_ vs_ ts_) -> forall v, k = vs_rkey v ->
    exists k0 v2, In (k0, v2) vs_ /\ vs_rkey v2 = k /\ h = v_host v2.
  Proof.
    intros Hc v Hk. unfold all_claims in Hc. apply in_app_or in Hc. destruct Hc as [Hc|Hc]; [|apply in_app_or in Hc; destruct Hc as [Hc|Hc]].
    - exfalso. unfold ing_claims in Hc. apply in_flat_map in Hc. destruct Hc as ([k0 i2] & Hin & Hc). cbn [snd] in Hc.
      destruct (ing_claims_hosts c vs_ i2); [|destruct Hc]. apply in_map_iff in Hc. destruct Hc as (h' & Heq & Hh').
      injection Heq as _E1 Hk2 _E3. rewrite Hk in Hk2. unfold vs_rkey, ing_rkey in Hk2. cbn in Hk2. discriminate.
    - unfold vs_claims in Hc. apply in_map_iff in Hc. destruct Hc as ([k0 v2] & Heq & Hin). cbn [snd] in Heq.
      inversion Heq; subst. exists k0, v2. auto.
    - exfalso. unfold ts_claims in Hc. destruct (tls_passthrough c); [|destruct Hc]. apply in_filter_map in Hc.
      destruct Hc as ([k0 t] & _ & Hf). cbn [snd] in Hf. destruct (is_passthrough t); [|discriminate]. injection Hf as _E1 Hk2 _E3.
      rewrite Hk in Hk2. unfold ts_rkey, vs_rkey in Hk2. cbn in Hk2. discriminate.
  Qed.

  Lemma claim_of_ts h k m : In (h, (k, m)) (all_claims c is_ vs_ ts_) -> forall t, k = ts_rkey t ->
    exists k0 t2, In (k0, t2) ts_ /\ ts_rkey t2 = k /\ h = t_host t2.
  Proof.
    intros Hc t Hk. unfold all_claims in Hc. apply in_app_or in Hc. destruct Hc as [Hc|Hc]; [|apply in_app_or in Hc; destruct Hc as [Hc|Hc]].
    - exfalso. unfold ing_claims in Hc. apply in_flat_map in Hc. destruct Hc as ([k0 i2] & Hin & Hc). cbn [snd] in Hc.
      destruct (ing_claims_hosts c vs_ i2); [|destruct Hc]. apply in_map_iff in Hc. destruct Hc as (h' & Heq & Hh').
      injection Heq as _E1 Hk2 _E3. rewrite Hk in Hk2. unfold ts_rkey, ing_rkey in Hk2. cbn in Hk2. discriminate.
    - exfalso. unfold vs_claims in Hc. apply in_map_iff in Hc. destruct Hc as ([k0 v] & Heq & _). cbn [snd] in Heq.
      injection Heq as _E1 Hk2 _E3. rewrite Hk in Hk2. unfold vs_rkey, ts_rkey in Hk2. cbn in Hk2. discriminate.
    - unfold ts_claims in Hc. destruct (tls_passthrough c); [|destruct Hc]. apply in_filter_map in Hc.
      destruct Hc as ([k0 t2] & Hin & Hf). cbn [snd] in Hf. destruct (is_passthrough t2); inversion Hf; subst. exists k0, t2. auto.
  Qed.

  Lemma same_stored {A} (key_of : A -> string) (m : smap A) k1 k2 a b :
    wf m -> keyed key_of m -> In (k1, a) m -> In (k2, b) m -> key_of a = key_of b -> a = b.
  Proof.
    intros W K Ha Hb E. pose proof (K _ _ Ha). pose proof (K _ _ Hb). subst k1 k2. rewrite E in Ha.
    apply In_lookup in Ha; [|exact W]. apply In_lookup in Hb; [|exact W]. congruence.
  Qed.

  Theorem coherent_b_hosts : coherent (b_hosts B).
  Proof.
    constructor.
    - apply wf_b_hosts.
    - intros h1 h2 r1 r2 H1 H2 E. apply b_hosts_res in H1. apply b_hosts_res in H2. rewrite E in H1. congruence.
    - intros h ic Hh h'. pose proof (b_hosts_res _ _ Hh) as Hr. pose proof (b_res_shape _ _ Hr) as [(k0 & Hst) Hvh].
      rewrite Hvh, valid_hosts_true. split.
      + intros [_ (y & Hy & Hk)]. unfold B. rewrite b_hosts_lookup. fold hs. rewrite Hy, Hk. exact Hr.
      + intros Hh'. destruct (b_hosts_holder _ _ Hh') as (m & Hcl & Hhs). cbn [rkey kind_prefix res_meta] in Hcl, Hhs.
        destruct (claim_of_ing _ _ _ Hcl (ic_ing ic) eq_refl) as (k2 & i2 & Hin2 & Hk2 & Hh2).
        assert (i2 = ic_ing ic).
        { apply (same_stored (fun i => mkey (i_meta i)) is_ k2 k0 i2 (ic_ing ic) Wi Ki Hin2 Hst).
          unfold ing_rkey in Hk2. apply append_inj_l in Hk2. exact Hk2. }
        subst i2. split; [exact Hh2|]. exists ("Ingress/" ++ mkey (i_meta (ic_ing ic)), m). split; [exact Hhs|reflexivity].
    - intros h1 h2 r H1 H2 Hr. destruct r as [ic|vc|tc]; [destruct Hr| |].
      + assert (Hhost : forall h, lookup h (b_hosts B) = Some (RVS vc) -> h = v_host (vc_vs vc)).
        { intros h Hh. pose proof (b_hosts_res _ _ Hh) as Hres. pose proof (b_res_shape _ _ Hres) as (k0 & Hst).
          destruct (b_hosts_holder _ _ Hh) as (m & Hcl & _). cbn [rkey kind_prefix res_meta] in Hcl.
          destruct (claim_of_vs _ _ _ Hcl (vc_vs vc) eq_refl) as (k2 & v2 & Hin2 & Hk2 & Hh2).
          assert (v2 = vc_vs vc).
          { apply (same_stored (fun v => mkey (v_meta v)) vs_ k2 k0 v2 (vc_vs vc) Wv Kv Hin2 Hst).
            unfold vs_rkey in Hk2. apply append_inj_l in Hk2. exact Hk2. }
          subst v2. exact Hh2. }
        rewrite (Hhost _ H1), (Hhost _ H2). reflexivity.
      + assert (Hhost : forall h, lookup h (b_hosts B) = Some (RTS tc) -> h = t_host (tc_ts tc)).
        { intros h Hh. pose proof (b_hosts_res _ _ Hh) as Hres. pose proof (b_res_shape _ _ Hres) as (k0 & Hst).
          destruct (b_hosts_holder _ _ Hh) as (m & Hcl & _). cbn [rkey kind_prefix res_meta] in Hcl.
          destruct (claim_of_ts _ _ _ Hcl (tc_ts tc) eq_refl) as (k2 & t2 & Hin2 & Hk2 & Hh2).
          assert (t2 = tc_ts tc).
          { apply (same_stored (fun t => mkey (t_meta t)) ts_ k2 k0 t2 (tc_ts tc) Wt Kt Hin2 Hst).
            unfold ts_rkey in Hk2. apply append_inj_l in Hk2. exact Hk2. }
          subst t2. exact Hh2. }
        rewrite (Hhost _ H1), (Hhost _ H2). reflexivity.
  Qed.
End Build.



(* ---------- listener hosts ---------- *)

Lemma lookup_smap_map {A B} (f : A -> B) (m : smap A) h : lookup h (smap_map f m) = option_map f (lookup h m).
Proof.
  unfold smap_map. induction m as [|[k v] m IH]; cbn [map lookup fst snd]; [reflexivity|].
  destruct (String.eqb h k); cbn; auto.
Qed.

Lemma updated_lhosts_as_hosts a b : updated_hosts (smap_map RTS a) (smap_map RTS b) = updated_lhosts a b.
Proof.
  unfold updated_hosts, updated_lhosts.
  induction b as [|[h n] b IH]; [reflexivity|].
  change (smap_map RTS ((h, n) :: b)) with ((h, RTS n) :: smap_map RTS b).
  cbn [flat_map filter_map fst snd]. rewrite IH. rewrite lookup_smap_map.
  destruct (lookup h a) as [o|]; cbn [option_map]; [|reflexivity].
  unfold ts_is_equal. destruct (negb (is_equal (RTS o) (RTS n))); reflexivity.
Qed.

Section Listeners.
  Variables (g : option (list listener)) (ts_ : smap tserver).
  Hypothesis Wt : wf ts_.
  Hypothesis Kt : keyed (fun t => mkey (t_meta t)) ts_.
  Let L := lb_hosts (build_listeners g ts_).

  Lemma lb_hosts_shape h tc : lookup h L = Some tc ->
    (exists k0, In (k0, tc_ts tc) ts_) /\
    (exists m, In (h, (ts_rkey (tc_ts tc), m)) (lclaims g ts_)) /\
    forall h2 tc2, lookup h2 L = Some tc2 -> ts_rkey (tc_ts tc2) = ts_rkey (tc_ts tc) -> tc2 = tc.
  Proof.
    unfold L, build_listeners. pose proof (run_claims_fst lwarning (lclaims g ts_) []) as Hf.
    destruct (run_claims lwarning [] (lclaims g ts_)) as [hs ws]. cbn [fst] in Hf. cbn [lb_hosts]. subst hs.
    set (hs := fold_left claim1 (lclaims g ts_) []).
    set (cfgs := filter_map _ ts_). set (by_key := of_list (map (fun c0 => (ts_rkey (tc_ts c0), c0)) cfgs)).
    assert (Hbk : forall k c0, lookup k by_key = Some c0 -> k = ts_rkey (tc_ts c0) /\ In c0 cfgs).
    { intros k c0 H. apply of_list_lookup_in in H. apply in_map_iff in H. destruct H as (c1 & Heq & Hc1). inversion Heq; subst. auto. }
    assert (Hent : forall h0 c0, lookup h0 (filter_map (fun kv : string * hold => match lookup (fst (snd kv)) by_key with
                                                          | Some c1 => Some (fst kv, c1) | None => None end) hs) = Some c0 ->
                                 exists y, lookup h0 hs = Some y /\ lookup (fst y) by_key = Some c0).
    { intros h0 c0 H. apply lookup_In in H. apply in_filter_map in H. destruct H as ([h1 y] & Hin & Hfm). cbn [fst snd] in Hfm.
      destruct (lookup (fst y) by_key) as [c1|] eqn:Hc1; inversion Hfm; subst. exists y. split; [|exact Hc1].
      apply In_lookup; [|exact Hin]. apply wf_holders. constructor. }
    intros H. destruct (Hent _ _ H) as ([k m] & Hy & Hbk1). cbn [fst] in Hbk1. destruct (Hbk _ _ Hbk1) as [Hk Hin]. subst k.
    split; [|split].
    - unfold cfgs in Hin. apply in_filter_map in Hin. destruct Hin as ([k0 t] & Ht & Hfm). cbn [snd] in Hfm.
      destruct (is_listener_ts t); [|discriminate]. exists k0. destruct (ts_listener g t); inversion Hfm; subst; exact Ht.
    - exists m. apply holder_is_claim. exact Hy.
    - intros h2 tc2 H2 Hk2. destruct (Hent _ _ H2) as ([k2 m2] & _ & Hbk2). cbn [fst] in Hbk2.
      destruct (Hbk _ _ Hbk2) as [Hk2' _]. subst k2. rewrite Hk2 in Hbk2. congruence.
  Qed.

  Lemma lclaim_key h k m : In (h, (k, m)) (lclaims g ts_) -> exists k0 t l, In (k0, t) ts_ /\ k = ts_rkey t /\
                            ts_listener g t = Some l /\ h = lkey (l_name l) (t_host t).
  Proof.
    unfold lclaims. intros H. apply in_filter_map in H. destruct H as ([k0 t] & Ht & Hfm). cbn [snd] in Hfm.
    destruct (is_listener_ts t); [|discriminate]. destruct (ts_listener g t) as [l|] eqn:Hl; inversion Hfm; subst.
    exists k0, t, l. auto.
  Qed.

  Theorem coherent_lb_hosts : coherent (smap_map RTS L).
  Proof.
    constructor.
    - apply wf_smap_map. apply wf_lb_hosts.
    - intros h1 h2 r1 r2 H1 H2 E. rewrite lookup_smap_map in H1, H2.
      destruct (lookup h1 L) as [c1|] eqn:L1; [|discriminate]. destruct (lookup h2 L) as [c2|] eqn:L2; [|discriminate].
      cbn in H1, H2. inversion H1; inversion H2; subst. f_equal.
      destruct (lb_hosts_shape _ _ L2) as (_ & _ & Hsame). apply (Hsame h1 c1 L1).
      unfold rkey in E. cbn [kind_prefix res_meta] in E. unfold ts_rkey. exact E.
    - intros h ic H. rewrite lookup_smap_map in H. destruct (lookup h L); discriminate.
    - intros h1 h2 r H1 H2 _. rewrite lookup_smap_map in H1, H2.
      destruct (lookup h1 L) as [c1|] eqn:L1; [|discriminate]. destruct (lookup h2 L) as [c2|] eqn:L2; [|discriminate].
      cbn in H1, H2. assert (c1 = c2) by congruence. subst c2.
      destruct (lb_hosts_shape _ _ L1) as ((k0 & Hst) & (m1 & Hc1) & _). destruct (lb_hosts_shape _ _ L2) as (_ & (m2 & Hc2) & _).
      destruct (lclaim_key _ _ _ Hc1) as (ka & ta & la & Hta & Hka & Hla & ->).
      destruct (lclaim_key _ _ _ Hc2) as (kb & tb & lb & Htb & Hkb & Hlb & ->).
      assert (ta = tc_ts c1).
      { apply (same_stored (fun t => mkey (t_meta t)) ts_ ka k0 ta (tc_ts c1) Wt Kt Hta Hst).
        unfold ts_rkey in Hka. apply append_inj_l in Hka. congruence. }
      assert (tb = tc_ts c1).
      { apply (same_stored (fun t => mkey (t_meta t)) ts_ kb k0 tb (tc_ts c1) Wt Kt Htb Hst).
        unfold ts_rkey in Hkb. apply append_inj_l in Hkb. congruence. }
      subst ta tb. rewrite Hla in Hlb. inversion Hlb; subst. reflexivity.
  Qed.
End Listeners.



(* ---------- has_upd / has_del through the pipeline ---------- *)

Lemma has_upd_app k a b : has_upd k (a +++ b) = has_upd k a || has_upd k b.
Proof. unfold has_upd. apply existsb_app. Qed.
Lemma has_del_app k a b : has_del k (a +++ b) = has_del k a || has_del k b.
Proof. unfold has_del. apply existsb_app. Qed.

Lemma existsb_partition {A} (p q : A -> bool) l :
  existsb p (filter q l) || existsb p (filter (fun x => negb (q x)) l) = existsb p l.
Proof.
  induction l as [|x l IH]; cbn [filter existsb]; [reflexivity|].
  rewrite <- IH. destruct (q x); cbn [negb existsb]; destruct (p x); cbn [orb]; try reflexivity;
    destruct (existsb p (filter q l)); cbn; try reflexivity; destruct (existsb p (filter (fun x0 => negb (q x0)) l)); reflexivity.
Qed.

Lemma has_upd_odf k cs : has_upd k (order_deletes_first cs) = has_upd k cs.
Proof. unfold order_deletes_first. rewrite has_upd_app. unfold has_upd. apply existsb_partition. Qed.

Lemma has_del_odf k cs : has_del k (order_deletes_first cs) = has_del k cs.
Proof. unfold order_deletes_first. rewrite has_del_app. unfold has_del. apply existsb_partition. Qed.

Lemma has_repoint res cs k : (forall k0 r, lookup k0 res = Some r -> rkey r = k0) ->
  has_upd k (repoint res cs) = has_upd k cs /\ has_del k (repoint res cs) = has_del k cs.
Proof.
  intros Hk. unfold repoint, has_upd, has_del. induction cs as [|x l [IH1 IH2]]; cbn [map existsb]; [auto|].
  rewrite IH1, IH2.
  assert (E : ckey (match lookup (rkey (c_res x)) res with Some r => mkCh (c_op x) r (c_err x) | None => x end) = ckey x /\
              is_delete (match lookup (rkey (c_res x)) res with Some r => mkCh (c_op x) r (c_err x) | None => x end) = is_delete x).
  { destruct (lookup (rkey (c_res x)) res) as [r|] eqn:Hl; [|auto]. unfold ckey, is_delete. cbn. rewrite (Hk _ _ Hl). auto. }
  destruct E as [E1 E2]. rewrite E1, E2. auto.
Qed.

Lemma has_attach_error k0 : forall cs cs' k, attach_error k0 cs = Some cs' ->
  has_upd k cs' = has_upd k cs /\ has_del k cs' = has_del k cs.
Proof.
  induction cs as [|x l IH]; intros cs' k H; cbn [attach_error] in H; [discriminate|].
  destruct (String.eqb (rkey (c_res x)) k0).
  - inversion H; subst. unfold has_upd, has_del, ckey, is_delete. cbn. auto.
  - destruct (attach_error k0 l) as [l'|] eqn:Hl; [|discriminate]. inversion H; subst.
    destruct (IH l' k eq_refl) as [I1 I2]. unfold has_upd, has_del in *. cbn [existsb]. rewrite I1, I2. auto.
Qed.

Lemma has_wve b k0 u out k :
  has_upd k (snd (fst (with_validation_error b k0 u out))) = has_upd k (snd (fst out)) /\
  has_del k (snd (fst (with_validation_error b k0 u out))) = has_del k (snd (fst out)).
Proof.
  destruct out as [[s cs] ps]. unfold with_validation_error. destruct b; [|auto].
  destruct (attach_error k0 cs) as [cs'|] eqn:Ha; cbn [fst snd]; [|auto]. exact (has_attach_error k0 cs cs' k Ha).
Qed.

(* ---------- the combination of a listener batch and a host batch ---------- *)

Lemma combine_batches (sh : smap resource) (cs : list change) (b : bool)
      (KOh KOl KNh KNl : string -> Prop) (uh ul dh dl : string -> bool) :
  wf sh -> deletes_first cs b = true ->
  (forall k, In k (keys sh) <-> KOh k \/ KOl k) ->
  (forall k, KOh k -> KOl k -> False) ->
  (forall k, (uh k = true \/ (dh k = false /\ KOh k)) <-> KNh k) -> (forall k, dh k = true -> KOh k) ->
  (forall k, (ul k = true \/ (dl k = false /\ KOl k)) <-> KNl k) -> (forall k, dl k = true -> KOl k) ->
  (forall k, has_upd k cs = uh k || ul k) -> (forall k, has_del k cs = dh k || dl k) ->
  forall k, In k (keys (fold_left apply_change cs sh)) <-> KNh k \/ KNl k.
Proof.
  intros W Hdf Hsh Hdis Hh Hdh Hl Hdl Hu Hd k.
  rewrite (keys_after_batch cs sh k b W Hdf), Hu, Hd, Hsh, <- Hh, <- Hl.
  rewrite orb_true_iff, orb_false_iff. split.
  - intros [[H|H]|[[D1 D2] [H|H]]]; auto.
  - intros [[H|[D H]]|[H|[D H]]]; auto.
    + destruct (dl k) eqn:E; [exfalso; exact (Hdis k H (Hdl k E))|]. right. auto.
    + destruct (dh k) eqn:E; [exfalso; exact (Hdis k (Hdh k E) H)|]. right. auto.
Qed.



(* ---------- the two rebuilds, at the level of keys ---------- *)

Definition ok_objs (o : objs) : Prop := objs_ok o.

Lemma coherent_hosts_of_objs c o : objs_ok o -> coherent (hosts_of_objs c o).
Proof.
  intros (W1 & W2 & W3 & W4 & K1 & K2 & K3 & K4). unfold hosts_of_objs.
  apply coherent_b_hosts; assumption.
Qed.

Lemma coherent_lhosts_of_objs o : objs_ok o -> coherent (smap_map RTS (lhosts_of_objs o)).
Proof.
  intros (W1 & W2 & W3 & W4 & K1 & K2 & K3 & K4). unfold lhosts_of_objs. apply coherent_lb_hosts; assumption.
Qed.

Lemma squash_del_old old new k : has_del k (squash (raw_changes old new)) = true -> key_in old k.
Proof.
  rewrite (squash_has_del k _ (raw_df old new)). intros H. apply andb_true_iff in H. destruct H as [H _].
  apply raw_del in H. destruct H as (h & o & Ho & Hk & _). exists h, o. auto.
Qed.

Lemma rebuild_hosts_keys c s :
  coherent (hosts s) -> objs_ok (objs_of_state s) ->
  let cs := snd (fst (rebuild_hosts c s)) in
  hosts (fst (fst (rebuild_hosts c s))) = hosts_of_objs c (objs_of_state s) /\
  lhosts (fst (fst (rebuild_hosts c s))) = lhosts s /\
  deletes_first cs false = true /\
  (forall k, (has_upd k cs = true \/ (has_del k cs = false /\ key_in (hosts s) k)) <-> key_in (hosts_of_objs c (objs_of_state s)) k) /\
  (forall k, has_del k cs = true -> key_in (hosts s) k).
Proof.
  intros CO Hok. cbn zeta. split; [reflexivity|]. split; [reflexivity|].
  split; [apply (rebuild_hosts_deletes_first c s)|].
  unfold rebuild_hosts. cbn [fst snd].
  set (b := build c (ings s) (vss s) (vsrs s) (tss s) (gc s)).
  assert (Hk : forall k0 r, lookup k0 (b_res b) = Some r -> rkey r = k0) by (intros k0 r H; exact (b_res_key _ _ _ _ _ _ _ _ H)).
  fold (raw_changes (hosts s) (b_hosts b)).
  assert (CN : coherent (b_hosts b)) by (exact (coherent_hosts_of_objs c (objs_of_state s) Hok)).
  split.
  - intros k. destruct (has_repoint (b_res b) (squash (raw_changes (hosts s) (b_hosts b))) k Hk) as [-> ->].
    exact (hosts_keys_after (hosts s) (b_hosts b) CO CN k).
  - intros k. destruct (has_repoint (b_res b) (squash (raw_changes (hosts s) (b_hosts b))) k Hk) as [_ ->].
    apply squash_del_old.
Qed.

Lemma rebuild_listeners_keys s :
  coherent (smap_map RTS (lhosts s)) -> objs_ok (objs_of_state s) ->
  let cs := snd (fst (rebuild_listeners s)) in
  lhosts (fst (fst (rebuild_listeners s))) = lhosts_of_objs (objs_of_state s) /\
  hosts (fst (fst (rebuild_listeners s))) = hosts s /\
  deletes_first cs false = true /\
  (forall k, (has_upd k cs = true \/ (has_del k cs = false /\ key_in (smap_map RTS (lhosts s)) k)) <->
             key_in (smap_map RTS (lhosts_of_objs (objs_of_state s))) k) /\
  (forall k, has_del k cs = true -> key_in (smap_map RTS (lhosts s)) k).
Proof.
  intros CO Hok. cbn zeta. split; [reflexivity|]. split; [reflexivity|].
  split; [apply (rebuild_listeners_deletes_first s)|].
  unfold rebuild_listeners. cbn [fst snd].
  set (b := build_listeners (gc s) (tss s)).
  rewrite <- (updated_lhosts_as_hosts (lhosts s) (lb_hosts b)).
  fold (raw_changes (smap_map RTS (lhosts s)) (smap_map RTS (lb_hosts b))).
  assert (CN : coherent (smap_map RTS (lb_hosts b))) by (exact (coherent_lhosts_of_objs (objs_of_state s) Hok)).
  split.
  - intros k. exact (hosts_keys_after _ _ CO CN k).
  - intros k. apply squash_del_old.
Qed.



(* ---------- a TransportServer is either TLS passthrough (host arbitration) or bound to a listener ---------- *)

(* the TransportServer validator rejects the listener name tls-passthrough with any other protocol and vice
   versa; stored TransportServers passed it.  This is the only fact about validity the theorem needs. *)
Definition role_ok (t : tserver) : Prop := is_passthrough t = negb (is_listener_ts t).
Definition roles_ok (o : objs) : Prop := forall k t, In (k, t) (o_tss o) -> role_ok t.
Definition ev_role (e : event) : Prop := match e with ETS t _ _ => role_ok t | _ => True end.

Lemma roles_ok_event o e : ev_role e -> roles_ok o -> roles_ok (apply_event o e).
Proof.
  intros He Hr. destruct e; cbn [apply_event]; unfold roles_ok; cbn [o_tss]; try exact Hr.
  - intros k0 t0 Hin. unfold upd in Hin. destruct (cls && valid).
    + apply in_insert in Hin. destruct Hin as [[_ ->]|Hin]; [exact He|exact (Hr _ _ Hin)].
    + apply in_remove in Hin. exact (Hr _ _ Hin).
  - intros k0 t0 Hin. apply in_remove in Hin. exact (Hr _ _ Hin).
Qed.

Definition KH (c : cfg) (o : objs) (k : string) : Prop := key_in (hosts_of_objs c o) k.
Definition KL (o : objs) (k : string) : Prop := key_in (smap_map RTS (lhosts_of_objs o)) k.

Lemma hosts_ts_passthrough c o h tc : objs_ok o -> lookup h (hosts_of_objs c o) = Some (RTS tc) ->
  (exists k0, In (k0, tc_ts tc) (o_tss o)) /\ is_passthrough (tc_ts tc) = true.
Proof.
  intros (W1 & W2 & W3 & W4 & K1 & K2 & K3 & K4) Hh. unfold hosts_of_objs in Hh.
  apply (b_hosts_res c (o_ings o) (o_vss o) (o_vsrs o) (o_tss o) (o_gc o)) in Hh.
  unfold build in Hh. destruct (run_claims host_warning [] (all_claims c (o_ings o) (o_vss o) (o_tss o))) as [hs claim_ws].
  cbn [b_res] in Hh. apply of_list_lookup_in in Hh.
  apply in_app_or in Hh. destruct Hh as [H|H]; [|apply in_app_or in H; destruct H as [H|H]].
  - exfalso. apply in_filter_map in H. destruct H as ([k0 i] & _ & Hf). cbn [snd] in Hf.
    destruct (ing_claims_hosts c (o_vss o) i); [|discriminate].
    destruct (if is_master i then build_minions (o_ings o) (host0 i) else ([], [])) as [mins cw]. inversion Hf.
  - exfalso. apply in_map_iff in H. destruct H as ([k0 v] & Hf & _). cbn [snd] in Hf.
    destruct (build_vsrs (o_vsrs o) v (v_routes v)) as [rl w]. inversion Hf.
  - destruct (tls_passthrough c); [|destruct H].
    apply in_filter_map in H. destruct H as ([k0 t] & Ht & Hf). cbn [snd] in Hf.
    destruct (is_passthrough t) eqn:Hp; inversion Hf; subst. cbn [tc_ts]. split; [exists k0; exact Ht|exact Hp].
Qed.

Lemma lhosts_ts_listener o h tc : lookup h (lhosts_of_objs o) = Some tc ->
  (exists k0, In (k0, tc_ts tc) (o_tss o)) /\ is_listener_ts (tc_ts tc) = true.
Proof.
  unfold lhosts_of_objs, build_listeners. destruct (run_claims lwarning [] (lclaims (o_gc o) (o_tss o))) as [hs ws]. cbn [lb_hosts].
  intros H. apply lookup_In in H. apply in_filter_map in H. destruct H as ([h1 y] & _ & Hfm). cbn [fst snd] in Hfm.
  match type of Hfm with match lookup ?a ?b with _ => _ end = _ => destruct (lookup a b) as [c1|] eqn:Hc1 end; [|discriminate].
  inversion Hfm; subst. apply of_list_lookup_in in Hc1. apply in_map_iff in Hc1. destruct Hc1 as (c2 & Heq & Hc2). inversion Heq; subst.
  apply in_filter_map in Hc2. destruct Hc2 as ([k0 t] & Ht & Hf). cbn [snd] in Hf.
  destruct (is_listener_ts t) eqn:Hl; [|discriminate].
  destruct (ts_listener (o_gc o) t); inversion Hf; subst; cbn [tc_ts]; (split; [exists k0; exact Ht|exact Hl]).
Qed.

Lemma disjoint_roles c o k : objs_ok o -> roles_ok o -> KH c o k -> KL o k -> False.
Proof.
  intros Hok Hr (h & r & Hh & Hk) (h2 & r2 & Hl & Hk2).
  rewrite lookup_smap_map in Hl. destruct (lookup h2 (lhosts_of_objs o)) as [tc2|] eqn:L2; [|discriminate]. cbn in Hl. inversion Hl; subst r2.
  destruct r as [ic|vc|tc].
  - unfold rkey in Hk, Hk2. cbn [kind_prefix res_meta] in Hk, Hk2. rewrite <- Hk2 in Hk. cbn in Hk. discriminate.
  - unfold rkey in Hk, Hk2. cbn [kind_prefix res_meta] in Hk, Hk2. rewrite <- Hk2 in Hk. cbn in Hk. discriminate.
  - destruct (hosts_ts_passthrough c o h tc Hok Hh) as [(k1 & H1) Hp]. destruct (lhosts_ts_listener o h2 tc2 L2) as [(k2 & H2) Hli].
    destruct Hok as (W1 & W2 & W3 & W4 & K1 & K2 & K3 & K4).
    assert (tc_ts tc = tc_ts tc2).
    { apply (same_stored (fun t => mkey (t_meta t)) (o_tss o) k1 k2 _ _ W4 K4 H1 H2).
      unfold rkey in Hk, Hk2. cbn [kind_prefix res_meta] in Hk, Hk2. rewrite <- Hk2 in Hk. apply append_inj_l in Hk. exact Hk. }
    pose proof (Hr _ _ H1) as Hrole. unfold role_ok in Hrole. rewrite Hp, H, Hli in Hrole. discriminate.
Qed.



Definition keys_are (c : cfg) (o : objs) (sh : smap resource) : Prop :=
  wf sh /\ forall k, In k (keys sh) <-> KH c o k \/ KL o k.

Lemma wf_fold_apply cs : forall sh, wf sh -> wf (fold_left apply_change cs sh).
Proof. induction cs as [|x l IH]; intros sh W; cbn [fold_left]; [exact W|apply IH; apply wf_apply_change; exact W]. Qed.

(* a batch that behaves like the one of rebuildHosts (same updates and deletes per key) *)
Lemma keys_rebuild_hosts c s1 o sh cs :
  hosts s1 = hosts_of_objs c o -> objs_ok o -> roles_ok o -> objs_ok (objs_of_state s1) ->
  lhosts_of_objs (objs_of_state s1) = lhosts_of_objs o ->
  keys_are c o sh ->
  deletes_first cs false = true ->
  (forall k, has_upd k cs = has_upd k (snd (fst (rebuild_hosts c s1)))) ->
  (forall k, has_del k cs = has_del k (snd (fst (rebuild_hosts c s1)))) ->
  keys_are c (objs_of_state s1) (fold_left apply_change cs sh).
Proof.
  intros Hh Hok Hr Hok1 Hl [W Hsh] Hdf Hu Hd. split; [apply wf_fold_apply; exact W|].
  assert (CO : coherent (hosts s1)) by (rewrite Hh; apply coherent_hosts_of_objs; exact Hok).
  destruct (rebuild_hosts_keys c s1 CO Hok1) as (_ & _ & _ & Hiff & Hdel).
  apply (combine_batches sh cs false (KH c o) (KL o) (KH c (objs_of_state s1)) (KL (objs_of_state s1))
           (fun k => has_upd k (snd (fst (rebuild_hosts c s1)))) (fun _ => false)
           (fun k => has_del k (snd (fst (rebuild_hosts c s1)))) (fun _ => false) W Hdf Hsh).
  - intros k. apply disjoint_roles; assumption.
  - intros k. unfold KH. rewrite <- Hh. exact (Hiff k).
  - intros k H. unfold KH. rewrite <- Hh. exact (Hdel k H).
  - intros k. unfold KL. rewrite Hl. split; [intros [H|[_ H]]; [discriminate|exact H]|intros H; right; auto].
  - intros k H. discriminate.
  - intros k. rewrite Hu, orb_false_r. reflexivity.
  - intros k. rewrite Hd, orb_false_r. reflexivity.
Qed.

Lemma hosts_indep_tss c o o' : tls_passthrough c = false ->
  o_ings o' = o_ings o -> o_vss o' = o_vss o -> o_vsrs o' = o_vsrs o -> o_gc o' = o_gc o ->
  hosts_of_objs c o' = hosts_of_objs c o.
Proof.
  intros Hp E1 E2 E3 E4. unfold hosts_of_objs. rewrite E1, E2, E3, E4.
  rewrite (build_indep_tss c (o_ings o) (o_vss o) (o_vsrs o) (o_tss o') (o_tss o) (o_gc o) Hp). reflexivity.
Qed.

(* listeners then (with TLS passthrough) hosts: the batch of a TransportServer event *)
Lemma keys_rebuild_ts c s1 o sh cs :
  hosts s1 = hosts_of_objs c o -> lhosts s1 = lhosts_of_objs o -> objs_ok o -> roles_ok o ->
  objs_ok (objs_of_state s1) -> roles_ok (objs_of_state s1) ->
  (tls_passthrough c = false -> hosts_of_objs c (objs_of_state s1) = hosts_of_objs c o) ->
  keys_are c o sh ->
  deletes_first cs false = true ->
  (forall k, has_upd k cs = has_upd k (snd (fst (rebuild_ts c s1)))) ->
  (forall k, has_del k cs = has_del k (snd (fst (rebuild_ts c s1)))) ->
  keys_are c (objs_of_state s1) (fold_left apply_change cs sh).
Proof.
  intros Hh Hl Hok Hr Hok1 Hr1 Hind [W Hsh] Hdf Hu Hd. split; [apply wf_fold_apply; exact W|].
  assert (COl : coherent (smap_map RTS (lhosts s1))) by (rewrite Hl; apply coherent_lhosts_of_objs; exact Hok).
  destruct (rebuild_listeners_keys s1 COl Hok1) as (El & Eh & _ & Liff & Ldel).
  pose proof (objs_rebuild_listeners s1) as Eo.
  unfold rebuild_ts in Hu, Hd.
  destruct (rebuild_listeners s1) as [[s2 c1] p1] eqn:RL. cbn [fst snd] in *.
  destruct (tls_passthrough c) eqn:Hp.
  - assert (COh : coherent (hosts s2)) by (rewrite Eh, Hh; apply coherent_hosts_of_objs; exact Hok).
    assert (Hok2 : objs_ok (objs_of_state s2)) by (rewrite Eo; exact Hok1).
    destruct (rebuild_hosts_keys c s2 COh Hok2) as (_ & _ & _ & Hiff & Hdel).
    destruct (rebuild_hosts c s2) as [[s3 c2] p2] eqn:RH. cbn [fst snd] in *.
    apply (combine_batches sh cs false (KH c o) (KL o) (KH c (objs_of_state s1)) (KL (objs_of_state s1))
             (fun k => has_upd k c2) (fun k => has_upd k c1) (fun k => has_del k c2) (fun k => has_del k c1) W Hdf Hsh).
    + intros k. apply disjoint_roles; assumption.
    + intros k. unfold KH. rewrite <- Hh, <- Eh, <- Eo. exact (Hiff k).
    + intros k H. unfold KH. rewrite <- Hh, <- Eh. exact (Hdel k H).
    + intros k. unfold KL. rewrite <- Hl. exact (Liff k).
    + intros k H. unfold KL. rewrite <- Hl. exact (Ldel k H).
    + intros k. rewrite Hu, has_upd_odf, has_upd_app. apply orb_comm.
    + intros k. rewrite Hd, has_del_odf, has_del_app. apply orb_comm.
  - apply (combine_batches sh cs false (KH c o) (KL o) (KH c (objs_of_state s1)) (KL (objs_of_state s1))
             (fun _ => false) (fun k => has_upd k c1) (fun _ => false) (fun k => has_del k c1) W Hdf Hsh).
    + intros k. apply disjoint_roles; assumption.
    + intros k. unfold KH. rewrite (Hind eq_refl). split; [intros [H|[_ H]]; [discriminate|exact H]|intros H; right; auto].
    + intros k H. discriminate.
    + intros k. unfold KL. rewrite <- Hl. exact (Liff k).
    + intros k H. unfold KL. rewrite <- Hl. exact (Ldel k H).
    + intros k. rewrite Hu. reflexivity.
    + intros k. rewrite Hd. reflexivity.
Qed.

Lemma keys_rebuild_gc c s1 o sh :
  hosts s1 = hosts_of_objs c o -> lhosts s1 = lhosts_of_objs o -> objs_ok o -> roles_ok o ->
  objs_ok (objs_of_state s1) ->
  keys_are c o sh ->
  keys_are c (objs_of_state s1) (fold_left apply_change (snd (fst (rebuild_gc c s1))) sh).
Proof.
  intros Hh Hl Hok Hr Hok1 [W Hsh]. split; [apply wf_fold_apply; exact W|].
  assert (COl : coherent (smap_map RTS (lhosts s1))) by (rewrite Hl; apply coherent_lhosts_of_objs; exact Hok).
  destruct (rebuild_listeners_keys s1 COl Hok1) as (El & Eh & _ & Liff & Ldel).
  pose proof (objs_rebuild_listeners s1) as Eo. pose proof (rebuild_gc_deletes_first c s1) as Hdf. unfold batch_of in Hdf.
  unfold rebuild_gc in *.
  destruct (rebuild_listeners s1) as [[s2 c1] p1] eqn:RL. cbn [fst snd] in *.
  assert (COh : coherent (hosts s2)) by (rewrite Eh, Hh; apply coherent_hosts_of_objs; exact Hok).
  assert (Hok2 : objs_ok (objs_of_state s2)) by (rewrite Eo; exact Hok1).
  destruct (rebuild_hosts_keys c s2 COh Hok2) as (_ & _ & _ & Hiff & Hdel).
  destruct (rebuild_hosts c s2) as [[s3 c2] p2] eqn:RH. cbn [fst snd] in *.
  apply (combine_batches sh _ false (KH c o) (KL o) (KH c (objs_of_state s1)) (KL (objs_of_state s1))
           (fun k => has_upd k c2) (fun k => has_upd k c1) (fun k => has_del k c2) (fun k => has_del k c1) W Hdf Hsh).
  - intros k. apply disjoint_roles; assumption.
  - intros k. unfold KH. rewrite <- Hh, <- Eh, <- Eo. exact (Hiff k).
  - intros k H. unfold KH. rewrite <- Hh, <- Eh. exact (Hdel k H).
  - intros k. unfold KL. rewrite <- Hl. exact (Liff k).
  - intros k H. unfold KL. rewrite <- Hl. exact (Ldel k H).
  - intros k. rewrite has_upd_odf, has_upd_app. apply orb_comm.
  - intros k. rewrite has_del_odf, has_del_app. apply orb_comm.
Qed.



Lemma wve_batch b k u out kk :
  deletes_first (snd (fst out)) false = true ->
  deletes_first (snd (fst (with_validation_error b k u out))) false = true /\
  has_upd kk (snd (fst (with_validation_error b k u out))) = has_upd kk (snd (fst out)) /\
  has_del kk (snd (fst (with_validation_error b k u out))) = has_del kk (snd (fst out)).
Proof.
  intros H. split; [exact (wve_deletes_first b k u out H)|exact (has_wve b k u out kk)].
Qed.

(* one event *)
Lemma step_keys c s e sh :
  fn_inv c s -> objs_ok (objs_of_state s) -> roles_ok (objs_of_state s) -> ev_role e ->
  keys_are c (objs_of_state s) sh ->
  keys_are c (apply_event (objs_of_state s) e) (fold_left apply_change (snd (fst (step c s e))) sh).
Proof.
  intros [Hh Hl] Hok Hr He Hk.
  pose proof (objs_ok_event _ e Hok) as Hok'. pose proof (roles_ok_event _ e He Hr) as Hr'.
  destruct e as [i cls valid|k|v cls valid|k|r cls valid|k|t cls valid|k|ls x|]; cbn [step].
  - set (s1 := set_ings s _).
    assert (Eo : objs_of_state s1 = apply_event (objs_of_state s) (EIng i cls valid)) by reflexivity.
    rewrite <- Eo in *. pose proof (rebuild_hosts_deletes_first c s1) as Hdf. unfold batch_of in Hdf.
    apply (keys_rebuild_hosts c s1 (objs_of_state s) sh); auto.
    + exact (proj1 (wve_batch _ _ _ _ "" Hdf)).
    + intros k. exact (proj1 (proj2 (wve_batch _ _ _ _ k Hdf))).
    + intros k. exact (proj2 (proj2 (wve_batch _ _ _ _ k Hdf))).
  - destruct (mem k (ings s)) eqn:Hm.
    + set (s1 := set_ings s _).
      assert (Eo : objs_of_state s1 = apply_event (objs_of_state s) (EDelIng k)) by reflexivity.
      rewrite <- Eo in *. pose proof (rebuild_hosts_deletes_first c s1) as Hdf. unfold batch_of in Hdf.
      apply (keys_rebuild_hosts c s1 (objs_of_state s) sh); auto.
    + cbn [fst snd fold_left]. apply mem_false_lookup in Hm.
      unfold keys_are, KH, KL, hosts_of_objs, lhosts_of_objs in *. cbn [apply_event o_ings o_vss o_vsrs o_tss o_gc objs_of_state] in *.
      rewrite (remove_absent k (ings s) Hm). exact Hk.
  - set (s1 := set_vss s _).
    assert (Eo : objs_of_state s1 = apply_event (objs_of_state s) (EVS v cls valid)) by reflexivity.
    rewrite <- Eo in *. pose proof (rebuild_hosts_deletes_first c s1) as Hdf. unfold batch_of in Hdf.
    apply (keys_rebuild_hosts c s1 (objs_of_state s) sh); auto.
    + exact (proj1 (wve_batch _ _ _ _ "" Hdf)).
    + intros k. exact (proj1 (proj2 (wve_batch _ _ _ _ k Hdf))).
    + intros k. exact (proj2 (proj2 (wve_batch _ _ _ _ k Hdf))).
  - destruct (mem k (vss s)) eqn:Hm.
    + set (s1 := set_vss s _).
      assert (Eo : objs_of_state s1 = apply_event (objs_of_state s) (EDelVS k)) by reflexivity.
      rewrite <- Eo in *. pose proof (rebuild_hosts_deletes_first c s1) as Hdf. unfold batch_of in Hdf.
      apply (keys_rebuild_hosts c s1 (objs_of_state s) sh); auto.
    + cbn [fst snd fold_left]. apply mem_false_lookup in Hm.
      unfold keys_are, KH, KL, hosts_of_objs, lhosts_of_objs in *. cbn [apply_event o_ings o_vss o_vsrs o_tss o_gc objs_of_state] in *.
      rewrite (remove_absent k (vss s) Hm). exact Hk.
  - set (s1 := set_vsrs s _).
    assert (Eo : objs_of_state s1 = apply_event (objs_of_state s) (EVSR r cls valid)) by reflexivity.
    rewrite <- Eo in *. pose proof (rebuild_hosts_deletes_first c s1) as Hdf. unfold batch_of in Hdf.
    destruct (rebuild_hosts c s1) as [[s2 cs] ps] eqn:RH. cbn [fst snd] in *.
    replace cs with (snd (fst (rebuild_hosts c s1))) by (rewrite RH; reflexivity).
    apply (keys_rebuild_hosts c s1 (objs_of_state s) sh); auto. rewrite RH. exact Hdf.
  - destruct (mem k (vsrs s)) eqn:Hm.
    + set (s1 := set_vsrs s _).
      assert (Eo : objs_of_state s1 = apply_event (objs_of_state s) (EDelVSR k)) by reflexivity.
      rewrite <- Eo in *. pose proof (rebuild_hosts_deletes_first c s1) as Hdf. unfold batch_of in Hdf.
      apply (keys_rebuild_hosts c s1 (objs_of_state s) sh); auto.
    + cbn [fst snd fold_left]. apply mem_false_lookup in Hm.
      unfold keys_are, KH, KL, hosts_of_objs, lhosts_of_objs in *. cbn [apply_event o_ings o_vss o_vsrs o_tss o_gc objs_of_state] in *.
      rewrite (remove_absent k (vsrs s) Hm). exact Hk.
  - set (s1 := set_tss s _).
    assert (Eo : objs_of_state s1 = apply_event (objs_of_state s) (ETS t cls valid)) by reflexivity.
    rewrite <- Eo in *. pose proof (rebuild_ts_deletes_first c s1) as Hdf. unfold batch_of in Hdf.
    apply (keys_rebuild_ts c s1 (objs_of_state s) sh); auto.
    + intros Hp. apply hosts_indep_tss; auto.
    + exact (proj1 (wve_batch _ _ _ _ "" Hdf)).
    + intros k. exact (proj1 (proj2 (wve_batch _ _ _ _ k Hdf))).
    + intros k. exact (proj2 (proj2 (wve_batch _ _ _ _ k Hdf))).
  - destruct (mem k (tss s)) eqn:Hm.
    + set (s1 := set_tss s _).
      assert (Eo : objs_of_state s1 = apply_event (objs_of_state s) (EDelTS k)) by reflexivity.
      rewrite <- Eo in *. pose proof (rebuild_ts_deletes_first c s1) as Hdf. unfold batch_of in Hdf.
      apply (keys_rebuild_ts c s1 (objs_of_state s) sh); auto.
      intros Hp. apply hosts_indep_tss; auto.
    + cbn [fst snd fold_left]. apply mem_false_lookup in Hm.
      unfold keys_are, KH, KL, hosts_of_objs, lhosts_of_objs in *. cbn [apply_event o_ings o_vss o_vsrs o_tss o_gc objs_of_state] in *.
      rewrite (remove_absent k (tss s) Hm). exact Hk.
  - set (s1 := set_gc s _).
    assert (Eo : objs_of_state s1 = apply_event (objs_of_state s) (EGC ls x)) by reflexivity.
    rewrite <- Eo in *. apply (keys_rebuild_gc c s1 (objs_of_state s) sh); auto.
  - set (s1 := set_gc s _).
    assert (Eo : objs_of_state s1 = apply_event (objs_of_state s) EDelGC) by reflexivity.
    rewrite <- Eo in *. apply (keys_rebuild_gc c s1 (objs_of_state s) sh); auto.
Qed.

(* ---------- all histories ---------- *)

(* the shadow: what NGINX has been given, as a set of resource keys, when every batch is applied in order *)
Fixpoint shadow_run (c : cfg) (s : state) (sh : smap resource) (es : list event) : smap resource :=
  match es with
  | [] => sh
  | e :: r => shadow_run c (step_state c s e) (fold_left apply_change (snd (fst (step c s e))) sh) r
  end.

Lemma shadow_run_keys c : forall es s sh,
  fn_inv c s -> objs_ok (objs_of_state s) -> roles_ok (objs_of_state s) -> Forall ev_role es ->
  keys_are c (objs_of_state s) sh ->
  keys_are c (objs_of_state (fold_left (step_state c) es s)) (shadow_run c s sh es).
Proof.
  induction es as [|e r IH]; intros s sh Hf Hok Hr He Hk; cbn [fold_left shadow_run]; [exact Hk|].
  inversion He as [|? ? He1 He2]; subst.
  apply IH.
  - apply fn_inv_step. exact Hf.
  - rewrite step_objs. apply objs_ok_event. exact Hok.
  - rewrite step_objs. apply roles_ok_event; assumption.
  - exact He2.
  - rewrite step_objs. apply step_keys; assumption.
Qed.

Lemma keys_of_list_iff {A} (l : list (string * A)) k : In k (keys (of_list l)) <-> In k (map fst l).
Proof.
  rewrite in_keys_lookup. split.
  - intros H. destruct (lookup k (of_list l)) as [v|] eqn:E; [|congruence]. apply of_list_lookup_in in E.
    apply in_map_iff. exists (k, v). auto.
  - apply of_list_in_some.
Qed.

Lemma keys_get_resources c s k : fn_inv c s ->
  (In k (keys (get_resources s)) <-> KH c (objs_of_state s) k \/ KL (objs_of_state s) k).
Proof.
  intros [Hh Hl]. unfold get_resources. rewrite keys_of_list_iff, map_app, in_app_iff, !map_map. cbn [fst].
  assert (Wh : wf (hosts s)) by (rewrite Hh; unfold hosts_of_objs; apply wf_b_hosts).
  assert (Wl : wf (lhosts s)) by (rewrite Hl; unfold lhosts_of_objs; apply wf_lb_hosts).
  unfold KH, KL. rewrite <- Hh, <- Hl. unfold key_in. split.
  - intros [H|H]; apply in_map_iff in H; destruct H as ([h r] & Hk & Hin); cbn [snd] in Hk.
    + left. exists h, r. split; [apply In_lookup; assumption|exact Hk].
    + right. exists h, (RTS r). split; [|exact Hk]. rewrite lookup_smap_map. rewrite (In_lookup _ _ _ Wl Hin). reflexivity.
  - intros [(h & r & Hlk & Hk)|(h & r & Hlk & Hk)].
    + left. apply in_map_iff. exists (h, r). split; [exact Hk|apply lookup_In; exact Hlk].
    + right. rewrite lookup_smap_map in Hlk. destruct (lookup h (lhosts s)) as [tc|] eqn:E; [|discriminate]. cbn in Hlk. inversion Hlk as [Hr]. rewrite <- Hr in Hk.
      apply in_map_iff. exists (h, tc). split; [exact Hk|apply lookup_In; exact E].
Qed.

(* C03: for every history (whose TransportServers have one role each), after every event the set of
   resources NGINX has been given a configuration for -- the batches applied in order, a delete removing
   and an addOrUpdate (re)placing the resource's configuration -- is exactly the set of active resources
   GetResources() returns.  No active resource is missing, no removed resource lingers. *)
Theorem applied_keys_are_active c es :
  Forall ev_role es ->
  forall k, In k (keys (shadow_run c init [] es)) <-> In k (keys (get_resources (run c es))).
Proof.
  intros He k. rewrite (keys_get_resources c (run c es) k (run_fn_inv c es)).
  assert (H0 : keys_are c (objs_of_state init) []).
  { split; [constructor|]. intros k0. split; [intros []|].
    pose proof (fn_inv_init c) as [Hh Hl]. unfold KH, KL. rewrite <- Hh, <- Hl. cbn.
    intros [(h & r & Hx & _)|(h & r & Hx & _)]; discriminate. }
  assert (Hok0 : objs_ok (objs_of_state init)).
  { unfold objs_ok; cbn. repeat split; try constructor; intros ? ? []. }
  assert (Hr0 : roles_ok (objs_of_state init)) by (intros k0 t []).
  pose proof (shadow_run_keys c es init [] (fn_inv_init c) Hok0 Hr0 He H0) as [_ Hk].
  exact (Hk k).
Qed.



(* ---------- the whole history as one list of changes ---------- *)

Fixpoint all_changes (c : cfg) (s : state) (es : list event) : list change :=
  match es with
  | [] => []
  | e :: r => snd (fst (step c s e)) +++ all_changes c (step_state c s e) r
  end.

Lemma shadow_run_as_fold c : forall es s sh, shadow_run c s sh es = fold_left apply_change (all_changes c s es) sh.
Proof.
  induction es as [|e r IH]; intros s sh; cbn [shadow_run all_changes fold_left]; [reflexivity|].
  rewrite fold_left_app. apply IH.
Qed.

(* the operation of the last change about a key *)
Fixpoint last_op (k : string) (cs : list change) (acc : option op) : option op :=
  match cs with
  | [] => acc
  | x :: r => last_op k r (if String.eqb (ckey x) k then Some (c_op x) else acc)
  end.

Lemma keys_fold_last_op k : forall cs sh, wf sh ->
  (In k (keys (fold_left apply_change cs sh)) <->
   match last_op k cs None with
   | Some AddOrUpdate => True
   | Some Delete => False
   | None => In k (keys sh)
   end).
Proof.
  assert (Hacc : forall cs acc, last_op k cs acc = match last_op k cs None with Some o => Some o | None => acc end).
  { induction cs as [|x r IH]; intros acc; cbn [last_op]; [reflexivity|].
    rewrite (IH (if String.eqb (ckey x) k then Some (c_op x) else acc)), (IH (if String.eqb (ckey x) k then Some (c_op x) else None)).
    destruct (last_op k r None); [reflexivity|]. destruct (String.eqb (ckey x) k); reflexivity. }
  induction cs as [|x r IH]; intros sh W; cbn [fold_left last_op]; [tauto|].
  rewrite (IH (apply_change sh x) (wf_apply_change sh x W)).
  rewrite (Hacc r (if String.eqb (ckey x) k then Some (c_op x) else None)).
  destruct (last_op k r None) as [o|] eqn:Hl; [reflexivity|].
  rewrite (keys_apply_change sh x k W). destruct (String.eqb (ckey x) k); [|reflexivity].
  unfold is_delete. destruct (c_op x); split; auto; try discriminate; intros [].
Qed.

(* C05 (change level): for every history, a resource is active iff the most recent change the controller
   has been handed about it is an addOrUpdate *)
Theorem active_iff_last_change_is_update c es : Forall ev_role es ->
  forall k, In k (keys (get_resources (run c es))) <-> last_op k (all_changes c init es) None = Some AddOrUpdate.
Proof.
  intros He k. rewrite <- (applied_keys_are_active c es He k), shadow_run_as_fold.
  rewrite (keys_fold_last_op k (all_changes c init es) [] ltac:(constructor)).
  destruct (last_op k (all_changes c init es) None) as [[|]|]; split; try tauto; try discriminate; try (intros []); auto.
Qed.
