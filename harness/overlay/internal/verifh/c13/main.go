//go:build verif

// Correspondence harness for C13: drives the real verifyClient.WaitForCorrectVersion,
// LocalManager.Reload, LocalManager.Update(Stream)ServersInPlus and the version-file
// generator against scripted unix-socket endpoints, and writes the inputs together with
// the projected observables as JSON lines.
package main

import (
	"fmt"
	"net"
	"net/http"
	"os"
	"path/filepath"
	"strconv"
	"strings"
	"sync"
	"sync/atomic"
	"time"

	"github.com/nginx/kubernetes-ingress/internal/nginx"
	"github.com/nginx/kubernetes-ingress/internal/verifh/vh"
)

type Resp struct {
	Kind   string `json:"kind"` // "err" | "http" | "stall" (status line, headers and part of the body arrive, the rest never does)
	Status int    `json:"status"`
	Body   []int  `json:"body"`
	Lat    int    `json:"lat"`
}

type Case struct {
	Fam       string `json:"fam"` // wait | reload | api | conf
	ID        int    `json:"id"`
	Class     string `json:"class"`
	Expected  int    `json:"expected,omitempty"`
	TimeoutMs int    `json:"timeout_ms,omitempty"`
	Script    []Resp `json:"script,omitempty"`
	Tail      *Resp  `json:"tail,omitempty"`
	// reload family
	Reloads []ReloadStep `json:"reloads,omitempty"`
	Started bool         `json:"started,omitempty"` // the manager went through the real Start before the reloads
	Plus    bool         `json:"plus,omitempty"`    // NGINX Plus manager with its API clients set
	// api family
	Version int   `json:"version,omitempty"`
	Check   *Resp `json:"check,omitempty"`
	Stream  bool  `json:"stream,omitempty"`
	// conf family
	OpenTracing bool `json:"open_tracing,omitempty"`
	Obs         any  `json:"obs"`
}

type ReloadStep struct {
	ShellOK bool   `json:"shell_ok"`
	Script  []Resp `json:"script"`
	Tail    Resp   `json:"tail"`
	Endpoints bool `json:"endpoints,omitempty"` // Reload(isEndpointsUpdate=true): the fallback after a refused API push
}

type WaitObs struct {
	Result string `json:"result"` // ok | failed
	Idx    int    `json:"idx"`    // for ok: index of the request whose answer ended the wait
}

type ReloadObs struct {
	Result  string `json:"result"` // ok | shellfail | notconfirmed | other
	Version int    `json:"version"`
	File    []int  `json:"file"`
}

type APIObs struct {
	Called bool   `json:"called"`
	Header string `json:"header"`
	Err    bool   `json:"err"`
}

// ---------- scripted endpoint ----------

type server struct {
	ln     net.Listener
	srv    *http.Server
	script []Resp
	tail   Resp
	served atomic.Int64
	hdr    atomic.Value
	mu     sync.Mutex
}

func newServer(sock string, script []Resp, tail Resp) (*server, error) {
	os.Remove(sock)
	ln, err := net.Listen("unix", sock)
	if err != nil {
		return nil, err
	}
	s := &server{ln: ln, script: script, tail: tail}
	s.srv = &http.Server{Handler: http.HandlerFunc(s.handle)}
	s.srv.SetKeepAlivesEnabled(false)
	go s.srv.Serve(ln)
	return s, nil
}

func (s *server) set(script []Resp, tail Resp) {
	s.mu.Lock()
	s.script, s.tail = script, tail
	s.served.Store(0)
	s.mu.Unlock()
}

func (s *server) handle(w http.ResponseWriter, r *http.Request) {
	s.mu.Lock()
	i := int(s.served.Add(1)) - 1
	resp := s.tail
	if i < len(s.script) {
		resp = s.script[i]
	}
	s.mu.Unlock()
	s.hdr.Store(r.Header.Get("x-expected-config-version"))
	if resp.Lat > 0 {
		time.Sleep(time.Duration(resp.Lat) * time.Millisecond)
	}
	if resp.Kind == "err" {
		if hj, ok := w.(http.Hijacker); ok {
			if c, _, err := hj.Hijack(); err == nil {
				c.Close()
				return
			}
		}
		panic(http.ErrAbortHandler)
	}
	b := make([]byte, len(resp.Body))
	for k, v := range resp.Body {
		b[k] = byte(v)
	}
	if resp.Kind == "stall" {
		// the answer starts in time and never ends: more bytes are announced than are sent
		w.Header().Set("Content-Length", strconv.Itoa(len(b)+1))
		w.WriteHeader(resp.Status)
		w.Write(b)
		if f, ok := w.(http.Flusher); ok {
			f.Flush()
		}
		select {
		case <-r.Context().Done():
		case <-time.After(4 * time.Second):
		}
		return
	}
	w.Header().Set("Content-Length", strconv.Itoa(len(b)))
	w.WriteHeader(resp.Status)
	w.Write(b)
}

func (s *server) close() { s.srv.Close(); s.ln.Close() }

// ---------- generators ----------

func httpR(status int, body string, lat int) Resp {
	return Resp{Kind: "http", Status: status, Body: vh.Bytes(body), Lat: lat}
}

var garbage = []string{"", "x", "seven", " %d", "%d ", "%d\n", "%d.0", "0x%d", "%d_0", "1_%d", "--%d", "+-%d", "%dabc", "9223372036854775808", "-9223372036854775809", "\xef\xbc\x97", "1e3"}

// nonMatching returns a response that must not end the wait, and its model cost in ms.
func nonMatching(r *vh.Rng, e int) (Resp, int) {
	switch r.Intn(7) {
	case 0:
		return Resp{Kind: "err", Lat: 1}, 1
	case 1:
		st := vh.Pick(r, []int{500, 404, 204, 201, 301, 503, 202})
		body := strconv.Itoa(e)
		if st == 204 {
			body = ""
		}
		return httpR(st, body, 1), 1
	case 2, 3:
		g := vh.Pick(r, garbage)
		if strings.Contains(g, "%d") {
			g = fmt.Sprintf(g, e)
		}
		return httpR(200, g, 1), 1
	default:
		stale := vh.Pick(r, []int{e - 1, e + 1, 0, -e, e * 10, e - 2, e + 1000})
		if stale == e {
			stale = e + 7
		}
		return httpR(200, strconv.Itoa(stale), 1), 26
	}
}

func matching(r *vh.Rng, e int, lat int) Resp {
	forms := []string{"%d", "%d", "%d", "+%d", "00%d", "0%d"}
	if e < 0 {
		forms = []string{"%d"}
	}
	return httpR(200, fmt.Sprintf(vh.Pick(r, forms), e), lat)
}

func genScript(r *vh.Rng, e, timeout int, class string) ([]Resp, Resp) {
	var script []Resp
	tailNon, _ := nonMatching(r, e)
	switch class {
	case "early":
		budget := timeout - 250
		k := r.Intn(6)
		for i := 0; i < k; i++ {
			x, c := nonMatching(r, e)
			if c > budget {
				x, c = Resp{Kind: "err", Lat: 1}, 1
			}
			budget -= c + 2
			script = append(script, x)
		}
		script = append(script, matching(r, e, 1))
		if r.Bool() {
			return script, matching(r, e, 1)
		}
		return script, tailNon
	case "never":
		k := r.Intn(7)
		for i := 0; i < k; i++ {
			x, _ := nonMatching(r, e)
			script = append(script, x)
		}
		return script, tailNon
	case "late":
		spent := 0
		for spent < timeout+60 {
			x, c := nonMatching(r, e)
			if c < 26 && r.Chance(2, 3) {
				continue
			}
			script = append(script, x)
			if c >= 26 {
				spent += c
			}
		}
		script = append(script, matching(r, e, 1))
		return script, matching(r, e, 1)
	case "slowlate":
		// a few SLOW stale answers, each well inside the per-request deadline, that together take longer than the
		// wait may take; only then does the expected version appear: the wait must have been given up long before
		// (a wait bounded by a number of polls instead of by the clock acknowledges it)
		lat := 80 + r.Intn(40)
		n := (timeout+140)/lat + 1
		for i := 0; i < n; i++ {
			script = append(script, httpR(200, strconv.Itoa(e-1-i%2), lat))
		}
		script = append(script, matching(r, e, 1))
		return script, matching(r, e, 1)
	case "stall":
		k := r.Intn(4)
		for i := 0; i < k; i++ {
			x, _ := nonMatching(r, e)
			script = append(script, x)
		}
		// the expected version, but the body never completes: it must not count, and the wait must still end
		body := strconv.Itoa(e)
		script = append(script, Resp{Kind: "stall", Status: 200, Body: vh.Bytes(body[:len(body)-r.Intn(2)]), Lat: 1})
		return script, Resp{Kind: "stall", Status: 200, Body: vh.Bytes(body), Lat: 1}
	case "inflight":
		// seven stale answers (7 x 26 ms = 182 ms), then the expected version, slow: it is requested
		// about 220 ms before the deadline and answered about 30 ms after it; the per-request timeout
		// (= the wait timeout) is 150 ms away, so scheduling noise does not turn it into an error.
		for i := 0; i < 7; i++ {
			script = append(script, httpR(200, strconv.Itoa(e-1-i%2), 1))
		}
		script = append(script, matching(r, e, timeout-150))
		return script, tailNon
	}
	return script, tailNon
}

func genWait(r *vh.Rng, id int) Case {
	classes := []string{"early", "early", "early", "never", "never", "late", "inflight", "stall", "slowlate"}
	class := classes[id%len(classes)]
	e := vh.Pick(r, []int{1, 2, 7, 10, 42, 100, 1000, 99999, 0, -3})
	if class == "inflight" && e < 3 {
		e = 5
	}
	timeout := vh.Pick(r, []int{150, 180, 220})
	if class == "inflight" {
		timeout = 400
	}
	if class == "early" {
		// a quarter of a second of slack: the case must not depend on how busy the machine is
		timeout = vh.Pick(r, []int{400, 500})
	}
	script, tail := genScript(r, e, timeout, class)
	return Case{Fam: "wait", ID: id, Class: class, Expected: e, TimeoutMs: timeout, Script: script, Tail: &tail}
}

// ---------- runners ----------

func runWait(dir string, c *Case) error {
	sock := filepath.Join(dir, fmt.Sprintf("w%d.sock", c.ID))
	s, err := newServer(sock, c.Script, *c.Tail)
	if err != nil {
		return err
	}
	defer s.close()
	defer os.Remove(sock)
	vc := nginx.VerifNewVerifyClient(sock, time.Duration(c.TimeoutMs)*time.Millisecond)
	done := make(chan error, 1)
	go func() { done <- vc.Wait(c.Expected) }()
	select {
	case err = <-done:
	case <-time.After(3*time.Duration(c.TimeoutMs)*time.Millisecond + 1500*time.Millisecond):
		// neither acknowledged nor reported as failed: the wait is stuck
		c.Obs = WaitObs{Result: "hang", Idx: -1}
		return nil
	}
	served := int(s.served.Load())
	if err == nil {
		c.Obs = WaitObs{Result: "ok", Idx: served - 1}
	} else {
		c.Obs = WaitObs{Result: "failed", Idx: -1}
	}
	return nil
}

func genReload(r *vh.Rng, id int) Case {
	n := 1 + r.Intn(5)
	timeout := 400
	var steps []ReloadStep
	for i := 0; i < n; i++ {
		e := i + 1
		ok := !r.Chance(1, 4)
		class := vh.Pick(r, []string{"early", "early", "never", "late"})
		script, tail := genScript(r, e, timeout, class)
		steps = append(steps, ReloadStep{ShellOK: ok, Script: script, Tail: tail, Endpoints: r.Chance(1, 3)})
	}
	// half of the managers go through the real Start first (the stand-in binary exits at once, the version
	// socket serves the initial version 0): the configured timeout must still bound every reload after it
	c := Case{Fam: "reload", ID: id, Class: "seq", TimeoutMs: timeout, Reloads: steps, OpenTracing: r.Chance(1, 3), Started: r.Bool(), Plus: r.Chance(1, 3)}
	if c.Plus {
		c.Started = false // Start on Plus also launches the license reporter, which the harness does not have
	}
	return c
}

func runReload(dir, fakebin string, c *Case) error {
	root := filepath.Join(dir, fmt.Sprintf("r%d", c.ID))
	if err := os.MkdirAll(root, 0o755); err != nil {
		return err
	}
	defer os.RemoveAll(root)
	sock := filepath.Join(root, "v.sock")
	s, err := newServer(sock, nil, Resp{Kind: "err", Lat: 1})
	if err != nil {
		return err
	}
	defer s.close()
	lm := nginx.VerifNewLocalManager(root, sock, time.Duration(c.TimeoutMs)*time.Millisecond, c.Plus)
	if c.Plus {
		// the API clients are set, as after start-up on NGINX Plus: a reload is a reload all the same
		csock, asock := filepath.Join(root, "c.sock"), filepath.Join(root, "a.sock")
		cs, err := newServer(csock, nil, httpR(200, "", 1))
		if err != nil {
			return err
		}
		defer cs.close()
		as, err := newServer(asock, nil, httpR(404, `{"error":{"status":404,"text":"x","code":"UpstreamNotFound"}}`, 0))
		if err != nil {
			return err
		}
		defer as.close()
		if err := lm.VerifSetPlus(asock, csock); err != nil {
			return err
		}
	}
	lm.SetOpenTracing(c.OpenTracing)
	var obs []ReloadObs
	failFlag := filepath.Join(fakebin, "fail")
	os.Remove(failFlag)
	if c.Started {
		s.set(nil, httpR(200, "0", 1))
		lm.Start(make(chan error, 1))
	}
	for _, st := range c.Reloads {
		s.set(st.Script, st.Tail)
		os.Remove(failFlag)
		if !st.ShellOK {
			os.WriteFile(failFlag, []byte("1"), 0o644)
		}
		done := make(chan error, 1)
		ep := st.Endpoints
		go func() { done <- lm.Reload(ep) }()
		var err error
		select {
		case err = <-done:
		case <-time.After(3*time.Duration(c.TimeoutMs)*time.Millisecond + 1500*time.Millisecond):
			// neither acknowledged nor reported as failed: the manager is still waiting; the rest of the sequence cannot run
			os.Remove(failFlag)
			obs = append(obs, ReloadObs{Result: "hang", Version: lm.VerifConfigVersion()})
			s.set(nil, Resp{Kind: "err", Lat: 1})
			c.Obs = obs
			return nil
		}
		os.Remove(failFlag)
		res := "ok"
		if err != nil {
			switch {
			case strings.HasPrefix(err.Error(), "nginx reload failed"):
				res = "shellfail"
			case strings.HasPrefix(err.Error(), "could not get newest config version"):
				res = "notconfirmed"
			default:
				res = "other"
			}
		}
		b, _ := os.ReadFile(lm.VerifVersionFile())
		obs = append(obs, ReloadObs{Result: res, Version: lm.VerifConfigVersion(), File: vh.Bytes(string(b))})
	}
	c.Obs = obs
	return nil
}

func genAPI(r *vh.Rng, id int) Case {
	v := vh.Pick(r, []int{0, 1, 2, 3, 17})
	var chk Resp
	switch r.Intn(5) {
	case 0, 1:
		chk = httpR(200, vh.Pick(r, []string{"", "ok", "mismatch"}), 1)
	case 2:
		chk = Resp{Kind: "err", Lat: 1}
	default:
		chk = httpR(vh.Pick(r, []int{409, 500, 404, 204, 301, 201}), "", 1)
	}
	return Case{Fam: "api", ID: id, Class: chk.Kind + strconv.Itoa(chk.Status), Version: v, Check: &chk, TimeoutMs: 300, Stream: r.Bool()}
}

func runAPI(dir, fakebin string, c *Case) error {
	root := filepath.Join(dir, fmt.Sprintf("a%d", c.ID))
	if err := os.MkdirAll(root, 0o755); err != nil {
		return err
	}
	defer os.RemoveAll(root)
	vsock, csock, asock := filepath.Join(root, "v.sock"), filepath.Join(root, "c.sock"), filepath.Join(root, "a.sock")
	// version endpoint always confirms, so that Reload brings the counter to c.Version
	vs, err := newServer(vsock, nil, Resp{Kind: "err", Lat: 1})
	if err != nil {
		return err
	}
	defer vs.close()
	cs, err := newServer(csock, []Resp{*c.Check}, *c.Check)
	if err != nil {
		return err
	}
	defer cs.close()
	as, err := newServer(asock, nil, httpR(404, `{"error":{"status":404,"text":"x","code":"UpstreamNotFound"}}`, 0))
	if err != nil {
		return err
	}
	defer as.close()
	lm := nginx.VerifNewLocalManager(root, vsock, time.Duration(c.TimeoutMs)*time.Millisecond, true)
	if err := lm.VerifSetPlus(asock, csock); err != nil {
		return err
	}
	os.Remove(filepath.Join(fakebin, "fail"))
	for i := 1; i <= c.Version; i++ {
		vs.set(nil, httpR(200, strconv.Itoa(i), 0))
		if err := lm.Reload(false); err != nil {
			return fmt.Errorf("setup reload %d: %w", i, err)
		}
	}
	cs.hdr.Store("")
	if c.Stream {
		err = lm.UpdateStreamServersInPlus("ups", []string{"10.0.0.1:80"})
	} else {
		err = lm.UpdateServersInPlus("ups", []string{"10.0.0.1:80"}, nginx.ServerConfig{})
	}
	h, _ := cs.hdr.Load().(string)
	c.Obs = APIObs{Called: as.served.Load() > 0, Header: h, Err: err != nil}
	return nil
}

func genConf(r *vh.Rng, id int) Case {
	v := vh.Pick(r, []int{0, 1, 2, 9, 10, 11, 99, 100, 101, 12345, 1 << 31, 1<<62 + 12345, -1, -10})
	if r.Chance(1, 3) {
		v = r.Intn(1 << 30)
	}
	return Case{Fam: "conf", ID: id, Class: "conf", Version: v, OpenTracing: r.Bool()}
}

func runConf(c *Case) error {
	b, err := nginx.VerifGenerateVersionConfig(c.Version, c.OpenTracing)
	if err != nil {
		return err
	}
	c.Obs = map[string]any{"file": vh.Bytes(string(b))}
	return nil
}

func main() {
	a := vh.ParseArgs()
	work := os.Getenv("VERIF_WORK")
	if work == "" {
		work = "/verif/.work"
	}
	dir, err := os.MkdirTemp(work, "t13-")
	if err != nil {
		fmt.Fprintln(os.Stderr, err)
		os.Exit(3)
	}
	defer os.RemoveAll(dir)
	fakebin := filepath.Join(work, "fakebin")

	var cases []Case
	if a.Replay != "" {
		if err := vh.ReadReplay(a.Replay, &cases); err != nil {
			fmt.Fprintln(os.Stderr, err)
			os.Exit(3)
		}
	} else {
		root := vh.NewRng(a.Seed)
		id := 0
		add := func(n int, g func(*vh.Rng, int) Case) {
			for i := 0; i < n; i++ {
				cases = append(cases, g(root.Fork(uint64(id)), id))
				id++
			}
		}
		add(a.N, genWait)
		add(a.N/10+3, genReload)
		add(a.N/10+6, genAPI)
		add(a.N/10+6, genConf)
	}

	// wait cases in parallel (they only sleep), the others sequentially (shared fake binary)
	var wg sync.WaitGroup
	sem := make(chan struct{}, 12)
	var failed atomic.Int64
	for i := range cases {
		c := &cases[i]
		if c.Fam != "wait" {
			continue
		}
		wg.Add(1)
		sem <- struct{}{}
		go func() {
			defer wg.Done()
			defer func() { <-sem }()
			if err := runWait(dir, c); err != nil {
				fmt.Fprintf(os.Stderr, "case %d: %v\n", c.ID, err)
				c.Obs = map[string]any{"error": err.Error()}
			}
		}()
	}
	wg.Wait()
	for i := range cases {
		c := &cases[i]
		var err error
		switch c.Fam {
		case "reload":
			err = runReload(dir, fakebin, c)
		case "api":
			err = runAPI(dir, fakebin, c)
		case "conf":
			err = runConf(c)
		}
		if err != nil {
			fmt.Fprintf(os.Stderr, "case %d (%s): %v\n", c.ID, c.Fam, err)
			c.Obs = map[string]any{"error": err.Error()}
		}
	}
	w, err := vh.NewWriter(a.Out)
	if err != nil {
		fmt.Fprintln(os.Stderr, err)
		os.Exit(3)
	}
	for i := range cases {
		w.Emit(cases[i])
	}
	w.Close()
	if failed.Load() > 0 {
		os.Exit(4)
	}
}
