(* C12 -- No change left unapplied; no reload while reloads are held back.
   Only statements, each closed by [exact], each followed by Print Assumptions.

   Model: Reload.Model.  [step e s o] is one public Configurator operation, [run] a history of
   them, [sync] one LoadBalancerController.sync, [run_sync] a history of syncs.  The
   environment e = {plus; ro; ao} fixes NGINX Plus or OSS and gives the result of the i-th
   Reload call (ro i) and of the i-th Plus API call (ao i); every theorem quantifies over all
   such total functions, i.e. failures are injected at every call index. *)
From Coq Require Import List ZArith String Bool Arith.
From NIC Require Import Base.SMap Reload.Model Reload.Proofs Reload.ProofsCtl Reload.ProofsRetry.
From NIC Require Reload.Cases.
Import ListNotations.
Open Scope list_scope.

(* ---------------------------------------------------------------------------------------------
   1. No reload while reloads are held back.

   Full statement (FALSE of the code, see C12_no_reload_while_held_refuted):
     forall e os s, held_scan (negb (enabled s)) (trace (snd (run e s os))) <> None.
   held_scan h t scans the trace, h = reloads are held back; EEnable/EDisable are the public
   EnableReloads/DisableReloads calls; it is None exactly when a Reload or Plus API call occurs
   while held (C12_held_scan_meaning).  Proved for every history, from every state, with every
   fault placement, PROVIDED no operation is AddOrUpdateVirtualServer with weight updates. *)
Theorem C12_no_reload_while_held_partial :
  forall e os s,
    (forall o, In o os -> forces_enable e o = false) ->
    held_scan (negb (enabled s)) (trace (snd (run e s os))) = Some (negb (enabled (fst (run e s os)))).
Proof. exact no_reload_while_held_partial. Qed.
Print Assumptions C12_no_reload_while_held_partial.

(* with the repair of F15 (fixes/F15.diff: the weight updates wait for the reload that ends the
   window instead of forcing one) the full statement holds: every history, every state *)
Theorem C12_no_reload_while_held_fixed :
  forall e os s,
    fx_weights (fx e) = true ->
    held_scan (negb (enabled s)) (trace (snd (run e s os))) = Some (negb (enabled (fst (run e s os)))).
Proof. exact no_reload_while_held_fixed. Qed.
Print Assumptions C12_no_reload_while_held_fixed.

Theorem C12_held_scan_meaning :
  forall t h h', held_scan h t = Some h' ->
    forall pre x post, t = pre ++ x :: post -> is_reload x || is_api x = true -> held_scan h pre = Some false.
Proof. exact held_scan_sound. Qed.
Print Assumptions C12_held_scan_meaning.

(* F15: a fresh Configurator (reloads held back for start-up) reloads NGINX when
   AddOrUpdateVirtualServer meets a two-way split with DynamicWeightChangesReload, because the
   operation calls EnableReloads() itself.  The witness is replayed on the real code. *)
Theorem C12_no_reload_while_held_refuted :
  exists e os, fx e = no_fixes /\ held_scan (negb (enabled init)) (trace (snd (run e init os))) = None.
Proof. exact no_reload_while_held_refuted. Qed.
Print Assumptions C12_no_reload_while_held_refuted.

(* the same at the controller: over any history of syncs (task kinds, queue lengths, handler
   work, faults), between the controller's DisableReloads (batch start) or start-up and its
   EnableReloads no Reload and no API call happens -- with the same restriction *)
Theorem C12_ctl_no_reload_while_held_partial :
  forall e ts c,
    (forall t, In t ts -> forall o, In o (t_work t ++ t_all_pre t) -> forces_enable e o = false) ->
    held_scan (negb (enabled (cfg c))) (strace (snd (run_sync e c ts)))
    = Some (negb (enabled (cfg (fst (run_sync e c ts))))).
Proof. exact ctl_no_reload_while_held_partial. Qed.
Print Assumptions C12_ctl_no_reload_while_held_partial.

Theorem C12_ctl_no_reload_while_held_refuted :
  exists e ts, fx e = no_fixes /\ held_scan true (strace (snd (run_sync e ctl_init ts))) = None.
Proof. exact ctl_no_reload_while_held_refuted. Qed.
Print Assumptions C12_ctl_no_reload_while_held_refuted.

(* ---------------------------------------------------------------------------------------------
   2. Whenever reloads are enabled, an operation that changes a file applies the change.

   For every state, operation and fault placement: if the operation returns without error and
   reloads are enabled when it returns, then no change event of its log is left without a later
   successful Reload -- or (NGINX Plus, endpoints operations only) every API call of the
   operation succeeded and there was at least one.
   Exclusions, all explicit: EnableReloads/DisableReloads themselves (the caller reloads next,
   see 3); DeleteIngress/DeleteVirtualServer called with skipReload = true and
   ReloadForBatchUpdates(false) (the caller asked for no reload; only the batch operations of
   the Configurator itself use them); endpoints operations are given at least one resource and
   every resource has an upstream to push. *)
Theorem C12_applied_when_enabled :
  forall e s o s' x,
    step e s o = (s', x) -> enabled s' = true -> oerr x = ENone ->
    is_gate o = false -> skips o = false -> endp_pushes o = true ->
    applied (plus e && is_endp o) (log x) = true.
Proof. exact applied_when_enabled. Qed.
Print Assumptions C12_applied_when_enabled.

(* in terms of the ghost state: except for a Plus endpoints update, such an operation leaves
   nothing NGINX reads changed since the last successful reload ... *)
Theorem C12_returns_clean :
  forall e s o s' x,
    step e s o = (s', x) -> enabled s' = true -> oerr x = ENone ->
    is_gate o = false -> skips o = false -> plus e && is_endp o = false ->
    dirty s = false -> dirty s' = false.
Proof. exact returns_clean. Qed.
Print Assumptions C12_returns_clean.

(* ... where the ghost bit means what it says: over every history from a fresh Configurator it
   equals the scan of the whole trace, and when it is false the disk is exactly what NGINX
   loaded at its last successful reload *)
Theorem C12_dirty_is_scan :
  forall e os s, dirty (fst (run e s os)) = pend_scan (dirty s) (trace (snd (run e s os))).
Proof. exact dirty_is_scan. Qed.
Print Assumptions C12_dirty_is_scan.

Theorem C12_clean_means_loaded :
  forall e os, dirty (fst (run e init os)) = false ->
    files (fst (run e init os)) = loaded (fst (run e init os)).
Proof. exact clean_means_loaded. Qed.
Print Assumptions C12_clean_means_loaded.

(* ---------------------------------------------------------------------------------------------
   3. Once the queue drains NGINX is reloaded if and only if something changed.

   IF: over a whole batch (controller ready, batch begins with more than one queued item,
   continues while the queue is not empty, any task kinds, any handler work, any faults): when
   the queue drains, if any file changed during the batch, the draining sync ends with a Reload
   call -- which therefore follows every change of the batch -- the batch flag is down and
   reloads are enabled again.  Tasks are well-formed: an endpointslice task that found no
   resource does no Configurator work. *)
Theorem C12_batch_end :
  forall e mid c0 t1 tn,
    ready c0 = true -> batch c0 = false -> 1 < t_qlen t1 ->
    (forall t, In t mid -> 0 < t_qlen t) -> t_qlen tn = 0 ->
    (forall t, In t (t1 :: mid ++ [tn]) -> task_wf t) ->
    let '(c1, xs) := run_sync e c0 (t1 :: mid) in
    let '(c2, x) := sync e c1 tn in
    existsb is_change (strace xs ++ slog x) = true ->
    ends_with_reload (slog x) /\ batch c2 = false /\ enabled (cfg c2) = true.
Proof. exact batch_end. Qed.
Print Assumptions C12_batch_end.

(* ONLY IF is false of the code (F16a): a batch in which nothing NGINX reads changed, begun
   with nothing pending, still ends with a reload, because any non-endpointslice task raises
   enableBatchReload. *)
Theorem C12_batch_end_only_if_refuted :
  exists e ts c1 xs x,
    fx e = no_fixes /\
    run_sync e ctl_init ts = (c1, xs ++ [x]) /\
    dirty (cfg c1) = false /\
    existsb is_change (strace (skipn 1 (xs ++ [x]))) = false /\
    dirty (cfg (fst (run_sync e ctl_init (firstn 1 ts)))) = false /\
    existsb is_reload (slog x) = true.
Proof. exact batch_end_only_if_refuted. Qed.
Print Assumptions C12_batch_end_only_if_refuted.

(* (F16c) updateAllConfigsOnBatch is never reset: after one batch with a ConfigMap task, a
   later idle batch ends by rewriting the main configuration and reloading *)
Theorem C12_batch_end_updateall_sticky_refuted :
  exists e ts, let x := last (snd (run_sync e ctl_init ts)) {| slog := []; reported := false; swallowed := false |} in
    fx e = no_fixes /\
    existsb (fun y => match y with EWrite FMain _ _ => true | _ => false end) (slog x) = true /\
    existsb is_change (slog x) = false /\ existsb is_reload (slog x) = true.
Proof. exact uab_sticky_refuted. Qed.
Print Assumptions C12_batch_end_updateall_sticky_refuted.

(* with the repair of F16c (fixes/F16c.diff) the flag is down after every batch *)
Theorem C12_updateall_flag_reset_fixed :
  forall e c t, fx_uab (fx e) = true -> batch c = true -> t_qlen t = 0 -> uab (fst (sync e c t)) = false.
Proof. exact uab_reset_fixed. Qed.
Print Assumptions C12_updateall_flag_reset_fixed.

(* ---------------------------------------------------------------------------------------------
   4. A failed reload is returned to the caller and reported on the resources.

   Configurator: for every state, operation and fault placement the operation returns the
   reload error exactly when a Reload call of its log failed; and the ok flag of every Reload
   event of a history is the injected result for that call index. *)
Theorem C12_failure_propagates :
  forall e s o s' x,
    step e s o = (s', x) -> (existsb is_failed_reload (log x) = true <-> oerr x = EReloadFailed).
Proof. exact failure_propagates. Qed.
Print Assumptions C12_failure_propagates.

Theorem C12_reload_results_are_injected :
  forall e os pre endp ok post,
    trace (snd (run e init os)) = pre ++ EReload endp ok :: post -> ok = ro e (count_reloads pre).
Proof. exact reload_results_are_oracle. Qed.
Print Assumptions C12_reload_results_are_injected.

(* Controller, what holds: every failed Reload of a sync is reported on resources or swallowed
   (only logged); it is swallowed only when a batch ends through ReloadForBatchUpdates, or by a
   handler with nothing to report on: endpointslice tasks (F16d), deletions of vanished objects,
   updateAllConfigs with no resource and no ConfigMap *)
Theorem C12_ctl_failure_reported_or_swallowed_partial :
  forall e c t, let x := snd (sync e c t) in
    existsb is_failed_reload (slog x) = reported x || swallowed x.
Proof. exact ctl_failure_reported_or_swallowed. Qed.
Print Assumptions C12_ctl_failure_reported_or_swallowed_partial.

Theorem C12_ctl_swallowed_only_there :
  forall e c t, swallowed (snd (sync e c t)) = true ->
    (t_qlen t = 0 /\ batch c = true /\ batch (fst (sync e c t)) = false /\
     (fx_batchrep (fx e) = false \/ t_all t = []))
    \/ reports e t = false \/ t_all_reports t = false.
Proof. exact ctl_swallowed_only_there. Qed.
Print Assumptions C12_ctl_swallowed_only_there.

(* Controller, what fails (F16b): the reload that ends a batch fails and nothing is reported *)
Theorem C12_ctl_failure_propagates_refuted :
  exists e ts, let x := last (snd (run_sync e ctl_init ts)) {| slog := []; reported := false; swallowed := false |} in
    fx e = no_fixes /\ existsb is_failed_reload (slog x) = true /\ reported x = false /\ swallowed x = true.
Proof. exact ctl_failure_propagates_refuted. Qed.
Print Assumptions C12_ctl_failure_propagates_refuted.

(* with the repairs of F16b and F16d (fixes/F16b.diff, fixes/F16d.diff): every failed Reload of a
   sync is reported and none is swallowed, whenever there is an object to report on *)
Theorem C12_ctl_failure_reported_fixed :
  forall e c t,
    fx_batchrep (fx e) = true -> fx_endprep (fx e) = true ->
    (t_kind t <> TConfigMap -> t_reports t = true) -> t_all_reports t = true -> t_all t <> [] ->
    let x := snd (sync e c t) in
    reported x = existsb is_failed_reload (slog x) /\ swallowed x = false.
Proof. exact ctl_failure_reported_fixed. Qed.
Print Assumptions C12_ctl_failure_reported_fixed.

(* ---------------------------------------------------------------------------------------------
   Non-vacuity: a history that leaves the start-up window, changes files, meets a failed reload
   and a failed API call, and the hypotheses of the theorems above hold on it. *)
Definition ex_res (k : rk) (n : string) (v : Z) : res :=
  {| r_kind := k; r_name := n; r_ver := v; r_apis := [[(n ++ "_u0")%string; (n ++ "_u1")%string]]; r_weights := 0; r_pt := None |}.
Definition ex_env : env := {| plus := true; ro := fails_at [1]; ao := fails_at [2]; fx := no_fixes |}.
Definition ex_ops : list op :=
  [OAdd (ex_res KIng "default-a" 0); OEnable; OReloadForBatch true; OAdd (ex_res KVS "vs_default_v" 0);
   OEndpoints KVS [ex_res KVS "vs_default_v" 1]; OEndpoints KVS [ex_res KVS "vs_default_v" 2];
   ODisable; ODelete KIng "default-a" false; OEnable; OReloadForBatch true].

Example C12_nonvacuous_trace :
  trace (snd (run ex_env init ex_ops)) =
  [EWrite FConf "default-a" true; EEnable; EReload false true;
   EWrite FConf "vs_default_v" true; EReload false false;
   EWrite FConf "vs_default_v" true; EApi false "vs_default_v_u0" true; EApi false "vs_default_v_u1" true;
   EWrite FConf "vs_default_v" true; EApi false "vs_default_v_u0" false; EReload true true;
   EDisable; EDelete FConf "default-a" true; EEnable; EReload false true].
Proof. vm_compute. reflexivity. Qed.

Example C12_nonvacuous_hyps :
  forallb (fun o => negb (has_weights o)) ex_ops = true /\
  map (fun x => oerr x) (snd (run ex_env init ex_ops)) =
    [ENone; ENone; ENone; EReloadFailed; ENone; ENone; ENone; ENone; ENone; ENone] /\
  dirty (fst (run ex_env init ex_ops)) = false.
Proof. vm_compute. repeat split; reflexivity. Qed.

(* the exclusions of C12_applied_when_enabled are needed: DeleteIngress(key, skipReload = true)
   returns without error with reloads enabled and leaves its change unapplied (by contract: only
   the batch operations of the Configurator call it, and they reload afterwards) *)
Example C12_skip_reload_leaves_change :
  let '(s1, _) := run (env_ok false) init [OEnable; OAdd (ex_res KIng "default-a" 0)] in
  let '(s2, x) := step (env_ok false) s1 (ODelete KIng "default-a" true) in
  enabled s2 = true /\ oerr x = ENone /\ dirty s1 = false /\ dirty s2 = true /\ applied false (log x) = false.
Proof. vm_compute. repeat split; reflexivity. Qed.

(* Retry ("no change left unapplied" across a failed operation): an endpoints operation that returns
   without error with reloads enabled leaves nothing pending whatever was pending before it -- in
   particular the change written by a preceding endpoints operation whose API push and fall-back
   reload failed: its log ends in a successful reload or (Plus) is made of successful API pushes. *)
Theorem C12_endpoints_retry_clears_pending :
  forall e s k rs s' x p,
    step e s (OEndpoints k rs) = (s', x) ->
    enabled s' = true -> oerr x = ENone -> endp_pushes (OEndpoints k rs) = true ->
    negb (pend_scan p (log x)) || (plus e && forallb api_ok (log x) && existsb is_api (log x)) = true.
Proof. exact endpoints_clear_pending. Qed.
Print Assumptions C12_endpoints_retry_clears_pending.

(* The decidable clause S6 that is evaluated on the implementation's log holds of any two consecutive
   operations of the model, for every environment (every placement of reload and API failures). *)
Theorem C12_model_satisfies_retry_clause :
  forall e s po o s1 x1 s2 x2,
    step e s po = (s1, x1) -> step e s1 o = (s2, x2) -> endp_pushes o = true ->
    Reload.Cases.retry_ok (plus e) po (log x1, Reload.Cases.err_code (oerr x1), enabled s1)
                               o (log x2, Reload.Cases.err_code (oerr x2), enabled s2) = true.
Proof. exact model_retry_ok. Qed.
Print Assumptions C12_model_satisfies_retry_clause.

(* a batch of three tasks at the controller in which a file changes: the draining sync reloads *)
Definition ex_task (k : tkind) (q : nat) (w : list op) (f : bool) : task :=
  {| t_kind := k; t_qlen := q; t_work := w; t_found := f; t_reports := true; t_all_reports := true; t_all_pre := []; t_mainver := 0; t_all := [] |}.
Example C12_nonvacuous_batch :
  strace (snd (run_sync (env_ok false) ctl_init
     [ex_task TOther 0 [] false;
      ex_task TOther 2 [OAdd (ex_res KIng "default-a" 0)] false;
      ex_task TEndpointSlice 1 [OEndpoints KIng [ex_res KIng "default-a" 1]] true;
      ex_task TEndpointSlice 0 [] false])) =
  [EEnable; EWrite FMain "" true; EReload false true;
   EDisable; EWrite FConf "default-a" true; EWrite FConf "default-a" true; EEnable; EReload false true].
Proof. vm_compute. reflexivity. Qed.
