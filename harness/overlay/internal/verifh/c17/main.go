//go:build verif

// Correspondence harness for C17 (no object the API server can admit makes the controller panic).
//
// X, exhaustive over shapes: the list of shape descriptors is printed by Rocq from the
// enumerations of coq/Shapes/Model.v (file given with -shapes); every descriptor is
// materialised as a concrete object and fed, under recover, to the validators, the real
// Configuration (against an empty and against populated states), createExtendedResources +
// the real Configurator over the real templates, Delete*, and the worker's sync function,
// in every combination of the feature flags the model reads (the remaining flags rotate in
// the quick tier and are swept in the thorough tier).  The observed Ok/Rejected/Panic digits
// are compared with the model's by the driver, shape by shape.
//
// S, random stream: schema-admissible objects with values; observable: no panic.
package main

import (
	"context"
	"crypto/ecdsa"
	"crypto/elliptic"
	crand "crypto/rand"
	"crypto/x509"
	"crypto/x509/pkix"
	"encoding/json"
	"encoding/pem"
	"flag"
	"fmt"
	"io"
	"log/slog"
	"math/big"
	"math/bits"
	"os"
	"path/filepath"
	"reflect"
	"regexp"
	"runtime"
	"runtime/debug"
	"sort"
	"strconv"
	"strings"
	"sync"
	"time"

	cmapi "github.com/cert-manager/cert-manager/pkg/apis/certmanager/v1"
	cmfake "github.com/cert-manager/cert-manager/pkg/client/clientset/versioned/fake"
	cmlisters "github.com/cert-manager/cert-manager/pkg/client/listers/certmanager/v1"
	"github.com/nginx/kubernetes-ingress/internal/certmanager"
	"github.com/nginx/kubernetes-ingress/internal/externaldns"
	"github.com/nginx/kubernetes-ingress/internal/k8s"
	nl "github.com/nginx/kubernetes-ingress/internal/logger"
	"github.com/nginx/kubernetes-ingress/internal/verifh/vh"
	conf_v1 "github.com/nginx/kubernetes-ingress/pkg/apis/configuration/v1"
	extdnsapi "github.com/nginx/kubernetes-ingress/pkg/apis/externaldns/v1"
	k8sfake "github.com/nginx/kubernetes-ingress/pkg/client/clientset/versioned/fake"
	extdnslisters "github.com/nginx/kubernetes-ingress/pkg/client/listers/externaldns/v1"
	api_v1 "k8s.io/api/core/v1"
	discovery_v1 "k8s.io/api/discovery/v1"
	networking "k8s.io/api/networking/v1"
	meta_v1 "k8s.io/apimachinery/pkg/apis/meta/v1"
	k8sruntime "k8s.io/apimachinery/pkg/runtime"
	"k8s.io/apimachinery/pkg/types"
	"k8s.io/apimachinery/pkg/util/intstr"
	k8syaml "k8s.io/apimachinery/pkg/util/yaml"
	"k8s.io/client-go/tools/cache"
)

// ---------------------------------------------------------------- cases

type PanicInfo struct {
	Combo string `json:"combo"`
	Stage string `json:"stage"`
	Msg   string `json:"msg"`
	Site  string `json:"site"`
}

type FlagDiff struct {
	Other int    `json:"other"` // bit set of the flags the model does not read
	Obs   string `json:"obs"`
}

type Case struct {
	PtrFields []string        `json:"ptr_fields,omitempty"` // fam "inv": optional (pointer / map / slice-of-pointer) fields of the CRD types
	Fam       string          `json:"fam"`
	ID        int             `json:"id"`
	Shape     string          `json:"shape,omitempty"`
	Obs       string          `json:"obs"`
	FlagDiff  []FlagDiff      `json:"flagdiff,omitempty"`
	Panics    []PanicInfo     `json:"panics,omitempty"`
	Others    int             `json:"others,omitempty"` // how many settings of the remaining flags were run
	Kind      string          `json:"kind,omitempty"`   // random stream
	Flags     int             `json:"flags,omitempty"`
	Ctx       int             `json:"ctx,omitempty"`
	Object    json.RawMessage `json:"object,omitempty"`
	Admitted  *bool           `json:"admitted,omitempty"`
	Accepted  *bool           `json:"accepted,omitempty"` // random stream: the validator found no error
	Why       string          `json:"why,omitempty"`      // random stream: first validation error (diagnostic only)
	Tried     int             `json:"tried,omitempty"`    // adversarial values: objects run (value x flag setting)
	AccRuns   int             `json:"acc_runs,omitempty"` // adversarial values: of those, accepted by the validator and run through store/extend/generate
	Values    int             `json:"values,omitempty"`   // adversarial values: distinct values of the grammar put on this field
	Error     string          `json:"error,omitempty"`
}

// ---------------------------------------------------------------- flags

// bit order: plus, appProtect, appProtectDos, internalRoutes, snippets, certManager, tlsPassthrough
const (
	fPlus = 1 << iota
	fAppProtect
	fDos
	fInternal
	fSnippets
	fCertMgr
	fTLSPass
)

var repoRoot = func() string {
	if r := os.Getenv("VERIF_REPO"); r != "" {
		return r
	}
	return "/repo"
}()

var (
	tmplOnce sync.Once
	tmplOSS  *k8s.VerifC17Templates
	tmplPlus *k8s.VerifC17Templates
	tmplErr  error
)

func templates(plus bool) *k8s.VerifC17Templates {
	tmplOnce.Do(func() {
		tmplOSS, tmplErr = k8s.VerifC17LoadTemplates(repoRoot, false)
		if tmplErr == nil {
			tmplPlus, tmplErr = k8s.VerifC17LoadTemplates(repoRoot, true)
		}
	})
	if tmplErr != nil {
		fmt.Fprintf(os.Stderr, "c17: cannot parse the templates of %s: %v\n", repoRoot, tmplErr)
		os.Exit(4)
	}
	if plus {
		return tmplPlus
	}
	return tmplOSS
}

func newCtl(f int) *k8s.VerifC17 { return newCtlNS(f, "") }

// newCtlNS: watch = "" watches every namespace; otherwise only that namespace (-watch-namespace)
func newCtlNS(f int, watch string) *k8s.VerifC17 {
	o := k8s.VerifC17Opts{
		WatchNamespace: watch,
		IsPlus:         f&fPlus != 0, AppProtect: f&fAppProtect != 0, AppProtectDos: f&fDos != 0,
		InternalRoutes: f&fInternal != 0, Snippets: f&fSnippets != 0, CertManager: f&fCertMgr != 0,
		TLSPassthrough: f&fTLSPass != 0, ExternalDNS: f&fCertMgr != 0, OIDC: f&fPlus != 0, RepoRoot: repoRoot,
	}
	c := k8s.NewVerifC17(o, templates(o.IsPlus))
	fillListers(c)
	return c
}

// ---------------------------------------------------------------- recover

// guard runs f and returns "" or the panic text plus the innermost function of the
// kubernetes-ingress module on the panicking stack (not the harness, not the hook file).
func guard(f func()) (msg string, site string) {
	defer func() {
		if r := recover(); r != nil {
			msg = fmt.Sprint(r)
			site = panicSite()
		}
	}()
	f()
	return "", ""
}

func panicSite() string {
	pcs := make([]uintptr, 64)
	n := runtime.Callers(3, pcs)
	frames := runtime.CallersFrames(pcs[:n])
	for {
		fr, more := frames.Next()
		fn := fr.Function
		if strings.HasPrefix(fn, "github.com/nginx/kubernetes-ingress/") && !strings.Contains(fn, "/verifh/") &&
			!strings.Contains(fr.File, "zz_verif_") {
			return strings.TrimPrefix(fn, "github.com/nginx/kubernetes-ingress/")
		}
		if !more {
			break
		}
	}
	return "unknown"
}

// ---------------------------------------------------------------- fixtures

var t0 = time.Date(2024, 1, 1, 0, 0, 0, 0, time.UTC)

func meta(name string, created int) meta_v1.ObjectMeta {
	return meta_v1.ObjectMeta{Name: name, Namespace: "default", UID: types.UID(fmt.Sprintf("uid-%02d", created)),
		CreationTimestamp: meta_v1.NewTime(t0.Add(time.Duration(created) * time.Second)), Generation: 1}
}

const host1, host2 = "h1.example.com", "h2.example.com"

func fillListers(c *k8s.VerifC17) {
	tru := true
	p80 := int32(8080)
	pname := "http"
	_ = c.AddService(&api_v1.Service{ObjectMeta: meta("svc-a", 100), Spec: api_v1.ServiceSpec{
		ClusterIP: "10.0.0.1", Selector: map[string]string{"app": "a"},
		Ports: []api_v1.ServicePort{{Name: "http", Port: 80, TargetPort: intstr.FromInt(8080)}}}})
	sl := &discovery_v1.EndpointSlice{ObjectMeta: meta("svc-a-1", 101), AddressType: discovery_v1.AddressTypeIPv4,
		Endpoints: []discovery_v1.Endpoint{
			{Addresses: []string{"10.1.0.1"}, Conditions: discovery_v1.EndpointConditions{Ready: &tru},
				TargetRef: &api_v1.ObjectReference{Kind: "Pod", Namespace: "default", Name: "pod-a"}},
			{Addresses: []string{"10.1.0.2"}}, // ready nil, no targetRef
		},
		Ports: []discovery_v1.EndpointPort{{Name: &pname, Port: &p80}, {}}}
	sl.Labels = map[string]string{"kubernetes.io/service-name": "svc-a"}
	_ = c.AddSlice(sl)
	pod := &api_v1.Pod{ObjectMeta: meta("pod-a", 102), Status: api_v1.PodStatus{PodIP: "10.1.0.1"},
		Spec: api_v1.PodSpec{Containers: []api_v1.Container{{Name: "c", Ports: []api_v1.ContainerPort{{Name: "http", ContainerPort: 8080}}}}}}
	pod.Labels = map[string]string{"app": "a"}
	_ = c.AddPod(pod)
	_ = c.AddService(&api_v1.Service{ObjectMeta: meta("svc-ext", 103), Spec: api_v1.ServiceSpec{
		Type: api_v1.ServiceTypeExternalName, ExternalName: "ext.example.com",
		Ports: []api_v1.ServicePort{{Port: 80}}}})
}

func ctxVS() *conf_v1.VirtualServer {
	return &conf_v1.VirtualServer{ObjectMeta: meta("vs1", 0), Spec: conf_v1.VirtualServerSpec{
		IngressClass: "nginx", Host: host1,
		Upstreams: []conf_v1.Upstream{{Name: "u", Service: "svc-a", Port: 80}},
		Routes:    []conf_v1.Route{{Path: "/", Action: &conf_v1.Action{Pass: "u"}}}}}
}

func ctxMaster() *networking.Ingress {
	cls := "nginx"
	m := meta("a-master", 1)
	m.Annotations = map[string]string{"nginx.org/mergeable-ingress-type": "master"}
	return &networking.Ingress{ObjectMeta: m, Spec: networking.IngressSpec{IngressClassName: &cls,
		Rules: []networking.IngressRule{{Host: host1}}}}
}

func ctxMinion() *networking.Ingress {
	cls := "nginx"
	pt := networking.PathTypePrefix
	m := meta("a-minion", 2)
	m.Annotations = map[string]string{"nginx.org/mergeable-ingress-type": "minion"}
	return &networking.Ingress{ObjectMeta: m, Spec: networking.IngressSpec{IngressClassName: &cls,
		Rules: []networking.IngressRule{{Host: host1, IngressRuleValue: networking.IngressRuleValue{
			HTTP: &networking.HTTPIngressRuleValue{Paths: []networking.HTTPIngressPath{{Path: "/m", PathType: &pt,
				Backend: networking.IngressBackend{Service: &networking.IngressServiceBackend{Name: "svc-a",
					Port: networking.ServiceBackendPort{Number: 80}}}}}}}}}}}
}

// populate stores the objects of prior state number ctx through the real entry points.
// viaSync: through the worker's sync function (listers filled too), else straight into
// the Configuration.
func populate(c *k8s.VerifC17, ctx int, viaSync bool) {
	var objs []interface{}
	switch ctx {
	case 1:
		objs = []interface{}{ctxVS()}
	case 2:
		objs = []interface{}{ctxMaster(), ctxMinion()}
	case 3:
		objs = []interface{}{ctxMinion()}
	}
	for _, o := range objs {
		if viaSync {
			_ = c.Sync(o, false)
			continue
		}
		switch x := o.(type) {
		case *conf_v1.VirtualServer:
			c.Configuration().AddOrUpdateVirtualServer(x)
		case *networking.Ingress:
			c.Configuration().AddOrUpdateIngress(x)
		}
	}
}

// ---------------------------------------------------------------- Ingress shapes

// Shape codes (see coq/Shapes/Cases.v): 12 decimal digits 1 d t m c a n h s k k2 r2.
//
//	d default backend (0 none, 1 service, 2 resource, 3 neither); t tls; m mergeable type
//	(0 none, 1 master, 2 minion, 3 garbage); c challenge label; a annotations; n number of
//	rules; h http of rule 1 (0 nil, 1 no paths, 2 one path, 3 two paths); s pathType shape of
//	the first path (0 no pathType + "/p", 1 ImplementationSpecific + "", 2 Prefix + "/p");
//	k, k2 backends of the paths; r2 second rule (0 nil http, 1-3 backend of its one path).
func backendOf(k byte, svc string) networking.IngressBackend {
	switch k {
	case '1':
		return networking.IngressBackend{Service: &networking.IngressServiceBackend{Name: svc, Port: networking.ServiceBackendPort{Number: 80}}}
	case '2':
		g := "k8s.example.com"
		return networking.IngressBackend{Resource: &api_v1.TypedLocalObjectReference{APIGroup: &g, Kind: "StorageBucket", Name: "bucket"}}
	}
	return networking.IngressBackend{}
}

func pathOf(s byte, k byte, p string, svc string) networking.HTTPIngressPath {
	impl, pre := networking.PathTypeImplementationSpecific, networking.PathTypePrefix
	switch s {
	case '0':
		return networking.HTTPIngressPath{Path: p, Backend: backendOf(k, svc)}
	case '1':
		return networking.HTTPIngressPath{Path: "", PathType: &impl, Backend: backendOf(k, svc)}
	}
	return networking.HTTPIngressPath{Path: p, PathType: &pre, Backend: backendOf(k, svc)}
}

func ingressOfShape(d string) (*networking.Ingress, error) {
	bad := fmt.Errorf("bad ingress shape code %q", d)
	if len(d) != 12 || d[0] != '1' {
		return nil, bad
	}
	cls := "nginx"
	ing := &networking.Ingress{ObjectMeta: meta("z-new", 9), Spec: networking.IngressSpec{IngressClassName: &cls}}
	if d[1] != '0' {
		b := backendOf(d[1], "svc-d")
		ing.Spec.DefaultBackend = &b
	}
	if d[2] == '1' {
		ing.Spec.TLS = []networking.IngressTLS{{Hosts: []string{host1}, SecretName: "tls-secret"}}
	}
	ann := map[string]string{}
	switch d[3] {
	case '1':
		ann["nginx.org/mergeable-ingress-type"] = "master"
	case '2':
		ann["nginx.org/mergeable-ingress-type"] = "minion"
	case '3':
		ann["nginx.org/mergeable-ingress-type"] = "bogus"
	}
	if d[4] == '1' {
		ing.Labels = map[string]string{"acme.cert-manager.io/http01-solver": "true"}
	}
	switch d[5] {
	case '1':
		ann["nginx.org/use-cluster-ip"] = "true"
	case '2':
		ann["nginx.org/use-cluster-ip"] = "true"
		ann["nginx.com/health-checks"] = "true"
	}
	if len(ann) > 0 {
		ing.Annotations = ann // otherwise the map stays nil
	}
	n, h, sp, k, k2, r2 := d[6], d[7], d[8], d[9], d[10], d[11]
	if n == '0' {
		return ing, nil
	}
	var http *networking.HTTPIngressRuleValue
	switch h {
	case '0':
	case '1':
		http = &networking.HTTPIngressRuleValue{Paths: []networking.HTTPIngressPath{}}
	case '2':
		http = &networking.HTTPIngressRuleValue{Paths: []networking.HTTPIngressPath{pathOf(sp, k, "/p", "svc-a")}}
	case '3':
		http = &networking.HTTPIngressRuleValue{Paths: []networking.HTTPIngressPath{pathOf(sp, k, "/p", "svc-a"), pathOf('2', k2, "/q", "svc-b")}}
	default:
		return nil, bad
	}
	ing.Spec.Rules = []networking.IngressRule{{Host: host1, IngressRuleValue: networking.IngressRuleValue{HTTP: http}}}
	if n == '2' {
		rr := networking.IngressRule{Host: host2}
		if r2 != '0' {
			rr.HTTP = &networking.HTTPIngressRuleValue{Paths: []networking.HTTPIngressPath{pathOf('2', r2, "/p", "svc-a")}}
		}
		ing.Spec.Rules = append(ing.Spec.Rules, rr)
	}
	return ing, nil
}

const ingKey = "default/z-new"

// pool keeps, per worker goroutine, populated controllers keyed by (flags, prior state, via
// sync): in the quick tier a controller is reused for the next shape as long as nothing
// panicked on it (every scenario ends by deleting the object under test, which restores the
// prior state); any scenario that shows a panic is re-run on fresh controllers and the fresh
// result is what is reported.  The thorough tier and replays always use fresh controllers.
type pool map[[3]int]*k8s.VerifC17

// followUps: after an object went through the worker's sync function without a panic, the
// event-driven entry points that re-walk the stored objects are run on the same controller:
// EndpointSlice, Service and Secret events for everything the fixtures reference (the real
// syncEndpointSlices / syncService / syncSecret), then the Configurator's endpoint updates
// directly (with NGINX Plus: updatePlusEndpoints, createUpstreamsForPlus and the Plus API of the
// FakeManager), AddOrUpdateResources, a ConfigMap update (updateAllConfigs -> UpdateConfig) and
// the reference checkers.  The first panic is returned with the entry point's name.
func followUps(c *k8s.VerifC17) (entry, msg, site string) {
	tru := true
	p80 := int32(8080)
	pname := "http"
	for _, svc := range []string{"svc-a", "svc-b", "svc-d", "svc-ext"} {
		sl := &discovery_v1.EndpointSlice{ObjectMeta: meta(svc+"-ev", 140), AddressType: discovery_v1.AddressTypeIPv4,
			Endpoints: []discovery_v1.Endpoint{{Addresses: []string{"10.1.0.9"}, Conditions: discovery_v1.EndpointConditions{Ready: &tru}}},
			Ports:     []discovery_v1.EndpointPort{{Name: &pname, Port: &p80}}}
		sl.Labels = map[string]string{"kubernetes.io/service-name": svc}
		if m, s := guard(func() { _ = c.Sync(sl, false) }); m != "" {
			return "syncEndpointSlices(" + svc + ")", m, s
		}
		sv := &api_v1.Service{ObjectMeta: meta(svc, 100), Spec: api_v1.ServiceSpec{ClusterIP: "10.0.0.7", Selector: map[string]string{"app": "a"},
			Ports: []api_v1.ServicePort{{Name: "http", Port: 80, TargetPort: intstr.FromInt(8080)}}}}
		if m, s := guard(func() { _ = c.Sync(sv, false) }); m != "" {
			return "syncService(" + svc + ")", m, s
		}
	}
	crt, key := selfSigned()
	for _, sec := range []*api_v1.Secret{
		{ObjectMeta: meta("tls-secret", 110), Type: api_v1.SecretTypeTLS, Data: map[string][]byte{"tls.crt": crt, "tls.key": key}},
		{ObjectMeta: meta("htpasswd-secret", 110), Type: "nginx.org/htpasswd", Data: map[string][]byte{"htpasswd": []byte("u:$apr1$x$z")}},
		{ObjectMeta: meta("apikey-secret", 110), Type: "nginx.org/apikey", Data: map[string][]byte{"client1": []byte("k")}},
	} {
		if m, s := guard(func() { _ = c.Sync(sec, false) }); m != "" {
			return "syncSecret(" + sec.Name + ")", m, s
		}
	}
	for _, n := range k8s.VerifC17FollowUps {
		if m, s := guard(func() { _ = c.FollowUp(n) }); m != "" {
			return n, m, s
		}
	}
	return "", "", ""
}

func followUpsIf(cond bool, c *k8s.VerifC17) (string, string, string) {
	if !cond {
		return "", "", ""
	}
	return followUps(c)
}

// safePopulate: a panic while the (valid, admissible) objects of the prior state are being
// stored is returned to the caller, which reports it against the scenario.
func safePopulate(c *k8s.VerifC17, ctx int, viaSync bool) (string, string) {
	return guard(func() { populate(c, ctx, viaSync) })
}

func (p pool) get(f, ctx int, viaSync bool) (*k8s.VerifC17, string, string) {
	if p == nil {
		c := newCtl(f)
		m, s := safePopulate(c, ctx, viaSync)
		return c, m, s
	}
	v := 0
	if viaSync {
		v = 1
	}
	k := [3]int{f, ctx, v}
	if c, ok := p[k]; ok {
		return c, "", ""
	}
	c := newCtl(f)
	if m, s := safePopulate(c, ctx, viaSync); m != "" {
		return c, m, s
	}
	p[k] = c
	return c, "", ""
}

func (p pool) drop(f, ctx int, viaSync bool) {
	if p == nil {
		return
	}
	v := 0
	if viaSync {
		v = 1
	}
	delete(p, [3]int{f, ctx, v})
}

// runIngOnce: one Ingress object, one flag setting, one prior state -> 5 digits
// (validate, store, extend+generate, delete, sync); 0 ok, 1 rejected, 2 panic.
func runIngOnce(p pool, ing *networking.Ingress, f int, ctx int, combo string, panics *[]PanicInfo) string {
	var mine []PanicInfo
	out := []byte("00000")
	note := func(stage int, name, msg, site string) {
		out[stage] = '2'
		mine = append(mine, PanicInfo{Combo: combo, Stage: name, Msg: msg, Site: site})
	}
	c, pm, ps := p.get(f, ctx, false)
	if pm != "" { // storing the prior state (valid, admissible objects) panicked
		for st := range out {
			out[st] = '2'
		}
		*panics = append(*panics, PanicInfo{Combo: combo, Stage: "prior-state", Msg: pm, Site: ps})
		return string(out)
	}
	// validator alone
	var nerr int
	if m, s := guard(func() { nerr = c.ValidateIngress(ing.DeepCopy()) }); m != "" {
		note(0, "validate", m, s)
	} else if nerr > 0 {
		out[0] = '1'
	}
	// arbitration against the prior state, then extension/generation, then deletion
	obj := ing.DeepCopy()
	var rejected bool
	m, s := guard(func() {
		ch, pr := c.Configuration().AddOrUpdateIngress(obj)
		_, _, we := k8s.VerifC17ChangeSummary(ch)
		rejected = we || k8s.VerifC17Rejected(pr)
	})
	if m != "" {
		note(1, "store", m, s)
	} else {
		if rejected {
			out[1] = '1'
		}
		if m, s := guard(func() { c.ExtendAll() }); m != "" {
			note(2, "extend", m, s)
		}
		if m, s := guard(func() { c.Configuration().DeleteIngress(ingKey) }); m != "" {
			note(3, "delete", m, s)
		}
	}
	// the worker's own path: add, then remove
	// the worker's own path: add, (for an accepted object: the event-driven follow-ups,) remove.
	// An accepted object gets a fresh controller, so that what the follow-up events add to the
	// listers does not leak into the next shape.
	accepted := out[1] == '0' && len(mine) == 0
	p2 := p
	if accepted {
		p2 = nil
	}
	c2, pm2, ps2 := p2.get(f, ctx, true)
	obj2 := ing.DeepCopy()
	if pm2 != "" {
		note(4, "prior-state", pm2, ps2)
	} else if m, s := guard(func() { _ = c2.Sync(obj2, false) }); m != "" {
		note(4, "sync", m, s)
	} else if e, m, s := followUpsIf(accepted, c2); m != "" {
		note(4, "followup:"+e, m, s)
	} else if m, s := guard(func() { _ = c2.Sync(obj2, true) }); m != "" {
		note(4, "sync-delete", m, s)
	}
	if len(mine) > 0 && p != nil {
		p.drop(f, ctx, false)
		p.drop(f, ctx, true)
		return runIngOnce(nil, ing, f, ctx, combo, panics)
	}
	*panics = append(*panics, mine...)
	return string(out)
}

// model-relevant flag settings of the Ingress pipeline, in the order of Model.all_iflags
var ingFlagCombos = []int{0, fCertMgr, fPlus, fPlus | fCertMgr}

// the flags the Ingress model does not read
var ingOtherBits = []int{fAppProtect, fDos, fInternal, fSnippets, fTLSPass}

func otherSetting(i int, bits []int) int {
	f := 0
	for b, bit := range bits {
		if i&(1<<b) != 0 {
			f |= bit
		}
	}
	return f
}

func runIngShape(p pool, id int, d string, thorough bool) Case {
	cs := Case{Fam: "ing", ID: id, Shape: d}
	ing, err := ingressOfShape(d)
	if err != nil {
		cs.Error = err.Error()
		return cs
	}
	nOther := 1 << len(ingOtherBits)
	settings := []int{id % nOther}
	if thorough {
		settings = settings[:0]
		for i := 0; i < nOther; i++ {
			settings = append(settings, i)
		}
	}
	cs.Others = len(settings)
	for si, oi := range settings {
		other := otherSetting(oi, ingOtherBits)
		var sb strings.Builder
		for _, fc := range ingFlagCombos {
			for ctx := 0; ctx < 4; ctx++ {
				combo := fmt.Sprintf("flags=%d ctx=%d", fc|other, ctx)
				sb.WriteString(runIngOnce(p, ing, fc|other, ctx, combo, &cs.Panics))
			}
		}
		if si == 0 {
			cs.Obs = sb.String()
		} else if sb.String() != cs.Obs {
			cs.FlagDiff = append(cs.FlagDiff, FlagDiff{Other: other, Obs: sb.String()})
		}
	}
	if len(cs.Panics) > 6 {
		cs.Panics = cs.Panics[:6]
	}
	if len(cs.Panics) > 0 { // the panicking object itself, for the replay file
		cs.Kind = "Ingress"
		cs.Object, _ = json.Marshal(ing)
	}
	return cs
}

// ---------------------------------------------------------------- driver

// allIngDescrs enumerates the Ingress shape space of coq/Shapes/Model.v (all_ing_shapes).
// The order is irrelevant: every case carries its code, Rocq decodes it, and the driver
// checks that the number of distinct codes equals the length of the Rocq enumeration.
func allIngDescrs() []string {
	ks := []string{"1", "2", "3"}
	https := []string{"0000", "1000"}
	for _, s := range []string{"0", "1", "2"} {
		for _, k := range ks {
			https = append(https, "2"+s+k+"0")
			for _, k2 := range ks {
				https = append(https, "3"+s+k+k2)
			}
		}
	}
	rules := []string{"000000"}
	for _, h := range https {
		rules = append(rules, "1"+h+"0")
		for _, r2 := range []string{"0", "1", "2", "3"} {
			rules = append(rules, "2"+h+r2)
		}
	}
	var out []string
	for _, d := range []string{"0", "1", "2", "3"} {
		for _, t := range []string{"0", "1"} {
			for _, m := range []string{"0", "1", "2", "3"} {
				for _, c := range []string{"0", "1"} {
					for _, a := range []string{"0", "1", "2"} {
						for _, r := range rules {
							out = append(out, "1"+d+t+m+c+a+r)
						}
					}
				}
			}
		}
	}
	return out
}

type job struct {
	fam   string
	id    int
	shape string
}

func runShape(p pool, j job, thorough bool) Case {
	var cs Case
	msg, site := guard(func() {
		switch j.fam {
		case "ing":
			cs = runIngShape(p, j.id, j.shape, thorough)
		case "adv":
			cs = runAdvJob(j.id, j.shape, thorough)
		case "sec":
			cs = runSecretShape(j.id, j.shape)
		case "sub":
			cs = runSubSeq(j.id, j.shape)
		case "tref":
			cs = runTargetRef(j.id, j.shape)
		default:
			cs = runCRDShape(p, j.fam, j.id, j.shape, thorough)
		}
	})
	if msg != "" { // a panic of the harness itself outside the guarded calls
		cs = Case{Fam: j.fam, ID: j.id, Shape: j.shape, Error: "harness panic: " + msg + " at " + site}
	}
	return cs
}

func main() {
	only := flag.String("only", "", "comma-separated families to run (default all)")
	a := vh.ParseArgs()
	w, err := vh.NewWriter(a.Out)
	if err != nil {
		fmt.Fprintln(os.Stderr, err)
		os.Exit(2)
	}
	defer w.Close()
	thorough := a.Tier == "thorough"
	debug.SetGCPercent(400)

	if a.Replay != "" {
		var cases []Case
		if err := vh.ReadReplay(a.Replay, &cases); err != nil {
			fmt.Fprintln(os.Stderr, err)
			os.Exit(2)
		}
		for _, c := range cases {
			if c.Fam == "rnd" {
				w.Emit(replayRandom(c))
			} else {
				w.Emit(runShape(nil, job{c.Fam, c.ID, c.Shape}, true))
			}
		}
		return
	}

	var jobs []job
	want := func(f string) bool { return *only == "" || strings.Contains(","+*only+",", ","+f+",") }
	if want("ing") {
		for _, d := range allIngDescrs() {
			jobs = append(jobs, job{"ing", len(jobs), d})
		}
	}
	for _, fam := range []string{"vs", "vsr", "ts", "pol", "gc"} {
		if want(fam) {
			for _, d := range allCRDDescrs(fam) {
				jobs = append(jobs, job{fam, len(jobs), d})
			}
		}
	}
	if want("tref") {
		for _, d := range allTargetRefCases() {
			jobs = append(jobs, job{"tref", len(jobs), d})
		}
	}
	if *only == "advbases" { // diagnostic: which rich bases does the validator accept under which flags
		for _, b := range advBaseNames {
			for _, f := range advFlagSettings() {
				c := newCtl(f)
				var err error
				switch x := deepCopy(advBase(b)).(type) {
				case *conf_v1.VirtualServer:
					err = c.VSValidator().ValidateVirtualServer(x)
				case *conf_v1.VirtualServerRoute:
					err = c.VSValidator().ValidateVirtualServerRoute(x)
				case *conf_v1.TransportServer:
					err = c.TSValidator().ValidateTransportServer(x)
				case *conf_v1.Policy:
					err = c.ValidatePolicy(x)
				case *conf_v1.GlobalConfiguration:
					err = c.GCValidator().ValidateGlobalConfiguration(x)
				}
				fmt.Fprintf(os.Stderr, "%s flags=%d admitted=%v err=%v\n", b, f, admitted(advBase(b)), err)
			}
		}
		return
	}
	if want("sub") {
		for _, d := range allSubSeqs() {
			jobs = append(jobs, job{"sub", len(jobs), d})
		}
	}
	if want("sec") {
		for _, d := range allSecretShapes() {
			jobs = append(jobs, job{"sec", len(jobs), d})
		}
	}
	if want("adv") {
		for _, d := range allAdvJobs() {
			jobs = append(jobs, job{"adv", len(jobs), d})
		}
	}
	if *only == "" || want("inv") {
		w.Emit(Case{Fam: "inv", ID: -1, PtrFields: ptrInventory()})
	}
	results := make([]Case, len(jobs))
	var wg sync.WaitGroup
	next := make(chan int, 1024)
	workers := runtime.NumCPU()
	if workers > 16 {
		workers = 16
	}
	for k := 0; k < workers; k++ {
		wg.Add(1)
		go func() {
			defer wg.Done()
			var p pool
			if !thorough {
				p = pool{}
			}
			for i := range next {
				results[i] = runShape(p, jobs[i], thorough)
			}
		}()
	}
	for i := range jobs {
		next <- i
	}
	close(next)
	wg.Wait()
	for i := range results {
		w.Emit(results[i])
	}
	// S: random stream
	rng := vh.NewRng(a.Seed)
	base := len(jobs)
	rres := make([]Case, a.N)
	next2 := make(chan int, 1024)
	for k := 0; k < workers; k++ {
		wg.Add(1)
		go func() {
			defer wg.Done()
			for i := range next2 {
				rres[i] = runRandom(base+i, rng.Fork(uint64(i)))
			}
		}()
	}
	if !want("rnd") {
		a.N = 0
		rres = nil
	}
	for i := 0; i < a.N; i++ {
		next2 <- i
	}
	close(next2)
	wg.Wait()
	for i := range rres {
		w.Emit(rres[i])
	}
}

// ---------------------------------------------------------------- secrets fixture

var (
	certOnce sync.Once
	certPEM  []byte
	keyPEM   []byte
)

func selfSigned() ([]byte, []byte) {
	certOnce.Do(func() {
		k, err := ecdsa.GenerateKey(elliptic.P256(), crand.Reader)
		if err != nil {
			panic(err)
		}
		tpl := &x509.Certificate{SerialNumber: big.NewInt(1), Subject: pkix.Name{CommonName: "c17.example.com"},
			NotBefore: t0, NotAfter: t0.Add(100 * 365 * 24 * time.Hour), IsCA: true, BasicConstraintsValid: true,
			KeyUsage: x509.KeyUsageCertSign | x509.KeyUsageDigitalSignature, DNSNames: []string{host1, host2}}
		der, err := x509.CreateCertificate(crand.Reader, tpl, tpl, &k.PublicKey, k)
		if err != nil {
			panic(err)
		}
		kb, err := x509.MarshalECPrivateKey(k)
		if err != nil {
			panic(err)
		}
		certPEM = pem.EncodeToMemory(&pem.Block{Type: "CERTIFICATE", Bytes: der})
		keyPEM = pem.EncodeToMemory(&pem.Block{Type: "EC PRIVATE KEY", Bytes: kb})
	})
	return certPEM, keyPEM
}

func fillSecrets(c *k8s.VerifC17) {
	crt, key := selfSigned()
	mk := func(name string, typ api_v1.SecretType, data map[string][]byte) {
		c.AddSecret(&api_v1.Secret{ObjectMeta: meta(name, 110), Type: typ, Data: data})
	}
	mk("tls-secret", api_v1.SecretTypeTLS, map[string][]byte{"tls.crt": crt, "tls.key": key})
	mk("ca-secret", "nginx.org/ca", map[string][]byte{"ca.crt": crt})
	mk("jwk-secret", "nginx.org/jwk", map[string][]byte{"jwk": []byte(`{"keys":[]}`)})
	mk("htpasswd-secret", "nginx.org/htpasswd", map[string][]byte{"htpasswd": []byte("u:$apr1$x$y")})
	mk("oidc-secret", "nginx.org/oidc", map[string][]byte{"client-secret": []byte("s3cret")})
	mk("apikey-secret", "nginx.org/apikey", map[string][]byte{"client1": []byte("key1"), "client2": []byte("key2")})
}

// ---------------------------------------------------------------- CRD shapes

func ip(i int) *int        { return &i }
func bp(b bool) *bool      { return &b }
func u16(i uint16) *uint16 { return &i }

func actionOf(d byte) *conf_v1.Action {
	red := &conf_v1.ActionRedirect{URL: "http://www.example.com", Code: 301}
	hdr := &conf_v1.ProxyRequestHeaders{Set: []conf_v1.Header{{Name: "X-A", Value: "b"}}}
	resp := &conf_v1.ProxyResponseHeaders{Hide: []string{"x-hide"}, Pass: []string{"x-pass"}, Ignore: []string{"Expires"},
		Add: []conf_v1.AddHeader{{Header: conf_v1.Header{Name: "X-B", Value: "c"}, Always: true}}}
	switch d {
	case '0':
		return nil
	case '1':
		return &conf_v1.Action{}
	case '2':
		return &conf_v1.Action{Pass: "u"}
	case '3':
		return &conf_v1.Action{Redirect: red}
	case '4':
		return &conf_v1.Action{Return: &conf_v1.ActionReturn{Code: 200, Type: "text/plain", Body: "ok"}}
	case '5':
		return &conf_v1.Action{Proxy: &conf_v1.ActionProxy{Upstream: "u"}}
	case '6':
		return &conf_v1.Action{Proxy: &conf_v1.ActionProxy{Upstream: "u", RequestHeaders: hdr, ResponseHeaders: resp}}
	case '7':
		hdr.Pass = bp(true)
		return &conf_v1.Action{Proxy: &conf_v1.ActionProxy{Upstream: "u", RequestHeaders: hdr, ResponseHeaders: resp}}
	case '8':
		return &conf_v1.Action{Pass: "u", Redirect: red}
	}
	return nil
}

func action2Of(d byte) *conf_v1.Action {
	switch d {
	case '1':
		return actionOf('2')
	case '2':
		return actionOf('4')
	}
	return nil
}

// routeOf: 12 digits a s sa sb m mc ma ms e er ed r (see coq/Shapes/Cases.v)
func routeOf(d string) conf_v1.Route {
	r := conf_v1.Route{Path: "/r", Action: actionOf(d[0])}
	switch d[1] {
	case '1':
		r.Splits = []conf_v1.Split{{Weight: 100, Action: actionOf('2')}}
	case '2':
		r.Splits = []conf_v1.Split{{Weight: 50, Action: action2Of(d[2])}, {Weight: 50, Action: action2Of(d[3])}}
	}
	if d[4] == '1' {
		m := conf_v1.Match{}
		if d[5] == '1' {
			m.Conditions = []conf_v1.Condition{{Header: "x-version", Value: "v2"}}
		}
		if d[6] == '1' {
			m.Action = actionOf('2')
		}
		switch d[7] {
		case '1':
			m.Splits = []conf_v1.Split{{Weight: 50, Action: actionOf('2')}, {Weight: 50, Action: actionOf('2')}}
		case '2':
			m.Splits = []conf_v1.Split{{Weight: 50, Action: nil}, {Weight: 50, Action: actionOf('2')}}
		}
		r.Matches = []conf_v1.Match{m}
	}
	if d[8] == '1' {
		e := conf_v1.ErrorPage{Codes: []int{502}}
		if d[9] == '1' {
			e.Return = &conf_v1.ErrorPageReturn{ActionReturn: conf_v1.ActionReturn{Code: 200, Type: "text/plain", Body: "sorry",
				Headers: []conf_v1.Header{{Name: "x-e", Value: "1"}}}}
		}
		if d[10] == '1' {
			e.Redirect = &conf_v1.ErrorPageRedirect{ActionRedirect: conf_v1.ActionRedirect{URL: "http://err.example.com", Code: 301}}
		}
		r.ErrorPages = []conf_v1.ErrorPage{e}
	}
	if d[11] == '1' {
		r.Route = "default/z-vsr"
	}
	return r
}

func upstreamOf(d byte) conf_v1.Upstream {
	u := conf_v1.Upstream{Name: "u", Service: "svc-a", Port: 80}
	switch d {
	case '1':
		u.HealthCheck = &conf_v1.HealthCheck{Enable: true, Path: "/healthz"}
	case '2':
		u.HealthCheck = &conf_v1.HealthCheck{Enable: true, Path: "/healthz", TLS: &conf_v1.UpstreamTLS{Enable: true}}
	case '3':
		u.SessionCookie = &conf_v1.SessionCookie{Enable: true, Name: "srv"}
	case '4':
		u.Queue = &conf_v1.UpstreamQueue{Size: 10, Timeout: "5s"}
	case '5':
		u.ProxyBuffers = &conf_v1.UpstreamBuffers{Number: 4, Size: "8k"}
	case '6':
		u.Backup, u.BackupPort = "svc-ext", u16(80)
	case '7':
		u.Backup = "svc-ext"
	case '8':
		u.BackupPort = u16(80)
	case '9':
		u.MaxFails, u.MaxConns, u.Keepalive, u.ProxyBuffering = ip(1), ip(10), ip(8), bp(true)
	}
	return u
}

var passRoute = "200000000000"

// vsOfShape: 14 digits 1 k payload
func vsOfShape(d string) (*conf_v1.VirtualServer, error) {
	if len(d) != 14 || d[0] != '1' {
		return nil, fmt.Errorf("bad VirtualServer shape code %q", d)
	}
	vs := &conf_v1.VirtualServer{ObjectMeta: meta("z-vs", 9), Spec: conf_v1.VirtualServerSpec{IngressClass: "nginx", Host: host1}}
	p := d[2:]
	switch d[1] {
	case '0':
	case '1':
		vs.Spec.Upstreams = []conf_v1.Upstream{upstreamOf('0')}
		vs.Spec.Routes = []conf_v1.Route{routeOf(p)}
	case '2':
		vs.Spec.Upstreams = []conf_v1.Upstream{upstreamOf('0')}
		vs.Spec.Routes = []conf_v1.Route{routeOf(passRoute)}
		if p[0] == '1' {
			t := &conf_v1.TLS{}
			if p[1] == '1' {
				t.Secret = "tls-secret"
			}
			switch p[2] {
			case '1':
				t.Redirect = &conf_v1.TLSRedirect{Enable: true}
			case '2':
				t.Redirect = &conf_v1.TLSRedirect{Enable: true, Code: ip(301), BasedOn: "scheme"}
			}
			if p[3] == '1' {
				t.CertManager = &conf_v1.CertManager{ClusterIssuer: "issuer"}
			}
			vs.Spec.TLS = t
		}
		if p[4] == '1' {
			vs.Spec.Listener = &conf_v1.VirtualServerListener{HTTP: "http-l", HTTPS: "https-l"}
		}
	case '3':
		vs.Spec.Upstreams = []conf_v1.Upstream{upstreamOf(p[0])}
		vs.Spec.Routes = []conf_v1.Route{routeOf(passRoute)}
	case '4': // one route of path kind p[0] (0 prefix, 1 exact, 2 regex) that only references the VirtualServerRoute
		if p[0] < '0' || p[0] > '2' {
			return nil, fmt.Errorf("bad VirtualServer shape code %q", d)
		}
		vs.Spec.Upstreams = []conf_v1.Upstream{upstreamOf('0')}
		vs.Spec.Routes = []conf_v1.Route{{Path: refPaths[1+int(p[0]-'0')], Route: "default/z-vsr"}}
	default:
		return nil, fmt.Errorf("bad VirtualServer shape code %q", d)
	}
	return vs, nil
}

// vsrOfShape: the subroute paths are the path of the referencing VirtualServer route of prior
// state ctx (refPaths), except for kind 5 (another path); kind 4 has two subroutes.
func vsrOfShape(d string, ctx int) (*conf_v1.VirtualServerRoute, error) {
	base := refPaths[ctx]
	if len(d) != 14 || d[0] != '1' {
		return nil, fmt.Errorf("bad VirtualServerRoute shape code %q", d)
	}
	v := &conf_v1.VirtualServerRoute{ObjectMeta: meta("z-vsr", 9), Spec: conf_v1.VirtualServerRouteSpec{IngressClass: "nginx", Host: host1}}
	p := d[2:]
	switch d[1] {
	case '0':
	case '1':
		v.Spec.Upstreams = []conf_v1.Upstream{upstreamOf('0')}
		v.Spec.Subroutes = []conf_v1.Route{routeOf(p)}
	case '3':
		v.Spec.Upstreams = []conf_v1.Upstream{upstreamOf(p[0])}
		v.Spec.Subroutes = []conf_v1.Route{routeOf(passRoute)}
	case '4':
		v.Spec.Upstreams = []conf_v1.Upstream{upstreamOf('0')}
		v.Spec.Subroutes = []conf_v1.Route{routeOf(passRoute), routeOf(passRoute)}
	case '5':
		v.Spec.Upstreams = []conf_v1.Upstream{upstreamOf('0')}
		v.Spec.Subroutes = []conf_v1.Route{routeOf(passRoute)}
	default:
		return nil, fmt.Errorf("bad VirtualServerRoute shape code %q", d)
	}
	for i := range v.Spec.Subroutes {
		switch {
		case d[1] == '5':
			v.Spec.Subroutes[i].Path = "/other"
		case i == 0:
			v.Spec.Subroutes[i].Path = base
		default:
			v.Spec.Subroutes[i].Path = base + "/2"
		}
	}
	return v, nil
}

// tsOfShape: 8 digits 1 l h t u p s a
func tsOfShape(d string) (*conf_v1.TransportServer, error) {
	if len(d) != 8 || d[0] != '1' {
		return nil, fmt.Errorf("bad TransportServer shape code %q", d)
	}
	ts := &conf_v1.TransportServer{ObjectMeta: meta("z-ts", 9), Spec: conf_v1.TransportServerSpec{IngressClass: "nginx"}}
	switch d[1] {
	case '0':
		ts.Spec.Listener = conf_v1.TransportServerListener{Name: "tcp-l", Protocol: "TCP"}
	case '1':
		ts.Spec.Listener = conf_v1.TransportServerListener{Name: "udp-l", Protocol: "UDP"}
	case '2':
		ts.Spec.Listener = conf_v1.TransportServerListener{Name: conf_v1.TLSPassthroughListenerName, Protocol: conf_v1.TLSPassthroughListenerProtocol}
	}
	if d[2] == '1' {
		ts.Spec.Host = host2
	}
	switch d[3] {
	case '1':
		ts.Spec.TLS = &conf_v1.TransportServerTLS{}
	case '2':
		ts.Spec.TLS = &conf_v1.TransportServerTLS{Secret: "tls-secret"}
	}
	if d[4] != '0' {
		u := conf_v1.TransportServerUpstream{Name: "u", Service: "svc-a", Port: 80}
		switch d[4] {
		case '2':
			u.HealthCheck = &conf_v1.TransportServerHealthCheck{Enabled: true, Interval: "5s"}
		case '3':
			u.HealthCheck = &conf_v1.TransportServerHealthCheck{Enabled: true, Match: &conf_v1.TransportServerMatch{Send: "ping", Expect: "pong"}}
		}
		ts.Spec.Upstreams = []conf_v1.TransportServerUpstream{u}
	}
	switch d[5] {
	case '1':
		ts.Spec.UpstreamParameters = &conf_v1.UpstreamParameters{ConnectTimeout: "5s", NextUpstream: true, NextUpstreamTries: 2}
	case '2':
		ts.Spec.UpstreamParameters = &conf_v1.UpstreamParameters{UDPRequests: ip(1), UDPResponses: ip(1)}
	}
	if d[6] == '1' {
		ts.Spec.SessionParameters = &conf_v1.SessionParameters{Timeout: "30s"}
	}
	switch d[7] {
	case '1':
		ts.Spec.Action = &conf_v1.TransportServerAction{}
	case '2':
		ts.Spec.Action = &conf_v1.TransportServerAction{Pass: "u"}
	}
	return ts, nil
}

func polKindInto(spec *conf_v1.PolicySpec, k, x, y byte) {
	switch k {
	case '0':
		a := &conf_v1.AccessControl{}
		if x == '1' {
			a.Allow = []string{"10.0.0.0/8"}
		}
		if y == '1' {
			a.Deny = []string{"10.1.0.0/16"}
		}
		spec.AccessControl = a
	case '1':
		r := &conf_v1.RateLimit{Rate: "10r/s", Key: "${binary_remote_addr}", ZoneSize: "10M"}
		if x == '1' {
			r.Delay, r.Burst, r.DryRun, r.RejectCode = ip(1), ip(2), bp(true), ip(503)
		}
		switch y {
		case '1':
			r.Condition = &conf_v1.RateLimitCondition{Default: true}
		case '2':
			r.Condition = &conf_v1.RateLimitCondition{JWT: &conf_v1.JWTCondition{Claim: "sub", Match: "gold"}}
		}
		spec.RateLimit = r
	case '2':
		spec.JWTAuth = &conf_v1.JWTAuth{Realm: "realm", Secret: "jwk-secret"}
	case '3':
		spec.BasicAuth = &conf_v1.BasicAuth{Realm: "realm", Secret: "htpasswd-secret"}
	case '4':
		m := &conf_v1.IngressMTLS{ClientCertSecret: "ca-secret", VerifyClient: "on"}
		if x == '1' {
			m.VerifyDepth = ip(1)
		}
		spec.IngressMTLS = m
	case '5':
		m := &conf_v1.EgressMTLS{TLSSecret: "tls-secret"}
		if x == '1' {
			m.VerifyDepth = ip(2)
		}
		spec.EgressMTLS = m
	case '6':
		o := &conf_v1.OIDC{AuthEndpoint: "https://idp.example.com/auth", TokenEndpoint: "https://idp.example.com/token",
			JWKSURI: "https://idp.example.com/jwks", ClientID: "client", ClientSecret: "oidc-secret"}
		if x == '1' {
			o.ZoneSyncLeeway = ip(10)
		}
		spec.OIDC = o
	case '7':
		a := &conf_v1.APIKey{ClientSecret: "apikey-secret"}
		if x == '1' {
			s := &conf_v1.SuppliedIn{}
			if y == '2' || y == '3' {
				s.Header = []string{"X-API-Key"}
			}
			if y == '1' || y == '3' {
				s.Query = []string{"apikey"}
			}
			a.SuppliedIn = s
		}
		spec.APIKey = a
	case '8':
		w := &conf_v1.WAF{Enable: true}
		if x == '1' {
			w.SecurityLog = &conf_v1.SecurityLog{Enable: true, LogDest: "stderr"}
		}
		switch y {
		case '1':
			w.SecurityLogs = []*conf_v1.SecurityLog{}
		case '2':
			w.SecurityLogs = []*conf_v1.SecurityLog{{Enable: true, LogDest: "stderr"}}
		}
		spec.WAF = w
	}
}

// polOfShape: 5 digits 1 n kind x y
func polOfShape(d string) (*conf_v1.Policy, error) {
	if len(d) != 5 || d[0] != '1' {
		return nil, fmt.Errorf("bad Policy shape code %q", d)
	}
	p := &conf_v1.Policy{ObjectMeta: meta("z-pol", 9), Spec: conf_v1.PolicySpec{IngressClass: "nginx"}}
	switch d[1] {
	case '0':
	case '1':
		polKindInto(&p.Spec, d[2], d[3], d[4])
	case '2':
		polKindInto(&p.Spec, d[2], d[3], d[4])
		if d[2] == '0' {
			polKindInto(&p.Spec, '1', '0', '0')
		} else {
			polKindInto(&p.Spec, '0', '1', '0')
		}
	}
	return p, nil
}

func gcListeners() []conf_v1.Listener {
	return []conf_v1.Listener{{Name: "http-l", Port: 8080, Protocol: "HTTP"}, {Name: "https-l", Port: 8443, Protocol: "HTTP", Ssl: true},
		{Name: "tcp-l", Port: 9000, Protocol: "TCP"}, {Name: "udp-l", Port: 9001, Protocol: "UDP"}}
}

func gcObject(ls []conf_v1.Listener) *conf_v1.GlobalConfiguration {
	return &conf_v1.GlobalConfiguration{ObjectMeta: meta("nginx-configuration", 5), Spec: conf_v1.GlobalConfigurationSpec{Listeners: ls}}
}

func gcOfShape(d string) (*conf_v1.GlobalConfiguration, error) {
	if len(d) != 2 || d[0] != '1' {
		return nil, fmt.Errorf("bad GlobalConfiguration shape code %q", d)
	}
	tcp := conf_v1.Listener{Name: "tcp-l", Port: 9000, Protocol: "TCP"}
	switch d[1] {
	case '0':
		return gcObject(nil), nil
	case '1':
		return gcObject([]conf_v1.Listener{tcp}), nil
	case '2':
		return gcObject([]conf_v1.Listener{{Name: "bad", Port: 80, Protocol: "TCP"}}), nil
	case '3':
		return gcObject([]conf_v1.Listener{tcp, {Name: "tcp-l", Port: 9002, Protocol: "TCP"}}), nil
	case '4':
		return gcObject([]conf_v1.Listener{tcp, {Name: "udp-l", Port: 9001, Protocol: "UDP"}}), nil
	}
	return nil, fmt.Errorf("bad GlobalConfiguration shape code %q", d)
}

// --- prior states of the CRD families

func olderVS(withRouteRef bool, policies []conf_v1.PolicyReference) *conf_v1.VirtualServer {
	vs := &conf_v1.VirtualServer{ObjectMeta: meta("a-vs", 0), Spec: conf_v1.VirtualServerSpec{IngressClass: "nginx", Host: host1,
		Upstreams: []conf_v1.Upstream{upstreamOf('0')}}}
	if withRouteRef {
		vs.Spec.Routes = []conf_v1.Route{{Path: "/r", Route: "default/z-vsr"}}
	} else {
		vs.Spec.Routes = []conf_v1.Route{{Path: "/r", Action: &conf_v1.Action{Pass: "u"}, Policies: policies}}
	}
	if policies != nil {
		vs.Spec.Policies = policies
		vs.Spec.TLS = &conf_v1.TLS{Secret: "tls-secret"}
	}
	return vs
}

func olderTS() *conf_v1.TransportServer {
	return &conf_v1.TransportServer{ObjectMeta: meta("a-ts", 1), Spec: conf_v1.TransportServerSpec{IngressClass: "nginx",
		Listener:  conf_v1.TransportServerListener{Name: "tcp-l", Protocol: "TCP"},
		Upstreams: []conf_v1.TransportServerUpstream{{Name: "u", Service: "svc-a", Port: 80}},
		Action:    &conf_v1.TransportServerAction{Pass: "u"}}}
}

func listenerVS() *conf_v1.VirtualServer {
	vs := olderVS(false, nil)
	vs.Spec.Listener = &conf_v1.VirtualServerListener{HTTP: "http-l", HTTPS: "https-l"}
	return vs
}

// crdPrior returns the objects of prior state ctx of a family.
// kindPath: the route path of a kind (0 none/prefix, 1 prefix, 2 exact, 3 regex for the
// VirtualServerRoute prior states; see refPaths)
var refPaths = []string{"/r", "/r", "=/r", "~ ^/r"}

// partnerVSR: the stored VirtualServerRoute default/z-vsr of the VirtualServer prior states 3-6:
// no subroutes; one subroute with the given path; one subroute with another path; two subroutes
func partnerVSR(ctx int, path string) *conf_v1.VirtualServerRoute {
	v := &conf_v1.VirtualServerRoute{ObjectMeta: meta("z-vsr", 3), Spec: conf_v1.VirtualServerRouteSpec{IngressClass: "nginx", Host: host1}}
	sub := func(p string) conf_v1.Route { return conf_v1.Route{Path: p, Action: &conf_v1.Action{Pass: "u"}} }
	switch ctx {
	case 3:
		return v
	case 4:
		v.Spec.Subroutes = []conf_v1.Route{sub(path)}
	case 5:
		v.Spec.Subroutes = []conf_v1.Route{sub("/other")}
	case 6:
		v.Spec.Subroutes = []conf_v1.Route{sub(path), sub(path + "/2")}
	}
	v.Spec.Upstreams = []conf_v1.Upstream{upstreamOf('0')}
	return v
}

func crdPrior(fam string, ctx int, obj interface{}) []interface{} {
	switch fam {
	case "vs":
		switch ctx {
		case 1:
			return []interface{}{olderVS(false, nil)}
		case 2:
			return []interface{}{gcObject(gcListeners())}
		case 3, 4, 5, 6:
			path := "/r"
			if vs, ok := obj.(*conf_v1.VirtualServer); ok && len(vs.Spec.Routes) > 0 {
				path = vs.Spec.Routes[0].Path
			}
			return []interface{}{partnerVSR(ctx, path)}
		}
	case "vsr":
		if ctx >= 1 {
			vs := olderVS(true, nil)
			vs.Spec.Routes[0].Path = refPaths[ctx]
			return []interface{}{vs}
		}
	case "ts":
		if ctx == 1 {
			return []interface{}{gcObject(gcListeners())}
		}
	case "pol":
		return []interface{}{olderVS(false, []conf_v1.PolicyReference{{Name: "z-pol"}})}
	case "gc":
		if ctx == 1 {
			return []interface{}{olderTS(), listenerVS()}
		}
	}
	return nil
}

func store(c *k8s.VerifC17, o interface{}, viaSync bool) {
	if viaSync {
		_ = c.Sync(o, false)
		return
	}
	switch x := o.(type) {
	case *conf_v1.VirtualServer:
		c.Configuration().AddOrUpdateVirtualServer(x)
	case *conf_v1.VirtualServerRoute:
		c.Configuration().AddOrUpdateVirtualServerRoute(x)
	case *conf_v1.TransportServer:
		c.Configuration().AddOrUpdateTransportServer(x)
	case *conf_v1.GlobalConfiguration:
		_, _, _ = c.Configuration().AddOrUpdateGlobalConfiguration(x)
	case *networking.Ingress:
		c.Configuration().AddOrUpdateIngress(x)
	}
}

type famSpec struct {
	flagCombos []int // settings of the flags the model reads, in the model's order
	otherBits  []int
	nctx       int
	group      int // digits per (flag setting, prior state)
}

var famSpecs = map[string]famSpec{
	"vs":  {[]int{0, fCertMgr, fPlus, fPlus | fCertMgr}, []int{fAppProtect, fDos, fInternal, fSnippets, fTLSPass}, 7, 5},
	"vsr": {[]int{0, fPlus}, []int{fAppProtect, fDos, fInternal, fSnippets, fCertMgr, fTLSPass}, 4, 5},
	"ts":  {[]int{0, fTLSPass}, []int{fPlus, fAppProtect, fDos, fInternal, fSnippets, fCertMgr}, 2, 5},
	"pol": {[]int{0, fAppProtect, fPlus, fPlus | fAppProtect}, []int{fDos, fInternal, fSnippets, fCertMgr, fTLSPass}, 1, 3},
	"gc":  {[]int{0}, []int{fPlus, fAppProtect, fDos, fInternal, fSnippets, fCertMgr, fTLSPass}, 2, 5},
}

func crdObject(fam, d string, ctx int) (interface{}, error) {
	switch fam {
	case "vs":
		return vsOfShape(d)
	case "vsr":
		return vsrOfShape(d, ctx)
	case "ts":
		return tsOfShape(d)
	case "pol":
		return polOfShape(d)
	case "gc":
		return gcOfShape(d)
	}
	return nil, fmt.Errorf("unknown family %q", fam)
}

func deepCopy(o interface{}) interface{} {
	switch x := o.(type) {
	case *conf_v1.VirtualServer:
		return x.DeepCopy()
	case *conf_v1.VirtualServerRoute:
		return x.DeepCopy()
	case *conf_v1.TransportServer:
		return x.DeepCopy()
	case *conf_v1.Policy:
		return x.DeepCopy()
	case *conf_v1.GlobalConfiguration:
		return x.DeepCopy()
	case *networking.Ingress:
		return x.DeepCopy()
	case *api_v1.Service:
		return x.DeepCopy()
	case *api_v1.Secret:
		return x.DeepCopy()
	case *discovery_v1.EndpointSlice:
		return x.DeepCopy()
	}
	return o
}

func crdCtl(fam string, f, ctx int, viaSync bool, obj interface{}) (*k8s.VerifC17, string, string) {
	c := newCtl(f)
	fillSecrets(c)
	m, s := guard(func() {
		for _, o := range crdPrior(fam, ctx, obj) {
			store(c, o, viaSync)
		}
	})
	return c, m, s
}

// runCRDOnce: validate, store, extend+generate, delete, sync for one object of a CRD family
// (Policy: validate, extend, sync).
func runCRDOnce(fam string, obj interface{}, f, ctx int, combo string, panics *[]PanicInfo) string {
	spec := famSpecs[fam]
	out := []byte(strings.Repeat("0", spec.group))
	note := func(stage int, name, msg, site string) {
		out[stage] = '2'
		*panics = append(*panics, PanicInfo{Combo: combo, Stage: name, Msg: msg, Site: site})
	}
	c, pm, ps := crdCtl(fam, f, ctx, false, obj)
	if pm != "" { // storing the prior state (valid, admissible objects) panicked
		for st := range out {
			out[st] = '2'
		}
		*panics = append(*panics, PanicInfo{Combo: combo, Stage: "prior-state", Msg: pm, Site: ps})
		return string(out)
	}
	syncStage := spec.group - 1
	if fam == "pol" {
		p := deepCopy(obj).(*conf_v1.Policy)
		var verr error
		if m, s := guard(func() { verr = c.ValidatePolicy(p) }); m != "" {
			note(0, "validate", m, s)
		} else if verr != nil {
			out[0] = '1'
		}
		_ = c.AddPolicy(p)
		if m, s := guard(func() {
			// the VirtualServer of the prior state references the policy: re-arbitrate and extend
			c.Configuration().AddOrUpdateVirtualServer(olderVS(false, []conf_v1.PolicyReference{{Name: "z-pol"}}))
			c.ExtendAll()
		}); m != "" {
			note(1, "extend", m, s)
		}
	} else {
		var verr error
		o1 := deepCopy(obj)
		if m, s := guard(func() {
			switch x := o1.(type) {
			case *conf_v1.VirtualServer:
				verr = c.VSValidator().ValidateVirtualServer(x)
			case *conf_v1.VirtualServerRoute:
				verr = c.VSValidator().ValidateVirtualServerRoute(x)
			case *conf_v1.TransportServer:
				verr = c.TSValidator().ValidateTransportServer(x)
			case *conf_v1.GlobalConfiguration:
				verr = c.GCValidator().ValidateGlobalConfiguration(x)
			}
		}); m != "" {
			note(0, "validate", m, s)
		} else if verr != nil {
			out[0] = '1'
		}
		o2 := deepCopy(obj)
		var rejected bool
		m, s := guard(func() {
			var ch []k8s.ResourceChange
			var pr []k8s.ConfigurationProblem
			var err error
			switch x := o2.(type) {
			case *conf_v1.VirtualServer:
				ch, pr = c.Configuration().AddOrUpdateVirtualServer(x)
			case *conf_v1.VirtualServerRoute:
				ch, pr = c.Configuration().AddOrUpdateVirtualServerRoute(x)
			case *conf_v1.TransportServer:
				ch, pr = c.Configuration().AddOrUpdateTransportServer(x)
			case *conf_v1.GlobalConfiguration:
				ch, pr, err = c.Configuration().AddOrUpdateGlobalConfiguration(x)
			}
			_, _, we := k8s.VerifC17ChangeSummary(ch)
			rejected = we || k8s.VerifC17Rejected(pr) || err != nil
		})
		if m != "" {
			note(1, "store", m, s)
		} else {
			if rejected {
				out[1] = '1'
			}
			if m, s := guard(func() { c.ExtendAll() }); m != "" {
				note(2, "extend", m, s)
			}
			if m, s := guard(func() {
				switch o2.(type) {
				case *conf_v1.VirtualServer:
					c.Configuration().DeleteVirtualServer("default/z-vs")
				case *conf_v1.VirtualServerRoute:
					c.Configuration().DeleteVirtualServerRoute("default/z-vsr")
				case *conf_v1.TransportServer:
					c.Configuration().DeleteTransportServer("default/z-ts")
				case *conf_v1.GlobalConfiguration:
					c.Configuration().DeleteGlobalConfiguration()
				}
			}); m != "" {
				note(3, "delete", m, s)
			}
		}
	}
	c2, pm2, ps2 := crdCtl(fam, f, ctx, true, obj)
	o3 := deepCopy(obj)
	if pm2 != "" {
		note(syncStage, "prior-state", pm2, ps2)
	} else if m, s := guard(func() { _ = c2.Sync(o3, false) }); m != "" {
		note(syncStage, "sync", m, s)
	} else if e, m, s := followUpsIf(out[0] == '0' && (fam == "pol" || out[1] == '0'), c2); m != "" {
		note(syncStage, "followup:"+e, m, s)
	} else if m, s := guard(func() { _ = c2.Sync(o3, true) }); m != "" {
		note(syncStage, "sync-delete", m, s)
	}
	return string(out)
}

func runCRDShape(p pool, fam string, id int, d string, thorough bool) Case {
	cs := Case{Fam: fam, ID: id, Shape: d}
	obj, err := crdObject(fam, d, 0)
	if err != nil {
		cs.Error = err.Error()
		return cs
	}
	adm := admitted(obj)
	cs.Admitted = &adm
	spec := famSpecs[fam]
	nOther := 1 << len(spec.otherBits)
	settings := []int{id % nOther}
	if thorough {
		settings = settings[:0]
		n := nOther
		if fam == "vs" || fam == "vsr" { // template-heavy families: 8 settings per shape, rotating
			n = 8
		}
		for i := 0; i < n; i++ {
			settings = append(settings, (id+i*(nOther/n))%nOther)
		}
	}
	cs.Others = len(settings)
	for si, oi := range settings {
		other := otherSetting(oi, spec.otherBits)
		var sb strings.Builder
		for _, fc := range spec.flagCombos {
			for ctx := 0; ctx < spec.nctx; ctx++ {
				combo := fmt.Sprintf("flags=%d ctx=%d", fc|other, ctx)
				o := obj
				if fam == "vsr" { // the subroute paths follow the referencing route of the prior state
					o, _ = crdObject(fam, d, ctx)
				}
				np := len(cs.Panics)
				sb.WriteString(runCRDOnce(fam, o, fc|other, ctx, combo, &cs.Panics))
				if len(cs.Panics) > np && cs.Object == nil { // the panicking object and its partner, for the replay file
					cs.Object, _ = json.Marshal(map[string]interface{}{"object": o, "prior_state": crdPrior(fam, ctx, o)})
				}
			}
		}
		if si == 0 {
			cs.Obs = sb.String()
		} else if sb.String() != cs.Obs {
			cs.FlagDiff = append(cs.FlagDiff, FlagDiff{Other: other, Obs: sb.String()})
		}
	}
	if len(cs.Panics) > 6 {
		cs.Panics = cs.Panics[:6]
	}
	return cs
}

// allCRDDescrs enumerates the shape space of a CRD family (coq/Shapes/Model.v all_*_shapes).
func allCRDDescrs(fam string) []string {
	var routes []string
	for a := 0; a <= 8; a++ {
		for _, s := range []string{"000", "100", "200", "201", "202", "210", "211", "212", "220", "221", "222"} {
			ms := []string{"0000"}
			for _, c := range []string{"0", "1"} {
				for _, ac := range []string{"0", "1"} {
					for _, sp := range []string{"0", "1", "2"} {
						ms = append(ms, "1"+c+ac+sp)
					}
				}
			}
			for _, m := range ms {
				for _, e := range []string{"000", "100", "101", "110", "111"} {
					for _, r := range []string{"0", "1"} {
						routes = append(routes, fmt.Sprintf("%d", a)+s+m+e+r)
					}
				}
			}
		}
	}
	z := func(n int) string { return strings.Repeat("0", n) }
	var out []string
	switch fam {
	case "vs", "vsr":
		out = append(out, "10"+z(12))
		for _, r := range routes {
			out = append(out, "11"+r)
		}
		if fam == "vs" {
			for _, l := range []string{"0", "1"} {
				out = append(out, "120000"+l+z(7))
				for _, s := range []string{"0", "1"} {
					for _, rd := range []string{"0", "1", "2"} {
						for _, c := range []string{"0", "1"} {
							out = append(out, "121"+s+rd+c+l+z(7))
						}
					}
				}
			}
		}
		for u := 0; u <= 9; u++ {
			out = append(out, fmt.Sprintf("13%d", u)+z(11))
		}
		if fam == "vs" {
			out = append(out, "140"+z(11), "141"+z(11), "142"+z(11))
		} else {
			out = append(out, "14"+z(12), "15"+z(12))
		}
	case "ts":
		for l := 0; l < 3; l++ {
			for h := 0; h < 2; h++ {
				for t := 0; t < 3; t++ {
					for u := 0; u < 4; u++ {
						for p := 0; p < 3; p++ {
							for s := 0; s < 2; s++ {
								for a := 0; a < 3; a++ {
									out = append(out, fmt.Sprintf("1%d%d%d%d%d%d%d", l, h, t, u, p, s, a))
								}
							}
						}
					}
				}
			}
		}
	case "pol":
		kinds := []string{"000", "001", "010", "011"}
		for _, p := range []string{"0", "1"} {
			for _, c := range []string{"0", "1", "2"} {
				kinds = append(kinds, "1"+p+c)
			}
		}
		kinds = append(kinds, "200", "300", "400", "410", "500", "510", "600", "610", "700", "710", "711", "712", "713")
		for _, l := range []string{"0", "1"} {
			for _, ls := range []string{"0", "1", "2"} {
				kinds = append(kinds, "8"+l+ls)
			}
		}
		out = append(out, "10000")
		for _, k := range kinds {
			out = append(out, "11"+k, "12"+k)
		}
	case "gc":
		out = []string{"10", "11", "12", "13", "14"}
	}
	return out
}

// ---------------------------------------------------------------- admissibility

// The structural-schema validator of k8s.io/apiextensions-apiserver cannot be compiled offline
// (its dependency github.com/google/cel-go is not in the module cache, and importing an indirect
// dependency would rewrite /repo/go.mod), so the published schemas config/crd/bases/*.yaml are read
// with k8s.io/apimachinery/pkg/util/yaml and interpreted by the small validator below.  It knows
// the keywords the NGINX schemas use (type, properties, items, additionalProperties, required,
// pattern, enum, minimum, maximum, nullable, format, description) and refuses any other keyword,
// so a schema change cannot silently go unnoticed.  As in the API server, null values of object
// properties are pruned before validation; null array items are type errors.
var (
	schemaOnce sync.Once
	schemas    map[string]map[string]interface{}
	schemaErr  error
)

func loadSchemas() {
	schemas = map[string]map[string]interface{}{}
	files, err := filepath.Glob(filepath.Join(repoRoot, "config", "crd", "bases", "k8s.nginx.org_*.yaml"))
	if err != nil || len(files) == 0 {
		schemaErr = fmt.Errorf("no CRD files under %s/config/crd/bases: %v", repoRoot, err)
		return
	}
	for _, f := range files {
		b, err := os.ReadFile(f)
		if err != nil {
			schemaErr = err
			return
		}
		j, err := k8syaml.ToJSON(b)
		if err != nil {
			schemaErr = fmt.Errorf("%s: %v", f, err)
			return
		}
		var crd struct {
			Spec struct {
				Names    struct{ Kind string } `json:"names"`
				Versions []struct {
					Name   string `json:"name"`
					Schema struct {
						OpenAPIV3Schema map[string]interface{} `json:"openAPIV3Schema"`
					} `json:"schema"`
				} `json:"versions"`
			} `json:"spec"`
		}
		if err := json.Unmarshal(j, &crd); err != nil {
			schemaErr = fmt.Errorf("%s: %v", f, err)
			return
		}
		for _, v := range crd.Spec.Versions {
			if v.Name == "v1" {
				schemas[crd.Spec.Names.Kind] = v.Schema.OpenAPIV3Schema
			}
		}
	}
	for _, k := range []string{"VirtualServer", "VirtualServerRoute", "TransportServer", "Policy", "GlobalConfiguration"} {
		if schemas[k] == nil {
			schemaErr = fmt.Errorf("no v1 schema for kind %s in %s/config/crd/bases", k, repoRoot)
		}
	}
}

func schemaCheck(sc map[string]interface{}, v interface{}, path string, errs *[]string) {
	for k := range sc {
		switch k {
		case "type", "properties", "items", "additionalProperties", "required", "pattern", "enum", "minimum", "maximum",
			"nullable", "format", "description", "default", "x-kubernetes-preserve-unknown-fields":
		default:
			*errs = append(*errs, "UNSUPPORTED schema keyword "+k+" at "+path)
		}
	}
	if v == nil {
		if n, _ := sc["nullable"].(bool); !n {
			*errs = append(*errs, path+": null")
		}
		return
	}
	typ, _ := sc["type"].(string)
	switch typ {
	case "object":
		m, ok := v.(map[string]interface{})
		if !ok {
			*errs = append(*errs, path+": must be an object")
			return
		}
		props, _ := sc["properties"].(map[string]interface{})
		if req, ok := sc["required"].([]interface{}); ok {
			for _, r := range req {
				if x, present := m[r.(string)]; !present || x == nil {
					*errs = append(*errs, path+"."+r.(string)+": required")
				}
			}
		}
		for k, x := range m {
			if x == nil {
				continue // pruned
			}
			if ps, ok := props[k].(map[string]interface{}); ok {
				schemaCheck(ps, x, path+"."+k, errs)
			} else if ap, ok := sc["additionalProperties"].(map[string]interface{}); ok {
				schemaCheck(ap, x, path+"."+k, errs)
			}
			// unknown fields are pruned, not rejected
		}
	case "array":
		a, ok := v.([]interface{})
		if !ok {
			*errs = append(*errs, path+": must be an array")
			return
		}
		if it, ok := sc["items"].(map[string]interface{}); ok {
			for i, x := range a {
				schemaCheck(it, x, fmt.Sprintf("%s[%d]", path, i), errs)
			}
		}
	case "string":
		str, ok := v.(string)
		if !ok {
			*errs = append(*errs, path+": must be a string")
			return
		}
		if p, ok := sc["pattern"].(string); ok {
			if re, err := regexp.Compile(p); err != nil || !re.MatchString(str) {
				*errs = append(*errs, path+": pattern")
			}
		}
		if en, ok := sc["enum"].([]interface{}); ok {
			found := false
			for _, e := range en {
				if e == str {
					found = true
				}
			}
			if !found {
				*errs = append(*errs, path+": enum")
			}
		}
	case "integer":
		n, ok := v.(json.Number)
		if !ok {
			*errs = append(*errs, path+": must be an integer")
			return
		}
		i, err := n.Int64()
		if err != nil {
			*errs = append(*errs, path+": must be an integer")
			return
		}
		if mn, ok := sc["minimum"].(float64); ok && float64(i) < mn {
			*errs = append(*errs, path+": minimum")
		}
		if mx, ok := sc["maximum"].(float64); ok && float64(i) > mx {
			*errs = append(*errs, path+": maximum")
		}
	case "number":
		if _, ok := v.(json.Number); !ok {
			*errs = append(*errs, path+": must be a number")
		}
	case "boolean":
		if _, ok := v.(bool); !ok {
			*errs = append(*errs, path+": must be a boolean")
		}
	case "":
		// no type: anything (metadata, x-kubernetes-preserve-unknown-fields)
	default:
		*errs = append(*errs, "UNSUPPORTED schema type "+typ+" at "+path)
	}
}

func generic(obj interface{}) (interface{}, error) {
	b, err := json.Marshal(obj)
	if err != nil {
		return nil, err
	}
	dec := json.NewDecoder(strings.NewReader(string(b)))
	dec.UseNumber()
	var g interface{}
	err = dec.Decode(&g)
	return g, err
}

// crdAdmitted: the object, as the JSON a client would send, validates against the published schema.
func crdAdmitted(kind string, obj interface{}) (bool, []string) {
	schemaOnce.Do(loadSchemas)
	if schemaErr != nil {
		fmt.Fprintf(os.Stderr, "c17: %v\n", schemaErr)
		os.Exit(5)
	}
	g, err := generic(obj)
	if err != nil {
		return false, []string{err.Error()}
	}
	if m, ok := g.(map[string]interface{}); ok {
		delete(m, "status")
		delete(m, "metadata")
	}
	var errs []string
	schemaCheck(schemas[kind], g, kind, &errs)
	for _, e := range errs {
		if strings.HasPrefix(e, "UNSUPPORTED") {
			fmt.Fprintf(os.Stderr, "c17: %s\n", e)
			os.Exit(5)
		}
	}
	return len(errs) == 0, errs
}

// The API server's built-in validation of the watched core kinds, transcribed (k8s.io/kubernetes
// is not available offline): only what decides admissibility of the objects generated here.
func ingressAdmitted(ing *networking.Ingress) bool {
	backendOK := func(b *networking.IngressBackend) bool {
		if (b.Service != nil) == (b.Resource != nil) {
			return false // exactly one of service / resource
		}
		if b.Service != nil {
			if b.Service.Name == "" {
				return false
			}
			if (b.Service.Port.Name != "") == (b.Service.Port.Number != 0) {
				return false // exactly one of port name / number
			}
		}
		if b.Resource != nil && (b.Resource.Kind == "" || b.Resource.Name == "") {
			return false
		}
		return true
	}
	if ing.Spec.DefaultBackend == nil && len(ing.Spec.Rules) == 0 {
		return false
	}
	if ing.Spec.DefaultBackend != nil && !backendOK(ing.Spec.DefaultBackend) {
		return false
	}
	for _, r := range ing.Spec.Rules {
		if strings.ContainsAny(r.Host, " /:") || strings.HasPrefix(r.Host, ".") {
			return false
		}
		if r.HTTP == nil {
			continue
		}
		if len(r.HTTP.Paths) == 0 {
			return false
		}
		for _, p := range r.HTTP.Paths {
			if p.PathType == nil || !backendOK(&p.Backend) {
				return false
			}
			switch *p.PathType {
			case networking.PathTypeExact, networking.PathTypePrefix:
				if !strings.HasPrefix(p.Path, "/") || strings.Contains(p.Path, "//") || strings.Contains(p.Path, "/./") || strings.Contains(p.Path, "/../") {
					return false
				}
			case networking.PathTypeImplementationSpecific:
				if p.Path != "" && !strings.HasPrefix(p.Path, "/") {
					return false
				}
			default:
				return false
			}
		}
	}
	for _, t := range ing.Spec.TLS {
		for _, h := range t.Hosts {
			if h == "" {
				return false
			}
		}
	}
	return true
}

func serviceAdmitted(s *api_v1.Service) bool {
	if s.Spec.Type == api_v1.ServiceTypeExternalName {
		return s.Spec.ExternalName != ""
	}
	if len(s.Spec.Ports) == 0 {
		return false
	}
	names := map[string]bool{}
	for _, p := range s.Spec.Ports {
		if p.Port < 1 || p.Port > 65535 {
			return false
		}
		if len(s.Spec.Ports) > 1 && p.Name == "" {
			return false
		}
		if names[p.Name] {
			return false
		}
		names[p.Name] = true
	}
	return true
}

func sliceAdmitted(e *discovery_v1.EndpointSlice) bool {
	if e.AddressType == "" {
		return false
	}
	for _, ep := range e.Endpoints {
		if len(ep.Addresses) < 1 {
			return false
		}
	}
	names := map[string]bool{}
	for _, p := range e.Ports {
		n := ""
		if p.Name != nil {
			n = *p.Name
		}
		if names[n] {
			return false
		}
		names[n] = true
	}
	return true
}

func secretAdmitted(s *api_v1.Secret) bool {
	if s.Type == api_v1.SecretTypeTLS {
		_, a := s.Data["tls.crt"]
		_, b := s.Data["tls.key"]
		return a && b
	}
	return true
}

func admitted(obj interface{}) bool {
	switch x := obj.(type) {
	case *conf_v1.VirtualServer:
		ok, _ := crdAdmitted("VirtualServer", x)
		return ok
	case *conf_v1.VirtualServerRoute:
		ok, _ := crdAdmitted("VirtualServerRoute", x)
		return ok
	case *conf_v1.TransportServer:
		ok, _ := crdAdmitted("TransportServer", x)
		return ok
	case *conf_v1.Policy:
		ok, _ := crdAdmitted("Policy", x)
		return ok
	case *conf_v1.GlobalConfiguration:
		ok, _ := crdAdmitted("GlobalConfiguration", x)
		return ok
	case *networking.Ingress:
		return ingressAdmitted(x)
	case *api_v1.Service:
		return serviceAdmitted(x)
	case *discovery_v1.EndpointSlice:
		return sliceAdmitted(x)
	case *api_v1.Secret:
		return secretAdmitted(x)
	}
	return false
}

// ---------------------------------------------------------------- S: random stream

// string pools by JSON field name; the first entry is a valid value and is chosen most often
var strPool = map[string][]string{
	"host":                        {host1, host2, "*.example.com", "", "UPPER.example.com"},
	"path":                        {"/r", "/", "/r/s", "~ ^/re", "= /exact", "", "/{x}", "/a b"},
	"service":                     {"svc-a", "svc-ext", "missing", ""},
	"backup":                      {"", "svc-ext", "svc-a"},
	"secret":                      {"tls-secret", "", "missing", "ca-secret", "jwk-secret", "htpasswd-secret"},
	"clientCertSecret":            {"ca-secret", "", "tls-secret", "missing"},
	"tlsSecret":                   {"tls-secret", "", "missing"},
	"trustedCertSecret":           {"ca-secret", "", "missing"},
	"clientSecret":                {"oidc-secret", "apikey-secret", "", "missing"},
	"crlFileName":                 {"", "crl.pem"},
	"protocol":                    {"TCP", "UDP", "HTTP", "TLS_PASSTHROUGH", ""},
	"lb-method":                   {"", "round_robin", "least_conn", "ip_hash", "hash $request_uri consistent", "random two least_conn", "bogus"},
	"loadBalancingMethod":         {"", "round_robin", "least_conn", "hash $remote_addr", "random two", "bogus"},
	"type":                        {"", "http", "grpc", "text/plain"},
	"url":                         {"http://www.example.com", "${scheme}://${host}/x", "", "ftp://x"},
	"body":                        {"ok", "${request_uri}", "", "\"quoted\""},
	"rate":                        {"10r/s", "1r/m", "bogus", ""},
	"key":                         {"${binary_remote_addr}", "${request_uri}", "bad key", ""},
	"zoneSize":                    {"10M", "1k", "x", ""},
	"logLevel":                    {"", "error", "bogus"},
	"realm":                       {"realm", "", "a \"b\""},
	"token":                       {"", "$http_token", "$cookie_t", "bad"},
	"jwksURI":                     {"", "https://idp.example.com/jwks", "bad"},
	"keyCache":                    {"", "1h", "x"},
	"authEndpoint":                {"https://idp.example.com/auth", "", "bad"},
	"tokenEndpoint":               {"https://idp.example.com/token", ""},
	"endSessionEndpoint":          {"", "https://idp.example.com/logout"},
	"postLogoutRedirectURI":       {"", "/_logout"},
	"redirectURI":                 {"", "/_codexch"},
	"clientID":                    {"client", ""},
	"scope":                       {"", "openid+profile", "bogus"},
	"claim":                       {"sub", "a.b", ""},
	"match":                       {"gold", ""},
	"header":                      {"", "x-h", "bad header"},
	"cookie":                      {"", "c", "bad-cookie"},
	"argument":                    {"", "a"},
	"variable":                    {"", "$request_method", "$bogus"},
	"value":                       {"v", "!v", "", "a b"},
	"statusMatch":                 {"", "200", "! 500", "2xx"},
	"route":                       {"", "default/z-vsr", "z-vsr", "a/b/c"},
	"dos":                         {"", "default/dos"},
	"logDest":                     {"stderr", "syslog:server=127.0.0.1:514", "bad", ""},
	"apPolicy":                    {"", "default/dataguard"},
	"apBundle":                    {"", "bundle.tgz"},
	"apLogConf":                   {"", "default/logconf"},
	"apLogBundle":                 {"", "log.tgz"},
	"verifyClient":                {"on", "off", "optional", "optional_no_ca", "bogus", ""},
	"sslName":                     {"", "srv.example.com"},
	"serverName":                  {"", ""},
	"ciphers":                     {"", "DEFAULT"},
	"protocols":                   {"", "TLSv1.2"},
	"send":                        {"", "ping", "\\x0"},
	"expect":                      {"", "pong", "~ ^x", "~ ("},
	"ipv4":                        {"", "127.0.0.1", "bad"},
	"ipv6":                        {"", "::1", "bad"},
	"http":                        {"", "http-l", "missing"},
	"https":                       {"", "https-l", "missing"},
	"basedOn":                     {"", "scheme", "x-forwarded-proto", "bogus"},
	"rewritePath":                 {"", "/x", "/$1"},
	"grpcService":                 {"", "svc.Health"},
	"samesite":                    {"", "strict", "bogus"},
	"domain":                      {"", ".example.com"},
	"expires":                     {"", "1h", "max"},
	"next-upstream":               {"", "error timeout", "bogus"},
	"server-snippets":             {"", "# s"},
	"location-snippets":           {"", "# l"},
	"http-snippets":               {"", "# h"},
	"serverSnippets":              {"", "# s"},
	"streamSnippets":              {"", "# t"},
	"ingressClassName":            {"nginx"},
	"internalRoute":               {""},
	"cluster-issuer":              {"issuer", ""},
	"issuer":                      {"", "issuer"},
	"suppliedIn":                  {""},
	"name":                        {"name1", "", "bad name"},
	"namespace":                   {"", "default", "Bad"},
	"SuppliedIn.header":           {"X-API-Key", "", "bad header"},
	"SuppliedIn.query":            {"apikey", "", "q\""},
	"AccessControl.allow":         {"10.0.0.0/8", "1.2.3.4", "bad"},
	"AccessControl.deny":          {"10.1.0.0/16", "bad"},
	"ProxyResponseHeaders.hide":   {"x-hide", "bad header"},
	"ProxyResponseHeaders.pass":   {"x-pass", "bad header"},
	"ProxyResponseHeaders.ignore": {"Expires", "Bogus"},
	"OIDC.authExtraArgs":          {"a=b", "bad arg"},
	"TransportServerSpec.host":    {"", host2, "bad host"},
	"JWTAuth.secret":              {"jwk-secret", "", "missing"},
	"BasicAuth.secret":            {"htpasswd-secret", "", "missing"},
	"HealthCheck.path":            {"/healthz", "", "bad path"},
	"UpstreamBuffers.size":        {"8k", "", "x"},
	"SessionCookie.path":          {"", "/", "bad path"},
}

func isTimeField(n string) bool {
	for _, k := range []string{"timeout", "interval", "jitter", "slow-start", "keepalive-time", "failTimeout", "fail-timeout", "duration", "renew-before", "accessTokenEnable"} {
		if strings.Contains(n, k) {
			return true
		}
	}
	return false
}

// gen carries the PRNG and the noise level of one object: with probability noise/100 a value
// is drawn from the whole pool (valid and invalid), otherwise the pool's first (valid) entry.
type gen struct {
	r     *vh.Rng
	noise int
}

func newGen(r *vh.Rng) *gen {
	switch x := r.Intn(100); {
	case x < 45:
		return &gen{r, 0}
	case x < 75:
		return &gen{r, 8}
	default:
		return &gen{r, 40}
	}
}

func (g *gen) noisy() bool { return g.noise > 0 && g.r.Intn(100) < g.noise }

func pickOf[T any](g *gen, pool []T) T {
	if g.noisy() {
		return vh.Pick(g.r, pool)
	}
	return pool[0]
}

// pickNear: like pickOf, but half of the noisy picks are near-misses of the pool's valid value
func pickNear(g *gen, pool []string) string {
	if g.noisy() {
		if g.r.Bool() && pool[0] != "" {
			return vh.Pick(g.r, nearMisses(pool[0], true))
		}
		return vh.Pick(g.r, pool)
	}
	return pool[0]
}

func pickStr(g *gen, parent, name string) string {
	if p, ok := strPool[parent+"."+name]; ok {
		return pickNear(g, p)
	}
	if p, ok := strPool[name]; ok {
		return pickNear(g, p)
	}
	if isTimeField(name) {
		return pickOf(g, []string{"", "5s", "1m", "bogus", "0"})
	}
	if strings.Contains(name, "size") || strings.Contains(name, "Size") {
		return pickOf(g, []string{"", "8k", "1m", "x"})
	}
	return pickOf(g, []string{"", "v", "x-1"})
}

func pickInt(g *gen, name string) int64 {
	switch name {
	case "port", "backupPort":
		return pickOf(g, []int64{80, 8080, 443, 0, 65535, 9000})
	case "code":
		return pickOf(g, []int64{0, 200, 301, 302, 404, 503, 999})
	case "codes":
		return pickOf(g, []int64{502, 404, 200, 600})
	case "weight":
		return pickOf(g, []int64{50, 0, 100, 30})
	case "rejectCode":
		return pickOf(g, []int64{503, 429, 200})
	case "grpcStatus":
		return pickOf(g, []int64{12, 0, 99})
	}
	return pickOf(g, []int64{1, 0, 2, 10, -1})
}

// fill sets every field of a CRD spec from the pools: pointers are nil with probability 1/3,
// slices have 0-2 elements (nil or empty when 0), maps are nil / empty / one entry.
func fill(v reflect.Value, g *gen, parent, name string, depth int) {
	r := g.r
	switch v.Kind() {
	case reflect.Ptr:
		if r.Chance(1, 3) || depth > 7 {
			return
		}
		v.Set(reflect.New(v.Type().Elem()))
		fill(v.Elem(), g, parent, name, depth+1)
	case reflect.Struct:
		t := v.Type()
		for i := 0; i < t.NumField(); i++ {
			f := t.Field(i)
			if f.Name == "TypeMeta" || f.Name == "ObjectMeta" || f.Name == "Status" || f.PkgPath != "" {
				continue
			}
			n := strings.Split(f.Tag.Get("json"), ",")[0]
			if n == "" {
				n = name // inlined struct
			}
			fill(v.Field(i), g, t.Name(), n, depth+1)
		}
	case reflect.Slice:
		n := 0
		switch {
		case depth > 7:
		case r.Chance(3, 10):
			if r.Bool() {
				v.Set(reflect.MakeSlice(v.Type(), 0, 0))
			}
			return
		case r.Chance(4, 7):
			n = 1
		default:
			n = 2
		}
		s := reflect.MakeSlice(v.Type(), n, n)
		for i := 0; i < n; i++ {
			e := s.Index(i)
			if e.Kind() == reflect.Ptr { // list items are never null
				e.Set(reflect.New(e.Type().Elem()))
				fill(e.Elem(), g, parent, name, depth+1)
			} else {
				fill(e, g, parent, name, depth+1)
			}
		}
		v.Set(s)
	case reflect.Map:
		if r.Chance(1, 2) {
			return
		}
		m := reflect.MakeMap(v.Type())
		if r.Bool() && v.Type().Key().Kind() == reflect.String && v.Type().Elem().Kind() == reflect.String {
			m.SetMapIndex(reflect.ValueOf("app").Convert(v.Type().Key()), reflect.ValueOf("a").Convert(v.Type().Elem()))
		}
		v.Set(m)
	case reflect.String:
		v.SetString(pickStr(g, parent, name))
	case reflect.Bool:
		v.SetBool(r.Bool())
	case reflect.Int, reflect.Int32, reflect.Int64, reflect.Int16, reflect.Int8:
		v.SetInt(pickInt(g, name))
	case reflect.Uint16, reflect.Uint32, reflect.Uint64, reflect.Uint, reflect.Uint8:
		x := pickInt(g, name)
		if x < 0 {
			x = 0
		}
		v.SetUint(uint64(x))
	}
}

// mostly-valid post-processing: unique upstream names, actions that reference them, weights
// that add up, distinct route paths
func fixAction(a *conf_v1.Action, ups []string, g *gen) {
	r := g.r
	if a == nil || g.noisy() {
		return
	}
	if len(ups) == 0 {
		ups = []string{"u0"}
	}
	u := vh.Pick(r, ups)
	if a.Proxy != nil {
		a.Proxy.Upstream = u
	}
	if !g.noisy() { // keep exactly one of the four most of the time
		switch {
		case a.Proxy != nil:
			a.Pass, a.Redirect, a.Return = "", nil, nil
		case a.Return != nil:
			a.Pass, a.Redirect = "", nil
			if a.Return.Body == "" {
				a.Return.Body = "ok"
			}
		case a.Redirect != nil:
			a.Pass = ""
			if a.Redirect.URL == "" {
				a.Redirect.URL = "http://www.example.com"
			}
		default:
			a.Pass = u
		}
	} else if r.Bool() {
		a.Pass = u
	}
}

func fixSplits(sp []conf_v1.Split, ups []string, g *gen) {
	for i := range sp {
		if sp[i].Action == nil && !g.noisy() {
			sp[i].Action = &conf_v1.Action{}
		}
		fixAction(sp[i].Action, ups, g)
	}
	if len(sp) == 2 && !g.noisy() {
		sp[0].Weight, sp[1].Weight = 40, 60
	}
}

func fixRoutes(routes []conf_v1.Route, ups []string, g *gen, prefix string) {
	for i := range routes {
		rt := &routes[i]
		if !g.noisy() {
			rt.Path = fmt.Sprintf("%s%d", prefix, i)
		}
		fixAction(rt.Action, ups, g)
		fixSplits(rt.Splits, ups, g)
		for j := range rt.Matches {
			m := &rt.Matches[j]
			fixAction(m.Action, ups, g)
			fixSplits(m.Splits, ups, g)
			if !g.noisy() {
				if len(m.Conditions) == 0 {
					m.Conditions = []conf_v1.Condition{{}}
				}
				for k := range m.Conditions {
					m.Conditions[k] = conf_v1.Condition{Header: "x-h", Value: "v"}
				}
				if m.Action != nil {
					m.Splits = nil
				} else if len(m.Splits) != 2 {
					m.Splits = nil
					m.Action = &conf_v1.Action{Pass: pickUp(ups)}
				}
			}
		}
		for j := range rt.ErrorPages {
			e := &rt.ErrorPages[j]
			if !g.noisy() {
				if len(e.Codes) == 0 {
					e.Codes = []int{502}
				}
				if e.Return != nil {
					e.Redirect = nil
					if e.Return.Body == "" {
						e.Return.Body = "sorry"
					}
					for k := range e.Return.Headers {
						e.Return.Headers[k] = conf_v1.Header{Name: "x-e", Value: "1"}
					}
				} else if e.Redirect == nil {
					e.Redirect = &conf_v1.ErrorPageRedirect{ActionRedirect: conf_v1.ActionRedirect{URL: "http://err.example.com"}}
				} else if e.Redirect.URL == "" {
					e.Redirect.URL = "http://err.example.com"
				}
			}
		}
		for j := range rt.Policies {
			if !g.noisy() {
				rt.Policies[j] = conf_v1.PolicyReference{Name: fmt.Sprintf("z-pol%d", j)}
			}
		}
		if !g.noisy() { // exactly one of action / splits / route
			switch {
			case rt.Action != nil:
				rt.Splits, rt.Route = nil, ""
			case len(rt.Splits) == 2:
				rt.Route = ""
			case rt.Route != "":
				rt.Splits = nil
				if len(rt.Matches) > 0 {
					rt.Matches = nil
				}
			default:
				rt.Splits = nil
				rt.Action = &conf_v1.Action{Pass: pickUp(ups)}
			}
		}
	}
}

func pickUp(ups []string) string {
	if len(ups) == 0 {
		return "u0"
	}
	return ups[0]
}

func fixUpstreams(us []conf_v1.Upstream, g *gen) []string {
	var names []string
	for i := range us {
		u := &us[i]
		if !g.noisy() {
			u.Name = fmt.Sprintf("u%d", i)
			if u.Port == 0 {
				u.Port = 80
			}
			if (u.Backup == "") != (u.BackupPort == nil) {
				u.Backup, u.BackupPort = "", nil
			}
			if u.Subselector != nil {
				u.UseClusterIP = false
			}
			if u.HealthCheck != nil {
				if u.HealthCheck.Persistent {
					u.HealthCheck.Mandatory = true
				}
				for k := range u.HealthCheck.Headers {
					u.HealthCheck.Headers[k] = conf_v1.Header{Name: "x-hc", Value: "1"}
				}
				if u.Type != "grpc" {
					u.HealthCheck.GRPCStatus, u.HealthCheck.GRPCService = nil, ""
				}
			}
			if u.Queue != nil && u.Queue.Size <= 0 {
				u.Queue.Size = 10
			}
		}
		names = append(names, u.Name)
	}
	return names
}

func randomIngress(r *vh.Rng) *networking.Ingress {
	cls := "nginx"
	ing := &networking.Ingress{ObjectMeta: meta("z-new", 9), Spec: networking.IngressSpec{IngressClassName: &cls}}
	pts := []networking.PathType{networking.PathTypePrefix, networking.PathTypeExact, networking.PathTypeImplementationSpecific}
	backend := func() networking.IngressBackend {
		switch {
		case r.Chance(7, 10):
			b := networking.IngressBackend{Service: &networking.IngressServiceBackend{Name: vh.Pick(r, []string{"svc-a", "svc-b", "svc-ext", "missing"})}}
			if r.Chance(3, 4) {
				b.Service.Port.Number = vh.Pick(r, []int32{80, 8080, 443})
			} else {
				b.Service.Port.Name = vh.Pick(r, []string{"http", "nope"})
			}
			return b
		case r.Chance(2, 3):
			g := "k8s.example.com"
			return networking.IngressBackend{Resource: &api_v1.TypedLocalObjectReference{APIGroup: &g, Kind: "StorageBucket", Name: "b"}}
		}
		return networking.IngressBackend{}
	}
	if r.Chance(1, 3) {
		b := backend()
		ing.Spec.DefaultBackend = &b
	}
	nr := r.Intn(3)
	if r.Chance(1, 2) {
		nr = 1
	}
	for i := 0; i < nr; i++ {
		rule := networking.IngressRule{Host: vh.Pick(r, []string{host1, host2, "", "*.example.com", "h3.example.com"})}
		if r.Chance(4, 5) {
			http := &networking.HTTPIngressRuleValue{}
			np := 1 + r.Intn(2)
			if r.Chance(1, 10) {
				np = 0
			}
			for j := 0; j < np; j++ {
				p := networking.HTTPIngressPath{Backend: backend(),
					Path: vh.Pick(r, []string{"/", "/p", "/p/q", "", "/a{1,3}", "/x;y", "/~re", "/p.*", "/\"q", "/a\\"})}
				if r.Chance(9, 10) {
					pt := vh.Pick(r, pts)
					p.PathType = &pt
				}
				http.Paths = append(http.Paths, p)
			}
			rule.HTTP = http
		}
		ing.Spec.Rules = append(ing.Spec.Rules, rule)
	}
	if r.Chance(1, 3) {
		ing.Spec.TLS = []networking.IngressTLS{{Hosts: []string{host1}, SecretName: vh.Pick(r, []string{"tls-secret", "missing", ""})}}
	}
	annPool := [][2]string{
		{"nginx.org/mergeable-ingress-type", "master"}, {"nginx.org/mergeable-ingress-type", "minion"}, {"nginx.org/mergeable-ingress-type", "x"},
		{"nginx.org/lb-method", "round_robin"}, {"nginx.org/lb-method", "bogus"}, {"nginx.com/health-checks", "true"},
		{"nginx.com/health-checks-mandatory", "true"}, {"nginx.com/health-checks-mandatory-queue", "10"}, {"nginx.com/slow-start", "10s"},
		{"nginx.org/server-tokens", "off"}, {"nginx.org/server-snippets", "# s"}, {"nginx.org/location-snippets", "# l"},
		{"nginx.org/proxy-connect-timeout", "10s"}, {"nginx.org/proxy-read-timeout", "x"}, {"nginx.org/proxy-hide-headers", "a,b"},
		{"nginx.org/proxy-set-headers", "X-A: b,X-C"}, {"nginx.org/client-max-body-size", "1m"}, {"nginx.org/redirect-to-https", "true"},
		{"nginx.org/hsts", "true"}, {"nginx.org/hsts-max-age", "100"}, {"nginx.org/proxy-buffers", "4 8k"}, {"nginx.org/proxy-buffer-size", "8k"},
		{"nginx.org/basic-auth-secret", "htpasswd-secret"}, {"nginx.org/basic-auth-secret", "missing"}, {"nginx.org/basic-auth-realm", "r"},
		{"nginx.com/jwt-key", "jwk-secret"}, {"nginx.com/jwt-key", "missing"}, {"nginx.com/jwt-realm", "r"}, {"nginx.com/jwt-token", "$cookie_t"},
		{"nginx.com/jwt-login-url", "https://login.example.com"}, {"nginx.org/listen-ports", "8080,9090"}, {"nginx.org/listen-ports-ssl", "8443"},
		{"nginx.org/keepalive", "8"}, {"nginx.org/max-fails", "2"}, {"nginx.org/max-conns", "10"}, {"nginx.org/fail-timeout", "5s"},
		{"nginx.org/websocket-services", "svc-a"}, {"nginx.org/ssl-services", "svc-a"}, {"nginx.org/grpc-services", "svc-a"},
		{"nginx.org/rewrites", "serviceName=svc-a rewrite=/x"}, {"nginx.com/sticky-cookie-services", "serviceName=svc-a srv_id expires=1h"},
		{"nginx.org/path-regex", "case_sensitive"}, {"nginx.org/path-regex", "exact"}, {"nginx.org/use-cluster-ip", "true"},
		{"nginx.org/limit-req-rate", "10r/s"}, {"nginx.org/limit-req-key", "${binary_remote_addr}"}, {"nginx.org/limit-req-zone-size", "10m"},
		{"nginx.org/limit-req-burst", "5"}, {"nginx.org/limit-req-scale", "true"}, {"nginx.org/http2", "true"},
		{"appprotect.f5.com/app-protect-enable", "True"}, {"appprotect.f5.com/app-protect-policy", "default/dataguard"},
		{"appprotect.f5.com/app-protect-security-log-enable", "True"}, {"appprotect.f5.com/app-protect-security-log", "default/logconf"},
		{"appprotectdos.f5.com/app-protect-dos-resource", "default/dos"}, {"appprotect.f5.com/app-protect-security-log-destination", "syslog:server=127.0.0.1:514"}, {"nginx.org/proxy-pass-headers", "x"}, {"nginx.org/ssl-redirect", "false"},
	}
	na := r.Intn(5)
	if r.Chance(1, 3) {
		na = 0
	}
	if na > 0 {
		ing.Annotations = map[string]string{}
		for i := 0; i < na; i++ {
			a := vh.Pick(r, annPool)
			v := a[1]
			if r.Chance(1, 5) {
				v = vh.Pick(r, nearMisses(v, true))
			}
			ing.Annotations[a[0]] = v
		}
	}
	if r.Chance(1, 6) {
		ing.Labels = map[string]string{"acme.cert-manager.io/http01-solver": "true"}
	}
	return ing
}

func randomService(r *vh.Rng) *api_v1.Service {
	s := &api_v1.Service{ObjectMeta: meta(vh.Pick(r, []string{"svc-a", "svc-b", "svc-ext"}), 120)}
	if r.Chance(1, 4) {
		s.Spec.Type = api_v1.ServiceTypeExternalName
		s.Spec.ExternalName = vh.Pick(r, []string{"ext.example.com", ""})
	} else {
		s.Spec.ClusterIP = vh.Pick(r, []string{"10.0.0.9", "None", "fd00::1", ""})
		if r.Chance(2, 3) {
			s.Spec.Selector = map[string]string{"app": "a"}
		}
	}
	for i, n := 0, r.Intn(3); i < n; i++ {
		p := api_v1.ServicePort{Port: vh.Pick(r, []int32{80, 8080, 443, 0})}
		if n > 1 || r.Bool() {
			p.Name = fmt.Sprintf("p%d", i)
			if i == 0 && r.Bool() {
				p.Name = "http"
			}
		}
		switch r.Intn(3) {
		case 0:
			p.TargetPort = intstr.FromInt(8080)
		case 1:
			p.TargetPort = intstr.FromString(vh.Pick(r, []string{"http", "nope"}))
		}
		s.Spec.Ports = append(s.Spec.Ports, p)
	}
	return s
}

func randomSlice(r *vh.Rng) *discovery_v1.EndpointSlice {
	e := &discovery_v1.EndpointSlice{ObjectMeta: meta(vh.Pick(r, []string{"svc-a-1", "svc-a-2", "other-1"}), 121), AddressType: discovery_v1.AddressTypeIPv4}
	if r.Chance(9, 10) {
		e.Labels = map[string]string{"kubernetes.io/service-name": vh.Pick(r, []string{"svc-a", "svc-b", "nginx-ingress"})}
	}
	if r.Chance(1, 10) {
		e.AddressType = discovery_v1.AddressTypeIPv6
	}
	for i, n := 0, r.Intn(3); i < n; i++ {
		ep := discovery_v1.Endpoint{}
		for j, m := 0, r.Intn(3); j < m; j++ {
			ep.Addresses = append(ep.Addresses, vh.Pick(r, []string{"10.1.0.1", "10.1.0.3", "fd00::5"}))
		}
		if r.Chance(3, 4) {
			b := r.Chance(3, 4)
			ep.Conditions.Ready = &b
		}
		if r.Chance(1, 2) {
			ep.TargetRef = &api_v1.ObjectReference{Kind: "Pod", Namespace: "default", Name: vh.Pick(r, []string{"pod-a", "gone"})}
		}
		e.Endpoints = append(e.Endpoints, ep)
	}
	for i, n := 0, r.Intn(3); i < n; i++ {
		p := discovery_v1.EndpointPort{}
		if r.Chance(3, 4) {
			x := vh.Pick(r, []int32{8080, 80, 443})
			p.Port = &x
		}
		if r.Chance(3, 4) {
			nm := fmt.Sprintf("p%d", i)
			p.Name = &nm
		}
		e.Ports = append(e.Ports, p)
	}
	return e
}

func randomSecret(r *vh.Rng) *api_v1.Secret {
	crt, key := selfSigned()
	name := vh.Pick(r, []string{"tls-secret", "ca-secret", "jwk-secret", "htpasswd-secret", "oidc-secret", "apikey-secret"})
	s := &api_v1.Secret{ObjectMeta: meta(name, 122)}
	s.Type = vh.Pick(r, []api_v1.SecretType{api_v1.SecretTypeTLS, "nginx.org/ca", "nginx.org/jwk", "nginx.org/htpasswd", "nginx.org/oidc", "nginx.org/apikey", api_v1.SecretTypeOpaque, ""})
	if r.Chance(1, 6) {
		return s // Data nil
	}
	s.Data = map[string][]byte{}
	for _, k := range []string{"tls.crt", "tls.key", "ca.crt", "ca.crl", "jwk", "htpasswd", "client-secret", "client1"} {
		if r.Chance(1, 2) {
			switch {
			case k == "tls.crt" || k == "ca.crt":
				s.Data[k] = vh.Pick(r, [][]byte{crt, []byte("garbage"), nil})
			case k == "tls.key":
				s.Data[k] = vh.Pick(r, [][]byte{key, []byte("garbage"), nil})
			default:
				s.Data[k] = vh.Pick(r, [][]byte{[]byte("value"), nil, []byte("a:b")})
			}
		}
	}
	return s
}

func randomObject(kind string, r *vh.Rng) interface{} {
	g := newGen(r)
	switch kind {
	case "Ingress":
		return randomIngress(r)
	case "VirtualServer":
		vs := &conf_v1.VirtualServer{ObjectMeta: meta("z-vs", 9)}
		fill(reflect.ValueOf(&vs.Spec).Elem(), g, "VirtualServerSpec", "spec", 0)
		vs.Spec.IngressClass = "nginx"
		if !g.noisy() {
			vs.Spec.Host = host1
			for j := range vs.Spec.Policies {
				vs.Spec.Policies[j] = conf_v1.PolicyReference{Name: fmt.Sprintf("z-pol%d", j)}
			}
			if r.Chance(3, 4) {
				vs.Spec.Dos = ""
			}
			if vs.Spec.TLS != nil && r.Chance(2, 3) {
				vs.Spec.TLS.CertManager = nil
			}
			if vs.Spec.TLS != nil && vs.Spec.TLS.Redirect != nil && vs.Spec.TLS.Redirect.Code != nil {
				*vs.Spec.TLS.Redirect.Code = 301
			}
		}
		if !g.noisy() {
			if len(vs.Spec.Upstreams) == 0 && len(vs.Spec.Routes) > 0 {
				vs.Spec.Upstreams = []conf_v1.Upstream{{Service: "svc-a"}}
			}
			if r.Chance(4, 5) {
				vs.Spec.ExternalDNS.Enable = false
			}
		}
		ups := fixUpstreams(vs.Spec.Upstreams, g)
		fixRoutes(vs.Spec.Routes, ups, g, "/r")
		return vs
	case "VirtualServerRoute":
		v := &conf_v1.VirtualServerRoute{ObjectMeta: meta("z-vsr", 9)}
		fill(reflect.ValueOf(&v.Spec).Elem(), g, "VirtualServerRouteSpec", "spec", 0)
		v.Spec.IngressClass = "nginx"
		if !g.noisy() {
			v.Spec.Host = "vs.example.com"
		}
		if !g.noisy() && len(v.Spec.Upstreams) == 0 && len(v.Spec.Subroutes) > 0 {
			v.Spec.Upstreams = []conf_v1.Upstream{{Service: "svc-a"}}
		}
		ups := fixUpstreams(v.Spec.Upstreams, g)
		fixRoutes(v.Spec.Subroutes, ups, g, "/sub/r")
		for i := range v.Spec.Subroutes {
			if !g.noisy() && v.Spec.Subroutes[i].Route != "" {
				v.Spec.Subroutes[i].Route = ""
				v.Spec.Subroutes[i].Action = &conf_v1.Action{Pass: pickUp(ups)}
			}
		}
		return v
	case "TransportServer":
		ts := &conf_v1.TransportServer{ObjectMeta: meta("z-ts", 9)}
		fill(reflect.ValueOf(&ts.Spec).Elem(), g, "TransportServerSpec", "spec", 0)
		ts.Spec.IngressClass = "nginx"
		if !g.noisy() {
			ts.Spec.Listener = vh.Pick(r, []conf_v1.TransportServerListener{{Name: "tcp-l", Protocol: "TCP"}, {Name: "tcp-l", Protocol: "TCP"}, {Name: "udp-l", Protocol: "UDP"},
				{Name: conf_v1.TLSPassthroughListenerName, Protocol: conf_v1.TLSPassthroughListenerProtocol}})
			if ts.Spec.Listener.Protocol == conf_v1.TLSPassthroughListenerProtocol {
				ts.Spec.Host, ts.Spec.TLS = host2, nil
			}
			if ts.Spec.Listener.Protocol != "UDP" && ts.Spec.UpstreamParameters != nil {
				ts.Spec.UpstreamParameters.UDPRequests, ts.Spec.UpstreamParameters.UDPResponses = nil, nil
			}
			if len(ts.Spec.Upstreams) == 0 {
				ts.Spec.Upstreams = []conf_v1.TransportServerUpstream{{Service: "svc-a"}}
			}
			if ts.Spec.Action == nil && r.Chance(9, 10) {
				ts.Spec.Action = &conf_v1.TransportServerAction{}
			}
		}
		for i := range ts.Spec.Upstreams {
			if !g.noisy() {
				ts.Spec.Upstreams[i].Name = fmt.Sprintf("u%d", i)
				if ts.Spec.Upstreams[i].Port == 0 {
					ts.Spec.Upstreams[i].Port = 80
				}
				if (ts.Spec.Upstreams[i].Backup == "") != (ts.Spec.Upstreams[i].BackupPort == nil) {
					ts.Spec.Upstreams[i].Backup, ts.Spec.Upstreams[i].BackupPort = "", nil
				}
				if hc := ts.Spec.Upstreams[i].HealthCheck; hc != nil && hc.Match != nil {
					hc.Match.Send, hc.Match.Expect = "ping", "pong"
				}
			}
		}
		if ts.Spec.Action != nil && !g.noisy() {
			ts.Spec.Action.Pass = "u0"
		}
		if ts.Spec.TLS != nil && ts.Spec.Host == "" && r.Bool() {
			ts.Spec.TLS.Secret = "" // a tls block without a secret name is admitted by the schema
		}
		return ts
	case "Policy":
		p := &conf_v1.Policy{ObjectMeta: meta("z-pol", 9)}
		fill(reflect.ValueOf(&p.Spec).Elem(), g, "PolicySpec", "spec", 0)
		p.Spec.IngressClass = "nginx"
		if !g.noisy() { // keep one sub-spec
			keep := r.Intn(9)
			sp := reflect.ValueOf(&p.Spec).Elem()
			k := 0
			for i := 0; i < sp.NumField(); i++ {
				if sp.Field(i).Kind() == reflect.Ptr {
					if k != keep {
						sp.Field(i).Set(reflect.Zero(sp.Field(i).Type()))
					} else if sp.Field(i).IsNil() {
						sp.Field(i).Set(reflect.New(sp.Field(i).Type().Elem()))
						fill(sp.Field(i).Elem(), g, sp.Field(i).Type().Elem().Name(), "spec", 1)
					}
					k++
				}
			}
			if a := p.Spec.AccessControl; a != nil {
				if a.Allow == nil && a.Deny == nil {
					a.Allow = []string{"10.0.0.0/8"}
				} else if a.Allow != nil && a.Deny != nil {
					a.Deny = nil
				}
			}
			if k := p.Spec.APIKey; k != nil && k.SuppliedIn != nil && k.SuppliedIn.Header == nil && k.SuppliedIn.Query == nil {
				k.SuppliedIn.Header = []string{"X-API-Key"}
			}
			if e := p.Spec.EgressMTLS; e != nil && e.VerifyServer && e.TrustedCertSecret == "" {
				e.TrustedCertSecret = "ca-secret"
			}
			if o := p.Spec.OIDC; o != nil {
				o.ClientSecret = "oidc-secret"
				if o.EndSessionEndpoint == "" {
					o.PostLogoutRedirectURI = ""
				}
			}
			if a := p.Spec.APIKey; a != nil {
				a.ClientSecret = "apikey-secret"
			}
		}
		return p
	case "GlobalConfiguration":
		gc := gcObject(nil)
		fill(reflect.ValueOf(&gc.Spec).Elem(), g, "GlobalConfigurationSpec", "spec", 0)
		for i := range gc.Spec.Listeners {
			if !g.noisy() {
				gc.Spec.Listeners[i].Name = []string{"tcp-l", "udp-l"}[i%2]
				gc.Spec.Listeners[i].Protocol = []string{"TCP", "UDP"}[i%2]
				gc.Spec.Listeners[i].Port = 9000 + i
				gc.Spec.Listeners[i].Ssl = false
			}
		}
		return gc
	case "Service":
		return randomService(r)
	case "EndpointSlice":
		return randomSlice(r)
	case "Secret":
		return randomSecret(r)
	}
	return nil
}

var randomKinds = []string{"Ingress", "Ingress", "Ingress", "VirtualServer", "VirtualServer", "VirtualServer", "VirtualServerRoute",
	"TransportServer", "TransportServer", "Policy", "Policy", "GlobalConfiguration", "Service", "EndpointSlice", "Secret"}

// priorFor: a populated state that references what the object under test provides
func priorFor(c *k8s.VerifC17, viaSync bool, withGC bool, refPath string) {
	if withGC {
		store(c, gcObject(gcListeners()), viaSync)
	}
	vs := olderVS(false, []conf_v1.PolicyReference{{Name: "z-pol"}})
	vs.Spec.Routes = append(vs.Spec.Routes, conf_v1.Route{Path: refPath, Route: "default/z-vsr"})
	vs.Spec.Host = "vs.example.com"
	vs.Spec.Listener = &conf_v1.VirtualServerListener{HTTP: "http-l", HTTPS: "https-l"}
	store(c, vs, viaSync)
	store(c, olderTS(), viaSync)
	m, mi := ctxMaster(), ctxMinion()
	m.Spec.Rules[0].Host, mi.Spec.Rules[0].Host = "mm.example.com", "mm.example.com"
	m.Spec.TLS = []networking.IngressTLS{{Hosts: []string{"mm.example.com"}, SecretName: "tls-secret"}}
	m.Annotations["nginx.org/basic-auth-secret"] = "htpasswd-secret"
	store(c, m, viaSync)
	store(c, mi, viaSync)
}

func runObject(kind string, obj interface{}, f int, ctx int, panics *[]PanicInfo) (accepted bool, why string) {
	return runObjectF(kind, obj, f, ctx, panics, true)
}

// runObjectF: follow = also run the event-driven follow-ups on an accepted object
func runObjectF(kind string, obj interface{}, f int, ctx int, panics *[]PanicInfo, follow bool) (accepted bool, why string) {
	setErr := func(err error) bool {
		if err != nil {
			why = err.Error()
			if len(why) > 160 {
				why = why[:160]
			}
		}
		return err == nil
	}
	note := func(name, msg, site string) {
		*panics = append(*panics, PanicInfo{Combo: fmt.Sprintf("flags=%d ctx=%d", f, ctx), Stage: name, Msg: msg, Site: site})
	}
	for pass := 0; pass < 2; pass++ {
		viaSync := pass == 1
		c := newCtl(f)
		fillSecrets(c)
		if ctx > 0 {
			// prior states 1-4: without / with GlobalConfiguration; the VirtualServer references
			// default/z-vsr from a prefix (1, 2), exact (3) or regex (4) path
			refPath := []string{"", "/sub", "/sub", "=/sub", "~ ^/sub"}[ctx]
			if m, s := guard(func() { priorFor(c, viaSync, ctx >= 2, refPath) }); m != "" {
				note("prior-state", m, s)
				continue
			}
		}
		o := deepCopy(obj)
		if viaSync {
			if m, s := guard(func() { _ = c.Sync(o, false) }); m != "" {
				note("sync", m, s)
			} else if e, m, s := followUpsIf(accepted && follow, c); m != "" {
				note("followup:"+e, m, s)
			} else if m, s := guard(func() { _ = c.Sync(o, true) }); m != "" {
				note("sync-delete", m, s)
			}
			continue
		}
		switch x := o.(type) {
		case *networking.Ingress:
			if m, s := guard(func() { accepted = c.ValidateIngress(x.DeepCopy()) == 0 }); m != "" {
				note("validate", m, s)
			}
			if m, s := guard(func() {
				ch, pr := c.Configuration().AddOrUpdateIngress(x)
				c.ExtendAll()
				c.ProcessChanges(ch)
				c.ProcessProblems(pr)
				ch, pr = c.Configuration().DeleteIngress("default/z-new")
				c.ProcessChanges(ch)
				c.ProcessProblems(pr)
			}); m != "" {
				note("store", m, s)
			}
		case *conf_v1.VirtualServer:
			if m, s := guard(func() { accepted = setErr(c.VSValidator().ValidateVirtualServer(x.DeepCopy())) }); m != "" {
				note("validate", m, s)
			}
			if m, s := guard(func() {
				ch, pr := c.Configuration().AddOrUpdateVirtualServer(x)
				c.ExtendAll()
				c.ProcessChanges(ch)
				c.ProcessProblems(pr)
				ch, pr = c.Configuration().DeleteVirtualServer("default/z-vs")
				c.ProcessChanges(ch)
				c.ProcessProblems(pr)
			}); m != "" {
				note("store", m, s)
			}
		case *conf_v1.VirtualServerRoute:
			if m, s := guard(func() { accepted = setErr(c.VSValidator().ValidateVirtualServerRoute(x.DeepCopy())) }); m != "" {
				note("validate", m, s)
			}
			if m, s := guard(func() {
				ch, pr := c.Configuration().AddOrUpdateVirtualServerRoute(x)
				c.ExtendAll()
				c.ProcessChanges(ch)
				c.ProcessProblems(pr)
				ch, pr = c.Configuration().DeleteVirtualServerRoute("default/z-vsr")
				c.ProcessChanges(ch)
				c.ProcessProblems(pr)
			}); m != "" {
				note("store", m, s)
			}
		case *conf_v1.TransportServer:
			if m, s := guard(func() { accepted = setErr(c.TSValidator().ValidateTransportServer(x.DeepCopy())) }); m != "" {
				note("validate", m, s)
			}
			if m, s := guard(func() {
				ch, pr := c.Configuration().AddOrUpdateTransportServer(x)
				c.ExtendAll()
				c.ProcessChanges(ch)
				c.ProcessProblems(pr)
				ch, pr = c.Configuration().DeleteTransportServer("default/z-ts")
				c.ProcessChanges(ch)
				c.ProcessProblems(pr)
			}); m != "" {
				note("store", m, s)
			}
		case *conf_v1.Policy:
			if m, s := guard(func() { accepted = setErr(c.ValidatePolicy(x.DeepCopy())) }); m != "" {
				note("validate", m, s)
			}
			_ = c.AddPolicy(x)
			if m, s := guard(func() {
				vs := olderVS(false, []conf_v1.PolicyReference{{Name: "z-pol"}})
				vs.Name = "pol-vs"
				vs.Spec.Host = "pol.example.com"
				c.Configuration().AddOrUpdateVirtualServer(vs)
				c.ExtendAll()
			}); m != "" {
				note("extend", m, s)
			}
		case *conf_v1.GlobalConfiguration:
			if m, s := guard(func() { accepted = setErr(c.GCValidator().ValidateGlobalConfiguration(x.DeepCopy())) }); m != "" {
				note("validate", m, s)
			}
			if m, s := guard(func() {
				ch, pr, _ := c.Configuration().AddOrUpdateGlobalConfiguration(x)
				c.ExtendAll()
				_ = c.ProcessGCChanges(ch)
				c.ProcessProblems(pr)
				ch, pr = c.Configuration().DeleteGlobalConfiguration()
				_ = c.ProcessGCChanges(ch)
				c.ProcessProblems(pr)
			}); m != "" {
				note("store", m, s)
			}
		case *api_v1.Secret:
			if m, s := guard(func() { c.AddSecret(x); c.ExtendAll() }); m != "" {
				note("store", m, s)
			}
		case *api_v1.Service:
			_ = c.AddService(x)
			if m, s := guard(func() { c.ExtendAll() }); m != "" {
				note("extend", m, s)
			}
		case *discovery_v1.EndpointSlice:
			_ = c.AddSlice(x)
			if m, s := guard(func() { c.ExtendAll() }); m != "" {
				note("extend", m, s)
			}
		}
	}
	return accepted, why
}

func typedOfKind(kind string) interface{} {
	switch kind {
	case "Ingress":
		return &networking.Ingress{}
	case "VirtualServer":
		return &conf_v1.VirtualServer{}
	case "VirtualServerRoute":
		return &conf_v1.VirtualServerRoute{}
	case "TransportServer":
		return &conf_v1.TransportServer{}
	case "Policy":
		return &conf_v1.Policy{}
	case "GlobalConfiguration":
		return &conf_v1.GlobalConfiguration{}
	case "Service":
		return &api_v1.Service{}
	case "EndpointSlice":
		return &discovery_v1.EndpointSlice{}
	case "Secret":
		return &api_v1.Secret{}
	}
	return nil
}

func finishRandom(cs Case, obj interface{}) Case {
	adm := admitted(obj)
	cs.Admitted = &adm
	b, err := json.Marshal(obj)
	if err != nil {
		cs.Error = err.Error()
		return cs
	}
	cs.Object = b
	acc, why := runObject(cs.Kind, obj, cs.Flags, cs.Ctx, &cs.Panics)
	cs.Accepted = &acc
	cs.Why = why
	if len(cs.Panics) > 4 {
		cs.Panics = cs.Panics[:4]
	}
	return cs
}

func runRandom(id int, r *vh.Rng) Case {
	cs := Case{Fam: "rnd", ID: id, Kind: vh.Pick(r, randomKinds), Flags: r.Intn(128), Ctx: r.Intn(5)}
	var obj interface{}
	if m, s := guard(func() { obj = randomObject(cs.Kind, r) }); m != "" {
		cs.Error = "generator panic: " + m + " at " + s
		return cs
	}
	return finishRandom(cs, obj)
}

func replayRandom(c Case) Case {
	cs := Case{Fam: "rnd", ID: c.ID, Kind: c.Kind, Flags: c.Flags, Ctx: c.Ctx}
	obj := typedOfKind(c.Kind)
	if obj == nil {
		cs.Error = "unknown kind " + c.Kind
		return cs
	}
	if err := json.Unmarshal(c.Object, obj); err != nil {
		cs.Error = err.Error()
		return cs
	}
	return finishRandom(cs, obj)
}

// ptrInventory lists, by reflection over the API types, every field of the custom-resource
// specs whose zero value is nil (pointers, maps, slices of pointers): the places where a
// schema-admissible object can make the code meet a nil.  The driver compares the list with
// the inventory the model was written against, so a new optional sub-object is noticed.
func ptrInventory() []string {
	seen := map[reflect.Type]bool{}
	var out []string
	var walk func(t reflect.Type)
	walk = func(t reflect.Type) {
		for t.Kind() == reflect.Ptr || t.Kind() == reflect.Slice {
			t = t.Elem()
		}
		if t.Kind() != reflect.Struct || seen[t] || !strings.HasSuffix(t.PkgPath(), "pkg/apis/configuration/v1") {
			return
		}
		seen[t] = true
		for i := 0; i < t.NumField(); i++ {
			f := t.Field(i)
			ft := f.Type
			switch {
			case ft.Kind() == reflect.Ptr:
				out = append(out, t.Name()+"."+f.Name)
			case ft.Kind() == reflect.Map:
				out = append(out, t.Name()+"."+f.Name+"{}")
			case ft.Kind() == reflect.Slice && ft.Elem().Kind() == reflect.Ptr:
				out = append(out, t.Name()+"."+f.Name+"[]*")
			}
			walk(ft)
		}
	}
	for _, x := range []interface{}{conf_v1.VirtualServerSpec{}, conf_v1.VirtualServerRouteSpec{}, conf_v1.TransportServerSpec{},
		conf_v1.PolicySpec{}, conf_v1.GlobalConfigurationSpec{}} {
		walk(reflect.TypeOf(x))
	}
	sort.Strings(out)
	return out
}

// ---------------------------------------------------------------- S: adversarial values (near-miss grammar)

// String-valued fields that are parsed after (or while) being validated -- log destinations,
// host:port addresses, sizes, times, URLs, header lists, comma/space separated lists, key=value
// annotation values -- get values from a small grammar of near-misses of a valid value:
// valid prefix + junk suffix, junk prefix, a separator removed / doubled / alone, a part emptied,
// truncation at each separator, only separators, numbers out of range, very long, non-ASCII,
// control characters, quotes, braces, backslashes.  Systematic: every annotation of the
// validator's table and every string leaf of rich valid custom resources, times every value of
// the grammar, with Plus / App Protect / DoS on and off and the remaining flags all on and all off.
// Every such object is API-admissible (annotation values and these CRD strings are unconstrained;
// CRD objects are checked against the published schema and skipped when a pattern rejects them).
// A panic anywhere in validate -> store -> createExtendedResources -> generate is the violation.

// values that are near-misses of no particular base: only separators, empty parts, numbers out
// of range, non-ASCII, fragments of the key=value and URL syntaxes
var advFixed = []string{":", "::", ":::", "=", "==", ",", ",,", ";", "/", "//", "-", ".", "..", "$", "${", "${}", "\\", "\"", "0", "-1", "1.5", "1e9",
	"99999999999999999999", "65536", "日本語", "x", "true", "false", "True", "on", "max", "syslog:server=", "syslog:server=:", "stderr:a:1", "a:b:c", "a=b", "a=b=c", "=a", "a=",
	"http://", "https://[", "http://h:x/", "serviceName=", "serviceName= rewrite=", "serviceName=a rewrite", "rewrite=/x", "~", "~ ", "~*", "= ", "!", "! ", "*", "*."}

const advSeps = ":=,/ .-;$"

func nearMisses(v string, withFixed bool) []string {
	seen := map[string]bool{}
	var out []string
	add := func(x string) {
		if !seen[x] && x != v {
			seen[x] = true
			out = append(out, x)
		}
	}
	for _, j := range []string{"x", " x", "x ", ";", "}", "{", "$", "\\", "\"", "'", "\n", "\t", ":", "=", ",", "/", ".", "-", "%", "#", "0", ":0", ":x", "=x", ",x", "é", " ", "\x00"} {
		add(v + j)
		add(j + v)
	}
	add("")
	add(" ")
	if withFixed {
		for _, x := range advFixed {
			add(x)
		}
	}
	add(v + v)
	add(v + "," + v)
	add(v + " " + v)
	add(v + ";" + v)
	add(strings.ToUpper(v))
	add(v + strings.Repeat("a", 5000))
	add(strings.Repeat(v+",", 400))
	for i := 0; i < len(v); i++ {
		if strings.IndexByte(advSeps, v[i]) < 0 {
			continue
		}
		add(v[:i] + v[i+1:])              // separator removed
		add(v[:i] + string(v[i]) + v[i:]) // separator doubled
		add(v[:i])                        // truncated before it
		add(v[:i+1])                      // truncated after it
		add(v[i:])                        // only the rest, with the separator
		add(v[i+1:])                      // only the rest
		add(v[:i+1] + "x")                // part after it replaced
		add(v[:i] + "x" + v[i+1:])        // separator replaced
	}
	if len(v) > 1 {
		add(v[:len(v)-1])
		add(v[1:])
	}
	return out
}

// valid values of the annotations (the bases of the near-misses); every annotation also gets
// the generic bases
var advAnnBases = map[string][]string{
	"nginx.org/lb-method":                                    {"round_robin", "hash $request_uri consistent", "least_time header"},
	"nginx.com/slow-start":                                   {"10s"},
	"nginx.com/health-checks-mandatory-queue":                {"10"},
	"nginx.org/server-tokens":                                {"off", "custom"},
	"nginx.org/server-snippets":                              {"add_header X-A b;"},
	"nginx.org/location-snippets":                            {"add_header X-A b;"},
	"nginx.org/proxy-connect-timeout":                        {"10s"},
	"nginx.org/proxy-hide-headers":                           {"X-A,X-B"},
	"nginx.org/proxy-pass-headers":                           {"X-A,X-B"},
	"nginx.org/proxy-set-headers":                            {"X-A: b,X-C", "X-A"},
	"nginx.org/client-max-body-size":                         {"1m"},
	"nginx.org/hsts-max-age":                                 {"100"},
	"nginx.org/proxy-buffers":                                {"4 8k"},
	"nginx.org/proxy-buffer-size":                            {"8k"},
	"nginx.org/proxy-max-temp-file-size":                     {"1024m"},
	"nginx.org/upstream-zone-size":                           {"512k"},
	"nginx.org/basic-auth-secret":                            {"htpasswd-secret"},
	"nginx.org/basic-auth-realm":                             {"realm"},
	"nginx.com/jwt-realm":                                    {"realm"},
	"nginx.com/jwt-key":                                      {"jwk-secret"},
	"nginx.com/jwt-token":                                    {"$cookie_auth_token"},
	"nginx.com/jwt-login-url":                                {"https://login.example.com/x"},
	"nginx.org/listen-ports":                                 {"8080,9090"},
	"nginx.org/listen-ports-ssl":                             {"8443,9443"},
	"nginx.org/fail-timeout":                                 {"5s"},
	"appprotect.f5.com/app-protect-enable":                   {"True"},
	"appprotect.f5.com/app-protect-security-log-enable":      {"True"},
	"appprotect.f5.com/app-protect-policy":                   {"default/dataguard"},
	"appprotect.f5.com/app-protect-security-log":             {"default/logconf", "default/logconf,default/logconf2"},
	"appprotect.f5.com/app-protect-security-log-destination": {"syslog:server=127.0.0.1:514", "stderr", "/var/log/ap.log", "syslog:server=localhost:514,stderr", "syslog:server=syslog.example.com:514"},
	"appprotectdos.f5.com/app-protect-dos-resource":          {"default/dos"},
	"nginx.org/websocket-services":                           {"svc-a,svc-b"},
	"nginx.org/ssl-services":                                 {"svc-a"},
	"nginx.org/grpc-services":                                {"svc-a"},
	"nginx.org/rewrites":                                     {"serviceName=svc-a rewrite=/x;serviceName=svc-b rewrite=/y"},
	"nginx.com/sticky-cookie-services":                       {"serviceName=svc-a srv_id expires=1h path=/p;serviceName=svc-b c"},
	"nginx.org/path-regex":                                   {"case_sensitive", "exact"},
	"nginx.org/limit-req-rate":                               {"10r/s"},
	"nginx.org/limit-req-key":                                {"${binary_remote_addr}"},
	"nginx.org/limit-req-zone-size":                          {"10m"},
	"nginx.org/limit-req-log-level":                          {"error"},
	"nginx.org/limit-req-reject-code":                        {"429"},
	"nginx.org/mergeable-ingress-type":                       {"master", "minion"},
}

var advGenericBases = []string{"true", "10", "5s"}

// annotations that must be present for another one to be looked at
var advCompanions = map[string]map[string]string{
	"appprotect.f5.com/app-protect-security-log":             {"appprotect.f5.com/app-protect-security-log-enable": "True", "appprotect.f5.com/app-protect-enable": "True"},
	"appprotect.f5.com/app-protect-security-log-destination": {"appprotect.f5.com/app-protect-security-log-enable": "True", "appprotect.f5.com/app-protect-enable": "True", "appprotect.f5.com/app-protect-security-log": "default/logconf"},
	"appprotect.f5.com/app-protect-policy":                   {"appprotect.f5.com/app-protect-enable": "True"},
	"nginx.com/jwt-realm":                                    {"nginx.com/jwt-key": "jwk-secret"},
	"nginx.com/jwt-token":                                    {"nginx.com/jwt-key": "jwk-secret"},
	"nginx.com/jwt-login-url":                                {"nginx.com/jwt-key": "jwk-secret"},
	"nginx.org/basic-auth-realm":                             {"nginx.org/basic-auth-secret": "htpasswd-secret"},
	"nginx.com/health-checks-mandatory":                      {"nginx.com/health-checks": "true"},
	"nginx.com/health-checks-mandatory-queue":                {"nginx.com/health-checks": "true", "nginx.com/health-checks-mandatory": "true"},
	"nginx.org/hsts-max-age":                                 {"nginx.org/hsts": "true"},
	"nginx.org/hsts-include-subdomains":                      {"nginx.org/hsts": "true"},
	"nginx.org/hsts-behind-proxy":                            {"nginx.org/hsts": "true"},
	"nginx.org/limit-req-key":                                {"nginx.org/limit-req-rate": "10r/s", "nginx.org/limit-req-zone-size": "10m"},
	"nginx.org/limit-req-zone-size":                          {"nginx.org/limit-req-rate": "10r/s", "nginx.org/limit-req-key": "${binary_remote_addr}"},
	"nginx.org/limit-req-rate":                               {"nginx.org/limit-req-key": "${binary_remote_addr}", "nginx.org/limit-req-zone-size": "10m"},
	"nginx.org/limit-req-delay":                              {"nginx.org/limit-req-rate": "10r/s", "nginx.org/limit-req-key": "${binary_remote_addr}", "nginx.org/limit-req-zone-size": "10m"},
	"nginx.org/limit-req-burst":                              {"nginx.org/limit-req-rate": "10r/s", "nginx.org/limit-req-key": "${binary_remote_addr}", "nginx.org/limit-req-zone-size": "10m"},
	"nginx.org/limit-req-no-delay":                           {"nginx.org/limit-req-rate": "10r/s", "nginx.org/limit-req-key": "${binary_remote_addr}", "nginx.org/limit-req-zone-size": "10m"},
	"nginx.org/limit-req-dry-run":                            {"nginx.org/limit-req-rate": "10r/s", "nginx.org/limit-req-key": "${binary_remote_addr}", "nginx.org/limit-req-zone-size": "10m"},
	"nginx.org/limit-req-log-level":                          {"nginx.org/limit-req-rate": "10r/s", "nginx.org/limit-req-key": "${binary_remote_addr}", "nginx.org/limit-req-zone-size": "10m"},
	"nginx.org/limit-req-reject-code":                        {"nginx.org/limit-req-rate": "10r/s", "nginx.org/limit-req-key": "${binary_remote_addr}", "nginx.org/limit-req-zone-size": "10m"},
	"nginx.org/limit-req-scale":                              {"nginx.org/limit-req-rate": "10r/s", "nginx.org/limit-req-key": "${binary_remote_addr}", "nginx.org/limit-req-zone-size": "10m"},
	"nginx.org/grpc-services":                                {"nginx.org/http2": "true"},
}

// the flag settings of the adversarial family: Plus / App Protect / DoS on and off, the
// remaining four flags all off and all on
func advFlagSettings() []int {
	var out []int
	for _, rest := range []int{0, fInternal | fSnippets | fCertMgr | fTLSPass} {
		for i := 0; i < 8; i++ {
			f := rest
			if i&1 != 0 {
				f |= fPlus
			}
			if i&2 != 0 {
				f |= fAppProtect
			}
			if i&4 != 0 {
				f |= fDos
			}
			out = append(out, f)
		}
	}
	return out
}

func advIngress(name string, ann map[string]string, created int) *networking.Ingress {
	cls := "nginx"
	pre := networking.PathTypePrefix
	svc := func(n string) networking.IngressBackend {
		return networking.IngressBackend{Service: &networking.IngressServiceBackend{Name: n, Port: networking.ServiceBackendPort{Number: 80}}}
	}
	m := meta(name, created)
	m.Annotations = ann
	return &networking.Ingress{ObjectMeta: m, Spec: networking.IngressSpec{IngressClassName: &cls,
		TLS: []networking.IngressTLS{{Hosts: []string{host1}, SecretName: "tls-secret"}},
		Rules: []networking.IngressRule{{Host: host1, IngressRuleValue: networking.IngressRuleValue{HTTP: &networking.HTTPIngressRuleValue{
			Paths: []networking.HTTPIngressPath{{Path: "/p", PathType: &pre, Backend: svc("svc-a")}, {Path: "/q", PathType: &pre, Backend: svc("svc-b")}}}}}}}}
}

// advJobs: "ann|<annotation>|<base>", "crd|<base object>|<leaf index>"
func allAdvJobs() []string {
	var out []string
	for _, n := range k8s.VerifC17AnnotationNames() {
		bases := append(append([]string{}, advAnnBases[n]...), advGenericBases...)
		for i := range bases {
			out = append(out, fmt.Sprintf("ann|%s|%d", n, i))
		}
	}
	for _, b := range advBaseNames {
		n := countStringLeaves(advBase(b))
		for i := 0; i < n; i++ {
			out = append(out, fmt.Sprintf("crd|%s|%d", b, i))
		}
	}
	return out
}

func runAdvJob(id int, d string, thorough bool) Case {
	cs := Case{Fam: "adv", ID: id, Shape: d}
	parts := strings.SplitN(d, "|", 3)
	if len(parts) != 3 {
		cs.Error = "bad adversarial job " + d
		return cs
	}
	idx, err := strconv.Atoi(parts[2])
	if err != nil {
		cs.Error = "bad adversarial job " + d
		return cs
	}
	flags := advFlagSettings()
	validators := map[int]*k8s.VerifC17{}
	ctl := func(f int) *k8s.VerifC17 {
		if c, ok := validators[f]; ok {
			return c
		}
		c := newCtl(f)
		validators[f] = c
		return c
	}
	note := func(f int, stage, val, msg, site string, obj interface{}) {
		if len(val) > 120 {
			val = val[:60] + fmt.Sprintf("...(%d bytes)", len(val))
		}
		if len(cs.Panics) < 8 {
			cs.Panics = append(cs.Panics, PanicInfo{Combo: fmt.Sprintf("flags=%d value=%q", f, val), Stage: stage, Msg: msg, Site: site})
		}
		if cs.Object == nil {
			cs.Object, _ = json.Marshal(obj)
		}
	}
	switch parts[0] {
	case "ann":
		name := parts[1]
		bases := append(append([]string{}, advAnnBases[name]...), advGenericBases...)
		if idx >= len(bases) {
			cs.Error = "bad adversarial job " + d
			return cs
		}
		vals := append([]string{bases[idx]}, nearMisses(bases[idx], idx == 0)...)
		cs.Values = len(vals)
		for _, v := range vals {
			ann := map[string]string{name: v}
			for k, x := range advCompanions[name] {
				ann[k] = x
			}
			ing := advIngress("z-new", ann, 9)
			var accepting []int
			for _, f := range flags {
				cs.Tried++
				var nerr int
				if m, s := guard(func() { nerr = ctl(f).ValidateIngress(ing.DeepCopy()) }); m != "" {
					note(f, "validate", v, m, s, ing)
					continue
				}
				if nerr == 0 {
					accepting = append(accepting, f)
				}
			}
			picked := pickSettings(accepting, thorough)
			for pi, f := range picked {
				cs.AccRuns++
				var ps []PanicInfo
				runObjectF("Ingress", ing, f, 0, &ps, thorough || pi == len(picked)-1)
				// the same annotation on a master with a minion, and on a minion under a master
				if name != "nginx.org/mergeable-ingress-type" && (thorough || pi == len(picked)-1) {
					for _, onMaster := range []bool{true, false} {
						ma := map[string]string{"nginx.org/mergeable-ingress-type": "master"}
						mi := map[string]string{"nginx.org/mergeable-ingress-type": "minion"}
						t := mi
						if onMaster {
							t = ma
						}
						for k, x := range ann {
							t[k] = x
						}
						master := advIngress("a-master", ma, 1)
						master.Spec.Rules[0].HTTP = nil
						minion := advIngress("a-minion", mi, 2)
						minion.Spec.TLS = nil
						if m, s := guard(func() {
							c := newCtl(f)
							fillSecrets(c)
							ch, pr := c.Configuration().AddOrUpdateIngress(master)
							c.ProcessChanges(ch)
							c.ProcessProblems(pr)
							ch, pr = c.Configuration().AddOrUpdateIngress(minion)
							c.ProcessChanges(ch)
							c.ProcessProblems(pr)
							c.ExtendAll()
						}); m != "" {
							ps = append(ps, PanicInfo{Stage: "mergeable", Msg: m, Site: s})
						}
					}
				}
				for _, p := range ps {
					note(f, p.Stage, v, p.Msg, p.Site, ing)
				}
			}
		}
	case "crd":
		base := advBase(parts[1])
		if base == nil {
			cs.Error = "bad adversarial job " + d
			return cs
		}
		if !thorough { // the CRD validators read Plus, App Protect (WAF), DoS, cert-manager/externalDNS, snippets, TLS passthrough: six settings cover each on and off
			rest := fInternal | fSnippets | fCertMgr | fTLSPass
			flags = []int{0, fPlus, rest, fPlus | rest, fPlus | fAppProtect | fDos | rest, fAppProtect | fDos}
		}
		cur, path := stringLeaf(deepCopy(base), idx, nil)
		cs.Kind = path
		vals := nearMisses(cur, true)
		cs.Values = len(vals)
		kind := advKind(base)
		for _, v := range vals {
			obj := deepCopy(base)
			stringLeaf(obj, idx, &v)
			if !admitted(obj) {
				continue
			}
			var accepting []int
			for _, f := range flags {
				cs.Tried++
				var verr error
				c := ctl(f)
				o := deepCopy(obj)
				if m, s := guard(func() {
					switch x := o.(type) {
					case *conf_v1.VirtualServer:
						verr = c.VSValidator().ValidateVirtualServer(x)
					case *conf_v1.VirtualServerRoute:
						verr = c.VSValidator().ValidateVirtualServerRoute(x)
					case *conf_v1.TransportServer:
						verr = c.TSValidator().ValidateTransportServer(x)
					case *conf_v1.Policy:
						verr = c.ValidatePolicy(x)
					case *conf_v1.GlobalConfiguration:
						verr = c.GCValidator().ValidateGlobalConfiguration(x)
					}
				}); m != "" {
					note(f, "validate", v, m, s, obj)
					continue
				}
				if verr == nil {
					accepting = append(accepting, f)
				}
			}
			picked := pickSettings(accepting, thorough)
			for pi, f := range picked {
				cs.AccRuns++
				var ps []PanicInfo
				ctx := 0
				if kind == "TransportServer" || kind == "VirtualServerRoute" {
					ctx = 2 // a GlobalConfiguration and a VirtualServer that references default/z-vsr
				}
				runObjectF(kind, obj, f, ctx, &ps, thorough || pi == len(picked)-1)
				for _, p := range ps {
					note(f, p.Stage, v, p.Msg, p.Site, obj)
				}
			}
		}
	default:
		cs.Error = "bad adversarial job " + d
	}
	return cs
}

// pickSettings: the flag settings under which an accepted value goes through store / extend /
// generate: all accepting settings (thorough), or the one with the most and the one with the
// fewest flags on (quick; the validators have been run under all sixteen)
func pickSettings(accepting []int, thorough bool) []int {
	if thorough || len(accepting) <= 2 {
		return accepting
	}
	lo, hi := accepting[0], accepting[0]
	for _, f := range accepting {
		if bits.OnesCount(uint(f)) < bits.OnesCount(uint(lo)) {
			lo = f
		}
		if bits.OnesCount(uint(f)) > bits.OnesCount(uint(hi)) {
			hi = f
		}
	}
	return []int{lo, hi}
}

func advKind(o interface{}) string {
	switch o.(type) {
	case *conf_v1.VirtualServer:
		return "VirtualServer"
	case *conf_v1.VirtualServerRoute:
		return "VirtualServerRoute"
	case *conf_v1.TransportServer:
		return "TransportServer"
	case *conf_v1.Policy:
		return "Policy"
	case *conf_v1.GlobalConfiguration:
		return "GlobalConfiguration"
	}
	return ""
}

// stringLeaf walks the spec of obj in field order and returns the idx-th string leaf (struct
// fields, slice elements, map values) and its path; with set != nil it is overwritten.
func stringLeaf(obj interface{}, idx int, set *string) (string, string) {
	n := 0
	var cur, path string
	var walk func(v reflect.Value, p string) bool
	walk = func(v reflect.Value, p string) bool {
		switch v.Kind() {
		case reflect.Ptr:
			if v.IsNil() {
				return false
			}
			return walk(v.Elem(), p)
		case reflect.Struct:
			t := v.Type()
			for i := 0; i < t.NumField(); i++ {
				f := t.Field(i)
				if f.Name == "TypeMeta" || f.Name == "ObjectMeta" || f.Name == "Status" || f.PkgPath != "" {
					continue
				}
				if walk(v.Field(i), p+"."+strings.Split(f.Tag.Get("json"), ",")[0]) {
					return true
				}
			}
		case reflect.Slice:
			for i := 0; i < v.Len(); i++ {
				if walk(v.Index(i), fmt.Sprintf("%s[%d]", p, i)) {
					return true
				}
			}
		case reflect.Map:
			if v.Type().Elem().Kind() != reflect.String {
				return false
			}
			keys := v.MapKeys()
			sort.Slice(keys, func(a, b int) bool { return keys[a].String() < keys[b].String() })
			for _, k := range keys {
				if n == idx {
					cur, path = v.MapIndex(k).String(), p+"{"+k.String()+"}"
					if set != nil {
						v.SetMapIndex(k, reflect.ValueOf(*set).Convert(v.Type().Elem()))
					}
					return true
				}
				n++
			}
		case reflect.String:
			if n == idx {
				cur, path = v.String(), p
				if set != nil {
					v.SetString(*set)
				}
				return true
			}
			n++
		}
		return false
	}
	rv := reflect.ValueOf(obj).Elem().FieldByName("Spec")
	if !walk(rv, "spec") {
		return "", ""
	}
	return cur, path
}

func countStringLeaves(obj interface{}) int {
	n := 0
	for {
		if _, p := stringLeaf(obj, n, nil); p == "" {
			return n
		}
		n++
	}
}

var advBaseNames = []string{"vs-oss", "vs-plus", "vsr-plus", "ts", "ts-passthrough", "pol-access", "pol-rate", "pol-jwt", "pol-jwks", "pol-basic",
	"pol-ingressmtls", "pol-egressmtls", "pol-oidc", "pol-apikey", "pol-waf", "gc"}

func richUpstream(plus bool) conf_v1.Upstream {
	u := conf_v1.Upstream{Name: "u", Service: "svc-a", Port: 80, LBMethod: "round_robin", FailTimeout: "10s", ProxyConnectTimeout: "30s",
		ProxyReadTimeout: "31s", ProxySendTimeout: "32s", ProxyNextUpstream: "error timeout", ProxyNextUpstreamTimeout: "5s", ClientMaxBodySize: "2m",
		ProxyBufferSize: "8k", ProxyBuffers: &conf_v1.UpstreamBuffers{Number: 4, Size: "8k"}, Subselector: map[string]string{"app": "a"}, Type: "http",
		Backup: "svc-ext", BackupPort: u16(80), MaxFails: ip(1), MaxConns: ip(10), Keepalive: ip(8)}
	if plus {
		u.HealthCheck = &conf_v1.HealthCheck{Enable: true, Path: "/healthz", Interval: "5s", Jitter: "1s", Fails: 1, Passes: 1, ConnectTimeout: "3s",
			ReadTimeout: "4s", SendTimeout: "5s", Headers: []conf_v1.Header{{Name: "Host", Value: "h.example.com"}}, StatusMatch: "! 500", KeepaliveTime: "60s"}
		u.SlowStart = "10s"
		u.Queue = &conf_v1.UpstreamQueue{Size: 10, Timeout: "5s"}
		u.SessionCookie = &conf_v1.SessionCookie{Enable: true, Name: "srv", Path: "/", Expires: "1h", Domain: ".example.com", SameSite: "strict"}
	}
	return u
}

func richRoutes(prefix string, withRefs bool) []conf_v1.Route {
	proxy := &conf_v1.Action{Proxy: &conf_v1.ActionProxy{Upstream: "u", RewritePath: "/x",
		RequestHeaders: &conf_v1.ProxyRequestHeaders{Pass: bp(true), Set: []conf_v1.Header{{Name: "X-A", Value: "b ${scheme}"}}},
		ResponseHeaders: &conf_v1.ProxyResponseHeaders{Hide: []string{"x-hide"}, Pass: []string{"x-pass"}, Ignore: []string{"Expires"},
			Add: []conf_v1.AddHeader{{Header: conf_v1.Header{Name: "X-B", Value: "c"}, Always: true}}}}}
	rs := []conf_v1.Route{
		{Path: prefix + "/r", Action: proxy, ErrorPages: []conf_v1.ErrorPage{
			{Codes: []int{502}, Return: &conf_v1.ErrorPageReturn{ActionReturn: conf_v1.ActionReturn{Code: 200, Type: "text/plain", Body: "sorry ${upstream_status}",
				Headers: []conf_v1.Header{{Name: "x-e", Value: "${upstream_status}"}}}}},
			{Codes: []int{503}, Redirect: &conf_v1.ErrorPageRedirect{ActionRedirect: conf_v1.ActionRedirect{URL: "http://err.example.com/${scheme}", Code: 301}}}}},
		{Path: prefix + "/s", Splits: []conf_v1.Split{{Weight: 50, Action: &conf_v1.Action{Pass: "u"}},
			{Weight: 50, Action: &conf_v1.Action{Return: &conf_v1.ActionReturn{Code: 200, Type: "application/json", Body: "{\\\"a\\\": \\\"${request_uri}\\\"}"}}}}},
		{Path: prefix + "/m", Matches: []conf_v1.Match{{Conditions: []conf_v1.Condition{{Header: "x-version", Value: "v2"}, {Cookie: "c", Value: "1"},
			{Argument: "a", Value: "!x"}, {Variable: "$request_method", Value: "GET"}}, Action: &conf_v1.Action{Pass: "u"}}},
			Action: &conf_v1.Action{Redirect: &conf_v1.ActionRedirect{URL: "http://www.example.com${request_uri}", Code: 302}}},
	}
	if withRefs {
		rs = append(rs, conf_v1.Route{Path: "/sub", Route: "default/z-vsr"})
	}
	return rs
}

func advBase(name string) interface{} {
	pol := func(f func(*conf_v1.PolicySpec)) *conf_v1.Policy {
		p := &conf_v1.Policy{ObjectMeta: meta("z-pol", 9), Spec: conf_v1.PolicySpec{IngressClass: "nginx"}}
		f(&p.Spec)
		return p
	}
	switch name {
	case "vs-oss", "vs-plus":
		plus := name == "vs-plus"
		vs := &conf_v1.VirtualServer{ObjectMeta: meta("z-vs", 9), Spec: conf_v1.VirtualServerSpec{IngressClass: "nginx", Host: host1,
			TLS:       &conf_v1.TLS{Secret: "tls-secret", Redirect: &conf_v1.TLSRedirect{Enable: true, Code: ip(301), BasedOn: "scheme"}},
			Upstreams: []conf_v1.Upstream{richUpstream(plus)}, Routes: richRoutes("", true),
			Policies: []conf_v1.PolicyReference{{Name: "z-pol", Namespace: "default"}}}}
		if plus {
			vs.Spec.ServerSnippets, vs.Spec.HTTPSnippets = "add_header X-S s;", "# http"
			vs.Spec.Routes[0].LocationSnippets = "add_header X-L l;"
			vs.Spec.Dos = "default/dos"
			vs.Spec.TLS.CertManager = &conf_v1.CertManager{ClusterIssuer: "issuer", CommonName: "h1.example.com", Duration: "2160h", RenewBefore: "360h", Usages: "digital signature"}
			vs.Spec.ExternalDNS = conf_v1.ExternalDNS{Enable: true, RecordType: "A", RecordTTL: 60, Labels: map[string]string{"l": "v"},
				ProviderSpecific: conf_v1.ProviderSpecific{{Name: "n", Value: "v"}}}
			vs.Spec.Listener = &conf_v1.VirtualServerListener{HTTP: "http-l", HTTPS: "https-l"}
		}
		return vs
	case "vsr-plus":
		return &conf_v1.VirtualServerRoute{ObjectMeta: meta("z-vsr", 9), Spec: conf_v1.VirtualServerRouteSpec{IngressClass: "nginx", Host: "vs.example.com",
			Upstreams: []conf_v1.Upstream{richUpstream(true)}, Subroutes: richRoutes("/sub", false)}}
	case "ts", "ts-passthrough":
		ts := &conf_v1.TransportServer{ObjectMeta: meta("z-ts", 9), Spec: conf_v1.TransportServerSpec{IngressClass: "nginx",
			Listener: conf_v1.TransportServerListener{Name: "tcp-l", Protocol: "TCP"},
			Upstreams: []conf_v1.TransportServerUpstream{{Name: "u", Service: "svc-a", Port: 80, FailTimeout: "10s", MaxFails: ip(1), MaxConns: ip(2),
				LoadBalancingMethod: "least_conn", Backup: "svc-ext", BackupPort: u16(80),
				HealthCheck: &conf_v1.TransportServerHealthCheck{Enabled: true, Timeout: "3s", Jitter: "1s", Interval: "5s", Port: 80, Fails: 1, Passes: 1,
					Match: &conf_v1.TransportServerMatch{Send: "ping\\x0a", Expect: "~* pong"}}}},
			UpstreamParameters: &conf_v1.UpstreamParameters{ConnectTimeout: "5s", NextUpstream: true, NextUpstreamTimeout: "5s", NextUpstreamTries: 2},
			SessionParameters:  &conf_v1.SessionParameters{Timeout: "1m"},
			Action:             &conf_v1.TransportServerAction{Pass: "u"},
			ServerSnippets:     "# s", StreamSnippets: "# t", Host: host2, TLS: &conf_v1.TransportServerTLS{Secret: "tls-secret"}}}
		if name == "ts-passthrough" {
			ts.Spec.Listener = conf_v1.TransportServerListener{Name: conf_v1.TLSPassthroughListenerName, Protocol: conf_v1.TLSPassthroughListenerProtocol}
			ts.Spec.TLS = nil
			ts.Spec.Upstreams[0].LoadBalancingMethod = "hash ${remote_addr} consistent"
			ts.Spec.Upstreams[0].Backup, ts.Spec.Upstreams[0].BackupPort = "", nil
		}
		return ts
	case "pol-access":
		return pol(func(s *conf_v1.PolicySpec) {
			s.AccessControl = &conf_v1.AccessControl{Allow: []string{"10.0.0.0/8", "127.0.0.1", "fd00::/8"}}
		})
	case "pol-rate":
		return pol(func(s *conf_v1.PolicySpec) {
			s.RateLimit = &conf_v1.RateLimit{Rate: "10r/s", Key: "${binary_remote_addr}", ZoneSize: "10M", Delay: ip(1), Burst: ip(2), DryRun: bp(false),
				LogLevel: "error", RejectCode: ip(503), Condition: &conf_v1.RateLimitCondition{JWT: &conf_v1.JWTCondition{Claim: "user.tier", Match: "gold"}}}
		})
	case "pol-jwt":
		return pol(func(s *conf_v1.PolicySpec) {
			s.JWTAuth = &conf_v1.JWTAuth{Realm: "realm", Secret: "jwk-secret", Token: "$http_token"}
		})
	case "pol-jwks":
		return pol(func(s *conf_v1.PolicySpec) {
			s.JWTAuth = &conf_v1.JWTAuth{Realm: "realm", JwksURI: "https://idp.example.com:8443/jwks?x=1", KeyCache: "1h", Token: "$cookie_t"}
		})
	case "pol-basic":
		return pol(func(s *conf_v1.PolicySpec) {
			s.BasicAuth = &conf_v1.BasicAuth{Realm: "realm", Secret: "htpasswd-secret"}
		})
	case "pol-ingressmtls":
		return pol(func(s *conf_v1.PolicySpec) {
			s.IngressMTLS = &conf_v1.IngressMTLS{ClientCertSecret: "ca-secret", CrlFileName: "crl.pem", VerifyClient: "optional", VerifyDepth: ip(1)}
		})
	case "pol-egressmtls":
		return pol(func(s *conf_v1.PolicySpec) {
			s.EgressMTLS = &conf_v1.EgressMTLS{TLSSecret: "tls-secret", VerifyServer: true, VerifyDepth: ip(2), Protocols: "TLSv1.2 TLSv1.3", SessionReuse: bp(true),
				Ciphers: "HIGH:!aNULL", TrustedCertSecret: "ca-secret", ServerName: true, SSLName: "srv.example.com"}
		})
	case "pol-oidc":
		return pol(func(s *conf_v1.PolicySpec) {
			s.OIDC = &conf_v1.OIDC{AuthEndpoint: "https://idp.example.com/auth", TokenEndpoint: "https://idp.example.com/token", JWKSURI: "https://idp.example.com/jwks",
				ClientID: "client", ClientSecret: "oidc-secret", Scope: "openid+profile", RedirectURI: "/_codexch", EndSessionEndpoint: "https://idp.example.com/logout",
				PostLogoutRedirectURI: "/_logout", ZoneSyncLeeway: ip(10), AuthExtraArgs: []string{"a=b", "c=d"}, AccessTokenEnable: true}
		})
	case "pol-apikey":
		return pol(func(s *conf_v1.PolicySpec) {
			s.APIKey = &conf_v1.APIKey{SuppliedIn: &conf_v1.SuppliedIn{Header: []string{"X-API-Key"}, Query: []string{"apikey"}}, ClientSecret: "apikey-secret"}
		})
	case "pol-waf":
		return pol(func(s *conf_v1.PolicySpec) {
			s.WAF = &conf_v1.WAF{Enable: true, ApPolicy: "default/dataguard", SecurityLog: &conf_v1.SecurityLog{Enable: true, ApLogConf: "default/logconf", LogDest: "syslog:server=127.0.0.1:514"},
				SecurityLogs: []*conf_v1.SecurityLog{{Enable: true, ApLogConf: "default/logconf", LogDest: "stderr"}, {Enable: true, ApLogConf: "logconf2", LogDest: "/var/log/ap.log"},
					{Enable: true, LogDest: "syslog:server=syslog.example.com:514"}}}
		})
	case "gc":
		g := gcObject(gcListeners())
		g.Spec.Listeners[0].IPv4, g.Spec.Listeners[0].IPv6 = "127.0.0.1", "::1"
		return g
	}
	return nil
}

// ---------------------------------------------------------------- S: Secret shapes against referencing resources

// A Secret is a watched built-in kind whose data keys are all optional as far as the API server
// is concerned (except tls.crt / tls.key of kubernetes.io/tls, which must be present, possibly
// empty).  Family sec: for each secret name the fixtures' resources reference, every type
// (the right one, Opaque, a wrong NGINX type) times every state of its keys (absent, empty,
// valid, garbage), in both arrival orders -- the resources first and then the Secret through
// the worker's syncSecret, or the Secret first and then the resources -- with the referencing
// resources present: VirtualServers with an IngressMTLS / EgressMTLS / JWT / BasicAuth / OIDC /
// APIKey policy at spec level, a VirtualServer and an Ingress and a TransportServer terminating
// TLS, an Ingress with basic-auth and JWT annotations.  Observable: no panic in sync,
// createExtendedResources, the Configurator.

type secretSpec struct {
	name  string
	typ   api_v1.SecretType
	keys  []string // the keys whose state varies
	extra map[string][]byte
}

func secretSpecs() []secretSpec {
	return []secretSpec{
		{"tls-secret", api_v1.SecretTypeTLS, []string{"tls.crt", "tls.key"}, nil},
		{"ca-secret", "nginx.org/ca", []string{"ca.crt", "ca.crl"}, nil},
		{"jwk-secret", "nginx.org/jwk", []string{"jwk"}, nil},
		{"htpasswd-secret", "nginx.org/htpasswd", []string{"htpasswd"}, nil},
		{"oidc-secret", "nginx.org/oidc", []string{"client-secret"}, nil},
		{"apikey-secret", "nginx.org/apikey", []string{"client1", "client2"}, nil},
	}
}

// key states: 0 absent, 1 empty, 2 valid, 3 garbage
func secretValue(key string, st byte) ([]byte, bool) {
	crt, k := selfSigned()
	switch st {
	case '0':
		return nil, false
	case '1':
		return []byte{}, true
	case '3':
		return []byte("-----BEGIN garbage\x00\n"), true
	}
	switch key {
	case "tls.crt", "ca.crt":
		return crt, true
	case "tls.key":
		return k, true
	case "ca.crl":
		return []byte("-----BEGIN X509 CRL-----\nMIIB\n-----END X509 CRL-----\n"), true
	case "jwk":
		return []byte(`{"keys":[]}`), true
	case "htpasswd":
		return []byte("u:$apr1$x$y"), true
	case "client-secret":
		return []byte("s3cret"), true
	}
	return []byte("key-" + key), true
}

// shape: <name>|<type: 0 right, 1 Opaque, 2 a wrong NGINX type, 3 empty>|<state per key>|<order 0|1>|<data nil: 0|1>
func allSecretShapes() []string {
	var out []string
	for _, sp := range secretSpecs() {
		var states []string
		var rec func(i int, cur string)
		rec = func(i int, cur string) {
			if i == len(sp.keys) {
				states = append(states, cur)
				return
			}
			for _, st := range "0123" {
				rec(i+1, cur+string(st))
			}
		}
		rec(0, "")
		for _, t := range "0123" {
			for _, st := range states {
				for _, o := range "01" {
					out = append(out, fmt.Sprintf("%s|%c|%s|%c|0", sp.name, t, st, o))
				}
			}
			out = append(out, fmt.Sprintf("%s|%c|%s|0|1", sp.name, t, strings.Repeat("0", len(sp.keys))), fmt.Sprintf("%s|%c|%s|1|1", sp.name, t, strings.Repeat("0", len(sp.keys))))
		}
	}
	return out
}

func secretOfShape(d string) (*api_v1.Secret, int, error) {
	parts := strings.Split(d, "|")
	if len(parts) != 5 {
		return nil, 0, fmt.Errorf("bad secret shape %q", d)
	}
	for _, sp := range secretSpecs() {
		if sp.name != parts[0] || len(parts[2]) != len(sp.keys) {
			continue
		}
		s := &api_v1.Secret{ObjectMeta: meta(sp.name, 130)}
		switch parts[1] {
		case "0":
			s.Type = sp.typ
		case "1":
			s.Type = api_v1.SecretTypeOpaque
		case "2":
			s.Type = "nginx.org/jwk"
			if sp.typ == "nginx.org/jwk" {
				s.Type = "nginx.org/ca"
			}
		}
		if parts[4] != "1" {
			s.Data = map[string][]byte{}
			for i, k := range sp.keys {
				if v, ok := secretValue(k, parts[2][i]); ok {
					s.Data[k] = v
				}
			}
		}
		order := 0
		if parts[3] == "1" {
			order = 1
		}
		return s, order, nil
	}
	return nil, 0, fmt.Errorf("bad secret shape %q", d)
}

func secretUsers() []interface{} {
	pol := func(name string, f func(*conf_v1.PolicySpec)) *conf_v1.Policy {
		p := &conf_v1.Policy{ObjectMeta: meta(name, 20), Spec: conf_v1.PolicySpec{IngressClass: "nginx"}}
		f(&p.Spec)
		return p
	}
	vs := func(name, host, policy string, created int) *conf_v1.VirtualServer {
		v := olderVS(false, nil)
		v.ObjectMeta = meta(name, created)
		v.Spec.Host = host
		v.Spec.TLS = &conf_v1.TLS{Secret: "tls-secret"}
		v.Spec.Policies = []conf_v1.PolicyReference{{Name: policy}}
		return v
	}
	ing := advIngress("sec-ing", map[string]string{"nginx.org/basic-auth-secret": "htpasswd-secret", "nginx.com/jwt-key": "jwk-secret"}, 40)
	ing.Spec.Rules[0].Host = "ing.example.com"
	ing.Spec.TLS[0].Hosts = []string{"ing.example.com"}
	ts := olderTS()
	ts.Spec.TLS = &conf_v1.TransportServerTLS{Secret: "tls-secret"}
	return []interface{}{
		gcObject(gcListeners()),
		pol("p-mtls", func(s *conf_v1.PolicySpec) {
			s.IngressMTLS = &conf_v1.IngressMTLS{ClientCertSecret: "ca-secret", VerifyClient: "on"}
		}),
		pol("p-egress", func(s *conf_v1.PolicySpec) {
			s.EgressMTLS = &conf_v1.EgressMTLS{TLSSecret: "tls-secret", TrustedCertSecret: "ca-secret", VerifyServer: true}
		}),
		pol("p-jwt", func(s *conf_v1.PolicySpec) { s.JWTAuth = &conf_v1.JWTAuth{Realm: "r", Secret: "jwk-secret"} }),
		pol("p-basic", func(s *conf_v1.PolicySpec) { s.BasicAuth = &conf_v1.BasicAuth{Realm: "r", Secret: "htpasswd-secret"} }),
		pol("p-oidc", func(s *conf_v1.PolicySpec) {
			s.OIDC = &conf_v1.OIDC{AuthEndpoint: "https://idp.example.com/auth", TokenEndpoint: "https://idp.example.com/token",
				JWKSURI: "https://idp.example.com/jwks", ClientID: "client", ClientSecret: "oidc-secret"}
		}),
		pol("p-apikey", func(s *conf_v1.PolicySpec) {
			s.APIKey = &conf_v1.APIKey{SuppliedIn: &conf_v1.SuppliedIn{Header: []string{"X-API-Key"}}, ClientSecret: "apikey-secret"}
		}),
		vs("vs-mtls", "mtls.example.com", "p-mtls", 30), vs("vs-egress", "egress.example.com", "p-egress", 31),
		vs("vs-jwt", "jwt.example.com", "p-jwt", 32), vs("vs-basic", "basic.example.com", "p-basic", 33),
		vs("vs-oidc", "oidc.example.com", "p-oidc", 34), vs("vs-apikey", "apikey.example.com", "p-apikey", 35),
		ing, ts,
	}
}

func runSecretShape(id int, d string) Case {
	cs := Case{Fam: "sec", ID: id, Shape: d, Kind: "Secret"}
	sec, order, err := secretOfShape(d)
	if err != nil {
		cs.Error = err.Error()
		return cs
	}
	adm := admitted(sec)
	cs.Admitted = &adm
	for _, f := range []int{0, fPlus, fPlus | fAppProtect | fDos | fInternal | fSnippets | fCertMgr | fTLSPass, fSnippets | fTLSPass} {
		cs.Tried++
		m, s := guard(func() {
			c := newCtl(f)
			fillSecrets(c)
			add := func() {
				for _, o := range secretUsers() {
					_ = c.Sync(o, false)
				}
			}
			if order == 0 { // the resources (and valid fixture secrets) first, then the Secret through syncSecret
				add()
				_ = c.Sync(sec.DeepCopy(), false)
			} else { // the Secret first, then the resources
				_ = c.Sync(sec.DeepCopy(), false)
				add()
			}
			c.ExtendAll()
			_ = c.Sync(sec.DeepCopy(), true) // and its deletion
			c.ExtendAll()
		})
		if m != "" {
			cs.Panics = append(cs.Panics, PanicInfo{Combo: fmt.Sprintf("flags=%d", f), Stage: "sync", Msg: m, Site: s})
			if cs.Object == nil {
				cs.Object, _ = json.Marshal(map[string]interface{}{"secret": sec, "order": order})
			}
		}
	}
	return cs
}

// ---------------------------------------------------------------- S: cert-manager / external-dns sub-controllers, shape transitions

// The cert-manager and external-dns sub-controllers get every VirtualServer straight from their
// own informers (nothing validates it first) and their workers have no recover.  Family sub
// drives the real SyncFnFor of both, over fake clientsets whose object trackers are the cluster
// and real generated listers over indexers that are refreshed from the cluster after every
// step (so the Certificates / DNSEndpoints a step created are in the lister at the next step),
// with every sequence of three shapes of ONE VirtualServer instance (same name and UID): the
// transitions tls+cert-manager -> tls only -> no tls, externalDNS enabled -> removed, and all the
// others.  Shape digits: t = tls (0 nil, 1 {} , 2 {secret}, 3 {secret, cert-manager{cluster-issuer}},
// 4 {secret, cert-manager{}} (no issuer), 5 {cert-manager{cluster-issuer}} (no secret), 6 {secret,
// cert-manager with issuer and cluster-issuer, duration, renew-before, usages}, 7 {secret2,
// cert-manager{issuer}}); e = externalDNS (0 off, 1 on without status endpoints, 2 on with an IP
// endpoint, 3 on with a hostname endpoint, labels and providerSpecific, 4 on with an invalid IP).
// A sequence is "t1e1-t2e2-t3e3"; with suffix "+f" a foreign (not owned) Certificate and
// DNSEndpoint of the same names exist beforehand.
const (
	subTLS = 8
	subDNS = 5
)

func subVS(t, e byte) *conf_v1.VirtualServer {
	vs := &conf_v1.VirtualServer{ObjectMeta: meta("z-vs", 9), Spec: conf_v1.VirtualServerSpec{IngressClass: "nginx", Host: host1,
		Upstreams: []conf_v1.Upstream{upstreamOf('0')}, Routes: []conf_v1.Route{routeOf(passRoute)}}}
	switch t {
	case '1':
		vs.Spec.TLS = &conf_v1.TLS{}
	case '2':
		vs.Spec.TLS = &conf_v1.TLS{Secret: "s1"}
	case '3':
		vs.Spec.TLS = &conf_v1.TLS{Secret: "s1", CertManager: &conf_v1.CertManager{ClusterIssuer: "ci"}}
	case '4':
		vs.Spec.TLS = &conf_v1.TLS{Secret: "s1", CertManager: &conf_v1.CertManager{}}
	case '5':
		vs.Spec.TLS = &conf_v1.TLS{CertManager: &conf_v1.CertManager{ClusterIssuer: "ci"}}
	case '6':
		vs.Spec.TLS = &conf_v1.TLS{Secret: "s1", CertManager: &conf_v1.CertManager{ClusterIssuer: "ci", Issuer: "i", IssuerKind: "Issuer", IssuerGroup: "cert-manager.io",
			CommonName: host1, Duration: "2160h", RenewBefore: "360h", Usages: "digital signature,key encipherment", IssueTempCert: true}}
	case '7':
		vs.Spec.TLS = &conf_v1.TLS{Secret: "s2", CertManager: &conf_v1.CertManager{Issuer: "i"}}
	}
	switch e {
	case '1':
		vs.Spec.ExternalDNS = conf_v1.ExternalDNS{Enable: true}
	case '2':
		vs.Spec.ExternalDNS = conf_v1.ExternalDNS{Enable: true, RecordType: "A", RecordTTL: 60}
		vs.Status.ExternalEndpoints = []conf_v1.ExternalEndpoint{{IP: "10.2.3.4", Ports: "[80,443]"}}
	case '3':
		vs.Spec.ExternalDNS = conf_v1.ExternalDNS{Enable: true, Labels: map[string]string{"l": "v"}, ProviderSpecific: conf_v1.ProviderSpecific{{Name: "n", Value: "v"}}}
		vs.Status.ExternalEndpoints = []conf_v1.ExternalEndpoint{{Hostname: "lb.example.com"}, {IP: "fd00::1"}}
	case '4':
		vs.Spec.ExternalDNS = conf_v1.ExternalDNS{Enable: true}
		vs.Status.ExternalEndpoints = []conf_v1.ExternalEndpoint{{IP: "not-an-ip"}, {}}
	}
	return vs
}

func allSubSeqs() []string {
	var shapes []string
	for t := 0; t < subTLS; t++ {
		for e := 0; e < subDNS; e++ {
			shapes = append(shapes, fmt.Sprintf("%d%d", t, e))
		}
	}
	var out []string
	// every pair of shapes as steps 1 and 2, followed by each of: no tls / no externalDNS, and itself again
	for _, a := range shapes {
		for _, b := range shapes {
			for _, c := range []string{"00", "20", "31", b} {
				out = append(out, a+"-"+b+"-"+c)
			}
		}
	}
	for _, a := range shapes {
		out = append(out, a+"-00-"+a+"+f")
	}
	return out
}

type subRecorder struct{}

func (subRecorder) Event(k8sruntime.Object, string, string, string)                  {}
func (subRecorder) Eventf(k8sruntime.Object, string, string, string, ...interface{}) {}
func (subRecorder) AnnotatedEventf(k8sruntime.Object, map[string]string, string, string, string, ...interface{}) {
}

func runSubSeq(id int, d string) Case {
	cs := Case{Fam: "sub", ID: id, Shape: d, Kind: "VirtualServer"}
	foreign := strings.HasSuffix(d, "+f")
	steps := strings.Split(strings.TrimSuffix(d, "+f"), "-")
	ctx := nl.ContextWithLogger(context.Background(), slog.New(slog.NewTextHandler(io.Discard, &slog.HandlerOptions{Level: slog.Level(100)})))
	var cmObjs, dnsObjs []k8sruntime.Object
	if foreign {
		cmObjs = append(cmObjs, &cmapi.Certificate{ObjectMeta: meta("s1", 1), Spec: cmapi.CertificateSpec{SecretName: "s1", DNSNames: []string{"other"}}})
		dnsObjs = append(dnsObjs, &extdnsapi.DNSEndpoint{ObjectMeta: meta("z-vs", 1)})
	}
	cm := cmfake.NewSimpleClientset(cmObjs...)
	dns := k8sfake.NewSimpleClientset(dnsObjs...)
	idx := func() cache.Indexer {
		return cache.NewIndexer(cache.MetaNamespaceKeyFunc, cache.Indexers{cache.NamespaceIndex: cache.MetaNamespaceIndexFunc})
	}
	cmIdx, dnsIdx := idx(), idx()
	cmSync := certmanager.VerifC17SyncFn(subRecorder{}, cm, cmlisters.NewCertificateLister(cmIdx))
	dnsSync := externaldns.VerifC17SyncFn(subRecorder{}, dns, extdnslisters.NewDNSEndpointLister(dnsIdx))
	deliver := func() { // the watch: the listers see what the cluster holds
		if l, err := cm.CertmanagerV1().Certificates("default").List(ctx, meta_v1.ListOptions{}); err == nil {
			_ = cmIdx.Replace(nil, "")
			for i := range l.Items {
				_ = cmIdx.Add(l.Items[i].DeepCopy())
			}
		}
		_ = dnsIdx.Replace(nil, "")
		if e, err := dns.ExternaldnsV1().DNSEndpoints("default").Get(ctx, "z-vs", meta_v1.GetOptions{}); err == nil {
			_ = dnsIdx.Add(e.DeepCopy())
		}
	}
	deliver()
	admittedAll := true
	var objs []interface{}
	for i, st := range steps {
		if len(st) != 2 || st[0] < '0' || st[0] >= '0'+subTLS || st[1] < '0' || st[1] >= '0'+subDNS {
			cs.Error = "bad sub-controller sequence " + d
			return cs
		}
		vs := subVS(st[0], st[1])
		vs.Generation = int64(i + 1)
		objs = append(objs, vs)
		if !admitted(vs) {
			admittedAll = false
		}
		cs.Tried++
		if m, s := guard(func() { _ = cmSync(ctx, vs.DeepCopy()) }); m != "" {
			cs.Panics = append(cs.Panics, PanicInfo{Combo: fmt.Sprintf("step %d of %s", i+1, d), Stage: "certmanager.SyncFn", Msg: m, Site: s})
		}
		if m, s := guard(func() { _ = dnsSync(ctx, vs.DeepCopy()) }); m != "" {
			cs.Panics = append(cs.Panics, PanicInfo{Combo: fmt.Sprintf("step %d of %s", i+1, d), Stage: "externaldns.SyncFn", Msg: m, Site: s})
		}
		deliver()
	}
	cs.Admitted = &admittedAll
	if len(cs.Panics) > 0 {
		cs.Object, _ = json.Marshal(map[string]interface{}{"versions_of_the_virtualserver": objs, "foreign_objects_beforehand": foreign})
	}
	return cs
}

// ---------------------------------------------------------------- S: EndpointSlice targetRef namespaces, with and without -watch-namespace

// An endpoint's targetRef (and its namespace) is optional for the API server; the endpointslice
// controller fills it in, other writers need not.  Family tref: an EndpointSlice of a referenced
// Service whose ready endpoint has no targetRef, or a targetRef with namespace "default"
// (watched), "" or "other" (never watched when -watch-namespace=default), with the controller
// watching all namespaces or only "default", with an Ingress, a VirtualServer and a
// TransportServer using the Service, on OSS and Plus (Plus with Prometheus-style pod lookups is
// what resolves the owner of the endpoint's Pod), through the real sync path in both orders
// (slice first, slice last).  Case: <watch: all|default>|<targetRef: none|default|empty|other>|<order 0|1>
func allTargetRefCases() []string {
	var out []string
	for _, w := range []string{"all", "default"} {
		for _, t := range []string{"none", "default", "empty", "other"} {
			for _, o := range []string{"0", "1"} {
				out = append(out, w+"|"+t+"|"+o)
			}
		}
	}
	return out
}

func runTargetRef(id int, d string) Case {
	cs := Case{Fam: "tref", ID: id, Shape: d, Kind: "EndpointSlice"}
	parts := strings.Split(d, "|")
	if len(parts) != 3 {
		cs.Error = "bad targetRef case " + d
		return cs
	}
	watch := ""
	if parts[0] == "default" {
		watch = "default"
	}
	tru := true
	p80 := int32(8080)
	pname := "http"
	ep := discovery_v1.Endpoint{Addresses: []string{"10.1.0.7"}, Conditions: discovery_v1.EndpointConditions{Ready: &tru}}
	switch parts[1] {
	case "default":
		ep.TargetRef = &api_v1.ObjectReference{Kind: "Pod", Namespace: "default", Name: "pod-a"}
	case "empty":
		ep.TargetRef = &api_v1.ObjectReference{Kind: "Pod", Name: "pod-a"}
	case "other":
		ep.TargetRef = &api_v1.ObjectReference{Kind: "Pod", Namespace: "other", Name: "pod-x"}
	}
	sl := &discovery_v1.EndpointSlice{ObjectMeta: meta("svc-a-2", 150), AddressType: discovery_v1.AddressTypeIPv4,
		Endpoints: []discovery_v1.Endpoint{ep}, Ports: []discovery_v1.EndpointPort{{Name: &pname, Port: &p80}}}
	sl.Labels = map[string]string{"kubernetes.io/service-name": "svc-a"}
	adm := admitted(sl)
	cs.Admitted = &adm
	users := func() []interface{} {
		vs := olderVS(false, nil)
		return []interface{}{gcObject(gcListeners()), advIngress("z-new", nil, 9), vs, olderTS()}
	}
	for _, f := range []int{0, fPlus, fPlus | fAppProtect | fDos | fInternal | fSnippets | fCertMgr | fTLSPass} {
		cs.Tried++
		m, s := guard(func() {
			c := newCtlNS(f, watch)
			fillSecrets(c)
			if parts[2] == "0" {
				_ = c.Sync(sl.DeepCopy(), false)
			}
			for _, o := range users() {
				_ = c.Sync(o, false)
			}
			if parts[2] == "1" {
				_ = c.Sync(sl.DeepCopy(), false)
			}
			c.ExtendAll()
			for _, n := range k8s.VerifC17FollowUps {
				_ = c.FollowUp(n)
			}
			_ = c.Sync(sl.DeepCopy(), true)
		})
		if m != "" {
			cs.Panics = append(cs.Panics, PanicInfo{Combo: fmt.Sprintf("flags=%d watch-namespace=%q", f, watch), Stage: "sync", Msg: m, Site: s})
			if cs.Object == nil {
				cs.Object, _ = json.Marshal(map[string]interface{}{"endpointslice": sl, "watch_namespace": watch, "order": parts[2]})
			}
		}
	}
	return cs
}
