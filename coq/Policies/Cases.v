(* Policies/Cases.v -- evaluation of the model (X) and of the decidable specification (S) on the
   cases the harness observed on the real code.  No proofs here.
   Row format: [id; model_agrees; spec_holds; nontrivial; branch_tag] ++ details
     vs cases:  details = per scope [must_fail; unshadowed_must_fail; first shadowed kind code or 0; closed;
                                     reaches_pass; model_err; obs_err; flags_agree]
                followed by [tls_required; tls_rejects; tls_agree]
                branch_tag = number of scopes whose model view is an error return
   The rendered file is handed over already parsed ([parsed] = Lex.Parser.parse_conf of the real
   bytes, computed once per distinct file in the generated cases file).
     ing cases: details = [tls_required; tls_rejects; tls_agree; auth_required; auth_enforced; auth_agree] *)
From Coq Require Import List ZArith String Ascii Bool.
From NIC Require Import Lex.Lexer Lex.Parser Policies.Model Policies.Spec.
Import ListNotations.
Open Scope string_scope.
Open Scope list_scope.

Definition b2z (b : bool) : Z := if b then 1%Z else 0%Z.

(* the file the secret store / the manager reports for ns/name: <secrets dir>/<ns>-<name> *)
Fixpoint slash_to_dash (s : string) : string :=
  match s with
  | EmptyString => EmptyString
  | String c r => String (if Ascii.eqb c "/"%char then "-"%char else c) (slash_to_dash r)
  end.

Definition path_of (key : string) : string := String.append "/etc/nginx/secrets/" (slash_to_dash key).

(* flags of a view in the order the harness reports them *)
Definition flags_of (a : acc) (server : bool) (final_oidc : bool) : list string :=
  (if a_access a then ["access"] else []) ++ (if a_apikey a then ["apikey"] else []) ++
  (if a_basic a then ["basic"] else []) ++ (if a_emtls a then ["emtls"] else []) ++
  (if a_imtls a then ["imtls"] else []) ++ (if a_jwt a then ["jwt"] else []) ++
  (if (if server then final_oidc else a_oidc a) then ["oidc"] else []) ++
  (if a_rate a then ["rate"] else []) ++ (if a_waf a then ["waf"] else []).

Definition obs_scope := (string * list string * bool * list string)%type.   (* id, entry words, err, flags *)

Fixpoint zip_scopes (http : list directive) (host : string) (cls : string) (cluster : list (string * cpolicy))
         (d : deps) (final_oidc : bool)
         (sc : list (string * context * string * list polref)) (views : list (string * view))
         (obs : list obs_scope) : option (list (list Z)) :=
  match sc, views, obs with
  | [], [], [] => Some []
  | (id, ctx, owner, refs) :: sc', (vid, vw) :: views', (oid, entry, oerr, oflags) :: obs' =>
      if String.eqb id vid && String.eqb id oid then
        match zip_scopes http host cls cluster d final_oidc sc' views' obs' with
        | None => None
        | Some rest =>
            let server := match entry with [] => true | _ => false end in
            let sr := scan_refs cls cluster d ctx owner [] refs in
            Some ([b2z (scope_must_fail cls cluster d ctx owner refs);
                   b2z (fst sr);
                   Z.of_nat (match snd sr with k :: _ => kind_code k | [] => 0 end);
                   b2z (scope_fails_closed http host entry);
                   b2z (scope_reaches_pass http host entry);
                   b2z (lv_err vw); b2z oerr;
                   b2z (list_eqb (flags_of (lv_acc vw) server final_oidc) oflags)] :: rest)
        end
      else None
  | _, _, _ => None
  end.

Definition ssl_agrees (m : option ssl) (present reject : bool) (cert : string) : bool :=
  match m with
  | None => negb present
  | Some s => present && Bool.eqb (ssl_reject s) reject && String.eqb (ssl_cert s) cert
  end.

(* the TLS secret is named and not usable *)
Definition tls_required (tls : option string) (ns : string) (d : deps) : bool :=
  match tls with
  | Some name => negb (is_empty name) && negb (usable (secret_state d TyTLS (nskey ns name)))
  | None => false
  end.

Definition vs_case (id : Z) (cls : string) (cluster : list (string * cpolicy))
           (secrets : list (string * secret)) (appols logconfs bundles : list string)
           (tls : option string) (wildcard : bool) (v : vserver) (host : string)
           (obs : list obs_scope) (o_present o_reject : bool) (o_cert : string) (spiffe : bool)
           (parsed : option (list directive)) : list Z :=
  let d0 := mkDeps secrets appols logconfs bundles false in
  let mssl := vs_ssl_config tls (vs_ns v) d0 wildcard path_of in
  let d := mkDeps secrets appols logconfs bundles (match mssl with Some _ => true | None => false end) in
  let pm := vs_policy_map cls cluster v in
  let views := vs_views v pm d in
  let final_oidc := match vs_final_oidc v pm d with Some _ => true | None => false end in
  let tls_req := tls_required tls (vs_ns v) d in
  let tls_agree := ssl_agrees mssl o_present o_reject o_cert in
  match parsed with
  | None => [id; 0; 0; 0; (-1)]%Z
  | Some http =>
      let tls_rej := tls_rejects http host in
      let tls_s := (negb tls_req || tls_rej) &&
                   (match mssl with
                    | Some s => match served_certificate spiffe s with
                                | Some c => serves_cert http host c
                                | None => true
                                end
                    | None => true
                    end) in
      match zip_scopes http host cls cluster d final_oidc (vs_scopes v) views obs with
      | None => [id; 0; b2z tls_s; 0; (-2)]%Z
      | Some rows =>
          (* a row: [must; must_unshadowed; shadow_kind; closed; reaches; model_err; obs_err; flags_agree] *)
          let agree := forallb (fun r => match r with
                                         | [_; _; _; _; _; me; oe; fa] => Z.eqb me oe && Z.eqb fa 1
                                         | _ => false end) rows && tls_agree in
          (* S: a scope that must fail is closed; a scope the implementation left open really
             reaches the upstream (so that closed is not vacuous) is reported through nontrivial *)
          let spec := forallb (fun r => match r with
                                        | [must; _; _; closed; _; _; _; _] => negb (Z.eqb must 1) || Z.eqb closed 1
                                        | _ => false end) rows && tls_s in
          let nerr := List.length (filter (fun r => match r with [_; _; _; _; _; me; _; _] => Z.eqb me 1 | _ => false end) rows) in
          let nontrivial := existsb (fun r => match r with [must; _; _; _; _; _; _; _] => Z.eqb must 1 | _ => false end) rows || tls_req in
          [id; b2z agree; b2z spec; b2z nontrivial; Z.of_nat nerr] ++ List.concat rows ++ [b2z tls_req; b2z tls_rej; b2z tls_agree]
      end
  end%Z.

(* Ingress: TLS entry for the host, JWT / basic-auth annotations, where the auth is rendered
   (where_ = [] server level, else the location's words) *)
Definition ing_case (id : Z) (secrets : list (string * secret)) (ns host : string)
           (tls : option string) (wildcard : bool)
           (jwt basic : option string) (where_ : list string)
           (o_present o_reject : bool) (o_cert : string)
           (o_jwt : option string) (o_basic : option string) (spiffe : bool)
           (parsed : option (list directive)) : list Z :=
  let d := mkDeps secrets [] [] [] false in
  let mssl := ingress_ssl_config tls ns d wildcard path_of in
  let tls_req := tls_required tls ns d ||
                 match tls with Some name => is_empty name && negb wildcard | None => false end in
  let tls_agree := ssl_agrees mssl o_present o_reject o_cert in
  let mj := ingress_jwt jwt ns d path_of in
  let mb := ingress_basic basic ns d path_of in
  let same := fun (m : option auth) (o : option string) =>
                match m, o with
                | None, None => true
                | Some a, Some f => String.eqb (au_file a) f
                | _, _ => false
                end in
  let auth_agree := same mj o_jwt && same mb o_basic in
  let want_jwt := match jwt with Some _ => true | None => false end in
  let want_basic := match basic with Some _ => true | None => false end in
  let auth_req := (want_jwt && match mj with Some a => au_warn a | None => false end) ||
                  (want_basic && match mb with Some a => au_warn a | None => false end) in
  match parsed with
  | None => [id; 0; 0; 0; (-1)]%Z
  | Some http =>
      let tls_rej := tls_rejects http host in
      let tls_s := (negb tls_req || tls_rej) &&
                   (match mssl with
                    | Some s => match served_certificate spiffe s with
                                | Some c => serves_cert http host c
                                | None => true
                                end
                    | None => true
                    end) in
      let enforced := auth_enforced want_jwt want_basic http host where_ in
      let auth_s := negb (want_jwt || want_basic) || enforced in
      [id; b2z (tls_agree && auth_agree); b2z (tls_s && auth_s); b2z (tls_req || auth_req);
       (if tls_req then 1 else 0) + (if auth_req then 2 else 0);
       b2z tls_req; b2z tls_rej; b2z tls_agree; b2z auth_req; b2z enforced; b2z auth_agree]
  end%Z.
