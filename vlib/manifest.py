"""Writes MANIFEST.json from one table, so that it is always valid and in step with the checks."""
import json, os, sys
ROOT = os.path.dirname(os.path.dirname(os.path.abspath(__file__)))

# pid -> (technique, level text, level_note, design_ref)
CLAIMS = {
    "C13": ("Rocq theorems over all response schedules (functions nat -> resp) of a model of WaitForCorrectVersion / Reload / API guard; "
            "model tied to the code by a correspondence harness on scripted unix-socket endpoints",
            "Machine-checked proof (Rocq 8.16.1, no axioms) that in the model an acknowledgement comes only from an exact HTTP 200 answer "
            "carrying exactly the expected version requested before the deadline, that a wait without such an answer fails, that versions strictly "
            "increase over any reload sequence and that the Plus API is called only behind a confirmed version; the hand-written model is run against "
            "the real verify.go/manager.go on generated response scripts on every run and the decidable specification is evaluated on the "
            "implementation's own outcomes.",
            "Trusted: Rocq kernel + vm_compute; the correspondence harness; the stand-in for the nginx binary; NGINX's handling of config-version.conf "
            "(compared byte-for-byte with the model but never executed). Timing within 30 ms of the deadline is proved in the model but not exercised.",
            "DESIGN.md 7 C13"),
}

ARB_NOTE = ("Trusted: Rocq kernel + vm_compute; the hand-written model coq/Arb of internal/k8s/configuration.go (tied by the arb correspondence harness driving the real "
            "k8s.Configuration on random histories, every step compared); the projection of real objects onto the model's attributes; validators and the class predicate as "
            "oracles whose real verdicts are fed to the model; API-server assumptions K1-K3 enforced by the generator.")

CLAIMS["C01"] = (
    "Rocq theorems over all event histories of a model of Configuration (strict total order of the winner relation, running-holder fold = least claimant in any order, "
    "state = last write per key, hosts = function of the object set); model tied by a correspondence harness on the real k8s.Configuration; order-free owner spec evaluated on the implementation's hosts map",
    "Machine-checked proof (no axioms) that for every finite history the owner of every host in the model's hosts map is the least claimant (creationTimestamp, then UID) of the current object set, "
    "that a claimed host always has an owner which is a claimant, and that hosts / listener hosts / GetResources depend on the history only through the final object set (any permutation ending in the same set); "
    "the model is run step by step against the real Configuration on generated histories and their re-orderings, and the order-free specification is evaluated on the implementation's own hosts map after every event, together with `ValidHosts of every Ingress = the hosts the host map assigns to it` and `no two keys of the host map are one hostname in two spellings` (`C01_one_owner_per_hostname_any_spelling`: proved for every history whose stored objects carry lower-case hosts, as the API server and the validators guarantee).",
    ARB_NOTE, "DESIGN.md 7 C01")
CLAIMS["C02"] = (
    "Rocq theorems over all histories (listener+host owner = least claimant; active only on a listener of matching name and protocol, bound to its port/addresses) and over all listener lists "
    "(refinement of the validator's ip/port/protocol tables to a table-free specification; no conflicts, unique names, no reserved port, malformed entries inert, valid entries admitted); "
    "two correspondence harnesses (real Configuration; real createGlobalConfigurationValidator + ValidateGlobalConfiguration)",
    "Machine-checked proof (no axioms) of listener ownership and binding for every history, and of the admission guarantees for every listener list and every reserved-port set, including that the "
    "entries the code records for rejected listeners never change a verdict; both models are run against the real code on every run and the decidable guarantees are evaluated on the real admitted lists; the binding that reaches NGINX is checked by applying the real change batches in order (shadow restricted to listener ports/addresses).",
    ARB_NOTE + " DNS-label and IP-address syntax are oracle bits probed from the real validator.", "DESIGN.md 7 C02")

CLAIMS["C03"] = (
    'Rocq theorems over all histories and all states/events (replaying the emitted batches gives, under every key, exactly the attributes of the active resource after every event of every history; removals-first for every batch incl. concatenated listener+host batches; rebuild idempotent; state a function of the object set) + the shadow-replay specification evaluated in Rocq on the real change batches of every generated history; model of IsEqual/detectChanges/createResourceChanges/squash tied by correspondence',
    "Machine-checked proof (no axioms) that for every history, applying the emitted batches in order (delete removes, addOrUpdate places) leaves configured exactly the resources GetResources() returns - nothing active is missing, nothing removed lingers (`C03_applied_set_is_active_set`, hypothesis: a TransportServer is TLS passthrough or listener-bound, not both, as ValidateTransportServer guarantees); that in every batch returned for any event in any state every removal precedes every addition/update; that rebuilding in a reachable state emits nothing; and that the state the batches must reproduce is a function of the object set. The full statement is proved as well (`C03_applied_configuration_is_current`: under every key the replayed configuration carries exactly the current attributes of the active resource) for every history obeying the API-server rule that a spec change moves the generation and a UID is not reused (with the cert-manager conversion on: challenge Ingresses of the same name and generation are converted into the same route); the tie of the model to the code is decided on every run by evaluating the shadow-replay specification in Rocq on the implementation's own batches, with a diagnosis of the stale attribute; the listener ports and addresses of every applied resource are in addition judged against the current GlobalConfiguration itself (`C03_listener_attributes_current`, proved for every history; the same judge runs on the implementation's GetResources() after every event, so a stale listener cache that feeds both the batches and GetResources() is caught too). Four genuine defects found this way were repaired by fix: commits (F01 F02 F03; F94 was found by the attempt to prove the cert-manager case and refuted in the model first).",
    ARB_NOTE + " Attributes a configuration is rendered from = the whole Resource except warnings; an object's spec is identified by (UID, generation, annotations).", "DESIGN.md 7 C03")
CLAIMS["C20"] = (
    "Rocq theorems over all histories, fault oracles and lister orders of a model of SyncFnFor (certmanager + externaldns), tied by a correspondence harness on the real sync functions with "
    "fake clientsets/listers; the four properties evaluated on the implementation's own action logs and stores; the update predicate is probed each run",
    "Machine-checked proof (no axioms) of ownership safety in full, idempotence (full for Certificates; for DNSEndpoints except `labels: {}`), DNSEndpoint freshness in full, Certificate freshness "
    "and garbage collection in restricted form with vm_compute refutations of the full statements, every refutation reproduced on the real code (known findings F22e-i; F22a-d repaired).",
    "Trusted: Rocq kernel; the harness; the fake object tracker + JSON round trip standing in for the API server; listers refreshed between, not during, synchronizations; one namespace; "
    "oracles for time.ParseDuration / IsValidIP; the key-usage table is transcribed.", "DESIGN.md 7 C20")

CLAIMS["C07"] = (
    "Rocq theorems for all strings about an executable model of the NGINX tokenizer (DFA from ngx_conf_read_token), block parser and the identifier schemes: verified well-formedness "
    "checker, separator-injectivity of the upstream/zone namers, refutations with witnesses for the '-'-separated schemes and the Ingress path validator; the decidable specification "
    "(well-formed, arity-legal, duplicate-free) evaluated by vm_compute on the complete file sets the real Configuration + Configurator + templates produce; namer/validator models compared with the Go functions each run",
    "Machine-checked proof (no axioms) that the checker wf_conf accepts only declaratively well-formed NGINX configuration, that concatenation with a separator foreign to the components is injective and hence "
    "VS/VSR/TS upstream, rate-limit-zone and match names of DNS-named resources never collide, and - with witnesses reproduced on the real code - that the Ingress upstream name, VariableNamer and minion "
    "login-location schemes are not injective and the Ingress path validator admits paths that are not one bare word. The universally quantified property is false of the code (known findings); on every run it "
    "is decided on the real output of generated accepted resource sets by the verified checker.",
    "Partial: the lexer model and arity table are hand-written from NGINX's source/documentation and cannot be differentially tested (no nginx binary); semantic nginx -t checks beyond lexing/arity/numeric server "
    "params/uniqueness are not modelled; the Go glue between accepted resources and rendered bytes is exercised (S on real output), not proved; snippets, App Protect and OIDC are not generated.",
    "DESIGN.md 7 C07")
CLAIMS["C09"] = (
    "Rocq theorems for all permutations of map bindings (oracle model of Go range, proved complete) about the consumer of every map-range site; a go/types translator regenerates the site inventory from source and "
    "the coverage is re-proved on every run; a correspondence harness renders fixtures through the real Configurator, templates and LocalManager 60x in 3 processes",
    "Machine-checked proof (no axioms): a Go map range is modelled as an arbitrary permutation; sort-on-distinct-keys and idempotent commutative map insertion are permutation-invariant and append is not. Every one of "
    "the 23 inventoried sites is deterministic, deterministic under a named hypothesis, or refuted; the three refuted sites that reached generated files (F13, F14) were reproduced on the real code and repaired by fix: commits.",
    "Trusted: the translator's completeness and classification; the hand-written site models (tied by the unit family and by what the translator reports); Go semantics for code without map ranges, goroutines or clocks; "
    "text/template's sorted iteration over maps. Map ranges outside internal/configs, version1, version2 are only exercised.", "DESIGN.md 7 C09")
CLAIMS["C10"] = (
    "Rocq theorems over all histories of Configurator operations and restarts of an executable model of the file-creating/deleting code (refinement disk = image of the served set under injectivity; naming lemmas over all "
    "strings / DNS-1123 names); tied by a correspondence harness driving the real Configurator, templates and LocalManager file operations on a temporary root; decidable one-to-one check on the real listings",
    "Machine-checked proof (no axioms): for every operation history over DNS-legal names without colliding Ingress pairs conf.d and stream-conf.d contain exactly one file per served resource with its latest content; a delete "
    "removes its file and nothing else; the same across restarts when nothing was deleted while down; the passthrough map is exact when no passthrough TransportServer is downgraded. Refuted with witnesses on model and real "
    "code: Ingress name injectivity (F08), restart after a delete while down (F10), stale passthrough host (F33).",
    "Trusted: Rocq kernel; the harness incl. its transcription of the main.go start-up sequence (guarded by a syntactic census); emptyDir surviving a container restart. Assumed: distinct hosts of served passthrough TransportServers "
    "(C02); one object per kind/namespace/name. Not modelled: filesystem failures. Controller level: histories of the arb harness through the real LoadBalancerController.sync over a manager that remembers the per-resource files; one file per resource in GetResources() after every event (F33 repaired).", "DESIGN.md 7 C10")
CLAIMS["C11"] = (
    "Rocq invariants over all operation histories of a model of LocalSecretStore + Configurator-as-SecretFileManager + LocalManager secret files, validity and derived bytes as universally quantified oracles; tied by a "
    "correspondence harness on the real store/Configurator/LocalManager with directory listings after every operation",
    "Machine-checked proof (no axioms) that after every admissible history every file in the secrets directory is the derivation of the current, valid, asked-for version of some Secret, that per Secret the directory holds "
    "exactly that derivation or nothing when keys have disjoint file names (proved for dash-free namespaces), that files vanish on invalidation/deletion, and that references report an error exactly when no valid version exists. "
    "ns-name injectivity, CA-file removal and type change are refuted with witnesses replayed on the real code (F09, F34-F36).",
    "Trusted: Rocq kernel; harness; ValidateSecret verdict as oracle (crypto not modelled); content compared by hash prefix. Hypotheses: no '/' in names, Secret.type immutable while it exists, no CA secret (F34). Not modelled: crash "
    "between temp write and rename; special secrets (default, wildcard, license, mgmt, dhparam).", "DESIGN.md 7 C11")
CLAIMS["C12"] = (
    "Rocq theorems over all operation/sync histories and all fault placements (oracle functions nat->bool) of a model of the Configurator reload gate and of LoadBalancerController.sync batch logic; tied by a correspondence harness "
    "running the real Configurator and real lbc.sync over a recording nginx.Manager; decidable spec evaluated on the implementation's own Manager log",
    "Machine-checked proof (no axioms): held-back window, applied-when-enabled, batch-end (if half) and failure propagation proved with explicit restrictions; the only-if half, the weight-update exception and batch/endpoints "
    "failure reporting are refuted with witnesses replayed on the real code (F15, F16a-d).",
    "Trusted: Rocq kernel; the recording Manager; the harness's name/identity formulas. Not modelled: secrets, App Protect files, DH param, SPIFFE certs, the TLS-passthrough map; template errors are not injected; nginx is not run.",
    "DESIGN.md 7 C12")
CLAIMS["C14"] = (
    "Rocq theorems for all clusters (unbounded lists, any pod order) about an executable model of endpoint resolution; tied by correspondence on the real getEndpointsFor*/create*Ex/generators and by the decidable specification "
    "evaluated on the implementation's outputs",
    "Machine-checked proof (no axioms) of by-number exactness, NoDup, IPv6 bracketing, nothing foreign/unready, sub-selector, cluster-IP, ExternalName, placeholder/never-disappears; the by-name meaning of named target ports, "
    "`each once` without the functional-ref premise and the unnamed-port match are refuted with witnesses reproduced on the real code (F18, F40-F42); F17 was repaired.",
    "Trusted: Rocq kernel; harness and hooks; label matching is modelled; the nginx templates are not executed (observable is the generated upstream's server entries).", "DESIGN.md 7 C14")
CLAIMS["C15"] = (
    "Rocq theorems (structural induction over resource skeletons with unbounded lists) about a model of the forward traversal (create*Ex) and of the backward traversal (reference checkers, second hops, endpoints filter, event "
    "dispatch); tied by a correspondence harness on the real createExtendedResources, FindResourcesFor*, informer handlers and lbc.sync, plus a reflection-based field inventory",
    "Machine-checked proof (no axioms) that every dependency the model consults, in any position of any resource and for any cluster, is mapped back by the reverse path of its kind and reached by every add/update/delete event, "
    "except positions refuted by concrete witnesses (F19b EndpointSlice delete, F19c backup endpoints; F19a repaired). The decidable specification is evaluated on the implementation's own outputs at two levels.",
    "Trusted: Rocq kernel; harness and hooks; the harness's notion of dependency; fake SecretStore; fake appprotect.Configuration at the create*Ex level. Not modelled: pods, DoS policy/log-conf hops, user signatures, informer resync.",
    "DESIGN.md 7 C15")
CLAIMS["C18"] = (
    "Rocq theorems (lockset soundness for all programs and interleavings under mutex/RW-lock semantics) + access table regenerated from the Go source by a go/types translator and checked by vm_compute + the real controller run "
    "under the race detector",
    "Machine-checked proof (no axioms) that the lock discipline on struct fields implies absence of data races in every interleaving. The instance for the controller is a computed obligation over the regenerated table; it holds only "
    "modulo the known conflict edges (F20a-h), many exhibited as real data races; the harness also exhibits the fatal concurrent-map crash (F20z).",
    "Partial: lock discipline on the fields of Configurator / Configuration / LocalSecretStore / LoadBalancerController. The translator and the entry list are trusted, cross-checked by the race detector. Pointer-published objects, "
    "aliasing, start-up code and SPIFFE driving are outside.", "DESIGN.md 7 C18")
CLAIMS["C19"] = (
    "Rocq proof of a state-equality invariant over all event histories (incremental flags = from-scratch specification), correspondence + decidable spec on every step against the real ConfigurationImpl / DoS Configuration, "
    "two refutations with witnesses replayed on the real code",
    "Machine-checked proof (no axioms): for every history (distinct UIDs of coexisting signatures) the whole state equals the state rebuilt from the current objects, hence order independence; exactly one in-force signature per tag; "
    "every usability flip is reported. The property fails in two places, refuted with witnesses: F21 (tag-only requirement vs revisionDatetime) and F37 (DeleteUserSig of an absent key reports no signatures).",
    "Trusted: Rocq kernel; harness; validator verdicts as oracles from the real validators; map iteration modelled in key order with returned lists compared as sets.", "DESIGN.md 7 C19")

CLAIMS["C04"] = (
    "Rocq theorems over all object sets / route lists / minion lists (routes attached = referenced, existing, reference-checked routes; minions = stored minions of the host; each path served by exactly the least-claimant minion; composition a function of the object set) + the declarative composition evaluated in Rocq on the implementation's GetResources() after every event",
    "Machine-checked proof (no axioms) that the route list of a VirtualServer is exactly the referenced, existing routes passing the per-reference check (whose meaning is proved), that the minions rendered with a master are exactly the stored minions of its host, that a minion's ValidPaths mark for a path is true iff it is the least claimant of that path among them (any number of minions and paths, a minion may list a path any number of times; K1) and a minion that loses a path carries a child warning, that a minion or a route is only ever attached to the resource that owns its host (C04_minion_attached_to_host_owner, C04_route_attached_to_host_owner, for any object set the validators accept), and that composition depends only on the current object set; the end-to-end connection to GetResources and the rendering projection are decided by the declarative specification evaluated on the real resources of every generated history. One genuine defect (F44) repaired; F12 (route attached twice) is a known finding.",
    ARB_NOTE + " The full VirtualServerRoute validator is an oracle; its per-reference part is modelled. Rendering projection: every active master is rendered through the real createMergeableIngresses + generateNginxCfgForMergeableIngresses and its (path, minion) locations are compared in Rocq with the declared ones. F12 and F44 repaired (C04_route_attached_once).", "DESIGN.md 7 C04")
CLAIMS["C08"] = (
    "Rocq theorems over unbounded policy-reference lists and all dependency states of an executable model of generatePolicies / add*Config / getPolicies / policy inheritance / generateSSLConfig / addSSLConfig / Ingress JWT and "
    "basic auth; tied by a correspondence harness enumerating the whole kind x scope x failure mode x position x edition product through the real controller Ex constructors, Configurator and templates; a decidable fail-closed "
    "predicate evaluated on the parsed real output",
    "Machine-checked proof (no axioms): every scope with an unusable reference that no earlier same-kind policy shadows gets the error return and nothing else; an unusable named TLS Secret gives reject-handshake and no certificate; "
    "Ingress auth is configured in every Secret state. The unrestricted statement is refuted with a witness reproduced on the real code (F80a-f). The finite product is enumerated exhaustively on the real code each run.",
    "Trusted: NGINX semantics behind the predicate (rewrite-phase return pre-empts proxy_pass; ssl_reject_handshake); the hand-written lexer/parser model; hooks. The template's position of `return` is checked on real output each run, "
    "not proved. Validators, Secret validation, App Protect and bundle existence are oracles. TransportServer TLS out of scope.", "DESIGN.md 7 C08")
CLAIMS["C16"] = (
    'Rocq theorem about pairs of histories (non-interference: replacing every foreign-class event by the deletion of the object leaves every change list, problem list and state unchanged, for all histories), stored objects all arrived with the own class; two-run non-interference, silent-removal and class-precedence specifications evaluated in Rocq on the real Configuration',
    'Machine-checked proof (no axioms) of non-interference at the arbitration level for every history, through a full-state invariant (hosts, listener hosts and both problem maps are functions of the stored objects) and idempotence of rebuilding; on every run every generated history and its erasure are run on the real Configuration and compared step by step, silent removal and the class predicate are evaluated on the real outputs. F04 (delete change keeps warnings on class change => Rejected report on a foreign object) is a known finding.',
    ARB_NOTE + " Also proved for every history: no report the controller derives names an object that is of a foreign class at that moment (C16_reports_never_name_foreign). Controller level (real LoadBalancerController.sync, production constructor, fake clientsets): recorded Events and status writes never name a foreign object; every event is offered to the real informer handler (a class change must be passed on); the real OnStartedLeading callback runs at the end of every history with Policies of own/foreign class present. F04 and F70 repaired. Not covered: the -weight-changes-dynamic-reload informer-side path.", "DESIGN.md 7 C16")

CLAIMS["C05"] = (
    'Rocq theorem over all histories: after every history the judge `truthful` (the function evaluated at run time on the implementation\'s reports) accepts the accumulated reports of every known Ingress, master, minion, VirtualServer, VirtualServerRoute and TransportServer, valid or invalid (C05_truthful); the validation error of the processed object is reported in the step, for every event in every state; delta suppression sound + the same specification evaluated in Rocq at two levels: on the real change/problem lists, and on the Events recorded by the real LoadBalancerController.sync',
    "Machine-checked proof (no axioms, ~2700 lines) that for EVERY history obeying what the API server and the validators guarantee (generation moves with the spec, UIDs not reused, a master has one host, a minion a path, a VirtualServer a host, a route a UID, passthrough TransportServers only valid when passthrough is on, a UID belongs to one name; cert-manager conversion off), after every event and for every object the cluster knows: applied (active resource, attached minion, attached route) => the most recent accumulated report is a success; not applied or invalid => it is a rejection, warning or problem - also across delete/re-create with a new UID, squashed batches, GlobalConfiguration events and problems that go and come back. An attached minion that serves none of its paths carries the warning in its success report (closed with the extra API-server guarantee that a UID belongs to one name). Left to run time: the cert-manager corner; it, and the tie of the model to the code, are decided on every run by the Rocq kernel evaluating the same judge on the implementation's own change/problem lists of every generated history, and again on the Events and status writes that the real controller records for the same histories.",
    ARB_NOTE + " Controller level: production constructor, fake clientsets, harness-filled informer stores, fake NGINX manager; status-subresource writes are recorded but only Events are judged. Reports are tied to object incarnations (a delete or a UID change forgets them); whether a minion serves a path is decided from the object set; every event is offered to the real informer handler (plain and tombstone deletes). F72 and F73 repaired. Converted cert-manager challenge Ingresses are excluded.", "DESIGN.md 7 C05")

CLAIMS["C17"] = (
    "Rocq theorems about nil-shape models (every Go pointer dereference or [0] is an explicit deref in code order behind the code's own guards): finite shape spaces swept inside Rocq and lifted by completeness of "
    "the enumerations; an inductive proof for unbounded Ingress objects and all event histories; models tied to the code by a harness that materialises every shape and compares Ok/Rejected/Panic stage by stage with the "
    "real Configuration, Configurator, templates and sync functions, plus a schema-directed random stream",
    "Machine-checked proof (no axioms) that in the model no API-admissible Ingress - any number of rules and paths, any history of upserts and deletions, all feature flags - panics in validation, arbitration, "
    "extension/generation or deletion, and that no shape of the stated optional-structure spaces of VirtualServer, VirtualServerRoute, TransportServer, Policy and GlobalConfiguration panics in validation, arbitration or "
    "the modelled generator dereferences; on every run the model is compared with the real code on every shape (exhaustive) and a random stream of schema-admissible objects must not panic. Two genuine panics (F05, F43) repaired.",
    "Trusted: Rocq kernel; the hand-written models; the harness and fixtures; the transcribed API-server rules for built-in kinds; a small interpreter of the published CRD YAML (the real structural-schema validator cannot be "
    "compiled offline). Not proved: value-dependent panics; non-modelled parts of the CRD generators/templates (exercised on every shape). Not driven: App Protect/DoS resources, IngressLink, ConfigMap parsing, status updater.",
    "DESIGN.md 7 C17")

CLAIMS["C06"] = (
    "Rocq theorems for all strings (lexer DFA classes as Hoare triples: values of a site class are neutral at their kind of site; validator regex languages included in site classes by 256-byte sweeps, refutation witnesses where "
    "false; soundness of an abstract interpreter of the template language) + translator regenerating the six templates as abstract templates with per-template obligations evaluated every run + skeleton-invariance specification "
    "evaluated in Rocq on the real rendered bytes for every string leaf x adversarial payload x fixture x OSS/Plus with snippets disabled",
    "Machine-checked proof (no axioms) of the neutrality of each site class for all strings, of validator-language inclusion in the class of the site it guards for the validators that are tight, and of the analyzer's soundness; "
    "the obligations over the translated templates are re-discharged on every run (fail closed on unknown functions/sites). The composition over the Go glue between validated resource and template data is not proved: it is "
    "decided on every run by S - the directive/block skeleton of the real output with each payload equals the skeleton with harmless text - which reproduces on the real code every under-validated field as a concrete injection "
    "(known findings F06 F26-F29 F50-F64, each with its field as signature; refutation theorems give the offending byte).",
    "Trusted: Rocq kernel; the hand-written NGINX lexer model (no nginx binary); translator c06t and its class tables; harness and hooks; Go regexp (the regex AST is transcribed and compared with Go's regexp on a corpus each run). "
    "Snippets-enabled mode is out of scope by the property.", "DESIGN.md 7 C06")

NOT_YET = {}


def build():
    props = [json.loads(l) for l in open(os.path.join(ROOT, "properties.jsonl"))]
    checks, na = [], []
    for p in props:
        pid = p["id"]
        if pid in CLAIMS:
            tech, text, note, ref = CLAIMS[pid]
            checks.append({
                "property_id": pid,
                "quick_cmd": "./check %s --tier quick" % pid,
                "thorough_cmd": "./check %s --tier thorough" % pid,
                "evidence_file": "/verif/evidence/%s.json" % pid,
                "replay_cmd_template": "./check %s --replay {path}" % pid,
                "engine": "rocq",
                "level_claimed": {"category": "proof", "text": text, "design_ref": ref},
                "level_note": note,
                "technique": tech,
            })
        else:
            na.append({"property_id": pid, "reason": NOT_YET.get(pid, "check not built yet in this session; see DESIGN.md section 7 for the planned model and theorems")})
    m = {
        "version": 1,
        "setup_cmd": "./check --setup",
        "hooks": {
            "guard": "verif",
            "enable": "go build -tags verif -overlay /verif/.work/overlay.json (every hook is a //go:build verif file kept under /verif/harness/overlay and laid over /repo at build time; nothing is committed to /repo)",
            "baseline_off_cmd": "cd /repo && GOFLAGS=-mod=mod GOPROXY=off go test -vet=off -count=1 ./...",
            "source_commits": [],
            "add_only": True,
        },
        "engines": [{"name": "rocq", "path": "/verif/coq", "serves_properties": sorted(CLAIMS),
                     "kind_free_text": "Rocq/Coq 8.16.1 development (coq_makefile, full .vo build); models tied to /repo by Go correspondence harnesses built with -overlay and by translators"}],
        "checks": checks,
        "not_applicable": na,
        "notes": "See DESIGN.md. Known findings: known/<PID>.jsonl, one file per property (KNOWN_FINDINGS.jsonl is the shared file for entries that span properties; it is empty). Repairs: fixes/Fxx.diff and .md; seeded changes and their verdicts: seeded/SUMMARY.md.",
    }
    with open(os.path.join(ROOT, "MANIFEST.json"), "w") as f:
        json.dump(m, f, indent=1)
    return m


if __name__ == "__main__":
    m = build()
    try:
        import jsonschema
        jsonschema.validate(m, json.load(open("/root/.vp/MANIFEST.schema.json")))
        print("MANIFEST.json valid (%d checks, %d not_applicable)" % (len(m["checks"]), len(m["not_applicable"])))
    except ImportError:
        print("MANIFEST.json written (jsonschema not available to validate)")
