(* C04: composition of VirtualServers with their routes and of masters with their minions. *)
From Coq Require Import List ZArith String Ascii Bool Lia.
From NIC Require Import Base.SMap Arb.Types Arb.Model Arb.Spec Arb.WinsProofs Arb.InvProofs.
Import ListNotations.
Open Scope Z_scope.

(* the routes attached by buildVirtualServerRoutes are exactly the referenced, existing routes that
   pass the per-reference check; nothing else; in route order; each at most once *)
Lemma vsrs_k_exact rs v : forall routes seen k r,
  In (k, r) (fst (build_vsrs_k rs v seen routes)) <->
  exists path route, In (path, route) routes /\ route <> ""%string /\ route_key v route = k /\ ~ In k seen /\
                     lookup k rs = Some r /\ vsr_ok_for r (v_host v) path = true.
Proof.
  induction routes as [|[path route] rest IH]; intros seen k r; cbn [build_vsrs_k].
  - cbn. split; [tauto|intros (p & q & [] & _)].
  - destruct (String.eqb route "") eqn:He.
    { apply String.eqb_eq in He. subst route. rewrite IH. split.
      - intros (p & q & Hin & H). exists p, q. split; [right; exact Hin|exact H].
      - intros (p & q & [Heq|Hin] & Hne & H); [inversion Heq; subst; congruence|]. exists p, q. auto 10. }
    apply String.eqb_neq in He.
    destruct (existsb (String.eqb (route_key v route)) seen) eqn:Hs.
    { destruct (build_vsrs_k rs v seen rest) as [l w] eqn:Hb. cbn [fst].
      specialize (IH seen k r). rewrite Hb in IH. cbn [fst] in IH. rewrite IH. split.
      - intros (p & q & Hin & H). exists p, q. split; [right; exact Hin|exact H].
      - intros (p & q & [Heq|Hin] & Hne & Hk & Hns & H).
        + inversion Heq; subst. exfalso. apply Hns. apply existsb_exists in Hs. destruct Hs as (x & Hx & Hxe).
          apply String.eqb_eq in Hxe. subst x. exact Hx.
        + exists p, q. auto 10. }
    assert (Hnot : ~ In (route_key v route) seen).
    { intros Hi. assert (existsb (String.eqb (route_key v route)) seen = true).
      { apply existsb_exists. exists (route_key v route). split; [exact Hi|apply String.eqb_refl]. } congruence. }
    destruct (lookup (route_key v route) rs) as [r0|] eqn:Hl.
    + destruct (vsr_ok_for r0 (v_host v) path) eqn:Hok.
      * destruct (build_vsrs_k rs v (route_key v route :: seen) rest) as [l w] eqn:Hb. cbn [fst].
        specialize (IH (route_key v route :: seen) k r). rewrite Hb in IH. cbn [fst] in IH. split.
        -- intros [Heq|Hin].
           ++ inversion Heq; subst. exists path, route. repeat split; auto. left; reflexivity.
           ++ apply IH in Hin. destruct Hin as (p & q & Hin & Hne & Hk & Hns & H). exists p, q.
              split; [right; exact Hin|]. repeat split; try tauto. intros Hi. apply Hns. right. exact Hi.
        -- intros (p & q & [Heq|Hin] & Hne & Hk & Hns & Hlk & Hv).
           ++ inversion Heq; subst. left. congruence.
           ++ destruct (string_dec (route_key v route) k) as [Hkk|Hkk].
              ** left. subst k. congruence.
              ** right. apply IH. exists p, q. repeat split; auto. intros [Hi|Hi]; [contradiction|]. apply Hns. exact Hi.
      * destruct (build_vsrs_k rs v seen rest) as [l w] eqn:Hb. cbn [fst].
        specialize (IH seen k r). rewrite Hb in IH. cbn [fst] in IH. rewrite IH. split.
        -- intros (p & q & Hin & H). exists p, q. split; [right; exact Hin|exact H].
        -- intros (p & q & [Heq|Hin] & Hne & Hk & Hns & Hlk & Hv); [inversion Heq; subst; congruence|]. exists p, q. auto 10.
    + destruct (build_vsrs_k rs v seen rest) as [l w] eqn:Hb. cbn [fst].
      specialize (IH seen k r). rewrite Hb in IH. cbn [fst] in IH. rewrite IH. split.
      * intros (p & q & Hin & H). exists p, q. split; [right; exact Hin|exact H].
      * intros (p & q & [Heq|Hin] & Hne & Hk & Hns & Hlk & Hv); [inversion Heq; subst; congruence|]. exists p, q. auto 10.
Qed.

Theorem vsrs_exact rs v : forall routes r,
  In r (fst (build_vsrs rs v routes)) <->
  exists path route, In (path, route) routes /\ route <> ""%string /\
                     lookup (route_key v route) rs = Some r /\ vsr_ok_for r (v_host v) path = true.
Proof.
  intros routes r. unfold build_vsrs.
  destruct (build_vsrs_k rs v [] routes) as [l w] eqn:Hb. cbn [fst]. rewrite in_map_iff. split.
  - intros ([k r'] & Heq & Hin). cbn in Heq. subst r'.
    pose proof (vsrs_k_exact rs v routes [] k r) as H. rewrite Hb in H. cbn [fst] in H. apply H in Hin.
    destruct Hin as (p & q & Hin & Hne & Hk & _ & Hlk & Hv). exists p, q. subst k. auto.
  - intros (p & q & Hin & Hne & Hlk & Hv). exists (route_key v q, r). split; [reflexivity|].
    pose proof (vsrs_k_exact rs v routes [] (route_key v q) r) as H. rewrite Hb in H. cbn [fst] in H. apply H.
    exists p, q. repeat split; auto.
Qed.

(* a VirtualServerRoute is attached at most once, however many routes of the VirtualServer refer to it
   (and never one of the keys in [seen]) *)
Lemma vsrs_k_nodup rs v : forall routes seen,
  NoDup (map fst (fst (build_vsrs_k rs v seen routes))) /\
  forall k, In k (map fst (fst (build_vsrs_k rs v seen routes))) -> ~ In k seen.
Proof.
  induction routes as [|[path route] rest IH]; intros seen; cbn [build_vsrs_k].
  - cbn. split; [constructor|tauto].
  - destruct (String.eqb route ""); [apply IH|].
    destruct (existsb (String.eqb (route_key v route)) seen) eqn:Hs.
    { specialize (IH seen). destruct (build_vsrs_k rs v seen rest) as [l w]. exact IH. }
    destruct (lookup (route_key v route) rs) as [r0|].
    + destruct (vsr_ok_for r0 (v_host v) path).
      * specialize (IH (route_key v route :: seen)). destruct (build_vsrs_k rs v (route_key v route :: seen) rest) as [l w].
        cbn [fst map] in *. destruct IH as [Hnd Hns]. split.
        -- constructor; [|exact Hnd]. intros Hi. apply (Hns _ Hi). left; reflexivity.
        -- intros k [Hk|Hk].
           ++ subst k. intros Hi. assert (existsb (String.eqb (route_key v route)) seen = true).
              { apply existsb_exists. exists (route_key v route). split; [exact Hi|apply String.eqb_refl]. } congruence.
           ++ intros Hi. apply (Hns _ Hk). right; exact Hi.
      * specialize (IH seen). destruct (build_vsrs_k rs v seen rest) as [l w]. exact IH.
    + specialize (IH seen). destruct (build_vsrs_k rs v seen rest) as [l w]. exact IH.
Qed.

Theorem vsrs_attached_once rs v routes : NoDup (map fst (fst (build_vsrs_k rs v [] routes))).
Proof. apply vsrs_k_nodup. Qed.

(* what the per-reference check means *)
Theorem vsr_ok_for_meaning r host path :
  host <> ""%string ->
  vsr_ok_for r host path = true ->
  r_host r = host /\
  (is_regex_or_exact path = true -> r_subpaths r = [path]) /\
  (is_regex_or_exact path = false -> path <> ""%string -> forall p, In p (r_subpaths r) -> String.prefix path p = true).
Proof.
  intros Hh. unfold vsr_ok_for. intros H. apply andb_true_iff in H. destruct H as [H1 H2].
  apply orb_true_iff in H1. destruct H1 as [H1|H1]; [apply String.eqb_eq in H1; contradiction|].
  apply String.eqb_eq in H1. split; [exact H1|]. split.
  - intros Hr. rewrite Hr in H2. destruct (r_subpaths r) as [|p [|q l]]; try discriminate.
    apply String.eqb_eq in H2. subst. reflexivity.
  - intros Hr Hne p Hin. rewrite Hr in H2. apply orb_true_iff in H2. destruct H2 as [H2|H2].
    + apply String.eqb_eq in H2. contradiction.
    + rewrite forallb_forall in H2. apply H2. exact Hin.
Qed.

(* the minions considered for a master are exactly the stored minion Ingresses of its host, in key order *)
Theorem minions_of_exact is_ host i :
  In i (minions_of is_ host) <-> exists k, In (k, i) is_ /\ is_minion i = true /\ host0 i = host.
Proof.
  unfold minions_of. rewrite in_filter_map. split.
  - intros ([k i0] & Hin & Hf). cbn [snd] in Hf.
    destruct (is_minion i0 && String.eqb host (host0 i0)) eqn:Hc; [|discriminate].
    inversion Hf; subst. apply andb_true_iff in Hc. destruct Hc as [Hm He]. apply String.eqb_eq in He.
    exists k. auto.
  - intros (k & Hin & Hm & He). exists (k, i). split; [exact Hin|]. cbn [snd]. rewrite Hm, <- He, String.eqb_refl. reflexivity.
Qed.

Theorem build_minions_list is_ host :
  map mc_ing (fst (build_minions is_ host)) = minions_of is_ host.
Proof. unfold build_minions. cbn [fst]. rewrite map_map. cbn. apply map_id. Qed.
