//go:build verif

package main

// The structural schema of the CRDs (config/crd/bases/*.yaml of the tree under test) as far as it
// constrains STRING leaves: pattern, enum, minLength, maxLength.  The API server enforces these
// before the controller sees an object, so a payload they reject is not an accepted resource.

import (
	"fmt"
	"os"
	"path/filepath"
	"regexp"
	"strings"
	"sync"

	"sigs.k8s.io/yaml"
)

var crdFiles = map[string]string{
	"VirtualServer":      "k8s.nginx.org_virtualservers.yaml",
	"VirtualServerRoute": "k8s.nginx.org_virtualserverroutes.yaml",
	"TransportServer":    "k8s.nginx.org_transportservers.yaml",
	"Policy":             "k8s.nginx.org_policies.yaml",
}

var (
	crdOnce    sync.Once
	crdSchemas = map[string]map[string]any{}
	crdErr     error
	crdReMu    sync.Mutex
	crdRe      = map[string]*regexp.Regexp{}
)

func loadCRDs() {
	for kind, f := range crdFiles {
		b, err := os.ReadFile(filepath.Join(repoDir(), "config", "crd", "bases", f))
		if err != nil {
			crdErr = err
			return
		}
		var doc map[string]any
		if err := yaml.Unmarshal(b, &doc); err != nil {
			crdErr = err
			return
		}
		spec, _ := doc["spec"].(map[string]any)
		vers, _ := spec["versions"].([]any)
		for _, v := range vers {
			vm, _ := v.(map[string]any)
			if vm["name"] != "v1" {
				continue
			}
			sch, _ := vm["schema"].(map[string]any)
			root, _ := sch["openAPIV3Schema"].(map[string]any)
			crdSchemas[kind] = root
		}
		if crdSchemas[kind] == nil {
			crdErr = fmt.Errorf("no v1 schema in %s", f)
			return
		}
	}
}

// splitPath turns spec.routes[2].action.pass / spec.upstreams[0].subselector[version] into steps
func splitPath(p string) []string {
	var out []string
	cur := ""
	for i := 0; i < len(p); i++ {
		switch p[i] {
		case '.':
			if cur != "" {
				out = append(out, cur)
				cur = ""
			}
		case '[', '{':
			if cur != "" {
				out = append(out, cur)
				cur = ""
			}
			end := byte(']')
			if p[i] == '{' {
				end = '}'
			}
			j := strings.IndexByte(p[i:], end)
			if j < 0 {
				j = len(p) - i - 1
			}
			out = append(out, p[i:i+j+1])
			i += j
		default:
			cur += string(p[i])
		}
	}
	if cur != "" {
		out = append(out, cur)
	}
	return out
}

// crdAdmits checks the string value at leaf path against the schema node of that path; "" = admitted
// (also when the schema does not describe the path: x-kubernetes-preserve-unknown-fields / pruned).
func crdAdmits(kind, path, val string) string {
	crdOnce.Do(loadCRDs)
	if crdErr != nil {
		return "" // reported once by main
	}
	node := crdSchemas[kind]
	for _, st := range splitPath(path) {
		if node == nil {
			return ""
		}
		switch {
		case strings.HasPrefix(st, "{"):
			return "" // a map key: no constraint in these schemas
		case strings.HasPrefix(st, "["):
			if it, ok := node["items"].(map[string]any); ok {
				node = it
			} else if ap, ok := node["additionalProperties"].(map[string]any); ok {
				node = ap
			} else {
				return ""
			}
		default:
			props, _ := node["properties"].(map[string]any)
			next, _ := props[st].(map[string]any)
			node = next
		}
	}
	if node == nil {
		return ""
	}
	if pat, ok := node["pattern"].(string); ok {
		crdReMu.Lock()
		re := crdRe[pat]
		if re == nil {
			re, _ = regexp.Compile(pat)
			crdRe[pat] = re
		}
		crdReMu.Unlock()
		if re != nil && !re.MatchString(val) {
			return "crd schema: pattern " + pat
		}
	}
	if en, ok := node["enum"].([]any); ok {
		found := false
		for _, e := range en {
			if s, ok := e.(string); ok && s == val {
				found = true
			}
		}
		if !found {
			return "crd schema: enum"
		}
	}
	if ml, ok := node["maxLength"].(float64); ok && float64(len(val)) > ml {
		return "crd schema: maxLength"
	}
	if ml, ok := node["minLength"].(float64); ok && float64(len(val)) < ml {
		return "crd schema: minLength"
	}
	return ""
}
