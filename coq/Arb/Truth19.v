(* C05 truth proof, part 19: the invariant is preserved by every event *)
From Coq Require Import List ZArith String Ascii Bool Lia.
From NIC Require Import Base.SMap Arb.Types Arb.Model Arb.Spec Arb.WinsProofs Arb.InvProofs Arb.OwnerProofs
     Arb.ListenerProofs Arb.ClassProofs Arb.ChangeProofs Arb.ReportProofs Arb.ComposeProofs Arb.Cases Arb.ShadowProofs Arb.ShadowAttrs.
From NIC Require Import Arb.Truth01 Arb.Truth02 Arb.Truth03 Arb.Truth04 Arb.Truth05 Arb.Truth06 Arb.Truth07 Arb.Truth08 Arb.Truth09 Arb.Truth10 Arb.Truth11 Arb.Truth12 Arb.Truth13 Arb.Truth14 Arb.Truth15 Arb.Truth16 Arb.Truth17 Arb.Truth18.
Import ListNotations.
Open Scope string_scope.
Open Scope Z_scope.

Lemma last_report_none_inv k rs : last_report k rs None = None -> forall r, ~ In (k, r) rs.
Proof. intros H r Hin. destruct (last_report_some k rs r Hin) as (r' & E). congruence. Qed.

Lemma ev_key_obj e k b : event_obj e = Some (k, b) -> ev_key e = Some k.
Proof. destruct e; cbn; intros H; inversion H; reflexivity. Qed.

(* the cluster entry of the event's own object is the event *)
Lemma cluster_own cl e k b : event_obj e = Some (k, b) -> lookup k (cluster_apply cl e) = Some e.
Proof. destruct e; cbn; intros H; inversion H; subst; apply lookup_insert_eq. Qed.

Section Step.
  Variables (c : cfg) (es : list event) (e : event).
  Hypothesis Hy' : hyps c (es ++ [e])%list.
  Hypothesis IH : inv c es.
  Let Hy := hyps_prefix c es e Hy'.
  Let S := run c es.
  Let S' := run c (es ++ [e])%list.
  Let L := last_reports c es.
  Let L' := last_reports c (es ++ [e])%list.
  Let rs := step_reports c es e.

  (* nothing said in this step about k, and the object k names keeps its UID: the last report is the old one *)
  Lemma keeps k u : last_report k rs None = None -> who (objs_after es) k u -> who (objs_after (es ++ [e])%list) k u ->
    lookup k L' = lookup k L.
  Proof.
    intros Hn W1 W2. unfold L'. rewrite (L'_lookup c es e k). fold rs. rewrite Hn.
    apply (forget_keeps es e _ k u (inv_wf _ _ IH) W1 W2).
  Qed.

  Lemma step_J k : Pst S' k -> said_no L' k.
  Proof.
    intros HP. assert (HnA : ~ Ap S' k) by (apply (st_P1 c _ Hy'); exact HP).
    destruct (last_report k rs None) as [r|] eqn:Elr.
    - exists r. split; [unfold L'; rewrite (L'_lookup c es e k); fold rs; rewrite Elr; reflexivity|].
      apply (not_applied_reports_no c es e Hy' k r HnA). apply last_report_in in Elr. destruct Elr as [H|H]; [exact H|discriminate].
    - destruct (standing_why c es e Hy' k HP) as [(r & Hin)|(u & W1 & W2 & HP0)].
      + exfalso. apply (last_report_none_inv k rs Elr r). unfold rs. rewrite step_reports_eq. apply in_or_app. right. exact Hin.
      + destruct (inv_J _ _ IH k HP0) as (r & Lr & Hr). exists r. split; [|exact Hr]. rewrite (keeps k u Elr W1 W2). exact Lr.
  Qed.

  Lemma step_I2 k e0 : lookup k (cluster (es ++ [e])%list) = Some e0 -> own_invalid e0 = true -> said_no L' k.
  Proof.
    intros Lc Hi. rewrite cluster_snoc in Lc.
    assert (HnA : ~ Ap S' k).
    { intros HA. destruct (st_named c _ Hy' k HA) as (u & Hw).
      pose proof (cluster_ok (es ++ [e])%list k e0) as Hce. rewrite cluster_snoc in Hce. specialize (Hce Lc).
      exact (invalid_not_named _ k e0 u (objs_after_ok _) Hce Hi Hw). }
    destruct (last_report k rs None) as [r|] eqn:Elr.
    - exists r. split; [unfold L'; rewrite (L'_lookup c es e k); fold rs; rewrite Elr; reflexivity|].
      apply (not_applied_reports_no c es e Hy' k r HnA). apply last_report_in in Elr. destruct Elr as [H|H]; [exact H|discriminate].
    - destruct (option_dec string_dec (ev_key e) (Some k)) as [Ek|Ek].
      + (* the event is about k: it is the invalid upsert itself, and its error is reported *)
        exfalso.
        assert (He0 : e0 = e /\ event_obj e = Some (k, true)).
        { destruct e as [i cls v|k1|x cls v|k1|x cls v|k1|x cls v|k1|ls x|]; cbn [ev_key] in Ek; inversion Ek; subst k; cbn [cluster_apply] in Lc;
            try (rewrite lookup_remove_eq in Lc by apply wf_cluster; discriminate);
            rewrite lookup_insert_eq in Lc; inversion Lc; subst e0; cbn [own_invalid] in Hi; apply andb_true_iff in Hi; destruct Hi as [-> _]; auto. }
        destruct He0 as [-> Ho].
        destruct (invalid_reported c S e k Hi Ho) as [(ch & Hch & Hk & Herr)|(p & Hp & Hk & Herr)].
        * (* a change about k carrying the error: it is a delete, reported as a rejection *)
          assert (Hop : c_op ch = Delete).
          { destruct (c_op ch) eqn:Hop; [reflexivity|]. exfalso. apply HnA.
            apply (covered_applied c es e (h_role _ _ Hy') ch k Hch). split; [exact Hop|left; auto]. }
          apply (last_report_none_inv k rs Elr RRejected). unfold rs. rewrite step_reports_eq. apply in_or_app. left.
          unfold chg_reports. assert (Eg : is_gc_event e = false) by (destruct e; try reflexivity; discriminate Ho). rewrite Eg.
          apply in_flat_map. exists ch. split; [exact Hch|]. unfold reports_of_change. rewrite Hop. unfold ckey in Hk. rewrite Hk, Herr.
          assert (Hown : own_in_cluster (cluster (es ++ [e])%list) k = true).
          { unfold own_in_cluster. rewrite cluster_snoc, (cluster_own _ e k true Ho), Ho. reflexivity. }
          rewrite Hown. cbn. left. reflexivity.
        * apply (last_report_none_inv k rs Elr (RProblem (p_is_error p) (p_reason p))). unfold rs. rewrite step_reports_eq. apply in_or_app. right.
          unfold prob_reports. apply in_map_iff. exists p. split; [rewrite Hk; reflexivity|exact Hp].
      + rewrite (cluster_other _ e k Ek) in Lc. destruct (inv_I2 _ _ IH k e0 Lc Hi) as (r & Lr & Hr). exists r. split; [|exact Hr].
        unfold L'. rewrite (L'_lookup c es e k). fold rs. rewrite Elr. rewrite (forget_other _ e _ k Ek). exact Lr.
  Qed.
End Step.
