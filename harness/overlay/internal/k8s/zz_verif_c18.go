//go:build verif

package k8s

import (
	conf_v1 "github.com/nginx/kubernetes-ingress/pkg/apis/configuration/v1"
	"github.com/nginxinc/nginx-service-mesh/pkg/spiffe"
	"github.com/spiffe/go-spiffe/v2/workloadapi"
	"k8s.io/client-go/tools/cache"
	"k8s.io/client-go/tools/leaderelection"

	"github.com/nginx/kubernetes-ingress/internal/k8s/secrets"
)

// Add-only exports for the C18 race harness: the production closures / methods themselves,
// nothing re-implemented.

// VerifLeaderCallbacks returns the production leader-election callbacks (createLeaderHandler).
func VerifLeaderCallbacks(lbc *LoadBalancerController) leaderelection.LeaderCallbacks {
	return createLeaderHandler(lbc)
}

// VerifGetAllPolicies is the function the controller hands to the telemetry collector
// (CollectorConfig.Policies: lbc.getAllPolicies).
func VerifGetAllPolicies(lbc *LoadBalancerController) func() []*conf_v1.Policy {
	return lbc.getAllPolicies
}

// VerifSecretStore is the store the controller hands to the telemetry collector.
func VerifSecretStore(lbc *LoadBalancerController) secrets.SecretStore { return lbc.secretStore }

// VerifQueueLen is the length of the (thread-safe) work queue.
func VerifQueueLen(lbc *LoadBalancerController) int { return lbc.syncQueue.Len() }

// --- SPIFFE scenario: the controller as it is configured with a SPIRE agent, without the agent.

// VerifEnableSpiffe makes lbc.spiffeCertFetcher non-nil, which is all the control loop looks at
// (sync takes syncLock only then).  The fetcher is never started; the harness plays its CertCh.
func VerifEnableSpiffe(lbc *LoadBalancerController) { lbc.spiffeCertFetcher = &spiffe.X509CertFetcher{} }

// VerifSync runs the production lbc.sync on the task the queue would build for obj
// (what taskQueue.worker does after Get).
func VerifSync(lbc *LoadBalancerController, obj interface{}) error {
	key, err := keyFunc(obj)
	if err != nil {
		return err
	}
	t, err := newTask(key, obj)
	if err != nil {
		return err
	}
	lbc.sync(t)
	return nil
}

// VerifDrainQueue removes what is waiting in the work queue (the worker goroutine is not running in this
// scenario; the harness calls VerifSync for the items itself).
func VerifDrainQueue(lbc *LoadBalancerController) {
	for lbc.syncQueue.queue.Len() > 0 {
		item, shutdown := lbc.syncQueue.queue.Get()
		if shutdown {
			return
		}
		lbc.syncQueue.queue.Done(item)
	}
}

// VerifSyncSVIDRotation is the production rotation callback (what the goroutine started in Run calls for
// every certificate the fetcher delivers).
func VerifSyncSVIDRotation(lbc *LoadBalancerController, c *workloadapi.X509Context) {
	lbc.syncSVIDRotation(c)
}

// --- GlobalConfiguration scenario (its informer is built on a RESTClient the fake clientset lacks)

// VerifGlobalConfigurationHandlers are the production event handlers of the GlobalConfiguration informer.
func VerifGlobalConfigurationHandlers(lbc *LoadBalancerController) cache.ResourceEventHandlerFuncs {
	return createGlobalConfigurationHandlers(lbc)
}

// VerifGlobalConfigurationStore is the informer's store (what syncGlobalConfiguration reads with GetByKey).
func VerifGlobalConfigurationStore(lbc *LoadBalancerController) cache.Store { return lbc.globalConfigurationLister }
