(* C13 -- the two halves of the version codec agree, for every 64-bit version:
   what the manager writes into config-version.conf (`return 200 <show_Z v>;`, Model.version_conf)
   is read back by the verify client (strconv.Atoi, Model.atoi) as exactly v and as nothing else.
   Both halves are tied to /repo by evaluation on every run (Cases.v); this file proves that they
   are inverse to each other on the whole int64 range, which no run can enumerate. *)
From Coq Require Import List ZArith String Ascii Bool Lia.
From NIC Require Import Verify.Model.
Import ListNotations.
Open Scope Z_scope.

Lemma digit_of_render d :
  0 <= d <= 9 -> digit_of (ascii_of_nat (Z.to_nat (48 + d))) = Some d.
Proof.
  intros Hd.
  assert (Hc : d = 0 \/ d = 1 \/ d = 2 \/ d = 3 \/ d = 4 \/ d = 5 \/ d = 6 \/ d = 7 \/ d = 8 \/ d = 9) by lia.
  destruct Hc as [Hc|[Hc|[Hc|[Hc|[Hc|[Hc|[Hc|[Hc|[Hc|Hc]]]]]]]]]; subst d; reflexivity.
Qed.

Lemma digit_not_sign c d :
  digit_of c = Some d -> Ascii.eqb c "+"%char = false /\ Ascii.eqb c "-"%char = false.
Proof.
  intros H; split.
  - destruct (Ascii.eqb_spec c "+"%char) as [->|_]; [vm_compute in H; discriminate|reflexivity].
  - destruct (Ascii.eqb_spec c "-"%char) as [->|_]; [vm_compute in H; discriminate|reflexivity].
Qed.

Lemma digits_val_cons a c d rest :
  digit_of c = Some d -> digits_val a (String c rest) = digits_val (a * 10 + d) rest.
Proof. intros H; cbn [digits_val]; rewrite H; reflexivity. Qed.

(* pos_digits prepends the decimal digits of n; the fuel suffices when n < 10^fuel *)
Lemma pos_digits_val :
  forall fuel n acc, (0 < fuel)%nat -> 0 <= n < 10 ^ Z.of_nat fuel ->
    exists k, 0 < k /\ forall a, digits_val a (pos_digits fuel n acc) = digits_val (a * 10 ^ k + n) acc.
Proof.
  induction fuel as [|f IH]; intros n acc Hf Hn; [lia|].
  cbn [pos_digits].
  assert (Hm : 0 <= n mod 10 <= 9) by (pose proof (Z.mod_pos_bound n 10); lia).
  pose proof (digit_of_render _ Hm) as Hd.
  pose proof (Z.div_mod n 10 ltac:(lia)) as Hdm.
  destruct (n / 10 =? 0) eqn:Hq.
  - apply Z.eqb_eq in Hq. exists 1; split; [lia|]. intros a.
    rewrite (digits_val_cons _ _ _ _ Hd). f_equal. lia.
  - apply Z.eqb_neq in Hq.
    assert (Hq0 : 0 <= n / 10) by (apply Z.div_pos; lia).
    destruct f as [|f'].
    + exfalso. change (10 ^ Z.of_nat 1) with 10 in Hn.
      assert (n / 10 = 0) by (apply Z.div_small; lia). lia.
    + assert (Hlt : n / 10 < 10 ^ Z.of_nat (S f')).
      { apply Z.div_lt_upper_bound; [lia|].
        replace (Z.of_nat (S (S f'))) with (Z.succ (Z.of_nat (S f'))) in Hn by lia.
        rewrite Z.pow_succ_r in Hn by lia. lia. }
      destruct (IH (n / 10) (String (ascii_of_nat (Z.to_nat (48 + n mod 10))) acc) ltac:(lia) ltac:(lia))
        as [k [Hk Hv]].
      exists (k + 1); split; [lia|]. intros a.
      rewrite Hv, (digits_val_cons _ _ _ _ Hd). f_equal.
      rewrite Z.pow_add_r by lia. change (10 ^ 1) with 10. lia.
Qed.

(* the rendering starts with a digit, so it is neither empty nor signed *)
Lemma pos_digits_head :
  forall fuel n acc, (0 < fuel)%nat -> 0 <= n ->
    exists c d rest, pos_digits fuel n acc = String c rest /\ digit_of c = Some d.
Proof.
  induction fuel as [|f IH]; intros n acc Hf Hn; [lia|].
  cbn [pos_digits].
  assert (Hm : 0 <= n mod 10 <= 9) by (pose proof (Z.mod_pos_bound n 10); lia).
  pose proof (digit_of_render _ Hm) as Hd.
  destruct (n / 10 =? 0) eqn:Hq.
  - eexists _, _, _; split; [reflexivity|exact Hd].
  - destruct f as [|f'].
    + cbn [pos_digits]. eexists _, _, _; split; [reflexivity|exact Hd].
    + apply IH; [lia|apply Z.div_pos; lia].
Qed.

Lemma pos_digits_25_val n :
  0 <= n <= - min_int64 ->
  digits_val 0 (pos_digits 25 n EmptyString) = Some n /\
  exists c d rest, pos_digits 25 n EmptyString = String c rest /\ digit_of c = Some d.
Proof.
  intros Hn. split.
  - assert (Hb : 0 <= n < 10 ^ Z.of_nat 25).
    { split; [lia|]. unfold min_int64 in Hn.
      assert (9223372036854775808 < 10 ^ Z.of_nat 25) by (vm_compute; reflexivity). lia. }
    destruct (pos_digits_val 25 n EmptyString ltac:(lia) Hb) as [k [_ Hv]].
    rewrite Hv. cbn [digits_val]. f_equal; lia.
  - apply pos_digits_head; lia.
Qed.

(* ---- the round trip ---- *)
Theorem atoi_show_Z v :
  min_int64 <= v <= max_int64 -> atoi (show_Z v) = Some v.
Proof.
  intros Hv. unfold show_Z.
  destruct (v <? 0) eqn:Hneg.
  - apply Z.ltb_lt in Hneg.
    destruct (pos_digits_25_val (- v) ltac:(unfold min_int64 in *; lia)) as [Hd [c [d [rest [He Hc]]]]].
    unfold atoi. change (Ascii.eqb "-" "+") with false. change (Ascii.eqb "-" "-") with true. cbn iota.
    rewrite He in *. rewrite Hd.
    replace (- - v) with v by lia.
    destruct ((min_int64 <=? v) && (v <=? max_int64)) eqn:Hr; [reflexivity|].
    apply andb_false_iff in Hr. destruct Hr as [Hr|Hr]; [apply Z.leb_gt in Hr|apply Z.leb_gt in Hr]; lia.
  - apply Z.ltb_ge in Hneg.
    destruct (pos_digits_25_val v ltac:(unfold min_int64, max_int64 in *; lia)) as [Hd [c [d [rest [He Hc]]]]].
    unfold atoi. rewrite He in *.
    destruct (digit_not_sign _ _ Hc) as [Hp Hm]. rewrite Hp, Hm. rewrite Hd.
    destruct ((min_int64 <=? v) && (v <=? max_int64)) eqn:Hr; [reflexivity|].
    apply andb_false_iff in Hr. destruct Hr as [Hr|Hr]; [apply Z.leb_gt in Hr|apply Z.leb_gt in Hr]; lia.
Qed.

(* A worker that serves the file written for version v answers the check for expected version e
   with a version exactly when e = v: the file of an older (or newer) generation never confirms e. *)
Corollary served_file_confirms_only_its_version v e l :
  min_int64 <= v <= max_int64 ->
  (classify (Http 200 (show_Z v) l) = Some e <-> e = v).
Proof.
  intros Hv. cbn [classify]. change (200 =? 200) with true. cbn iota.
  rewrite (atoi_show_Z v Hv). split; [intros H; inversion H; reflexivity|intros ->; reflexivity].
Qed.

(* Consequence for the wait: against workers that all still serve the file of version v <> e
   (whatever their latencies), the wait for e never acknowledges. *)
Corollary stale_workers_never_acknowledge (sched : nat -> resp) (e D : Z) (fuel : nat) :
  (forall i, exists v l, min_int64 <= v <= max_int64 /\ v <> e /\ sched i = Http 200 (show_Z v) l) ->
  forall k, wait fuel sched e D 0 0 <> Acked k.
Proof.
  intros Hs k Hk.
  destruct (Hs k) as [v [l [Hv [Hne He]]]].
  assert (Hc : classify (sched k) = Some e).
  { revert Hk. generalize 0 at 1. generalize 0%nat.
    induction fuel as [|f IH]; intros i now Hk; cbn [wait] in Hk.
    - destruct (now <? D); discriminate.
    - destruct (now <? D); [|discriminate].
      destruct (classify (sched i)) as [w|] eqn:Hci.
      + destruct (w =? e) eqn:Hw.
        * apply Z.eqb_eq in Hw. inversion Hk; subst. exact Hci.
        * eapply IH; exact Hk.
      + eapply IH; exact Hk. }
  rewrite He in Hc. apply (served_file_confirms_only_its_version v e l Hv) in Hc. lia.
Qed.
