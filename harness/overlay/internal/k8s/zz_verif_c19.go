//go:build verif

package k8s

import (
	"context"
	"fmt"
	"io"
	"log/slog"
	"path/filepath"
	"sort"
	"strings"

	"github.com/nginx/kubernetes-ingress/internal/configs"
	"github.com/nginx/kubernetes-ingress/internal/configs/version1"
	"github.com/nginx/kubernetes-ingress/internal/configs/version2"
	"github.com/nginx/kubernetes-ingress/internal/k8s/appprotect"
	nl "github.com/nginx/kubernetes-ingress/internal/logger"
	"github.com/nginx/kubernetes-ingress/internal/nginx"
	"github.com/nginx/kubernetes-ingress/pkg/apis/configuration/validation"
	networking "k8s.io/api/networking/v1"
	meta_v1 "k8s.io/apimachinery/pkg/apis/meta/v1"
	"k8s.io/apimachinery/pkg/apis/meta/v1/unstructured"
	"k8s.io/apimachinery/pkg/runtime"
	"k8s.io/client-go/tools/cache"
)

// VerifC19 drives the controller side of the App Protect WAF path for property C19: the real
// syncAppProtectUserSig -> processAppProtectUserSigChange -> Configurator.RefreshAppProtectUserSigs and
// the real cleanupUnwatchedAppWafResources (a namespace stops being watched) over the real
// appprotect.Configuration.  Replaced by recorders: the NGINX manager (App Protect files) and the event
// recorder.  For every APPolicy key of the universe one Ingress (namespace verif-ing) carries the
// app-protect-policy annotation naming it, so a processed change that contains the policy regenerates
// that Ingress through the real createExtendedResources / Configurator and records an event on it:
// the events on the Ingresses tell which policies reached processing.
type VerifC19 struct {
	lbc  *LoadBalancerController
	m    *verifC19Manager
	rec  *verifC19Recorder
	nsis map[string]*namespacedInformer
}

type verifC19Manager struct {
	*nginx.FakeManager
	files map[string]string
}

func (m *verifC19Manager) CreateAppProtectResourceFile(name string, content []byte) {
	m.files[name] = string(content)
}

func (m *verifC19Manager) DeleteAppProtectResourceFile(name string) { delete(m.files, name) }

func (m *verifC19Manager) ClearAppProtectFolder(name string) {
	for f := range m.files {
		if strings.HasPrefix(f, name) {
			delete(m.files, f)
		}
	}
}

// verifC19Recorder keeps the events recorded on App Protect objects: "<kind>:<ns>/<name>|<message>"
type verifC19Recorder struct {
	events []string
	asked  []string // APPolicy keys whose Ingress was regenerated (an event was recorded on it)
}

func (r *verifC19Recorder) Event(object runtime.Object, _, reason, message string) {
	switch o := object.(type) {
	case *unstructured.Unstructured:
		r.events = append(r.events, reason+"|"+o.GetKind()+":"+o.GetNamespace()+"/"+o.GetName()+"|"+message)
	case *networking.Ingress:
		r.asked = append(r.asked, o.Annotations[configs.AppProtectPolicyAnnotation])
	}
}

func (r *verifC19Recorder) Eventf(object runtime.Object, t, reason, f string, a ...interface{}) {
	r.Event(object, t, reason, fmt.Sprintf(f, a...))
}

func (r *verifC19Recorder) AnnotatedEventf(object runtime.Object, _ map[string]string, t, reason, f string, a ...interface{}) {
	r.Event(object, t, reason, fmt.Sprintf(f, a...))
}

const (
	verifC19Folder = "/etc/nginx/waf/nac-usersigs/"
	verifC19Index  = "/etc/nginx/waf/nac-usersigs/index.conf"
)

// VerifC19New builds the controller fragment (fields the App Protect WAF path reads), watching the
// given namespaces one informer group each; policyKeys are the APPolicy keys that get an Ingress;
// repoDir locates the real templates.
func VerifC19New(namespaces, policyKeys []string, repoDir string) (*VerifC19, error) {
	logger := slog.New(slog.NewTextHandler(io.Discard, &slog.HandlerOptions{Level: slog.Level(100)}))
	ctx := nl.ContextWithLogger(context.Background(), logger)
	m := &verifC19Manager{FakeManager: nginx.NewFakeManager("/etc/nginx"), files: map[string]string{}}
	base := filepath.Join(repoDir, "internal", "configs")
	te1, err := version1.NewTemplateExecutor(filepath.Join(base, "version1/nginx-plus.tmpl"), filepath.Join(base, "version1/nginx-plus.ingress.tmpl"))
	if err != nil {
		return nil, err
	}
	te2, err := version2.NewTemplateExecutor(filepath.Join(base, "version2/nginx-plus.virtualserver.tmpl"), filepath.Join(base, "version2/nginx-plus.transportserver.tmpl"))
	if err != nil {
		return nil, err
	}
	cnf := configs.NewConfigurator(configs.ConfiguratorParams{
		NginxManager:       m,
		StaticCfgParams:    &configs.StaticConfigParams{MainAppProtectLoadModule: true},
		Config:             configs.NewDefaultConfigParams(ctx, true),
		TemplateExecutor:   te1,
		TemplateExecutorV2: te2,
		IsPlus:             true,
	})
	newStore := func() cache.Store { return cache.NewStore(cache.DeletionHandlingMetaNamespaceKeyFunc) }
	rec := &verifC19Recorder{}
	lbc := &LoadBalancerController{
		configurator:            cnf,
		appProtectEnabled:       true,
		isNginxPlus:             true,
		ingressClass:            "nginx",
		appProtectConfiguration: appprotect.NewConfiguration(logger),
		recorder:                rec,
		Logger:                  logger,
		namespacedInformers:     map[string]*namespacedInformer{},
	}
	v := &VerifC19{lbc: lbc, m: m, rec: rec, nsis: map[string]*namespacedInformer{}}
	for _, ns := range append([]string{"verif-ing"}, namespaces...) {
		nsi := &namespacedInformer{namespace: ns, appProtectEnabled: true, appProtectPolicyLister: newStore(),
			appProtectLogConfLister: newStore(), appProtectUserSigLister: newStore(), policyLister: newStore(), svcLister: newStore()}
		lbc.namespacedInformers[ns] = nsi
		v.nsis[ns] = nsi
	}
	lbc.configuration = NewConfiguration(lbc.HasCorrectIngressClass, true, true, false, false,
		validation.NewVirtualServerValidator(validation.IsPlus(true)),
		validation.NewGlobalConfigurationValidator(map[int]bool{}),
		validation.NewTransportServerValidator(false, false, true), false, false, false, false)
	class := "nginx"
	pt := networking.PathTypePrefix
	for i, pk := range policyKeys {
		name := "uses-" + strings.ReplaceAll(pk, "/", "-")
		ing := &networking.Ingress{
			ObjectMeta: meta_v1.ObjectMeta{Namespace: "verif-ing", Name: name,
				Annotations: map[string]string{configs.AppProtectPolicyAnnotation: pk, "appprotect.f5.com/app-protect-enable": "True"}},
			Spec: networking.IngressSpec{IngressClassName: &class, Rules: []networking.IngressRule{{Host: fmt.Sprintf("h%d.example.com", i),
				IngressRuleValue: networking.IngressRuleValue{HTTP: &networking.HTTPIngressRuleValue{Paths: []networking.HTTPIngressPath{{
					Path: "/", PathType: &pt, Backend: networking.IngressBackend{Service: &networking.IngressServiceBackend{Name: "svc",
						Port: networking.ServiceBackendPort{Number: 80}}}}}}}}}},
		}
		_, problems := lbc.configuration.AddOrUpdateIngress(ing)
		if len(problems) > 0 {
			return nil, fmt.Errorf("Ingress %s was not accepted by the Configuration: %v", name, problems[0].Message)
		}
	}
	if len(lbc.configuration.hosts) != len(policyKeys) {
		return nil, fmt.Errorf("%d of %d Ingresses hold a host", len(lbc.configuration.hosts), len(policyKeys))
	}
	lbc.syncQueue = newTaskQueue(logger, func(task) {})
	return v, nil
}

// Config is the real appprotect.Configuration of the controller.
func (v *VerifC19) Config() appprotect.Configuration { return v.lbc.appProtectConfiguration }

// Store plays the informer cache for APPolicy (kind 0), APLogConf (1), APUserSig (2): obj == nil
// removes the key.
func (v *VerifC19) Store(kind int, ns, key string, obj *unstructured.Unstructured) {
	nsi := v.nsis[ns]
	if nsi == nil {
		return
	}
	st := []cache.Store{nsi.appProtectPolicyLister, nsi.appProtectLogConfLister, nsi.appProtectUserSigLister}[kind]
	if obj == nil {
		if old, ok, _ := st.GetByKey(key); ok {
			_ = st.Delete(old)
		}
		return
	}
	_ = st.Add(obj)
}

// SyncUserSig runs the real syncAppProtectUserSig for the key (after Store changed the cache).
func (v *VerifC19) SyncUserSig(key string) {
	v.lbc.syncAppProtectUserSig(task{Kind: appProtectUserSig, Key: key})
}

// Unwatch runs the real cleanupUnwatchedAppWafResources for the namespace (what
// removeNamespacedInformer's caller does when the namespace loses its label or is deleted), then
// empties the caches of the namespace.
func (v *VerifC19) Unwatch(ns string) {
	nsi := v.nsis[ns]
	if nsi == nil {
		return
	}
	v.lbc.cleanupUnwatchedAppWafResources(nsi)
	for _, st := range []cache.Store{nsi.appProtectPolicyLister, nsi.appProtectLogConfLister, nsi.appProtectUserSigLister} {
		for _, o := range st.List() {
			_ = st.Delete(o)
		}
	}
}

// TakeAsked returns (and forgets) the APPolicy keys whose Ingress processed changes regenerated;
// TakeEvents the events recorded on App Protect objects.
func (v *VerifC19) TakeAsked() []string {
	out := v.rec.asked
	v.rec.asked = nil
	sort.Strings(out)
	return out
}

func (v *VerifC19) TakeEvents() []string {
	out := v.rec.events
	v.rec.events = nil
	sort.Strings(out)
	return out
}

// Loaded returns the files index.conf tells NGINX to load (sorted, folder prefix removed);
// Files the files that exist in the folder besides the index.
func (v *VerifC19) Loaded() []string {
	out := []string{}
	for _, line := range strings.Split(v.m.files[verifC19Index], "\n") {
		line = strings.TrimSpace(line)
		if line == "" {
			continue
		}
		line = strings.TrimSuffix(strings.TrimPrefix(line, "app_protect_user_defined_signatures "), ";")
		out = append(out, strings.TrimPrefix(line, verifC19Folder))
	}
	sort.Strings(out)
	return out
}

func (v *VerifC19) Files() []string {
	out := []string{}
	for f := range v.m.files {
		if strings.HasPrefix(f, verifC19Folder) && f != verifC19Index {
			out = append(out, strings.TrimPrefix(f, verifC19Folder))
		}
	}
	sort.Strings(out)
	return out
}
