(* C02 -- proofs about listener admission, for all listener lists. *)
From Coq Require Import List ZArith String Ascii Bool Lia.
From NIC Require Import Arb.Types Listeners.Admit.
Import ListNotations.
Open Scope Z_scope.

Lemma allowed_cases p : proto_allowed p = true -> p = "TCP"%string \/ p = "UDP"%string \/ p = "HTTP"%string.
Proof.
  unfold proto_allowed, smem. cbn. intros H.
  destruct (String.eqb_spec p "TCP"); [auto|].
  destruct (String.eqb_spec p "UDP"); [auto|].
  destruct (String.eqb_spec p "HTTP"); [auto|]. discriminate.
Qed.

Lemma proto_conflict_trans q x a :
  proto_allowed x = true -> proto_allowed a = true ->
  proto_conflict q x = true -> proto_conflict x a = true -> proto_conflict q a = true.
Proof.
  intros Hx Ha. destruct (allowed_cases _ Hx) as [-> | [-> | ->]]; destruct (allowed_cases _ Ha) as [-> | [-> | ->]];
    unfold proto_conflict; cbn;
    destruct (String.eqb q "HTTP"); destruct (String.eqb q "TCP"); destruct (String.eqb q "UDP"); cbn; congruence.
Qed.

Lemma proto_conflict_sym x a :
  proto_allowed x = true -> proto_allowed a = true -> proto_conflict x a = proto_conflict a x.
Proof.
  intros Hx Ha. destruct (allowed_cases _ Hx) as [-> | [-> | ->]]; destruct (allowed_cases _ Ha) as [-> | [-> | ->]]; reflexivity.
Qed.

Lemma wellformed_allowed f e : wellformed f e = true -> proto_allowed (l_proto (e_l e)) = true.
Proof. unfold wellformed. intros H. repeat (apply andb_true_iff in H; destruct H as [H ?]). assumption. Qed.

(* the conflict test over a table, as a test over listeners *)
Definition adm_conflict4 (adm : list listener) ip port q :=
  existsb (fun a => String.eqb ip (eff4 a) && (port =? l_port a) && proto_conflict q (l_proto a)) adm.
Definition adm_conflict6 (adm : list listener) ip port q :=
  existsb (fun a => String.eqb ip (eff6 a) && (port =? l_port a) && proto_conflict q (l_proto a)) adm.

Record rel (s : astate) (seen : list string) (adm : list listener) : Prop := mkRel {
  r_names : a_names s = seen;
  r_out : a_out s = adm;
  r_allowed : forall a, In a adm -> proto_allowed (l_proto a) = true;
  r_t4 : forall ip port q, table_conflict (a_t4 s) ip port q = adm_conflict4 adm ip port q;
  r_t6 : forall ip port q, table_conflict (a_t6 s) ip port q = adm_conflict6 adm ip port q
}.

Lemma existsb_app_single {A} (f : A -> bool) l x : existsb f (l ++ [x]) = f x || existsb f l.
Proof. rewrite existsb_app. cbn. rewrite orb_false_r. apply orb_comm. Qed.

Lemma absorb4 adm ip0 port0 p0 ip port q :
  (forall a, In a adm -> proto_allowed (l_proto a) = true) -> proto_allowed p0 = true ->
  adm_conflict4 adm ip0 port0 p0 = true ->
  String.eqb ip ip0 && (port =? port0) && proto_conflict q p0 || adm_conflict4 adm ip port q = adm_conflict4 adm ip port q.
Proof.
  intros Hall Hp0 Hc.
  destruct (String.eqb ip ip0 && (port =? port0) && proto_conflict q p0) eqn:Hm; [|reflexivity].
  cbn. symmetry. apply andb_true_iff in Hm. destruct Hm as [Hm Hq]. apply andb_true_iff in Hm. destruct Hm as [Hi Hpt].
  apply String.eqb_eq in Hi. apply Z.eqb_eq in Hpt. subst ip0 port0.
  unfold adm_conflict4 in *. apply existsb_exists in Hc. destruct Hc as (a & Hin & Ha).
  apply existsb_exists. exists a. split; [exact Hin|].
  apply andb_true_iff in Ha. destruct Ha as [Ha Hpa]. rewrite Ha. cbn.
  eapply proto_conflict_trans; eauto.
Qed.

Lemma absorb6 adm ip0 port0 p0 ip port q :
  (forall a, In a adm -> proto_allowed (l_proto a) = true) -> proto_allowed p0 = true ->
  adm_conflict6 adm ip0 port0 p0 = true ->
  String.eqb ip ip0 && (port =? port0) && proto_conflict q p0 || adm_conflict6 adm ip port q = adm_conflict6 adm ip port q.
Proof.
  intros Hall Hp0 Hc.
  destruct (String.eqb ip ip0 && (port =? port0) && proto_conflict q p0) eqn:Hm; [|reflexivity].
  cbn. symmetry. apply andb_true_iff in Hm. destruct Hm as [Hm Hq]. apply andb_true_iff in Hm. destruct Hm as [Hi Hpt].
  apply String.eqb_eq in Hi. apply Z.eqb_eq in Hpt. subst ip0 port0.
  unfold adm_conflict6 in *. apply existsb_exists in Hc. destruct Hc as (a & Hin & Ha).
  apply existsb_exists. exists a. split; [exact Hin|].
  apply andb_true_iff in Ha. destruct Ha as [Ha Hpa]. rewrite Ha. cbn.
  eapply proto_conflict_trans; eauto.
Qed.

Lemma conflict_split adm l :
  existsb (listeners_conflict l) adm =
  adm_conflict4 adm (eff4 l) (l_port l) (l_proto l) || adm_conflict6 adm (eff6 l) (l_port l) (l_proto l).
Proof.
  unfold adm_conflict4, adm_conflict6. induction adm as [|a r IH]; cbn; [reflexivity|]. rewrite IH.
  unfold listeners_conflict.
  destruct (l_port l =? l_port a); destruct (proto_conflict (l_proto l) (l_proto a));
    destruct (String.eqb (eff4 l) (eff4 a)); destruct (String.eqb (eff6 l) (eff6 a)); cbn;
    repeat rewrite ?orb_true_r, ?orb_false_r, ?orb_true_l; try reflexivity;
    destruct (existsb _ r); destruct (existsb _ r); reflexivity.
Qed.

(* one step of the implementation (tables, with the recorded-although-rejected quirk) simulates
   one step of the specification (conflicts with admitted listeners only) *)
Lemma table_conflict_cons ip0 port0 p0 t ip port q :
  table_conflict ((ip0, port0, p0) :: t) ip port q =
  String.eqb ip ip0 && (port =? port0) && proto_conflict q p0 || table_conflict t ip port q.
Proof. reflexivity. Qed.

Lemma admit_step_refines f s seen adm e :
  rel s seen adm ->
  let l := e_l e in
  rel (admit_step f s e)
      (if wellformed f e && negb (smem (l_name l) seen) then l_name l :: seen else seen)
      (if wellformed f e && negb (smem (l_name l) seen)
       then (if existsb (listeners_conflict l) adm then adm else adm ++ [l]) else adm).
Proof.
  intros R l. destruct R as [Rn Ro Ra R4 R6]. unfold admit_step. fold l.
  destruct (wellformed f e) eqn:Hwf; cbn [negb andb]; [|constructor; assumption].
  rewrite Rn. destruct (smem (l_name l) seen) eqn:Hs; cbn [negb]; [constructor; assumption|].
  pose proof (wellformed_allowed _ _ Hwf) as Hal. fold l in Hal.
  rewrite conflict_split, <- R4, <- R6.
  destruct (table_conflict (a_t4 s) (eff4 l) (l_port l) (l_proto l)) eqn:H4; cbn [orb].
  - constructor; cbn [a_names a_out a_t4 a_t6]; auto.
    intros ip port q. rewrite table_conflict_cons, R4. rewrite R4 in H4. apply absorb4; auto.
  - destruct (table_conflict (a_t6 s) (eff6 l) (l_port l) (l_proto l)) eqn:H6.
    + constructor; cbn [a_names a_out a_t4 a_t6]; auto.
      intros ip port q. rewrite table_conflict_cons, R6. rewrite R6 in H6. apply absorb6; auto.
    + constructor; cbn [a_names a_out a_t4 a_t6]; auto.
      * rewrite Ro. reflexivity.
      * intros a Hin. apply in_app_or in Hin. destruct Hin as [Hin|[<-|[]]]; auto.
      * intros ip port q. rewrite table_conflict_cons, R4. unfold adm_conflict4. rewrite existsb_app_single. reflexivity.
      * intros ip port q. rewrite table_conflict_cons, R6. unfold adm_conflict6. rewrite existsb_app_single. reflexivity.
Qed.

Lemma admit_refines_gen f es : forall s seen adm,
  rel s seen adm -> a_out (fold_left (admit_step f) es s) = spec_admit f seen adm es.
Proof.
  induction es as [|e es IH]; intros s seen adm R; cbn [fold_left spec_admit]; [apply R|].
  pose proof (admit_step_refines f s seen adm e R) as R'. cbn zeta in R'.
  destruct (wellformed f e && negb (smem (l_name (e_l e)) seen)).
  - destruct (existsb (listeners_conflict (e_l e)) adm); apply IH; exact R'.
  - apply IH; exact R'.
Qed.

(* the tables, including the entries recorded for rejected listeners, decide exactly
   `conflicts with an admitted listener` *)
Theorem admit_refines_spec f es : admitl f es = spec_admit f [] [] es.
Proof.
  unfold admitl. apply admit_refines_gen. constructor; cbn; auto; intros a H; destruct H.
Qed.

(* ---- properties of the specification ---- *)

Record good (f : list Z) (seen : list string) (adm : list listener) : Prop := mkGood {
  g_names : forall a, In a adm -> In (l_name a) seen;
  g_nodup : NoDup (map l_name adm);
  g_noconf : forall a b, In a adm -> In b adm -> a <> b -> listeners_conflict a b = false;
  g_ports : forall a, In a adm -> ~ In (l_port a) f /\ 1 <= l_port a <= 65535 /\ l_name a <> "tls-passthrough"%string /\
                                   proto_allowed (l_proto a) = true
}.

Lemma smem_false_notin x l : smem x l = false -> ~ In x l.
Proof.
  unfold smem. intros H Hin. assert (existsb (String.eqb x) l = true); [|congruence].
  apply existsb_exists. exists x. split; [exact Hin|apply String.eqb_refl].
Qed.

Lemma zmem_false_notin x l : zmem x l = false -> ~ In x l.
Proof.
  unfold zmem. intros H Hin. assert (existsb (Z.eqb x) l = true); [|congruence].
  apply existsb_exists. exists x. split; [exact Hin|apply Z.eqb_refl].
Qed.

Lemma listeners_conflict_sym a b :
  proto_allowed (l_proto a) = true -> proto_allowed (l_proto b) = true ->
  listeners_conflict a b = listeners_conflict b a.
Proof.
  intros Ha Hb. unfold listeners_conflict. rewrite (proto_conflict_sym _ _ Ha Hb), (Z.eqb_sym (l_port a)),
    (String.eqb_sym (eff4 a)), (String.eqb_sym (eff6 a)). reflexivity.
Qed.

Lemma wellformed_facts f e : wellformed f e = true ->
  ~ In (l_port (e_l e)) f /\ 1 <= l_port (e_l e) <= 65535 /\ l_name (e_l e) <> "tls-passthrough"%string /\
  proto_allowed (l_proto (e_l e)) = true.
Proof.
  unfold wellformed. intros H.
  repeat (apply andb_true_iff in H; destruct H as [H ?]).
  apply negb_true_iff in H. apply String.eqb_neq in H.
  repeat split; auto; try lia.
  apply zmem_false_notin. apply negb_true_iff. assumption.
Qed.

Lemma NoDup_snoc {A} (l : list A) x : NoDup l -> ~ In x l -> NoDup (l ++ [x]).
Proof.
  induction 1 as [|a l Ha Hl IH]; cbn; intros Hx.
  - constructor; [intros []|constructor].
  - constructor.
    + intros Hin. apply in_app_or in Hin. destruct Hin as [Hin|[<-|[]]]; [contradiction|]. apply Hx. left; reflexivity.
    + apply IH. intros Hin. apply Hx. right; exact Hin.
Qed.

Lemma spec_admit_good f es : forall seen adm, good f seen adm -> exists seen', good f seen' (spec_admit f seen adm es).
Proof.
  induction es as [|e es IH]; intros seen adm G; cbn [spec_admit]; [eauto|].
  destruct (wellformed f e && negb (smem (l_name (e_l e)) seen)) eqn:Hc; [|apply IH; exact G].
  apply andb_true_iff in Hc. destruct Hc as [Hwf Hs]. apply negb_true_iff in Hs.
  destruct G as [Gn Gd Gc Gp].
  destruct (existsb (listeners_conflict (e_l e)) adm) eqn:Hx; apply IH.
  - constructor; auto. intros a Ha. right. auto.
  - pose proof (wellformed_facts _ _ Hwf) as Hf.
    assert (Hnc : forall a, In a adm -> listeners_conflict (e_l e) a = false).
    { intros a Ha. destruct (listeners_conflict (e_l e) a) eqn:Hl; [|reflexivity].
      assert (existsb (listeners_conflict (e_l e)) adm = true) by (apply existsb_exists; eauto). congruence. }
    assert (Hnot : ~ In (l_name (e_l e)) (map l_name adm)).
    { intros Hin. apply in_map_iff in Hin. destruct Hin as (a & Hn & Ha).
      apply (smem_false_notin _ _ Hs). rewrite <- Hn. apply Gn. exact Ha. }
    constructor.
    + intros a Ha. apply in_app_or in Ha. destruct Ha as [Ha|[<-|[]]]; [right; auto|left; reflexivity].
    + rewrite map_app. cbn. apply NoDup_snoc; assumption.
    + intros a b Ha Hb Hne. apply in_app_or in Ha. apply in_app_or in Hb.
      destruct Ha as [Ha|[<-|[]]]; destruct Hb as [Hb|[<-|[]]]; auto; [|congruence].
      rewrite listeners_conflict_sym; [auto| |tauto]. apply Gp. exact Ha.
    + intros a Ha. apply in_app_or in Ha. destruct Ha as [Ha|[<-|[]]]; auto.
Qed.

Theorem admitted_good f es : exists seen, good f seen (admitl f es).
Proof.
  rewrite admit_refines_spec. apply spec_admit_good. constructor; cbn.
  - intros ? [].
  - constructor.
  - intros ? ? [].
  - intros ? [].
Qed.

(* no two admitted listeners reuse an ip:port for conflicting protocols (IPv4 or IPv6, with the
   defaults 0.0.0.0 and ::), and names are unique *)
Theorem admit_no_conflict f es a b :
  In a (admitl f es) -> In b (admitl f es) -> a <> b -> listeners_conflict a b = false.
Proof. destruct (admitted_good f es) as [seen G]. apply G. Qed.

Theorem admit_names_unique f es : NoDup (map l_name (admitl f es)).
Proof. destruct (admitted_good f es) as [seen G]. apply G. Qed.

(* no admitted listener uses a reserved port, a port outside 1-65535, the built-in listener name
   or an unknown protocol *)
Theorem admit_no_reserved f es a :
  In a (admitl f es) ->
  ~ In (l_port a) f /\ 1 <= l_port a <= 65535 /\ l_name a <> "tls-passthrough"%string /\ proto_allowed (l_proto a) = true.
Proof. destruct (admitted_good f es) as [seen G]. apply G. Qed.

(* the reserved ports always contain 80 and 443 and every enabled port flag *)
Theorem reserved_ports_wired fl :
  In 80 (forbidden_of fl) /\ In 443 (forbidden_of fl) /\
  (f_status fl = true -> In (f_status_port fl) (forbidden_of fl)) /\
  (f_metrics fl = true -> In (f_metrics_port fl) (forbidden_of fl)) /\
  (f_insight fl = true -> In (f_insight_port fl) (forbidden_of fl)) /\
  (f_passthrough fl = true -> In (f_passthrough_port fl) (forbidden_of fl)).
Proof.
  unfold forbidden_of. repeat split; try (cbn; tauto); intros H; rewrite H; cbn;
    repeat (rewrite in_app_iff; cbn); tauto.
Qed.

(* a malformed entry is inert: removing it changes nothing, wherever it stands *)
Lemma spec_admit_inert f x pre : forall seen adm post,
  wellformed f x = false ->
  spec_admit f seen adm (pre ++ x :: post) = spec_admit f seen adm (pre ++ post).
Proof.
  induction pre as [|e pre IH]; intros seen adm post Hx; cbn [app spec_admit].
  - rewrite Hx. reflexivity.
  - destruct (wellformed f e && negb (smem (l_name (e_l e)) seen)); [destruct (existsb _ adm)|]; apply IH; exact Hx.
Qed.

Theorem malformed_entry_inert f x pre post :
  wellformed f x = false -> admitl f (pre ++ x :: post) = admitl f (pre ++ post).
Proof. intros H. rewrite !admit_refines_spec. apply spec_admit_inert. exact H. Qed.

(* an entry that is well-formed, first of its name among well-formed entries, and conflicts with
   no listener admitted before it, is admitted -- whatever invalid entries surround it *)
Lemma spec_admit_keeps f es : forall seen adm a, In a adm -> In a (spec_admit f seen adm es).
Proof.
  induction es as [|e es IH]; intros seen adm a Ha; cbn [spec_admit]; [exact Ha|].
  destruct (wellformed f e && negb (smem (l_name (e_l e)) seen)); [destruct (existsb _ adm)|]; apply IH; auto.
  apply in_or_app. auto.
Qed.

Theorem valid_entry_admitted f pre e post :
  wellformed f e = true ->
  (forall e', In e' pre -> wellformed f e' = true -> l_name (e_l e') <> l_name (e_l e)) ->
  existsb (listeners_conflict (e_l e)) (admitl f pre) = false ->
  In (e_l e) (admitl f (pre ++ e :: post)).
Proof.
  intros Hwf Hname Hconf. rewrite admit_refines_spec in *.
  (* generalise over the running state *)
  assert (H : forall pre seen adm,
     ~ In (l_name (e_l e)) seen ->
     (forall e', In e' pre -> wellformed f e' = true -> l_name (e_l e') <> l_name (e_l e)) ->
     existsb (listeners_conflict (e_l e)) (spec_admit f seen adm pre) = false ->
     In (e_l e) (spec_admit f seen adm (pre ++ e :: post))).
  { clear Hname Hconf pre. induction pre as [|x pre IH]; intros seen adm Hseen Hname Hconf; cbn [app spec_admit] in *.
    - rewrite Hwf. assert (Hs : smem (l_name (e_l e)) seen = false).
      { unfold smem. destruct (existsb _ seen) eqn:Hx; [|reflexivity]. apply existsb_exists in Hx.
        destruct Hx as (n & Hin & He). apply String.eqb_eq in He. subst. contradiction. }
      rewrite Hs. cbn [negb andb]. rewrite Hconf. apply spec_admit_keeps. apply in_or_app. right; left; reflexivity.
    - destruct (wellformed f x && negb (smem (l_name (e_l x)) seen)) eqn:Hc.
      + apply andb_true_iff in Hc. destruct Hc as [Hwx _].
        assert (Hne : l_name (e_l x) <> l_name (e_l e)) by (apply Hname; [left; reflexivity|exact Hwx]).
        destruct (existsb (listeners_conflict (e_l x)) adm); apply IH; auto;
          try (intros [E|E]; [congruence|contradiction]); intros e' He'; apply Hname; right; exact He'.
      + apply IH; auto. intros e' He'; apply Hname; right; exact He'. }
  apply H; auto.
Qed.

(* decidable summary used on the implementation's own output *)
Theorem admitted_ok_holds f es : admitted_ok f (admitl f es) = true.
Proof.
  destruct (admitted_good f es) as [seen [Gn Gd Gc Gp]].
  unfold admitted_ok. apply andb_true_iff. split.
  - revert Gd Gc Gp. generalize (admitl f es). induction l as [|a l IH]; intros Gd Gc Gp; cbn; [reflexivity|].
    inversion Gd as [|? ? Hnot Hd]; subst. apply andb_true_iff. split.
    + apply forallb_forall. intros b Hb.
      assert (Hne : a <> b) by (intros ->; apply Hnot; apply in_map; exact Hb).
      apply andb_true_iff. split.
      * apply negb_true_iff. apply Gc; cbn; auto.
      * apply negb_true_iff. apply String.eqb_neq. intros He. apply Hnot. rewrite He. apply in_map. exact Hb.
    + apply IH; auto; intros; [apply Gc|apply Gp]; cbn; auto.
  - apply forallb_forall. intros a Ha. destruct (Gp a Ha) as (H1 & H2 & H3 & H4).
    repeat (apply andb_true_iff; split); auto; try (apply Z.leb_le; lia).
    + apply negb_true_iff. unfold zmem. destruct (existsb (Z.eqb (l_port a)) f) eqn:Hx; [|reflexivity].
      apply existsb_exists in Hx. destruct Hx as (z & Hz & He). apply Z.eqb_eq in He. subst. contradiction.
    + apply negb_true_iff. apply String.eqb_neq. exact H3.
Qed.
