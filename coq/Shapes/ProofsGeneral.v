(* C17 -- the Ingress pipeline over UNBOUNDED objects and histories.

   The sweep of Proofs.v covers a finite shape space.  Here the same model functions are
   proved not to panic for every Ingress (any number of rules, paths, tls entries), against
   every arbitrated state reached by any history of admissible Ingress events, with any set
   of VirtualServer hosts, under any flags.  The invariant is "validation before use": every
   stored Ingress passed validate_ingress and is API-admissible; that is what makes the
   dereferences of convertIngressToVSR, buildMinionConfigs, createIngressEx and the
   generator safe. *)
From Coq Require Import List Bool Arith.
From NIC Require Import Shapes.Model.
Import ListNotations.

(* ------------------------------------------------------------------ the validator never panics *)

Lemma validate_master_total : forall i, exists b, validate_master i = Val b.
Proof.
  intros i. unfold validate_master.
  destruct (i_rules i) as [|r [|r' t]]; simpl; eauto.
  destruct (r_http r) as [[|p ps]|]; eauto.
Qed.

Lemma validate_minion_total : forall i, exists b, validate_minion i = Val b.
Proof.
  intros i. unfold validate_minion.
  destruct (i_rules i) as [|r [|r' t]]; simpl; eauto.
  destruct (r_http r) as [[|p ps]|]; eauto.
Qed.

Lemma validate_challenge_total : forall i, exists b, validate_challenge i = Val b.
Proof.
  intros i. unfold validate_challenge.
  destruct (i_rules i) as [|r [|r' t]]; simpl; eauto.
  destruct (r_http r) as [[|p [|q ps]]|]; simpl; eauto.
  destruct (b_svc (p_backend p)); simpl; eauto.
Qed.

Theorem validate_ingress_total : forall fl i, exists b, validate_ingress fl i = Val b.
Proof.
  intros fl i. unfold validate_ingress, validate_ingress_with.
  destruct (validate_master_total i) as [b1 H1], (validate_minion_total i) as [b2 H2],
           (validate_challenge_total i) as [b3 H3].
  destruct (is_master i); [rewrite H1 | destruct (is_minion i); [rewrite H2|]]; simpl;
    (destruct (i_chal i); [rewrite H3|]); simpl; eauto.
Qed.

(* ------------------------------------------------------------------ what a valid Ingress looks like *)

Definition valid (fl : iflags) (i : ingress) : Prop := validate_ingress fl i = Val false.
Definition ok (fl : iflags) (i : ingress) : Prop := valid fl i /\ ing_admissible i = true.

Lemma valid_inv : forall fl i, valid fl i ->
  validate_spec i = false /\
  (is_master i = true -> validate_master i = Val false) /\
  (is_master i = false -> is_minion i = true -> validate_minion i = Val false) /\
  (i_chal i = true -> validate_challenge i = Val false).
Proof.
  intros fl i H. unfold valid, validate_ingress, validate_ingress_with in H.
  destruct (validate_master_total i) as [b1 H1], (validate_minion_total i) as [b2 H2],
           (validate_challenge_total i) as [b3 H3].
  destruct (is_master i) eqn:Em; [rewrite H1 in H | destruct (is_minion i) eqn:En; [rewrite H2 in H|]];
    simpl in H; (destruct (i_chal i) eqn:Ec; [rewrite H3 in H|]); simpl in H;
    injection H as H0;
    repeat (apply orb_false_iff in H0; destruct H0 as [H0 ?]); subst;
    repeat split; try congruence; auto.
Qed.

Lemma backend_svc : forall b,
  validate_backend b = false -> backend_admissible b = true -> exists u, b_svc b = Some u.
Proof.
  intros [s r]. unfold validate_backend, backend_admissible. simpl.
  destruct s, r; intros; try discriminate; eauto.
Qed.

Definition path_good (p : path) : Prop := exists u, b_svc (p_backend p) = Some u.

Lemma spec_paths_good : forall i,
  validate_spec i = false -> ing_admissible i = true ->
  (forall b, i_default i = Some b -> exists u, b_svc b = Some u) /\
  i_rules i <> [] /\
  (forall r ps, In r (i_rules i) -> r_http r = Some ps -> Forall path_good ps).
Proof.
  intros i Hv Ha. unfold validate_spec in Hv. unfold ing_admissible in Ha.
  apply andb_true_iff in Ha. destruct Ha as [Ha _]. apply andb_true_iff in Ha. destruct Ha as [Had Har].
  destruct (i_rules i) as [|r0 rs] eqn:Er; [discriminate|].
  apply orb_false_iff in Hv. destruct Hv as [Hv Hp]. apply orb_false_iff in Hv. destruct Hv as [Hd _].
  split; [|split; [discriminate|]].
  - intros b Hb. rewrite Hb in Hd, Had. apply backend_svc; assumption.
  - intros r ps Hin Hh.
    rewrite forallb_forall in Har. specialize (Har r Hin).
    assert (Hr : validate_rule_paths r = false).
    { destruct (validate_rule_paths r) eqn:E; [|reflexivity].
      assert (existsb validate_rule_paths (r0 :: rs) = true) by (apply existsb_exists; eauto). congruence. }
    unfold validate_rule_paths in Hr. unfold rule_admissible in Har. rewrite Hh in Hr, Har.
    apply Forall_forall. intros p Hp'.
    assert (Hpa : path_admissible p = true).
    { destruct ps; [destruct Hp'|]. rewrite forallb_forall in Har. apply Har; assumption. }
    assert (Hpv : validate_path p || validate_backend (p_backend p) = false).
    { destruct (validate_path p || validate_backend (p_backend p)) eqn:E; [|reflexivity].
      assert (existsb (fun p => validate_path p || validate_backend (p_backend p)) ps = true)
        by (apply existsb_exists; eauto). congruence. }
    apply orb_false_iff in Hpv. destruct Hpv as [_ Hb].
    unfold path_admissible in Hpa. apply andb_true_iff in Hpa. destruct Hpa as [Hba _].
    apply backend_svc; assumption.
Qed.

Lemma minion_shape : forall i, validate_minion i = Val false ->
  exists r0 p ps, i_rules i = [r0] /\ r_http r0 = Some (p :: ps).
Proof.
  intros i H. unfold validate_minion in H.
  destruct (i_rules i) as [|r [|r' t]]; simpl in H; try discriminate.
  destruct (r_http r) as [[|p ps]|] eqn:E; try discriminate. eauto.
Qed.

Lemma master_shape : forall i, validate_master i = Val false -> exists r0, i_rules i = [r0].
Proof.
  intros i H. unfold validate_master in H.
  destruct (i_rules i) as [|r [|r' t]]; simpl in H; try discriminate. eauto.
Qed.

Lemma challenge_shape : forall i, validate_challenge i = Val false ->
  exists r p u, i_rules i = [r] /\ r_http r = Some [p] /\ b_svc (p_backend p) = Some u.
Proof.
  intros i H. unfold validate_challenge in H.
  destruct (i_rules i) as [|r [|r' t]]; simpl in H; try discriminate.
  destruct (r_http r) as [[|p [|q ps]]|] eqn:Eh; simpl in H; try discriminate.
  destruct (b_svc (p_backend p)) eqn:E; simpl in H; try discriminate. eauto 7.
Qed.

(* ------------------------------------------------------------------ the walks over a valid Ingress *)

Lemma use_paths_ok : forall ps, Forall path_good ps -> use_paths ps = Val tt.
Proof.
  induction ps as [|p t IH]; intros H; [reflexivity|].
  inversion H as [|? ? [u Hu] Ht]; subst. simpl. unfold use_backend. rewrite Hu. simpl. auto.
Qed.

Lemma use_rules_ok : forall vh rs,
  (forall r ps, In r rs -> r_http r = Some ps -> Forall path_good ps) -> use_rules vh rs = Val tt.
Proof.
  induction rs as [|r t IH]; intros H; [reflexivity|]. simpl.
  assert (Ht : use_rules vh t = Val tt) by (apply IH; intros; eapply H; [right|]; eauto).
  destruct (vh (r_host r)); simpl; [|assumption].
  destruct (r_http r) as [ps|] eqn:E; simpl; [|assumption].
  rewrite use_paths_ok; [simpl; assumption|]. eapply H; [left; reflexivity | assumption].
Qed.

Lemma create_ingress_ex_ok : forall fl vh i, ok fl i -> create_ingress_ex vh i = Val tt.
Proof.
  intros fl vh i [Hv Ha]. destruct (valid_inv _ _ Hv) as [Hs _].
  destruct (spec_paths_good i Hs Ha) as [Hd [_ Hr]].
  unfold create_ingress_ex. destruct (i_default i) as [b|] eqn:E.
  - destruct (Hd b eq_refl) as [u Hu]. unfold use_backend. rewrite Hu. simpl. apply use_rules_ok; assumption.
  - simpl. apply use_rules_ok; assumption.
Qed.

Lemma for_all_unit_ok : forall A (f : A -> R unit) l, (forall a, In a l -> f a = Val tt) -> for_all_unit f l = Val tt.
Proof.
  induction l as [|a t IH]; intros H; [reflexivity|]. simpl. rewrite (H a (or_introl eq_refl)). simpl.
  apply IH. intros; apply H; right; assumption.
Qed.

(* ------------------------------------------------------------------ arbitration over a state of valid Ingresses *)

Definition good (fl : iflags) (st : state) : Prop := Forall (ok fl) (s_ings st).
Definition res_ok (fl : iflags) (r : ing_resource) : Prop := ok fl (ir_ing r) /\ Forall (ok fl) (ir_minions r).

Lemma is_minion_not_master : forall i, is_minion i = true -> is_master i = false.
Proof. intros i. unfold is_minion, is_master. destruct (i_merge i); congruence. Qed.

Lemma build_minions_ok : forall fl h ings, Forall (ok fl) ings ->
  exists l, build_minions h ings = Val l /\ Forall (ok fl) l.
Proof.
  induction ings as [|m t IH]; intros H; [exists []; split; [reflexivity | constructor]|].
  inversion H as [|? ? Hm Ht]; subst. destruct (IH Ht) as [l [El Hl]]. simpl.
  destruct (is_minion m) eqn:Em; simpl; [|eauto].
  destruct Hm as [Hv Ha]. destruct (valid_inv _ _ Hv) as [_ [_ [Hmin _]]].
  destruct (minion_shape m (Hmin (is_minion_not_master m Em) Em)) as [r0 [p [ps [Er Eh]]]].
  rewrite Er. simpl. destruct (Nat.eqb h (r_host r0)); simpl; [|eauto].
  rewrite Eh. simpl. rewrite El. simpl. exists (m :: l). split; [reflexivity|].
  constructor; [split; assumption | assumption].
Qed.

Lemma convert_to_vsr_ok : forall fl st i, ok fl i -> i_chal i = true -> exists b, convert_to_vsr st i = Val b.
Proof.
  intros fl st i [Hv Ha] Hc. destruct (valid_inv _ _ Hv) as [_ [_ [_ Hch]]].
  destruct (challenge_shape i (Hch Hc)) as [r [p [u [Er [Eh Eu]]]]].
  unfold convert_to_vsr. rewrite Er. simpl. destruct (vs_owns st (r_host r)); simpl; [|eauto].
  rewrite Eh. simpl. rewrite Eu. simpl. eauto.
Qed.

Lemma build_hosts_ings_ok : forall fl st, good fl st -> forall ings hosts res,
  Forall (ok fl) ings -> Forall (res_ok fl) res ->
  exists hosts' res', build_hosts_ings fl st ings hosts res = Val (hosts', res') /\ Forall (res_ok fl) res'.
Proof.
  intros fl st Hg. induction ings as [|i t IH]; intros hosts res Hi Hr; [simpl; eauto|].
  inversion Hi as [|? ? Hok Ht]; subst. simpl.
  destruct (is_minion i) eqn:Emin; [apply IH; assumption|].
  assert (Hconv : exists b, (if if_certmgr fl && i_chal i then convert_to_vsr st i else Val false) = Val b).
  { destruct (if_certmgr fl && i_chal i) eqn:E; [|eauto].
    apply andb_true_iff in E. destruct E as [_ Ec]. eapply convert_to_vsr_ok; eassumption. }
  destruct Hconv as [b Eb]. rewrite Eb. simpl. destruct b; [apply IH; assumption|].
  assert (Hmins : exists l, (if is_master i then r0 <- index0 (i_rules i);; build_minions (r_host r0) (s_ings st)
                             else Val []) = Val l /\ Forall (ok fl) l).
  { destruct (is_master i) eqn:Em; [|exists []; split; [reflexivity | constructor]].
    destruct Hok as [Hv Ha]. destruct (valid_inv _ _ Hv) as [_ [Hmas _]].
    destruct (master_shape i (Hmas Em)) as [r0 Er]. rewrite Er. simpl.
    apply build_minions_ok. exact Hg. }
  destruct Hmins as [l [El Hl]]. rewrite El. simpl.
  apply IH; [assumption|]. apply Forall_app. split; [assumption|].
  constructor; [split; assumption | constructor].
Qed.

Lemma orphan_minions_ok : forall fl ings, Forall (ok fl) ings -> orphan_minions ings = Val tt.
Proof.
  induction ings as [|m t IH]; intros H; [reflexivity|]. inversion H as [|? ? Hm Ht]; subst. simpl.
  destruct (is_minion m) eqn:Em; [|auto].
  destruct Hm as [Hv Ha]. destruct (valid_inv _ _ Hv) as [_ [_ [Hmin _]]].
  destruct (minion_shape m (Hmin (is_minion_not_master m Em) Em)) as [r0 [p [ps [Er Eh]]]].
  rewrite Er. simpl. auto.
Qed.

Lemma rebuild_hosts_ok : forall fl st, good fl st ->
  exists hosts res, rebuild_hosts fl st = Val (hosts, res) /\ Forall (res_ok fl) res.
Proof.
  intros fl st Hg. unfold rebuild_hosts, build_hosts.
  destruct (build_hosts_ings_ok fl st Hg (s_ings st) [] [] Hg (Forall_nil _)) as [h [r [E Hr]]].
  rewrite E. simpl. rewrite (orphan_minions_ok fl _ Hg). simpl. eauto.
Qed.

Lemma existsb_filter_nonempty : forall A (f : A -> bool) l, existsb f l = true -> exists x t, filter f l = x :: t.
Proof.
  induction l as [|a t IH]; simpl; intros H; [discriminate|].
  destruct (f a); [eauto|]. simpl in H. apply IH; assumption.
Qed.

Lemma extend_resource_ok : forall fl hosts r, res_ok fl r -> extend_resource hosts r = Val tt.
Proof.
  intros fl hosts r [Hi Hm]. unfold extend_resource.
  set (vh := holds hosts (i_key (ir_ing r))).
  destruct (existsb (fun ru => vh (r_host ru)) (i_rules (ir_ing r))) eqn:Ex; simpl; [|reflexivity].
  rewrite (create_ingress_ex_ok fl vh _ Hi). simpl.
  destruct (is_master (ir_ing r)); [|reflexivity].
  rewrite for_all_unit_ok.
  2:{ intros m Hin. rewrite Forall_forall in Hm. eapply create_ingress_ex_ok; apply Hm; assumption. }
  simpl. unfold master_server.
  destruct (existsb_filter_nonempty _ _ _ Ex) as [x [t Ef]]. rewrite Ef. simpl.
  apply for_all_unit_ok. intros m Hin. rewrite Forall_forall in Hm. destruct (Hm m Hin) as [Hv Ha].
  destruct (valid_inv _ _ Hv) as [Hs _]. destruct (spec_paths_good m Hs Ha) as [_ [_ Hr]].
  apply use_rules_ok; assumption.
Qed.

Lemma extend_all_ok : forall fl st, good fl st -> extend_all fl st = Val tt.
Proof.
  intros fl st Hg. unfold extend_all. destruct (rebuild_hosts_ok fl st Hg) as [h [r [E Hr]]].
  rewrite E. simpl. apply for_all_unit_ok. intros x Hin. rewrite Forall_forall in Hr.
  eapply extend_resource_ok; apply Hr; assumption.
Qed.

Lemma remove_key_good : forall fl k l, Forall (ok fl) l -> Forall (ok fl) (remove_key k l).
Proof.
  induction l as [|i t IH]; intros H; [constructor|]. inversion H; subst. simpl.
  destruct (Nat.eqb (i_key i) k); [auto | constructor; auto].
Qed.

Lemma insert_key_good : forall fl x l, ok fl x -> Forall (ok fl) l -> Forall (ok fl) (insert_key x l).
Proof.
  induction l as [|i t IH]; intros Hx H; simpl; [constructor; [assumption | constructor]|].
  inversion H; subst.
  destruct (Nat.ltb (i_key x) (i_key i)); [constructor; assumption|].
  destruct (Nat.eqb (i_key x) (i_key i)); [constructor; assumption | constructor; auto].
Qed.

(* ------------------------------------------------------------------ one event, then any history *)

Lemma add_or_update_ok : forall fl st i, good fl st -> ing_admissible i = true ->
  exists st' rej, add_or_update fl st i = Val (st', rej) /\ good fl st' /\ s_vss st' = s_vss st.
Proof.
  intros fl st i Hg Ha. unfold add_or_update, add_or_update_with.
  destruct (validate_ingress_total fl i) as [b Eb]. unfold validate_ingress in Eb. rewrite Eb. simpl.
  set (st' := {| s_ings := if b then remove_key (i_key i) (s_ings st) else insert_key i (s_ings st);
                 s_vss := s_vss st |}).
  assert (Hg' : good fl st').
  { unfold good, st'. simpl. destruct b; [apply remove_key_good; assumption|].
    apply insert_key_good; [split; [exact Eb | assumption] | assumption]. }
  destruct (rebuild_hosts_ok fl st' Hg') as [h [r [E _]]]. rewrite E. simpl.
  exists st', b. repeat split; assumption.
Qed.

Lemma delete_ingress_ok : forall fl st k, good fl st ->
  exists st', delete_ingress fl st k = Val st' /\ good fl st'.
Proof.
  intros fl st k Hg. unfold delete_ingress.
  destruct (existsb (fun i => Nat.eqb (i_key i) k) (s_ings st)); [|eauto].
  set (st' := {| s_ings := remove_key k (s_ings st); s_vss := s_vss st |}).
  assert (Hg' : good fl st') by (unfold good, st'; simpl; apply remove_key_good; assumption).
  destruct (rebuild_hosts_ok fl st' Hg') as [h [r [E _]]]. rewrite E. simpl. eauto.
Qed.

(* the observable pipeline of one Ingress against ANY state of validated Ingresses *)
Theorem ing_pipeline_no_panic : forall fl st i,
  good fl st -> ing_admissible i = true -> ing_pipeline fl st i <> OPanic.
Proof.
  intros fl st i Hg Ha. unfold ing_pipeline, ing_pipeline_with, ing_observe_with.
  destruct (validate_ingress_total fl i) as [b Eb]. unfold validate_ingress in Eb. rewrite Eb.
  destruct (add_or_update_ok fl st i Hg Ha) as [st' [rej [E [Hg' _]]]].
  unfold add_or_update in E. rewrite E. simpl.
  rewrite (extend_all_ok fl st' Hg').
  destruct (delete_ingress_ok fl st' (i_key i) Hg') as [st'' [Ed _]]. rewrite Ed. simpl.
  destruct b, rej; simpl; discriminate.
Qed.

(* histories: Ingress upserts and deletions in any order; after every event every resource that
   holds a host is extended and generated *)
Inductive event := EUpsert (i : ingress) | EDelete (key : nat).

Definition event_admissible (e : event) : bool :=
  match e with EUpsert i => ing_admissible i | EDelete _ => true end.

Definition step (fl : iflags) (st : state) (e : event) : option state :=
  match e with
  | EUpsert i =>
      match add_or_update fl st i with
      | Val (st', _) => match extend_all fl st' with Val _ => Some st' | Pan => None end
      | Pan => None
      end
  | EDelete k =>
      match delete_ingress fl st k with
      | Val st' => match extend_all fl st' with Val _ => Some st' | Pan => None end
      | Pan => None
      end
  end.

(* None = some step panicked *)
Definition run (fl : iflags) (st : state) (evs : list event) : option state :=
  fold_left (fun acc e => match acc with Some s => step fl s e | None => None end) evs (Some st).

Lemma run_none : forall fl evs, fold_left (fun acc e => match acc with Some s => step fl s e | None => None end) evs None = None.
Proof. induction evs; simpl; auto. Qed.

Lemma step_ok : forall fl st e, good fl st -> event_admissible e = true ->
  exists st', step fl st e = Some st' /\ good fl st'.
Proof.
  intros fl st [i|k] Hg Ha; simpl in *.
  - destruct (add_or_update_ok fl st i Hg Ha) as [st' [rej [E [Hg' _]]]]. rewrite E.
    rewrite (extend_all_ok fl st' Hg'). eauto.
  - destruct (delete_ingress_ok fl st k Hg) as [st' [E Hg']]. rewrite E.
    rewrite (extend_all_ok fl st' Hg'). eauto.
Qed.

Theorem history_no_panic : forall fl evs st,
  good fl st -> forallb event_admissible evs = true ->
  exists st', run fl st evs = Some st' /\ good fl st'.
Proof.
  intros fl. unfold run. induction evs as [|e t IH]; intros st Hg Ha; simpl; [eauto|].
  simpl in Ha. apply andb_true_iff in Ha. destruct Ha as [He Ht].
  destruct (step_ok fl st e Hg He) as [st' [E Hg']]. rewrite E. apply IH; assumption.
Qed.

(* from the empty Ingress store, with any VirtualServer hosts, for all seven flags *)
Corollary history_from_empty_no_panic : forall (fl : flags) (vss : list vserver) (evs : list event),
  forallb event_admissible evs = true ->
  run (iflags_of fl) {| s_ings := []; s_vss := vss |} evs <> None.
Proof.
  intros fl vss evs Ha.
  destruct (history_no_panic (iflags_of fl) evs {| s_ings := []; s_vss := vss |}) as [st [E _]];
    [constructor | assumption | congruence].
Qed.
