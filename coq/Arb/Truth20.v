(* C05 truth proof, part 20: attached minions and routes in the state a history leads to *)
From Coq Require Import List ZArith String Ascii Bool Lia.
From NIC Require Import Base.SMap Arb.Types Arb.Model Arb.Spec Arb.WinsProofs Arb.InvProofs Arb.OwnerProofs
     Arb.ListenerProofs Arb.ClassProofs Arb.ChangeProofs Arb.ReportProofs Arb.ComposeProofs Arb.Cases Arb.ShadowProofs Arb.ShadowAttrs.
From NIC Require Import Arb.Truth01 Arb.Truth02 Arb.Truth03 Arb.Truth04 Arb.Truth05 Arb.Truth06 Arb.Truth07 Arb.Truth08 Arb.Truth09 Arb.Truth10 Arb.Truth11 Arb.Truth12 Arb.Truth13 Arb.Truth14 Arb.Truth15 Arb.Truth16 Arb.Truth17 Arb.Truth18 Arb.Truth19.
Import ListNotations.
Open Scope string_scope.
Open Scope Z_scope.

Lemma attrs_meta r r' : attrs r = attrs r' -> res_meta r = res_meta r'.
Proof. destruct r, r'; cbn; intros H; inversion H; congruence. Qed.

Section St.
  Variables (c : cfg) (es : list event).
  Hypothesis Hy : hyps c es.
  Let S := run c es.

  Lemma st_not_resource k : (KH c (objs_of_state S) k -> False) -> (KL (objs_of_state S) k -> False) -> lookup k (get_resources S) = None.
  Proof.
    intros H1 H2. destruct (lookup k (get_resources S)) as [r|] eqn:L; [|reflexivity]. exfalso.
    assert (Hin : In k (keys (get_resources S))) by (apply in_keys_lookup; congruence).
    apply (keys_get_resources c S k (run_fn_inv c es)) in Hin. tauto.
  Qed.

  Lemma st_minion M ic m : lookup M (get_resources S) = Some (RIng ic) -> In m (ic_minions ic) ->
    who (objs_after es) ("Ingress/" ++ key_of_ing (mc_ing m)) (m_uid (i_meta (mc_ing m))) /\
    lookup ("Ingress/" ++ key_of_ing (mc_ing m)) (get_resources S) = None.
  Proof.
    intros L Hm. destruct (GR_in_hosts c S M _ (run_fn_inv c es) (st_ok c es) (st_roles c es Hy) L) as (h & Hh).
    destruct (attached_minion_facts c _ (h_cm _ _ Hy) (st_ok c es) (st_wf c es Hy) h ic m Hh Hm) as ((k0 & Hst) & Hmin & _).
    split.
    - rewrite <- (st_objs c es). eapply who_ing; eauto.
    - apply st_not_resource.
      + intros HK. exact (minion_not_resource c _ (h_cm _ _ Hy) (st_ok c es) k0 (mc_ing m) Hst Hmin HK).
      + intros HK. destruct (lkey_in _ _ HK) as (k1 & t & _ & _ & E). clash E.
  Qed.

  Lemma st_vsr V vc x : lookup V (get_resources S) = Some (RVS vc) -> In x (vc_vsrs vc) ->
    who (objs_after es) (vsr_pkey x) (m_uid (r_meta x)) /\ lookup (vsr_pkey x) (get_resources S) = None /\ m_uid (r_meta x) <> "".
  Proof.
    intros L Hx. destruct (GR_in_hosts c S V _ (run_fn_inv c es) (st_ok c es) (st_roles c es Hy) L) as (h & Hh).
    destruct (attached_vsr_facts c _ (h_cm _ _ Hy) (st_ok c es) (st_wf c es Hy) h vc x Hh Hx) as ((k0 & Hst) & _).
    split; [|split].
    - rewrite <- (st_objs c es). eapply who_vsr; eauto.
    - apply st_not_resource.
      + intros HK. destruct (hkey_in c _ _ HK) as (r & Hres). pose proof (res_kind c _ (h_cm _ _ Hy) (st_ok c es) _ r Hres) as Hkind.
        destruct r as [ic2|vc2|tc2].
        * destruct Hkind as (? & _ & _ & E). clash E.
        * destruct Hkind as (? & _ & E). clash E.
        * destruct Hkind as (? & _ & _ & E). clash E.
      + intros HK. destruct (lkey_in _ _ HK) as (k1 & t & _ & _ & E). clash E.
    - destruct (st_wf c es Hy) as (_ & _ & _ & Wu & _). exact (Wu _ _ Hst).
  Qed.
End St.
