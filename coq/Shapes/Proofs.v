(* C17 -- proofs about the nil-shape models of Shapes/Model.v.

   1. the enumerations are complete: every inhabitant of a shape type is in its list;
   2. the sweep, inside Rocq, of the pipeline over the whole finite shape space
      (forallb ... = true by vm_compute), lifted with forallb_forall;
   3. the behaviour of the unpatched validateChallengeIngress (finding F05), refuted by a
      concrete admissible witness;
   (that the shape codes used to talk to the harness decode back to the shape they encode is
   a computed obligation, Cases.codes_roundtrip: primitive integers stay out of the theorems). *)
From Coq Require Import List Bool Arith.
From NIC Require Import Shapes.Model.
Import ListNotations.

(* ------------------------------------------------------------------ completeness of the enumerations *)

Ltac fin := intros x; destruct x; simpl; tauto.

Lemma all_bool_complete : forall b : bool, In b all_bool. Proof. fin. Qed.
Lemma all_bk_complete : forall k : bk, In k all_bk. Proof. fin. Qed.
Lemma all_pspec_complete : forall s : pspec, In s all_pspec. Proof. fin. Qed.
Lemma all_merge_complete : forall m : merge, In m all_merge. Proof. fin. Qed.
Lemma all_annots_complete : forall a : annots, In a all_annots. Proof. fin. Qed.
Lemma all_ctx_complete : forall c : ctx, In c all_ctx. Proof. fin. Qed.

Lemma all_iflags_complete : forall f : iflags, In f all_iflags.
Proof. intros [[|] [|]]; simpl; tauto. Qed.

Lemma all_paths_sh_complete : forall p : paths_sh, In p all_paths_sh.
Proof.
  intros [|s k|s k k2]; unfold all_paths_sh.
  - left; reflexivity.
  - right. apply in_or_app. left. apply in_flat_map. exists s. split.
    + apply all_pspec_complete.
    + apply in_map, all_bk_complete.
  - right. apply in_or_app. right. apply in_flat_map. exists s. split.
    + apply all_pspec_complete.
    + apply in_flat_map. exists k. split; [apply all_bk_complete | apply in_map, all_bk_complete].
Qed.

Lemma all_http_sh_complete : forall h : http_sh, In h all_http_sh.
Proof.
  intros [|p]; unfold all_http_sh; [left; reflexivity | right; apply in_map, all_paths_sh_complete].
Qed.

Lemma all_rule2_sh_complete : forall r : rule2_sh, In r all_rule2_sh.
Proof.
  intros [|k]; unfold all_rule2_sh; [left; reflexivity | right; apply in_map, all_bk_complete].
Qed.

Lemma all_rules_sh_complete : forall r : rules_sh, In r all_rules_sh.
Proof.
  intros [|h|h r2]; unfold all_rules_sh.
  - left; reflexivity.
  - right. apply in_or_app. left. apply in_map, all_http_sh_complete.
  - right. apply in_or_app. right. apply in_flat_map. exists h. split.
    + apply all_http_sh_complete.
    + apply in_map, all_rule2_sh_complete.
Qed.

Lemma all_default_complete : forall d : option bk, In d all_default.
Proof.
  intros [k|]; unfold all_default; [right; apply in_map, all_bk_complete | left; reflexivity].
Qed.

Theorem all_ing_shapes_complete : forall s : ing_shape, In s all_ing_shapes.
Proof.
  intros [d t r m c a]. unfold all_ing_shapes.
  apply in_flat_map. exists d. split; [apply all_default_complete|].
  apply in_flat_map. exists t. split; [apply all_bool_complete|].
  apply in_flat_map. exists r. split; [apply all_rules_sh_complete|].
  apply in_flat_map. exists m. split; [apply all_merge_complete|].
  apply in_flat_map. exists c. split; [apply all_bool_complete|].
  apply in_map_iff. exists a. split; [reflexivity | apply all_annots_complete].
Qed.

(* ------------------------------------------------------------------ the Ingress sweep *)

Definition ing_sweep (P : ing_scenario -> bool) : bool :=
  forallb (fun fl => forallb (fun c => forallb (fun sh =>
    P {| sc_flags := fl; sc_ctx := c; sc_shape := sh |}) all_ing_shapes) all_ctx) all_iflags.

Lemma ing_sweep_spec : forall P, ing_sweep P = true ->
  forall fl c sh, P {| sc_flags := fl; sc_ctx := c; sc_shape := sh |} = true.
Proof.
  intros P H fl c sh. unfold ing_sweep in H.
  rewrite forallb_forall in H. specialize (H fl (all_iflags_complete fl)).
  rewrite forallb_forall in H. specialize (H c (all_ctx_complete c)).
  rewrite forallb_forall in H. exact (H sh (all_ing_shapes_complete sh)).
Qed.

Definition ing_no_panic (s : ing_scenario) : bool :=
  negb (shape_admissible (sc_shape s)) || negb (is_panic (scenario_pipeline s)).

(* 4 flag settings x 4 prior states x 36672 shapes, evaluated by the kernel's VM *)
Lemma ing_sweep_no_panic : ing_sweep ing_no_panic = true.
Proof. vm_compute. reflexivity. Qed.

Theorem ing_no_panic_shapes :
  forall (fl : flags) (c : ctx) (sh : ing_shape),
    shape_admissible sh = true ->
    scenario_pipeline {| sc_flags := iflags_of fl; sc_ctx := c; sc_shape := sh |} <> OPanic.
Proof.
  intros fl c sh Hadm Hp.
  pose proof (ing_sweep_spec _ ing_sweep_no_panic (iflags_of fl) c sh) as H.
  unfold ing_no_panic in H. simpl in H. rewrite Hadm, Hp in H. discriminate.
Qed.

(* each stage separately: none of the four observed stages panics *)
Definition ing_no_stage_panic (s : ing_scenario) : bool :=
  negb (shape_admissible (sc_shape s)) ||
  match scenario_observe_with validate_challenge s with
  | None => false
  | Some o => negb (is_panic (o_validate o)) && negb (is_panic (o_config o)) &&
              negb (is_panic (o_extend o)) && negb (is_panic (o_delete o))
  end.

Lemma ing_sweep_no_stage_panic : ing_sweep ing_no_stage_panic = true.
Proof. vm_compute. reflexivity. Qed.

(* the validator rejects exactly when the store rejects (validate-then-store) *)
Definition ing_validate_then_store (s : ing_scenario) : bool :=
  match scenario_observe_with validate_challenge s with
  | None => false
  | Some o => outcome_eqb (o_validate o) (o_config o) || is_panic (o_config o)
  end.

Lemma ing_sweep_validate_then_store : ing_sweep ing_validate_then_store = true.
Proof. vm_compute. reflexivity. Qed.

(* ------------------------------------------------------------------ finding F05 *)

(* a challenge-labelled Ingress with one rule and one Prefix path whose backend is a resource
   backend (API-admissible): the unpatched validator dereferences Backend.Service *)
Definition f05_shape : ing_shape :=
  {| sh_default := None; sh_tls := false; sh_rules := Rs1 (HPaths (Ps1 PPrefix KRes));
     sh_merge := MNone; sh_chal := true; sh_ann := ANone |}.
Definition f05_scenario : ing_scenario :=
  {| sc_flags := {| if_plus := false; if_certmgr := true |}; sc_ctx := CEmpty; sc_shape := f05_shape |}.

Lemma f05_old_panics :
  shape_admissible f05_shape = true /\ scenario_pipeline_old f05_scenario = OPanic /\
  validate_ingress_old (sc_flags f05_scenario) (ingress_of f05_shape) = Pan.
Proof. vm_compute. repeat split. Qed.

Lemma f05_fixed_rejects : scenario_pipeline f05_scenario = ORejected.
Proof. vm_compute. reflexivity. Qed.

Theorem no_panic_old_refuted :
  exists s, shape_admissible (sc_shape s) = true /\ scenario_pipeline_old s = OPanic.
Proof. exists f05_scenario. vm_compute. split; reflexivity. Qed.

(* the only admissible shapes on which the old validator differs from the repaired one are
   challenge-labelled shapes with exactly one rule and one path whose backend has no service *)
Definition f05_class (sh : ing_shape) : bool :=
  sh_chal sh &&
  match sh_rules sh with
  | Rs1 (HPaths (Ps1 _ KRes)) | Rs1 (HPaths (Ps1 _ KNeither)) => true
  | _ => false
  end.

Definition old_differs_only_on_f05 (s : ing_scenario) : bool :=
  f05_class (sc_shape s) ||
  outcome_eqb (scenario_pipeline_old s) (scenario_pipeline s).

Lemma ing_sweep_old_differs_only_on_f05 : ing_sweep old_differs_only_on_f05 = true.
Proof. vm_compute. reflexivity. Qed.

(* ------------------------------------------------------------------ the admissibility hypothesis is needed *)

(* a backend with neither service nor resource passes validateBackend and panics later in
   createIngressEx: the theorem is not true of inadmissible shapes (and the harness confirms
   the panic on the real code) *)
Definition neither_shape : ing_shape :=
  {| sh_default := None; sh_tls := false; sh_rules := Rs1 (HPaths (Ps1 PPrefix KNeither));
     sh_merge := MNone; sh_chal := false; sh_ann := ANone |}.

Lemma inadmissible_can_panic :
  shape_admissible neither_shape = false /\
  scenario_pipeline {| sc_flags := {| if_plus := false; if_certmgr := false |}; sc_ctx := CEmpty;
                       sc_shape := neither_shape |} = OPanic.
Proof. vm_compute. split; reflexivity. Qed.
