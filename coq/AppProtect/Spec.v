(* C19 -- the from-scratch specification: what GetAppResource / GetValidDosEx must answer, as a
   function of the CURRENT OBJECT SET only (no flags, no history).  No proofs here.

   - a signature resource is well-formed when it passes validation and its revision time parses;
   - among the well-formed signatures declaring the same non-empty tag the one that is least in the
     (creationTimestamp ascending, uid descending) order is in force, the others are duplicates;
     well-formed signatures without a tag are in force (nothing can require them);
   - a policy is usable when it is well-formed and every requirement that names a tag is met by an
     in-force signature with that tag whose revision time is acceptable;
   - a DoS protected resource is usable when DoS is enabled, it is well-formed, and the policy and
     log configuration it names (if any) exist and are valid.

   [acceptable] is the natural reading: a signature without revision time is acceptable, a bound
   that is not given does not constrain, given bounds are strict (as time.Before / time.After).
   [acceptable_as_coded] is what isReqSatisfiedByUserSig computes: it differs exactly when NO bound
   is given and the signature declares a revision time (finding F21). *)
From Coq Require Import List ZArith String Ascii Bool.
From NIC Require Import Base.SMap AppProtect.Model.
Import ListNotations.
Open Scope string_scope.
Open Scope list_scope.
Open Scope Z_scope.

(* ------------------------------------------------------------------------------------------ *)
(* The current object set: last writer wins                                                     *)

Record objects := {
  ob_pol : smap polobj; ob_log : smap logobj; ob_sig : smap sigobj;
  ob_dpol : smap dpolobj; ob_dlog : smap dlogobj; ob_dpr : smap probj
}.

Definition objs0 : objects :=
  {| ob_pol := []; ob_log := []; ob_sig := []; ob_dpol := []; ob_dlog := []; ob_dpr := [] |}.

Definition apply_event (ob : objects) (ev : event) : objects :=
  match ev with
  | EvPolicy k o => {| ob_pol := insert k o (ob_pol ob); ob_log := ob_log ob; ob_sig := ob_sig ob;
                       ob_dpol := ob_dpol ob; ob_dlog := ob_dlog ob; ob_dpr := ob_dpr ob |}
  | EvDelPolicy k => {| ob_pol := remove k (ob_pol ob); ob_log := ob_log ob; ob_sig := ob_sig ob;
                        ob_dpol := ob_dpol ob; ob_dlog := ob_dlog ob; ob_dpr := ob_dpr ob |}
  | EvLogConf k o => {| ob_pol := ob_pol ob; ob_log := insert k o (ob_log ob); ob_sig := ob_sig ob;
                        ob_dpol := ob_dpol ob; ob_dlog := ob_dlog ob; ob_dpr := ob_dpr ob |}
  | EvDelLogConf k => {| ob_pol := ob_pol ob; ob_log := remove k (ob_log ob); ob_sig := ob_sig ob;
                         ob_dpol := ob_dpol ob; ob_dlog := ob_dlog ob; ob_dpr := ob_dpr ob |}
  | EvUserSig k o => {| ob_pol := ob_pol ob; ob_log := ob_log ob; ob_sig := insert k o (ob_sig ob);
                        ob_dpol := ob_dpol ob; ob_dlog := ob_dlog ob; ob_dpr := ob_dpr ob |}
  | EvDelUserSig k => {| ob_pol := ob_pol ob; ob_log := ob_log ob; ob_sig := remove k (ob_sig ob);
                         ob_dpol := ob_dpol ob; ob_dlog := ob_dlog ob; ob_dpr := ob_dpr ob |}
  | EvDosPolicy k o => {| ob_pol := ob_pol ob; ob_log := ob_log ob; ob_sig := ob_sig ob;
                          ob_dpol := insert k o (ob_dpol ob); ob_dlog := ob_dlog ob; ob_dpr := ob_dpr ob |}
  | EvDelDosPolicy k => {| ob_pol := ob_pol ob; ob_log := ob_log ob; ob_sig := ob_sig ob;
                           ob_dpol := remove k (ob_dpol ob); ob_dlog := ob_dlog ob; ob_dpr := ob_dpr ob |}
  | EvDosLogConf k o => {| ob_pol := ob_pol ob; ob_log := ob_log ob; ob_sig := ob_sig ob;
                           ob_dpol := ob_dpol ob; ob_dlog := insert k o (ob_dlog ob); ob_dpr := ob_dpr ob |}
  | EvDelDosLogConf k => {| ob_pol := ob_pol ob; ob_log := ob_log ob; ob_sig := ob_sig ob;
                            ob_dpol := ob_dpol ob; ob_dlog := remove k (ob_dlog ob); ob_dpr := ob_dpr ob |}
  | EvDosPR o => {| ob_pol := ob_pol ob; ob_log := ob_log ob; ob_sig := ob_sig ob;
                    ob_dpol := ob_dpol ob; ob_dlog := ob_dlog ob;
                    ob_dpr := insert (ns_name (pr_ns o) (pr_name o)) o (ob_dpr ob) |}
  | EvDelDosPR k => {| ob_pol := ob_pol ob; ob_log := ob_log ob; ob_sig := ob_sig ob;
                       ob_dpol := ob_dpol ob; ob_dlog := ob_dlog ob; ob_dpr := remove k (ob_dpr ob) |}
  end.

Definition objects_after (ob : objects) (evs : list event) : objects := fold_left apply_event evs ob.
Definition final_objects (evs : list event) : objects := objects_after objs0 evs.

(* ------------------------------------------------------------------------------------------ *)
(* Signatures                                                                                   *)

Definition tf_bad (f : tfield) : bool := match f with TBad => true | _ => false end.

Definition sig_wf (o : sigobj) : bool := so_valid o && negb (tf_bad (so_rev o)).

(* declares a tag others can collide with / policies can require *)
Definition sig_competes (o : sigobj) : bool := sig_wf o && negb (String.eqb (so_tag o) "").

(* strictly earlier in the (creationTimestamp ascending, uid descending) order *)
Definition older (a b : sigobj) : bool :=
  (so_ts a <? so_ts b) ||
  ((so_ts a =? so_ts b) && match String.compare (so_uid b) (so_uid a) with Lt => true | _ => false end).

Definition rival (k : string) (o : sigobj) (ko' : string * sigobj) : bool :=
  negb (String.eqb (fst ko') k) && sig_competes (snd ko') && String.eqb (so_tag (snd ko')) (so_tag o).

(* in force: well-formed and older than every rival *)
Definition in_force (sigs : smap sigobj) (k : string) (o : sigobj) : bool :=
  sig_wf o && (negb (sig_competes o) || forallb (fun ko' => negb (rival k o ko') || older o (snd ko')) sigs).

Definition spec_sig_answer (sigs : smap sigobj) (k : string) : answer :=
  match lookup k sigs with
  | None => ANotFound
  | Some o =>
      if negb (so_valid o) then AErr EFailed
      else if tf_bad (so_rev o) then AErr EBadTs
      else if in_force sigs k o then AOk else AErr EDup
  end.

(* ------------------------------------------------------------------------------------------ *)
(* Policies                                                                                     *)

Definition acceptable (mn mx rev : option Z) : bool :=
  match rev with
  | None => true
  | Some r => match mn with Some a => a <? r | None => true end &&
              match mx with Some b => r <? b | None => true end
  end.

Definition acceptable_as_coded (mn mx rev : option Z) : bool :=
  match rev with
  | None => true
  | Some r => match mn, mx with
              | None, None => false
              | _, _ => acceptable mn mx rev
              end
  end.

(* what the code variant computes: the natural reading once fixes/F21.diff is applied *)
Definition acceptable_for (fx : bool) : option Z -> option Z -> option Z -> bool :=
  if fx then acceptable else acceptable_as_coded.

(* malformedness class of a policy object (ENone = well-formed) *)
Definition req_times_ok (r : reqobj) : bool :=
  match rq_tag r with None => true | Some _ => negb (tf_bad (rq_min r)) && negb (tf_bad (rq_max r)) end.

Definition pol_class (o : polobj) : err :=
  if negb (po_valid o) then EFailed
  else match po_reqs o with
       | None => EFailed
       | Some l => if forallb req_times_ok l then ENone else EBadTs
       end.

Section WithAcceptable.
  Variable acc : option Z -> option Z -> option Z -> bool.

  Definition sig_meets (sigs : smap sigobj) (t : string) (r : reqobj) (ko : string * sigobj) : bool :=
    in_force sigs (fst ko) (snd ko) && sig_competes (snd ko) && String.eqb (so_tag (snd ko)) t &&
    acc (tf_opt (rq_min r)) (tf_opt (rq_max r)) (tf_opt (so_rev (snd ko))).

  Definition req_satisfied (sigs : smap sigobj) (r : reqobj) : bool :=
    match rq_tag r with
    | None => true
    | Some t => existsb (sig_meets sigs t r) sigs
    end.

  Definition spec_pol_answer (ob : objects) (k : string) : answer :=
    match lookup k (ob_pol ob) with
    | None => ANotFound
    | Some o =>
        match pol_class o with
        | ENone => match po_reqs o with
                   | Some l => if forallb (req_satisfied (ob_sig ob)) l then AOk else AErr EMissing
                   | None => AErr EFailed
                   end
        | e => AErr e
        end
    end.
End WithAcceptable.

Definition spec_log_answer (ob : objects) (k : string) : answer :=
  match lookup k (ob_log ob) with
  | None => ANotFound
  | Some o => if lo_valid o then AOk else AErr EFailed
  end.

Definition spec_answer (acc : option Z -> option Z -> option Z -> bool)
           (ob : objects) (kd : kind) (k : string) : answer :=
  match kd with
  | KPolicy => spec_pol_answer acc ob k
  | KLogConf => spec_log_answer ob k
  | KUserSig => spec_sig_answer (ob_sig ob) k
  | _ => ANotFound
  end.

(* ------------------------------------------------------------------------------------------ *)
(* DoS                                                                                          *)

Definition spec_ref {A} (valid : A -> bool) (m : smap A) (ns ref : string) : getres :=
  if String.eqb ref "" then GOk
  else match lookup (resolve_ref ns ref) m with
       | None => GNotFound
       | Some o => if valid o then GOk else GInvalid
       end.

Definition spec_dos_by_key (enabled : bool) (ob : objects) (key : string) : dos_answer :=
  if negb enabled then DDisabled
  else match lookup key (ob_dpr ob) with
       | None => DNotFound
       | Some o =>
           if negb (pr_valid o) then DInvalid
           else match spec_ref dp_valid (ob_dpol ob) (pr_ns o) (pr_pol o) with
                | GNotFound => DPolMissing
                | GInvalid => DPolInvalid
                | GOk => match pr_log o with
                         | None => DOk
                         | Some lref => match spec_ref dl_valid (ob_dlog ob) (pr_ns o) lref with
                                        | GNotFound => DLogMissing
                                        | GInvalid => DLogInvalid
                                        | GOk => DOk
                                        end
                         end
                end
       end.

Definition spec_dos_answer (enabled : bool) (ob : objects) (parent_ns nm : string) : dos_answer :=
  spec_dos_by_key enabled ob (get_ns_name parent_ns nm).

(* ------------------------------------------------------------------------------------------ *)
(* Decidable specification over observed answers: one character per answer                      *)

Definition answer_char (a : answer) : ascii :=
  match a with
  | AOk => "0" | ANotFound => "N"
  | AErr EFailed => "F" | AErr EMissing => "M" | AErr EDup => "D" | AErr EBadTs => "T" | AErr ENone => "?"
  end%char.

Definition dos_answer_char (a : dos_answer) : ascii :=
  match a with
  | DOk => "0" | DDisabled => "X" | DNotFound => "N" | DInvalid => "I"
  | DPolMissing => "p" | DPolInvalid => "P" | DLogMissing => "l" | DLogInvalid => "L"
  end%char.

(* the answer vector for a fixed key universe: policies, log confs, signatures (each over wkeys),
   then the protected resources (namespace, name) *)
Definition spec_answers (acc : option Z -> option Z -> option Z -> bool) (enabled : bool) (ob : objects)
           (wkeys : list string) (pkeys : list (string * string)) : list ascii :=
  map (fun k => answer_char (spec_answer acc ob KPolicy k)) wkeys ++
  map (fun k => answer_char (spec_answer acc ob KLogConf k)) wkeys ++
  map (fun k => answer_char (spec_answer acc ob KUserSig k)) wkeys ++
  map (fun nk => dos_answer_char (spec_dos_answer enabled ob (fst nk) (snd nk))) pkeys.

Definition model_answers (st : state) (wkeys : list string) (pkeys : list (string * string)) : list ascii :=
  map (fun k => answer_char (get_app_resource (waf st) KPolicy k)) wkeys ++
  map (fun k => answer_char (get_app_resource (waf st) KLogConf k)) wkeys ++
  map (fun k => answer_char (get_app_resource (waf st) KUserSig k)) wkeys ++
  map (fun nk => dos_answer_char (get_valid_dos_ex (dos st) (fst nk) (snd nk))) pkeys.

Fixpoint ascii_list_eqb (a b : list ascii) : bool :=
  match a, b with
  | [], [] => true
  | x :: a', y :: b' => Ascii.eqb x y && ascii_list_eqb a' b'
  | _, _ => false
  end.

(* S: the observed answers are the specified ones *)
Definition spec_ok (enabled : bool) (ob : objects) (wkeys : list string) (pkeys : list (string * string))
           (observed : list ascii) : bool :=
  ascii_list_eqb observed (spec_answers acceptable enabled ob wkeys pkeys).

(* ------------------------------------------------------------------------------------------ *)
(* Decidable forms of the hypotheses of the theorems (soundness: ProofsFinal), evaluated on every
   generated history so that the evidence says how many explored cases meet them:
   K1 -- after every event the stored signatures have pairwise distinct uids;
   f21-free -- no (requirement with a tag and no bound, signature with that tag and a revision time) *)

Definition sigs_distinctb (S : smap sigobj) : bool :=
  forallb (fun a => forallb (fun b => String.eqb (fst a) (fst b) ||
                                       negb (String.eqb (so_uid (snd a)) (so_uid (snd b)))) S) S.

Fixpoint K1_fromb (ob : objects) (evs : list event) : bool :=
  match evs with
  | [] => true
  | ev :: r => sigs_distinctb (ob_sig (apply_event ob ev)) && K1_fromb (apply_event ob ev) r
  end.

Definition K1_histb (evs : list event) : bool := K1_fromb objs0 evs.
Definition is_none {A} (o : option A) : bool := match o with None => true | Some _ => false end.

Definition f21_freeb (ob : objects) : bool :=
  forallb (fun kp =>
    match po_reqs (snd kp) with
    | None => true
    | Some l =>
        forallb (fun r =>
          match rq_tag r with
          | None => true
          | Some t =>
              negb (is_none (tf_opt (rq_min r)) && is_none (tf_opt (rq_max r))) ||
              forallb (fun ks => negb (String.eqb (so_tag (snd ks)) t) || is_none (tf_opt (so_rev (snd ks))))
                      (ob_sig ob)
          end) l
    end) (ob_pol ob).


(* ------------------------------------------------------------------------------------------ *)
(* The state the implementation must be in, rebuilt from the objects alone (used to state the
   invariant as an equality of states)                                                           *)

Definition mapk {A B} (f : string -> A -> B) (m : smap A) : smap B :=
  map (fun ka => (fst ka, f (fst ka) (snd ka))) m.

Definition sig_base (o : sigobj) : UserSigEx := fst (create_usersig_ex o).

Definition spec_sig_ex (sigs : smap sigobj) (k : string) (o : sigobj) : UserSigEx :=
  if sig_competes o then
    if in_force sigs k o then sig_base o else sig_set_invalid (sig_base o) EDup
  else sig_base o.

Definition spec_pol_ex (fx : bool) (sigexs : smap UserSigEx) (k : string) (o : polobj) : PolicyEx :=
  let p := fst (create_policy_ex o) in
  if p_valid p then
    if verify_policy_against_user_sigs fx sigexs p then p else pol_set_invalid p EMissing
  else p.

Definition spec_state (fx : bool) (enabled : bool) (ob : objects) : state :=
  let sigexs := mapk (spec_sig_ex (ob_sig ob)) (ob_sig ob) in
  {| waf := {| policies := mapk (spec_pol_ex fx sigexs) (ob_pol ob);
               logconfs := mapk (fun _ o => fst (create_logconf_ex o)) (ob_log ob);
               usersigs := sigexs |};
     dos := {| dpols := mapk (fun _ o => {| dpe_obj := o; dpe_valid := dp_valid o |}) (ob_dpol ob);
               dlogs := mapk (fun _ o => {| dle_obj := o; dle_valid := dl_valid o |}) (ob_dlog ob);
               dprs := mapk (fun _ o => create_dos_pr_ex o) (ob_dpr ob);
               d_enabled := enabled |} |}.

Definition spec_waf (fx : bool) (ob : objects) : wstate := waf (spec_state fx true ob).
Definition spec_dos (en : bool) (ob : objects) : dstate :=
  {| dpols := mapk (fun _ o => {| dpe_obj := o; dpe_valid := dp_valid o |}) (ob_dpol ob);
     dlogs := mapk (fun _ o => {| dle_obj := o; dle_valid := dl_valid o |}) (ob_dlog ob);
     dprs := mapk (fun _ o => create_dos_pr_ex o) (ob_dpr ob);
     d_enabled := en |}.
