(* Lex/Lexer.v -- the NGINX configuration tokenizer as a DFA.  NO PROOFS in this file.

   INTERFACE (what other files use)
     lstate                      DFA states: QBetween QBare QBareEsc QVar QDQ QDQEsc QSQ QSQEsc
                                 QComment QNeedSpace QErr
     ev                          structural events: TokEnd | Semi | Open | Close | Err
     step  : lstate -> ascii -> lstate * list ev
     run   : lstate -> string -> lstate * list ev          (fold of step; events in order)
     final_ok : lstate -> bool   (may the file end in this state: QBetween or QComment)
     token := TWord string | TSemi | TOpen | TClose
     lex   : string -> option (list token)    None = lexical error / unterminated quote / file
                                              ends inside a word
     lex_from : lstate -> list ascii -> string -> option (list token)   (the worker of lex)
     ev_of_token, events_ok     helpers relating the two views (see LexerProofs.lex_events)
     unescape : string -> string  (the copy loop of ngx_conf_read_token)
     is_ws, ch_* byte names.

   SOURCE.  Written by hand from ngx_conf_read_token (nginx src/core/ngx_conf_file.c); there is no
   nginx source or binary in the sandbox, so this transcription is TRUSTED (DESIGN.md section 5).
   The C function keeps the flags  last_space, need_space, sharp_comment, quoted, d_quoted,
   s_quoted, variable;  per input byte ch, in this order:
     R1  ch = LF ends a comment.  Inside a comment every other byte is skipped.
     R2  if quoted (previous byte was a backslash outside a comment): skip ch, clear quoted.
     R3  if need_space (previous byte closed a quoted word):  whitespace -> between tokens;
         ';' -> end of directive;  '{' -> block start;  ')' -> starts a new bare word (which
         contains the parenthesis);  anything else -> error  unexpected ch.
     R4  if last_space (between tokens): whitespace is skipped; ';' '{' '}' are structural
         (that ';' or '{' needs at least one word before it, and '}' none, is checked by the PARSER
         here: Parser.parse returns None);  '#' starts a comment;  backslash starts a bare word and
         sets quoted;  double / single quote starts a quoted word;  '$' starts a bare word with
         variable set;  any other byte starts a bare word.
     R5  otherwise (inside a word):  if ch = '{' and variable: skip (variable STAYS set, so
         dollar followed by any number of '{' never ends the word).  Else clear variable, then:
         backslash -> quoted;  '$' -> variable;  inside double quotes only the double quote ends
         the word (then need_space);  same for single quotes;  in a bare word whitespace, ';' and
         '{' end the word (';' and '{' are then also the structural token).  '}' '#' and quotes are
         ordinary bytes inside a bare word.
     R6  end of file is legal only between tokens (or inside a comment) with no pending words.
   The variable flag only matters for '{', which is not special inside quotes, so the quoted
   states do not track it.  Not modelled: the 4096-byte limit on one token (NGX_CONF_BUFFER) is
   checked separately by Check.words_short; the include directive; line counting. *)
From Coq Require Import List String Ascii Bool.
Import ListNotations.
Open Scope char_scope.

Definition ch_tab : ascii := Ascii.ascii_of_nat 9.
Definition ch_lf : ascii := Ascii.ascii_of_nat 10.
Definition ch_cr : ascii := Ascii.ascii_of_nat 13.
Definition ch_dq : ascii := Ascii.ascii_of_nat 34.
Definition ch_sq : ascii := "'".
Definition ch_bs : ascii := "\".
Definition ch_dollar : ascii := "$".
Definition ch_hash : ascii := "#".
Definition ch_semi : ascii := ";".
Definition ch_open : ascii := "{".
Definition ch_close : ascii := "}".
Definition ch_rparen : ascii := ")".

Definition is_ws (c : ascii) : bool :=
  Ascii.eqb c " " || Ascii.eqb c ch_tab || Ascii.eqb c ch_cr || Ascii.eqb c ch_lf.

Inductive lstate :=
| QBetween | QBare | QBareEsc | QVar | QDQ | QDQEsc | QSQ | QSQEsc | QComment | QNeedSpace | QErr.

Inductive ev := TokEnd | Semi | Open | Close | Err.

Definition lstate_eqb (a b : lstate) : bool :=
  match a, b with
  | QBetween, QBetween | QBare, QBare | QBareEsc, QBareEsc | QVar, QVar | QDQ, QDQ
  | QDQEsc, QDQEsc | QSQ, QSQ | QSQEsc, QSQEsc | QComment, QComment
  | QNeedSpace, QNeedSpace | QErr, QErr => true
  | _, _ => false
  end.

(* R4: the byte ch seen between tokens *)
Definition step_between (c : ascii) : lstate * list ev :=
  if is_ws c then (QBetween, [])
  else if Ascii.eqb c ch_semi then (QBetween, [Semi])
  else if Ascii.eqb c ch_open then (QBetween, [Open])
  else if Ascii.eqb c ch_close then (QBetween, [Close])
  else if Ascii.eqb c ch_hash then (QComment, [])
  else if Ascii.eqb c ch_bs then (QBareEsc, [])
  else if Ascii.eqb c ch_dq then (QDQ, [])
  else if Ascii.eqb c ch_sq then (QSQ, [])
  else if Ascii.eqb c ch_dollar then (QVar, [])
  else (QBare, []).

(* R5 for a bare word, variable flag clear (or being cleared by this byte) *)
Definition step_bare (c : ascii) : lstate * list ev :=
  if Ascii.eqb c ch_bs then (QBareEsc, [])
  else if Ascii.eqb c ch_dollar then (QVar, [])
  else if is_ws c then (QBetween, [TokEnd])
  else if Ascii.eqb c ch_semi then (QBetween, [TokEnd; Semi])
  else if Ascii.eqb c ch_open then (QBetween, [TokEnd; Open])
  else (QBare, []).

Definition step (q : lstate) (c : ascii) : lstate * list ev :=
  match q with
  | QErr => (QErr, [])
  | QComment => if Ascii.eqb c ch_lf then (QBetween, []) else (QComment, [])
  | QBareEsc => (QBare, [])
  | QDQEsc => (QDQ, [])
  | QSQEsc => (QSQ, [])
  | QNeedSpace =>
      if is_ws c then (QBetween, [])
      else if Ascii.eqb c ch_semi then (QBetween, [Semi])
      else if Ascii.eqb c ch_open then (QBetween, [Open])
      else if Ascii.eqb c ch_rparen then (QBare, [])
      else (QErr, [Err])
  | QBetween => step_between c
  | QVar => if Ascii.eqb c ch_open then (QVar, []) else step_bare c
  | QBare => step_bare c
  | QDQ =>
      if Ascii.eqb c ch_bs then (QDQEsc, [])
      else if Ascii.eqb c ch_dq then (QNeedSpace, [TokEnd])
      else (QDQ, [])
  | QSQ =>
      if Ascii.eqb c ch_bs then (QSQEsc, [])
      else if Ascii.eqb c ch_sq then (QNeedSpace, [TokEnd])
      else (QSQ, [])
  end.

Fixpoint run (q : lstate) (s : string) : lstate * list ev :=
  match s with
  | EmptyString => (q, [])
  | String c r =>
      let (q1, e1) := step q c in
      let (q2, e2) := run q1 r in
      (q2, e1 ++ e2)
  end.

(* R6 *)
Definition final_ok (q : lstate) : bool :=
  match q with QBetween | QComment => true | _ => false end.

(* ---------------------------------------------------------------- tokens with contents *)

Inductive token := TWord (w : string) | TSemi | TOpen | TClose.

Definition ev_of_token (t : token) : ev :=
  match t with TWord _ => TokEnd | TSemi => Semi | TOpen => Open | TClose => Close end.

(* the copy loop at the end of a word: backslash before a quote or a backslash is dropped,
   \t \r \n become the control byte, any other backslash pair is kept as it is *)
Fixpoint unescape (s : string) : string :=
  match s with
  | EmptyString => EmptyString
  | String c r =>
      if Ascii.eqb c ch_bs then
        match r with
        | EmptyString => String c EmptyString
        | String d r' =>
            if Ascii.eqb d ch_dq || Ascii.eqb d ch_sq || Ascii.eqb d ch_bs then String d (unescape r')
            else if Ascii.eqb d "t" then String ch_tab (unescape r')
            else if Ascii.eqb d "r" then String ch_cr (unescape r')
            else if Ascii.eqb d "n" then String ch_lf (unescape r')
            else String c (String d (unescape r'))
        end
      else String c (unescape r)
  end.

(* is the byte c, read in state q, part of the raw text of the current word? *)
Definition keeps (q : lstate) (c : ascii) : bool :=
  match q with
  | QBetween =>
      negb (is_ws c || Ascii.eqb c ch_semi || Ascii.eqb c ch_open || Ascii.eqb c ch_close
            || Ascii.eqb c ch_hash || Ascii.eqb c ch_dq || Ascii.eqb c ch_sq)
  | QBare | QVar =>
      negb (is_ws c || Ascii.eqb c ch_semi || Ascii.eqb c ch_open)
      || (match q with QVar => Ascii.eqb c ch_open | _ => false end)
  | QBareEsc | QDQEsc | QSQEsc => true
  | QDQ => negb (Ascii.eqb c ch_dq)
  | QSQ => negb (Ascii.eqb c ch_sq)
  | QNeedSpace => Ascii.eqb c ch_rparen
  | QComment | QErr => false
  end.

Definition word_of (acc : list ascii) : string := unescape (string_of_list_ascii (rev acc)).

Fixpoint toks_of (acc : list ascii) (evs : list ev) : list token :=
  match evs with
  | [] => []
  | TokEnd :: r => TWord (word_of acc) :: toks_of acc r
  | Semi :: r => TSemi :: toks_of acc r
  | Open :: r => TOpen :: toks_of acc r
  | Close :: r => TClose :: toks_of acc r
  | Err :: r => toks_of acc r
  end.

Definition ends_word (evs : list ev) : bool :=
  match evs with TokEnd :: _ => true | _ => false end.

(* lex_from q acc s: q = DFA state, acc = raw bytes of the current word so far (reversed) *)
Fixpoint lex_from (q : lstate) (acc : list ascii) (s : string) : option (list token) :=
  match s with
  | EmptyString => if final_ok q then Some [] else None
  | String c r =>
      let (q1, evs) := step q c in
      match q1 with
      | QErr => None
      | _ =>
          let acc1 := if ends_word evs then [] else if keeps q c then c :: acc else acc in
          match lex_from q1 acc1 r with
          | Some ts => Some (toks_of acc evs ++ ts)
          | None => None
          end
      end
  end.

Definition lex (s : string) : option (list token) := lex_from QBetween [] s.

(* the event view accepts the same strings *)
Definition no_err (evs : list ev) : bool :=
  forallb (fun e => match e with Err => false | _ => true end) evs.

Definition events_ok (s : string) : bool :=
  let (q, evs) := run QBetween s in final_ok q && no_err evs.
