//go:build verif

package main

// C13, last clause: "changes pushed through the NGINX Plus API are sent only to a worker that confirms the
// current version".  The guarantee rests on how main.go wires the clients (createPlusClient), so the real
// createPlusClient is run here against a stand-in for NGINX Plus in which every connection belongs to the worker
// generation that accepted it: after a reload new connections reach the new worker, idle keep-alive connections
// still reach the old one (which answers /configVersionCheck with its own, old, version).

import (
	"context"
	"encoding/json"
	"fmt"
	"net"
	"net/http"
	"os"
	"strings"
	"sync"
	"time"

	"github.com/nginx/kubernetes-ingress/internal/nginx"
)

type plusWrite struct {
	Method  string `json:"method"`
	Path    string `json:"path"`
	Worker   int    `json:"worker"`   // version of the worker that served the request
	Current  int    `json:"current"`  // version NGINX is at
	Expected int    `json:"expected"` // version the manager is at (the one a confirming worker must have)
}

type plusStep struct {
	Op     string      `json:"op"` // "push" | "spush" (stream) | "reload" | "badreload" (the manager moved on, NGINX did not) | "read"
	Err    bool        `json:"err"`
	Writes []plusWrite `json:"writes"`
}

type plusCase struct {
	Fam   string     `json:"fam"`
	ID    int        `json:"id"`
	Ops   []string   `json:"ops"`
	Steps []plusStep `json:"steps"`
	Error string     `json:"error,omitempty"`
}

type connKey struct{}

type fakePlus struct {
	mu      sync.Mutex
	current int
	writes  []plusWrite
}

func (f *fakePlus) handler(w http.ResponseWriter, r *http.Request) {
	worker, _ := r.Context().Value(connKey{}).(int)
	f.mu.Lock()
	cur := f.current
	f.mu.Unlock()
	switch {
	case strings.HasPrefix(r.URL.Path, "/configVersionCheck"):
		// the real worker compares the header with the version in ITS configuration
		if r.Header.Get("x-expected-config-version") == fmt.Sprint(worker) {
			w.WriteHeader(200)
		} else {
			w.WriteHeader(503)
		}
	case r.Method == http.MethodGet && strings.HasSuffix(r.URL.Path, "/servers"):
		w.Header().Set("Content-Type", "application/json")
		w.Write([]byte("[]"))
	case r.Method == http.MethodGet:
		w.Header().Set("Content-Type", "application/json")
		w.Write([]byte("[1,2,3,4,5,6,7,8,9]"))
	default:
		f.mu.Lock()
		f.writes = append(f.writes, plusWrite{Method: r.Method, Path: r.URL.Path, Worker: worker, Current: cur})
		f.mu.Unlock()
		w.Header().Set("Content-Type", "application/json")
		w.WriteHeader(201)
		w.Write([]byte(`{"id":1,"server":"10.0.0.1:80"}`))
	}
}

func (f *fakePlus) take() []plusWrite {
	f.mu.Lock()
	defer f.mu.Unlock()
	out := f.writes
	f.writes = nil
	if out == nil {
		out = []plusWrite{}
	}
	return out
}

func runPlusCase(c *plusCase) {
	defer func() {
		if r := recover(); r != nil {
			c.Error = fmt.Sprint("panic: ", r)
		}
	}()
	const sock = "/var/lib/nginx/nginx-plus-api.sock"
	if err := os.MkdirAll("/var/lib/nginx", 0o755); err != nil {
		c.Error = err.Error()
		return
	}
	os.Remove(sock)
	ln, err := net.Listen("unix", sock)
	if err != nil {
		c.Error = err.Error()
		return
	}
	defer os.Remove(sock)
	f := &fakePlus{}
	srv := &http.Server{Handler: http.HandlerFunc(f.handler),
		ConnContext: func(ctx context.Context, _ net.Conn) context.Context {
			f.mu.Lock()
			defer f.mu.Unlock()
			return context.WithValue(ctx, connKey{}, f.current)
		}}
	go srv.Serve(ln)
	defer srv.Close()

	work := os.Getenv("VERIF_WORK")
	if work == "" {
		work = "/verif/.work"
	}
	dir, err := os.MkdirTemp(work, "c13plus-")
	if err != nil {
		c.Error = err.Error()
		return
	}
	defer os.RemoveAll(dir)
	lm := nginx.VerifNewLocalManager(dir, dir+"/none.sock", 300*time.Millisecond, true)
	pc := createPlusClient(context.Background(), true, false, lm)
	for _, op := range c.Ops {
		st := plusStep{Op: op}
		switch op {
		case "push":
			st.Err = lm.UpdateServersInPlus("ups", []string{"10.0.0.1:80"}, nginx.ServerConfig{MaxFails: 1, FailTimeout: "10s"}) != nil
		case "spush":
			st.Err = lm.UpdateStreamServersInPlus("sups", []string{"10.0.0.1:53"}) != nil
		case "badreload":
			// the manager wrote a new configuration and counted a reload, but NGINX rejected it (or timed out): every
			// worker still has the old configuration and answers the version check of the new one with 503
			lm.VerifBumpVersion()
		case "read":
			_, e := pc.GetHTTPServers(context.Background(), "ups")
			st.Err = e != nil
		case "reload":
			// NGINX starts new workers with the new configuration; the old ones keep their open connections
			lm.VerifBumpVersion()
			f.mu.Lock()
			f.current++
			f.mu.Unlock()
		}
		st.Writes = f.take()
		for i := range st.Writes {
			st.Writes[i].Expected = lm.VerifConfigVersion()
		}
		c.Steps = append(c.Steps, st)
	}
}

func plusMain(out string, n int) {
	fh, err := os.Create(out)
	if err != nil {
		fmt.Fprintln(os.Stderr, err)
		os.Exit(3)
	}
	defer fh.Close()
	enc := json.NewEncoder(fh)
	seqs := [][]string{
		{"push"},
		{"read", "reload", "push"},
		{"push", "reload", "push"},
		{"read", "push", "reload", "read", "push", "reload", "push"},
		{"reload", "push", "push"},
		{"push", "reload", "reload", "push"},
		// a reload that NGINX did not follow: no push may reach a worker until one confirms the manager's version -
		// the first, the second and the third push alike, HTTP and stream upstreams
		{"badreload", "push", "push", "push"},
		{"push", "badreload", "push", "spush", "push"},
		{"badreload", "spush", "spush", "push"},
		{"reload", "push", "badreload", "push", "push", "reload", "spush"},
	}
	for i := 0; i < n; i++ {
		c := plusCase{Fam: "plusconn", ID: i, Ops: seqs[i%len(seqs)]}
		runPlusCase(&c)
		enc.Encode(c)
	}
}
