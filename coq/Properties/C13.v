(* C13 -- A reload is acknowledged only after NGINX serves the new configuration version.
   Only statements, each closed by [exact], each followed by Print Assumptions. *)
From Coq Require Import List ZArith String Bool.
From NIC Require Import Verify.Model Verify.Proofs Verify.Codec.
Import ListNotations.
Open Scope Z_scope.

(* An acknowledgement was produced by an answer with exactly the expected version, to a
   request that started before the deadline, and nothing answered earlier carried it.
   For every schedule (a total function, so unbounded), expected version, timeout, fuel. *)
Theorem C13_ack_only_on_exact :
  forall (sched : nat -> resp) (e D : Z) (fuel k : nat),
    wait fuel sched e D 0 0 = Acked k ->
    classify (sched k) = Some e /\ start_time sched 0 k < D /\
    forall j, (j < k)%nat -> classify (sched j) <> Some e.
Proof. exact ack_only_on_exact. Qed.
Print Assumptions C13_ack_only_on_exact.

(* Only an HTTP 200 whose body is, as a Go decimal integer, exactly the version counts:
   transport errors, non-200 answers and unparsable bodies are never a version. *)
Theorem C13_only_exact_200_counts :
  forall r e, classify r = Some e -> exists body l, r = Http 200 body l /\ atoi body = Some e.
Proof. exact only_exact_200_counts. Qed.
Print Assumptions C13_only_exact_200_counts.

(* If no request that starts before the deadline is answered with the expected version,
   the wait never acknowledges. *)
Theorem C13_timeout_fails :
  forall (sched : nat -> resp) (e D : Z) (fuel : nat),
    (forall i, 0 <= lat (sched i)) ->
    (forall j, start_time sched 0 j < D -> classify (sched j) <> Some e) ->
    forall k, wait fuel sched e D 0 0 <> Acked k.
Proof. exact timeout_fails. Qed.
Print Assumptions C13_timeout_fails.

(* A reported time-out really is one: the deadline had passed and nothing seen carried e. *)
Theorem C13_timeout_sound :
  forall (sched : nat -> resp) (e D : Z) (fuel n : nat),
    wait fuel sched e D 0 0 = TimedOut n ->
    D <= start_time sched 0 n /\ forall j, (j < n)%nat -> classify (sched j) <> Some e.
Proof. exact timeout_means_never_seen. Qed.
Print Assumptions C13_timeout_sound.

(* The first matching answer to a timely request is acknowledged (no spurious failure). *)
Theorem C13_first_timely_match_acknowledged :
  forall (sched : nat -> resp) (e D : Z) (fuel k : nat),
    (forall i, 0 <= lat (sched i)) -> (k < fuel)%nat ->
    classify (sched k) = Some e -> start_time sched 0 k < D ->
    (forall j, (j < k)%nat -> classify (sched j) <> Some e) ->
    wait fuel sched e D 0 0 = Acked k.
Proof. exact first_timely_match_acknowledged. Qed.
Print Assumptions C13_first_timely_match_acknowledged.

(* The fuel is an artefact: with latencies >= 1 ms, fuel >= timeout always suffices. *)
Theorem C13_fuel_is_enough :
  forall (sched : nat -> resp) (e D : Z),
    (forall i, 1 <= lat (sched i)) ->
    forall fuel now i, D - now <= Z.of_nat fuel -> wait fuel sched e D now i <> OutOfFuel.
Proof. exact wait_fuel_enough. Qed.
Print Assumptions C13_fuel_is_enough.

(* Versions are strictly increasing over any sequence of reloads with any outcomes. *)
Theorem C13_versions_strictly_increase :
  forall T f m script (i j : nat) vi vj,
    (i < j)%nat ->
    nth_error (map fst (reloads T f m script)) i = Some vi ->
    nth_error (map fst (reloads T f m script)) j = Some vj ->
    version m < vi < vj.
Proof. exact versions_strictly_increase. Qed.
Print Assumptions C13_versions_strictly_increase.

(* A reload reported as successful was confirmed by a worker answering exactly its version. *)
Theorem C13_reload_ok_confirmed :
  forall T f m sched m' v,
    reload T f m true sched = (m', v, ReloadOk) ->
    v = version m + 1 /\
    exists k, classify (sched k) = Some v /\ start_time sched 0 k < T /\
              forall j, (j < k)%nat -> classify (sched j) <> Some v.
Proof. exact reload_ok_confirmed. Qed.
Print Assumptions C13_reload_ok_confirmed.

(* The Plus API is called only after a 200 from the version check, carrying the
   current version in the request header. *)
Theorem C13_api_guarded :
  forall m check h, plus_update m check = ApiCall h ->
    h = version m /\ exists body l, check = Http 200 body l.
Proof. exact api_guarded. Qed.
Print Assumptions C13_api_guarded.

(* The writer and the reader of the version agree on the whole int64 range: the body of
   `return 200 <v>;` in the file the manager writes for version v (version_conf/show_Z, tied to
   the real template by evaluation in Cases.v) is read by the verify client as exactly v. *)
Theorem C13_written_version_is_read :
  forall v, min_int64 <= v <= max_int64 -> atoi (show_Z v) = Some v.
Proof. exact atoi_show_Z. Qed.
Print Assumptions C13_written_version_is_read.

(* Hence a worker serving the file of version v confirms expected version e iff e = v ... *)
Theorem C13_served_file_confirms_only_its_version :
  forall v e l, min_int64 <= v <= max_int64 ->
    (classify (Http 200 (show_Z v) l) = Some e <-> e = v).
Proof. exact served_file_confirms_only_its_version. Qed.
Print Assumptions C13_served_file_confirms_only_its_version.

(* ... and while every answering worker still serves the file of some other version (any
   latencies, any mix of older generations), the wait for e is never acknowledged. *)
Theorem C13_stale_workers_never_acknowledge :
  forall (sched : nat -> resp) (e D : Z) (fuel : nat),
    (forall i, exists v l, min_int64 <= v <= max_int64 /\ v <> e /\ sched i = Http 200 (show_Z v) l) ->
    forall k, wait fuel sched e D 0 0 <> Acked k.
Proof. exact stale_workers_never_acknowledge. Qed.
Print Assumptions C13_stale_workers_never_acknowledge.

Example C13_codec_nonvacuous :
  atoi (show_Z 9223372036854775807) = Some 9223372036854775807 /\
  atoi (show_Z (-9223372036854775808)) = Some (-9223372036854775808) /\
  atoi "9223372036854775808" = None.
Proof. vm_compute. repeat split. Qed.

(* Non-vacuity: a schedule with a stale version, an error, garbage, a non-200 carrying the
   right body, then the expected version, is acknowledged at index 4; the same schedule
   with a 60 ms timeout fails. *)
Definition ex_sched (i : nat) : resp :=
  nth i [Http 200 "6" 1; ConnErr 1; Http 200 "7x" 1; Http 500 "7" 1; Http 200 "7" 1] (ConnErr 1).
Example C13_nonvacuous_ack : wait 1000 ex_sched 7 1000 0 0 = Acked 4.
Proof. vm_compute. reflexivity. Qed.
Example C13_nonvacuous_timeout : exists n, wait 1000 ex_sched 8 60 0 0 = TimedOut n.
Proof. eexists. vm_compute. reflexivity. Qed.
