//go:build verif

package main

// The selector table of action.proxy.rewritePath (coq/Tmpl/Validators.v: rewrite_path_lang, rewrite_path_site)
// against the real code: for every kind of route path x kind of location
//   - the REAL validator's verdict (ValidateVirtualServer on a VirtualServer whose only route has that shape) on every
//     one-byte perturbation of accepted samples, and
//   - the tokenizer state at the place where the REAL generator + template printed the value.

import (
	"bytes"
	"strings"

	"github.com/nginx/kubernetes-ingress/internal/k8s"
	conf_v1 "github.com/nginx/kubernetes-ingress/pkg/apis/configuration/v1"
)

// SelectorRec is one row of the table.
type SelectorRec struct {
	Rec   string     `json:"rec"`  // "selector"
	Kind  string     `json:"kind"` // PKPrefix | PKExact | PKRegex | PKRegexI
	Loc   string     `json:"loc"`  // LTop | LTopWithMatches | LMatch | LSplit
	Site  string     `json:"site"` // constructor of Lex.Lexer.lstate observed where the value starts, "" if not found
	Rows  []SweepRow `json:"rows"`
	Error string     `json:"error,omitempty"`
}

var stateNames = []string{"QBetween", "QBare", "QBareEsc", "QVar", "QDQ", "QDQEsc", "QSQ", "QSQEsc", "QComment", "QNeedSpace", "QErr"}

// lexStateAt: the state of the Go transcription of the tokenizer after reading b[:off]
func lexStateAt(b []byte, off int) int {
	return lexRun(b[:off]).Final
}

func selectorVS(kind, loc, rewrite string) *conf_v1.VirtualServer {
	path := map[string]string{"PKPrefix": "/sel", "PKExact": "=/sel", "PKRegex": "~ ^/sel", "PKRegexI": "~* ^/sel"}[kind]
	proxy := &conf_v1.Action{Proxy: &conf_v1.ActionProxy{Upstream: "u", RewritePath: rewrite}}
	pass := &conf_v1.Action{Pass: "u"}
	cond := []conf_v1.Condition{{Header: "x-sel", Value: "a"}}
	r := conf_v1.Route{Path: path}
	switch loc {
	case "LTop":
		r.Action = proxy
	case "LTopWithMatches":
		r.Matches = []conf_v1.Match{{Conditions: cond, Action: pass}}
		r.Action = proxy
	case "LMatch":
		r.Matches = []conf_v1.Match{{Conditions: cond, Action: proxy}}
		r.Action = pass
	case "LSplit":
		r.Splits = []conf_v1.Split{{Weight: 50, Action: proxy}, {Weight: 50, Action: pass}}
	}
	vs := &conf_v1.VirtualServer{ObjectMeta: meta("sel")}
	vs.Spec = conf_v1.VirtualServerSpec{IngressClass: "nginx", Host: "sel.example.com",
		Upstreams: []conf_v1.Upstream{{Name: "u", Service: "svc1", Port: 80}}, Routes: []conf_v1.Route{r}}
	return vs
}

func selectorRecords(e *env) []SelectorRec {
	var out []SelectorRec
	w0 := &World{}
	clusterState(w0)
	val := k8s.VerifC06VSValidator(e.opts(w0, nil))
	for _, kind := range []string{"PKPrefix", "PKExact", "PKRegex", "PKRegexI"} {
		for _, loc := range []string{"LTop", "LTopWithMatches", "LMatch", "LSplit"} {
			rec := SelectorRec{Rec: "selector", Kind: kind, Loc: loc}
			accepts := func(s string) bool { return val.ValidateVirtualServer(selectorVS(kind, loc, s)) == nil }
			for _, smp := range []string{"/rw", "/a$1b"} {
				if !accepts(smp) {
					rec.Error = "sample " + smp + " is not accepted"
					continue
				}
				for mode := 0; mode < 2; mode++ {
					for pos := 0; pos <= len(smp)-mode; pos++ {
						bits := make([]byte, 256)
						for c := 0; c < 256; c++ {
							if accepts(smp[:pos] + string([]byte{byte(c)}) + smp[pos+mode:]) {
								bits[c] = '1'
							} else {
								bits[c] = '0'
							}
						}
						rec.Rows = append(rec.Rows, SweepRow{Sample: bytesOf(smp), Pos: pos, Mode: mode, Bits: string(bits)})
					}
				}
			}
			// where does the real generator print it?
			w := &World{}
			clusterState(w)
			w.Objs = []Obj{{Kind: "vs", Name: "sel", Val: selectorVS(kind, loc, "/ZZMARK9")}}
			r := e.runWorld(w)
			for _, f := range r.Files {
				if i := bytes.Index(f.Bytes, []byte("/ZZMARK9")); i >= 0 && strings.HasPrefix(f.Name, "conf.d/") {
					rec.Site = stateNames[lexStateAt(f.Bytes, i)]
					if j := bytes.LastIndex(f.Bytes, []byte("/ZZMARK9")); j != i && stateNames[lexStateAt(f.Bytes, j)] != rec.Site {
						rec.Error = "the value is printed at two sites of different kinds: " + rec.Site + " and " + stateNames[lexStateAt(f.Bytes, j)]
					}
				}
			}
			if rec.Site == "" && rec.Error == "" {
				rec.Error = "the value was not found in the rendering"
			}
			out = append(out, rec)
		}
	}
	return out
}
