"""C16 -- the controller acts only on resources of its own class."""
import json
from . import common as C, arb

ID, MASK, FIRST, D1, M1, D2, C2, CLS, NFOREIGN = range(9)


def raw_class(c):
    out = []
    for e in c["histories"][0]["events"]:
        m = e["m"]
        if "cls" not in m:
            continue
        sp = e["spec"]
        out.append("(%s, %s, %s, %s)" % (C.cq_bool(sp["kind"] == "ing"), C.cq_opt(sp.get("class_ann"), C.cq_str), C.cq_opt(sp.get("class_field"), C.cq_str),
                                         C.cq_bool(m["cls"])))
    return C.cq_list(out)


def evaluate(run, cases):
    return arb.evaluate(run, cases, fn="c16_case", with_erased=True, extra=raw_class)


def judge_owner(run, cases, rows1):
    """`the hosts it held pass to the next claimant`: after every event (class changes included) the owner of every host is the
    least claimant of the own-class, valid objects (the C01 specification, evaluated here because a class change is an event
    like any other for it)"""
    from .c01 import SP_H, SP_L
    for c in cases:
        if c.get("error") or c["id"] not in rows1:
            continue
        r = rows1[c["id"]]
        step = r[SP_H] or r[SP_L]
        if step:
            ev = c["histories"][0]["events"][step - 1]
            run.failing({"kind": "host-not-passed-to-next-claimant", "event_note": ev.get("note")}, [c],
                        "C16: after step %d of case %d (%s %s %s/%s, class ok=%s) some host or listener is not held by the least claimant among the valid resources of this controller's class "
                        "(a host a resource of another class held must pass to the next claimant, and only own-class resources may hold hosts)"
                        % (step, c["id"], ev.get("note"), ev["spec"]["kind"], ev["spec"].get("ns"), ev["spec"].get("name"), ev["m"].get("cls")),
                        theorem="Arb.Spec.hosts_spec_ok")


def judge(run, cases, rows):
    for c in cases:
        if c.get("error"):
            run.failing({"kind": "harness-case-error"}, [c], "harness could not run case %d: %s" % (c["id"], c["error"][:300]),
                        theorem="correspondence harness arb", found_input="panic" in c["error"])
            continue
        r = rows[c["id"]]
        run.count_case(arb.canon(c), r[NFOREIGN] > 0)
        run.cov["traces_validated_against_impl"] += 2
        if r[CLS] == 0:
            run.failing({"kind": "class-predicate"}, [c], "C16: HasCorrectIngressClass disagrees with the class rule (annotation first for Ingress, empty class only for custom resources) in case %d" % c["id"],
                        theorem="Arb.Cases.has_class")
        elif r[D1] != 0:
            run.failing({"kind": "interference", "components": r[M1]}, [c],
                        "C16: at step %d of case %d the outputs of the real Configuration differ between the history and the same history with every foreign-class event replaced by a deletion (mask %d)"
                        % (r[D1], c["id"], r[M1]), theorem="Arb.Cases.c16_run")
        elif r[D2] != 0:
            what = {1: "a change other than an error-free delete", 3: "a problem about the object"}[r[C2]]
            ev = c["histories"][0]["events"][r[D2] - 1]
            run.failing({"kind": "not-silent", "how": {1: "non-delete", 3: "problem"}[r[C2]]}, [c],
                        "C16: step %d of case %d moves %s %s/%s to a foreign class and is answered with %s" % (r[D2], c["id"], ev["spec"]["kind"], ev["spec"]["ns"], ev["spec"]["name"], what),
                        theorem="Arb.Cases.silent_for")
        elif r[MASK] != 0:
            run.failing({"kind": "correspondence", "components": r[MASK]}, [c],
                        "model and implementation disagree (mask %d, first step %d, case %d) while non-interference holds on the implementation" % (r[MASK], r[FIRST], c["id"]),
                        theorem="correspondence Arb.Model ~ internal/k8s/configuration.go", found_input=False)


CID, DX, DS, DC, DF, CNEV, DD, DK, DL = range(9)


def judge_ctl(run, cases, rows):
    """controller level: no Event and no status write of the real LoadBalancerController.sync names an object that is of a foreign class"""
    for c in cases:
        if c.get("error") or c["id"] not in rows:
            continue
        r = rows[c["id"]]
        run.cov["traces_validated_against_impl"] += 1
        run.cov["controller_events"] = run.cov.get("controller_events", 0) + sum(len(st["events"]) for st in c["ctl"])
        run.cov["controller_status_writes"] = run.cov.get("controller_status_writes", 0) + sum(len(st["writes"]) for st in c["ctl"])
        if r[DF] != 0:
            st = c["ctl"][r[DF] - 1]
            ev = c["histories"][0]["events"][r[DF] - 1]
            run.failing({"kind": "not-silent", "how": "event-or-status-on-foreign-object"}, [c],
                        "C16: at step %d of case %d (%s %s/%s) the real LoadBalancerController.sync recorded an Event or a status write on an object whose class designates another controller: events %s writes %s"
                        % (r[DF], c["id"], ev["spec"]["kind"], ev["spec"]["ns"], ev["spec"]["name"], json.dumps(st["events"])[:400], json.dumps(st["writes"])[:200]),
                        theorem="Arb.Cases.ctl_run (foreign_in_cluster)")
        if r[DD] != 0 and r[DK] == 1:
            ev = c["histories"][0]["events"][r[DD] - 1]
            run.failing({"kind": "class-change-not-delivered", "event_kind": ev["spec"]["kind"]}, [c],
                        "C16: at step %d of case %d the class of %s %s/%s changes (annotation %r, field %r) but the real informer update handler drops the event, so the controller "
                        "never learns that the resource is now %s" % (r[DD], c["id"], ev["spec"]["kind"], ev["spec"]["ns"], ev["spec"]["name"], ev["spec"].get("class_ann"),
                                                                     ev["spec"].get("class_field"), "its own" if ev["m"].get("cls") else "foreign"),
                        theorem="Arb.Cases.delivery_code")
        pp = c.get("policy_probe") or {}
        if pp.get("ran") and pp.get("before") and pp.get("after"):
            run.failing({"kind": "foreign-policy-still-contributes"}, [c],
                        "C16: after the history of case %d a VirtualServer of this controller uses an accessControl Policy; the Policy is edited in place so that its class designates another "
                        "controller (real policy handler, real lbc.sync): the rule it contributed (deny 10.11.12.13;) is still in the VirtualServer's file" % c["id"],
                        theorem="harness arb (VerifCtl.PolicyProbe)")
        elif pp and (not pp.get("ran") or not pp.get("before")):
            run.failing({"kind": "harness-case-error", "where": "policy-probe"}, [c],
                        "the policy probe could not be set up after case %d (Policy rule not rendered for an own-class Policy): %s" % (c["id"], json.dumps(pp)),
                        theorem="harness arb (VerifCtl.PolicyProbe)", found_input=False)
        wp = c.get("weight_probe") or {}
        if wp.get("stored") or wp.get("events") or wp.get("writes"):
            run.failing({"kind": "foreign-weight-update-stored"}, [c],
                        "C16: with -weight-changes-dynamic-reload a weight-only update of a VirtualServer of another class, delivered to the real informer update handler after the history "
                        "of case %d, %s; events %s, status writes %s" % (c["id"], "made this controller store it / claim its host" if wp.get("stored") else "was not stored",
                                                                       json.dumps(wp.get("events")), json.dumps(wp.get("writes"))),
                        theorem="harness arb (VerifCtl.WeightProbe)")
        wq = c.get("weight_probe_pending") or {}
        if wq.get("stored") or wq.get("events") or wq.get("writes"):
            run.failing({"kind": "foreign-weight-update-stored", "window": "class-change-pending"}, [c],
                        "C16: with -weight-changes-dynamic-reload, after the history of case %d: a served VirtualServer is edited to another class (the update waits in the queue) and a weight-only "
                        "update of the now foreign object reaches the real informer update handler before that task runs: %s; events %s, status writes %s"
                        % (c["id"], "the foreign object was stored in Configuration (or the handler panicked)" if wq.get("stored") else "not stored",
                           json.dumps(wq.get("events")), json.dumps(wq.get("writes"))),
                        theorem="harness arb (VerifCtl.WeightProbePending)")
        if r[DL] != 0:
            ld = c.get("leader") or {}
            run.failing({"kind": "not-silent", "how": "status-write-on-foreign-object-at-leader-start"}, [c],
                        "C16: acquiring leadership after the history of case %d (real OnStartedLeading), the controller wrote the status of %d object(s) whose class designates "
                        "another controller; writes: %s" % (c["id"], r[DL], json.dumps(ld.get("writes"))[:500]),
                        theorem="Arb.Cases.leader_foreign")


def judge_removed(run, cases, rows3):
    from . import c03
    for c in cases:
        if c.get("error") or c["id"] not in rows3:
            continue
        r = rows3[c["id"]]
        if r[c03.STEP] != 0 and r[c03.CODE] in (30, 31):
            ev = c["histories"][0]["events"][r[c03.STEP] - 1]
            run.failing({"kind": "configuration-not-removed" if r[c03.CODE] == 31 else "configuration-missing", "event_kind": ev["spec"]["kind"]}, [c],
                        "C16: applying the change batches returned by the real Configuration in order, after step %d of case %d (%s %s %s/%s, class annotation %r field %r) %s: %s"
                        % (r[c03.STEP], c["id"], ev["op"], ev["spec"]["kind"], ev["spec"].get("ns"), ev["spec"].get("name"), ev["spec"].get("class_ann"), ev["spec"].get("class_field"),
                           "something stays configured that is not active any more (a resource whose class changed away, or that lost its host to a claimant, was not removed)"
                           if r[c03.CODE] == 31 else "an active resource has no configuration", json.dumps(c03.describe(c, r[c03.STEP]))[:400]),
                        theorem="Arb.Cases.shadow_run")


def check(run):
    n = 250 if run.tier == "quick" else 5000
    run.proof_obligations()
    cases = arb.generate(run, n, ctl=True)
    rows = evaluate(run, cases)
    judge(run, cases, rows)
    judge_owner(run, cases, arb.evaluate(run, cases, tag="arb1"))
    part = cases[: (150 if run.tier == "quick" else 2500)]
    crow = arb.evaluate(run, part, fn="ctl_case", extra=arb.ctl_term, tag="arbctl")
    judge_ctl(run, part, crow)
    # "when a served resource's class changes away, its configuration is removed": the change batches applied in order must
    # leave nothing configured that is not active (the C03 shadow), and the files must be those of the active resources
    judge_removed(run, cases, arb.evaluate(run, cases, fn="c03_case", tag="arb3"))
    arb.judge_files(run, part, crow, "C16")
    run.cov["controller_level_histories"] = len(part)
    for c in cases[:2]:
        run.sample(arb.summarize_case(c))
    run.cov["foreign_class_events"] = sum(rows[c["id"]][NFOREIGN] for c in cases if not c.get("error"))
    run.cov["rule"] = ("histories of the arb harness (see C01) in which the class of Ingresses (annotation and field: matching, foreign, empty, both set) and of the custom resources "
                       "(matching, foreign, empty) is set, unset or flipped between other events; every history is run twice on the real Configuration: as is, and with every "
                       "foreign-class upsert replaced by a delete of that key; changes, problems, hosts, listener hosts and GetResources() are compared after every step; "
                       "non-trivial = the history contains at least one foreign-class event")
    run.cov["trusted_base"] = arb.TRUSTED
    run.cov["rule"] += ("; controller level: the same histories are fed through the real LoadBalancerController.sync (production constructor, fake clientsets, harness-filled informer stores) and "
                        "every recorded Event and status write is checked not to name an object that is of a foreign class at that moment; every event is also offered to the real informer "
                        "handler of its kind (add/update/delete) and an update may be dropped only if it is identical to the last event about the object; at the end of the history the "
                        "real OnStartedLeading callback runs on the cluster (every object has an Event in the API, three Policies of own/foreign/named class exist) and its status "
                        "writes must not name a foreign-class object; and a weight-only update of a foreign-class VirtualServer is delivered to the real update handler with "
                        "-weight-changes-dynamic-reload on: it must not be stored, claim a host, or receive events / status writes, also when the object was served a moment ago and the update "
                        "that moved it to the other class is still waiting in the queue; a Policy in use by an own-class VirtualServer (referenced from the spec, a route, spec and route, or two "
                        "routes, by case) is edited to another class through the real policy handler: its rule must leave the VirtualServer's file; and after every event the owner of every host is the least "
                        "own-class claimant (hosts pass to the next claimant)")
    run.assumptions += [
                        "Policies are not arbitrated by Configuration; their class filter (getPolicies) is covered by C08"]


def replay(run, path):
    cases = arb.replay_cases(run, path, ctl=True)
    rows = evaluate(run, cases)
    crow = arb.evaluate(run, cases, fn="ctl_case", extra=arb.ctl_term, tag="arbctl")
    for c in cases:
        if not c.get("error") and c["id"] in crow:
            print("replay case %d (controller level): first step at which a foreign-class object received an Event or status write = %d" % (c["id"], crow[c["id"]][DF]))
    judge_ctl(run, cases, crow)
    for c in cases:
        if not c.get("error"):
            r = rows[c["id"]]
            print("replay case %d: model mask=%d; first step where history and erased history differ=%d (mask %d); first non-silent foreign step=%d (code %d); class predicate ok=%d"
                  % (c["id"], r[MASK], r[D1], r[M1], r[D2], r[C2], r[CLS]))
    judge(run, cases, rows)
