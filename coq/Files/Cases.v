(* C10 -- evaluation of the model (X) and of the decidable specification (S) on what the harness
   observed on the real Configurator + LocalManager.  No proofs here. *)
From Coq Require Import List ZArith String Ascii Bool.
From NIC Require Import Base.Bytes Base.SMap Files.Model Files.Spec.
Import ListNotations.
Open Scope string_scope.
Open Scope Z_scope.

(* what is observed after every event *)
Record view := {
  v_confd : list (string * Z);
  v_stream : list (string * Z);
  v_hosts : list (string * string);
  v_ings : list string;
  v_merge : list string;
  v_minions : list (string * list string);
  v_vss : list string;
  v_tss : list string;
  v_pairs : list (string * (string * string))
}.

Definition world_view (w : world) : view :=
  {| v_confd := confd (dk w); v_stream := streamd (dk w); v_hosts := hosts (dk w);
     v_ings := keys (c_ings (cs w)); v_merge := keys (c_merge (cs w)); v_minions := c_minions (cs w);
     v_vss := keys (c_vss (cs w)); v_tss := keys (c_tss (cs w)); v_pairs := c_pairs (cs w) |}.

Fixpoint list_eqb {A} (eqb : A -> A -> bool) (a b : list A) : bool :=
  match a, b with
  | [], [] => true
  | x :: a', y :: b' => eqb x y && list_eqb eqb a' b'
  | _, _ => false
  end.

Definition pair_eqb {A B} (ea : A -> A -> bool) (eb : B -> B -> bool) (p q : A * B) : bool :=
  ea (fst p) (fst q) && eb (snd p) (snd q).

Definition view_eqb (a b : view) : bool :=
  list_eqb (pair_eqb String.eqb Z.eqb) (v_confd a) (v_confd b) &&
  list_eqb (pair_eqb String.eqb Z.eqb) (v_stream a) (v_stream b) &&
  list_eqb (pair_eqb String.eqb String.eqb) (v_hosts a) (v_hosts b) &&
  list_eqb String.eqb (v_ings a) (v_ings b) &&
  list_eqb String.eqb (v_merge a) (v_merge b) &&
  list_eqb (pair_eqb String.eqb (list_eqb String.eqb)) (v_minions a) (v_minions b) &&
  list_eqb String.eqb (v_vss a) (v_vss b) &&
  list_eqb String.eqb (v_tss a) (v_tss b) &&
  list_eqb (pair_eqb String.eqb (pair_eqb String.eqb String.eqb)) (v_pairs a) (v_pairs b).

(* ---------- diagnosis of an S failure (for the signature of a finding) ---------- *)

Definition pt_adds_event (e : event) : list (rid * string) :=
  flat_map (fun s => match s with
                     | EAdd (AddTS ns name _ pt host) =>
                         if is_passthrough pt host then [({| rk := KTS; rns := ns; rname := name |}, host)] else []
                     | _ => [] end) (esteps_of e).

Definition bit_collision := 1.   (* two Ingress keys whose ns-name concatenations coincide *)
Definition bit_leftover := 2.    (* file of a resource deleted while the controller was down *)
Definition bit_stale_pair := 4.  (* host of a TransportServer that stopped being passthrough *)
Definition bit_other := 8.

Definition lookup_l {V} (k : string) (l : list (string * V)) : option V :=
  match find (fun p => String.eqb k (fst p)) l with Some p => Some (snd p) | None => None end.

Definition collides_with_mentioned (r : rid) (mentioned : list rid) : bool :=
  kind_eqb (rk r) KIng &&
  existsb (fun q => kind_eqb (rk q) KIng && negb (rid_eqb q r) && String.eqb (file_of q) (file_of r)) mentioned.

Definition diagnose (o : view) (s : served) (mentioned : list rid) (cand : list (bool * string))
           (ptseen : list (rid * string)) : Z :=
  let obs_of (r : rid) := if is_stream r then v_stream o else v_confd o in
  (* served resources whose file is absent or carries something else *)
  let b1 := fold_left (fun acc p =>
      let r := fst p in
      match lookup_l (path_of r) (obs_of r) with
      | Some v => if v =? s_stamp (snd p) then acc
                  else Z.lor acc (if collides_with_mentioned r mentioned then bit_collision else bit_other)
      | None => Z.lor acc (if collides_with_mentioned r mentioned then bit_collision else bit_other)
      end) s 0 in
  (* files nobody served owns *)
  let extra (stream : bool) (l : list (string * Z)) := fold_left (fun acc f =>
      if existsb (fun p => Bool.eqb (is_stream (fst p)) stream && String.eqb (path_of (fst p)) (fst f)) s then acc
      else Z.lor acc (if existsb (fun c => Bool.eqb (fst c) stream && String.eqb (snd c) (fst f)) cand
                      then bit_leftover else bit_other)) l 0 in
  let b2 := Z.lor (extra false (v_confd o)) (extra true (v_stream o)) in
  (* passthrough map *)
  let exp := expected_hosts s in
  let b3 := fold_left (fun acc e => if pair_mem String.eqb e (v_hosts o) then acc else Z.lor acc bit_other) exp 0 in
  let b4 := fold_left (fun acc h =>
      if pair_mem String.eqb h exp then acc
      else Z.lor acc (if existsb (fun q => String.eqb (fst h) (snd q) &&
                                            String.eqb (snd h) (pt_socket (rns (fst q)) (rname (fst q))) &&
                                            match aget (fst q) s with
                                            | Some i => match s_pt i with None => true | Some h' => negb (String.eqb h' (fst h)) end
                                            | None => false end) ptseen
                      then bit_stale_pair else bit_other)) (v_hosts o) 0 in
  let b5 := if nodupb (map fst (v_confd o)) && nodupb (map fst (v_stream o)) && nodupb (map fst (v_hosts o)) then 0 else bit_other in
  Z.lor b1 (Z.lor b2 (Z.lor b3 (Z.lor b4 b5))).

(* candidates for left-over files: at a restart, the files of what was served and is not in the
   cluster; any later event that targets the resource removes the candidate *)
Definition cand_update (e : event) (s_before : served) (cand : list (bool * string)) : list (bool * string) :=
  let tg := targets_event e in
  let kept := filter (fun c => negb (existsb (fun r => Bool.eqb (is_stream r) (fst c) && String.eqb (path_of r) (snd c)) tg)) cand in
  match e with
  | Restart _ =>
      (kept ++ map (fun p => (is_stream (fst p), path_of (fst p)))
                   (filter (fun p => negb (existsb (rid_eqb (fst p)) tg)) s_before))%list
  | _ => kept
  end.

Record acc := {
  a_w : world; a_s : served; a_mentioned : list rid; a_cand : list (bool * string); a_ptseen : list (rid * string);
  a_k : Z; a_agree : bool; a_spec : bool; a_bits : Z; a_first_spec : Z; a_first_agree : Z; a_nontrivial : bool
}.

Definition hist_step (cleanup : bool) (a : acc) (eo : event * view) : acc :=
  let e := fst eo in let o := snd eo in
  let w' := event_step cleanup e (a_w a) in
  let s' := spec_event e (a_s a) in
  let mentioned := (targets_event e ++ a_mentioned a)%list in
  let cand := cand_update e (a_s a) (a_cand a) in
  let ptseen := (pt_adds_event e ++ a_ptseen a)%list in
  let ag := view_eqb (world_view w') o in
  let sp := spec_ok (v_confd o) (v_stream o) (v_hosts o) s' in
  {| a_w := w'; a_s := s'; a_mentioned := mentioned; a_cand := cand; a_ptseen := ptseen;
     a_k := a_k a + 1;
     a_agree := a_agree a && ag; a_spec := a_spec a && sp;
     a_bits := if sp then a_bits a else Z.lor (a_bits a) (diagnose o s' mentioned cand ptseen);
     a_first_spec := if negb sp && (a_first_spec a <? 0) then a_k a else a_first_spec a;
     a_first_agree := if negb ag && (a_first_agree a <? 0) then a_k a else a_first_agree a;
     a_nontrivial := a_nontrivial a || negb (match v_confd o, v_stream o with [], [] => true | _, _ => false end) |}.

Definition b2z (b : bool) : Z := if b then 1 else 0.

Definition has_restart (evs : list event) : bool := existsb (fun e => match e with Restart _ => true | _ => false end) evs.

(* row: [id; model agrees on every step; spec holds on every step; nontrivial; tag (1 no restart, 2 restart);
         diagnosis bits of the failing steps; first step where S fails (-1 none); first step where X fails (-1 none)] *)
Definition hist_case (id : Z) (cleanup : bool) (evs : list event) (obs : list view) : list Z :=
  let a0 := {| a_w := world0; a_s := []; a_mentioned := []; a_cand := []; a_ptseen := []; a_k := 0;
               a_agree := Nat.eqb (List.length evs) (List.length obs); a_spec := true; a_bits := 0;
               a_first_spec := -1; a_first_agree := -1; a_nontrivial := false |} in
  let a := fold_left (hist_step cleanup) (combine evs obs) a0 in
  [id; b2z (a_agree a); b2z (a_spec a); b2z (a_nontrivial a); if has_restart evs then 2 else 1;
   a_bits a; a_first_spec a; a_first_agree a].

(* the projections of the model after every event (for replay output) *)
Definition model_trace (cleanup : bool) (evs : list event) : list view :=
  snd (fold_left (fun st e => let w' := event_step cleanup e (fst st) in (w', (snd st ++ [world_view w'])%list)) evs (world0, [])).

(* ---------- names family ---------- *)

Fixpoint has_char (c : ascii) (s : string) : bool :=
  match s with EmptyString => false | String a r => Ascii.eqb a c || has_char c r end.

(* S: the name used when a resource is added and the name used when it is deleted by key are the
   same whenever neither component contains a slash *)
Definition names_case (id : Z) (ns name : string) (o_ing o_ing_key o_vs o_vs_key o_ts o_ts_key o_key : string) : list Z :=
  let key := ns_name_key ns name in
  let agree := String.eqb o_ing (ingress_file ns name) && String.eqb o_ing_key (key_to_file key) &&
               String.eqb o_vs (vs_file ns name) && String.eqb o_vs_key (vs_file_from_key key) &&
               String.eqb o_ts (ts_file ns name) && String.eqb o_ts_key (ts_file_from_key key) &&
               String.eqb o_key key in
  let slashfree := negb (has_char "/"%char ns) && negb (has_char "/"%char name) in
  let spec := if slashfree then String.eqb o_ing o_ing_key && String.eqb o_vs o_vs_key && String.eqb o_ts o_ts_key else true in
  [id; b2z agree; b2z spec; b2z (negb (String.eqb ns "") || negb (String.eqb name "")); if slashfree then 1 else 2; 0; -1; -1].

(* ---------- mgr family: LocalManager file methods, full listing of the root after every call ---------- *)

Definition mtouched (o : mop) : string := match o with MWrite f n _ => mpath f n | MDel f n => mpath f n end.

(* S on two consecutive observed listings, independent of the fold: the touched path now holds exactly
   the written bytes (or is absent after a delete) and every other path is as before *)
Definition mstep_ok (o : mop) (before after : list (string * string)) : bool :=
  let p := mtouched o in
  (match o with
   | MWrite _ _ c => match lookup_l p after with Some c' => String.eqb c c' | None => false end
   | MDel _ _ => match lookup_l p after with Some _ => false | None => true end
   end) &&
  nodupb (map fst after) &&
  forallb (fun e => String.eqb (fst e) p || pair_mem String.eqb e after) before &&
  forallb (fun e => String.eqb (fst e) p || pair_mem String.eqb e before) after.

Record macc := { m_m : smap string; m_prev : list (string * string); m_k : Z; m_agree : bool; m_spec : bool;
                 m_first_spec : Z; m_first_agree : Z }.

Definition mgr_step (a : macc) (oo : mop * list (string * string)) : macc :=
  let o := fst oo in let obs := snd oo in
  let m' := mstep o (m_m a) in
  let ag := list_eqb (pair_eqb String.eqb String.eqb) m' obs in
  let sp := mstep_ok o (m_prev a) obs in
  {| m_m := m'; m_prev := obs; m_k := m_k a + 1; m_agree := m_agree a && ag; m_spec := m_spec a && sp;
     m_first_spec := if negb sp && (m_first_spec a <? 0) then m_k a else m_first_spec a;
     m_first_agree := if negb ag && (m_first_agree a <? 0) then m_k a else m_first_agree a |}.

Definition mgr_case (id : Z) (ops : list mop) (obs : list (list (string * string))) : list Z :=
  let a0 := {| m_m := []; m_prev := []; m_k := 0; m_agree := Nat.eqb (List.length ops) (List.length obs);
               m_spec := true; m_first_spec := -1; m_first_agree := -1 |} in
  let a := fold_left mgr_step (combine ops obs) a0 in
  [id; b2z (m_agree a); b2z (m_spec a); b2z (negb (Nat.eqb (List.length ops) 0)); 3; 0; m_first_spec a; m_first_agree a].

(* ---------- namepair family: the real naming functions on two identities ---------- *)

(* S (independent of the model functions' output): on underscore- and slash-free components, equal
   VirtualServer / TransportServer file names and equal keys mean equal identities, equal Ingress file names
   mean equal ns-name concatenations (the known limit of that scheme, F08), and for each identity the name it
   is written under is the name it is deleted under.  The outputs are: ing, ing_key, vs, vs_key, ts, ts_key, key. *)
Definition namepair_case (id : Z) (ns1 n1 ns2 n2 : string) (oa ob : list string) : list Z :=
  let model (ns n : string) :=
    let key := ns_name_key ns n in
    [ingress_file ns n; key_to_file key; vs_file ns n; vs_file_from_key key; ts_file ns n; ts_file_from_key key; key] in
  let agree := list_eqb String.eqb oa (model ns1 n1) && list_eqb String.eqb ob (model ns2 n2) in
  let clean (s : string) := negb (has_char "/"%char s) && negb (has_char "_"%char s) in
  let same := String.eqb ns1 ns2 && String.eqb n1 n2 in
  let samecat := String.eqb (ns1 ++ "-" ++ n1) (ns2 ++ "-" ++ n2) in
  let nth_s (l : list string) (i : nat) := nth i l EmptyString in
  let inj (i : nat) (ok : bool) := negb (String.eqb (nth_s oa i) (nth_s ob i)) || ok in
  let own (l : list string) := String.eqb (nth_s l 0%nat) (nth_s l 1%nat) && String.eqb (nth_s l 2%nat) (nth_s l 3%nat) && String.eqb (nth_s l 4%nat) (nth_s l 5%nat) in
  let spec := if clean ns1 && clean n1 && clean ns2 && clean n2
              then Nat.eqb (List.length oa) 7%nat && Nat.eqb (List.length ob) 7%nat &&
                   inj 0%nat samecat && inj 1%nat samecat && inj 2%nat same && inj 3%nat same && inj 4%nat same && inj 5%nat same && inj 6%nat same &&
                   own oa && own ob
              else true in
  [id; b2z agree; b2z spec; b2z (negb same); 4; 0; -1; -1].

(* ---------- nsl family: namespace life cycle through the real controller ---------- *)

Definition served_of (adds : list addop) : served := fold_left (fun s a => aset (rid_of a) (info_of a) s) adds [].

Definition is_drain (e : nevent) : bool := match e with NDrain => true | _ => false end.

Record nacc := { na_st : nstate; na_obs : list (list addop * view); na_k : Z; na_agree : bool; na_spec : bool;
                 na_first_spec : Z; na_first_agree : Z; na_nontrivial : bool }.

(* at every drain: X = the listing is the image of what the model says is configured (and the watched
   namespaces agree); S = the listing is the image of what the cluster demands (given by the harness) *)
Definition nsl_step (a : nacc) (e : nevent) : nacc :=
  let st' := nstep e (na_st a) in
  if is_drain e then
    match na_obs a with
    | (expect, o) :: rest =>
        let ag := spec_ok (v_confd o) (v_stream o) (v_hosts o) (served_of (map addop_of (n_cfg st'))) &&
                  list_eqb String.eqb (v_ings o) (n_watched st') in
        let sp := spec_ok (v_confd o) (v_stream o) (v_hosts o) (served_of expect) in
        {| na_st := st'; na_obs := rest; na_k := na_k a + 1; na_agree := na_agree a && ag; na_spec := na_spec a && sp;
           na_first_spec := if negb sp && (na_first_spec a <? 0) then na_k a else na_first_spec a;
           na_first_agree := if negb ag && (na_first_agree a <? 0) then na_k a else na_first_agree a;
           na_nontrivial := na_nontrivial a || negb (match v_confd o, v_stream o with [], [] => true | _, _ => false end) |}
    | [] => {| na_st := st'; na_obs := []; na_k := na_k a + 1; na_agree := false; na_spec := na_spec a;
               na_first_spec := na_first_spec a; na_first_agree := na_first_agree a; na_nontrivial := na_nontrivial a |}
    end
  else {| na_st := st'; na_obs := na_obs a; na_k := na_k a; na_agree := na_agree a; na_spec := na_spec a;
          na_first_spec := na_first_spec a; na_first_agree := na_first_agree a; na_nontrivial := na_nontrivial a |}.

(* obs: per drain (expected served objects, view); the view's v_ings carries the sorted watched namespaces *)
Definition nsl_case (id : Z) (nss : list string) (evs : list nevent) (obs : list (list addop * view)) : list Z :=
  let a0 := {| na_st := nstate0 nss; na_obs := obs; na_k := 0; na_agree := true; na_spec := true;
               na_first_spec := -1; na_first_agree := -1; na_nontrivial := false |} in
  let a := fold_left nsl_step evs a0 in
  [id; b2z (na_agree a && match na_obs a with [] => true | _ => false end); b2z (na_spec a); b2z (na_nontrivial a); 5; 0;
   na_first_spec a; na_first_agree a].
