//go:build verif

package configs

import (
	"context"
	"path/filepath"
	"sort"

	"github.com/nginx/kubernetes-ingress/internal/configs/version1"
	"github.com/nginx/kubernetes-ingress/internal/configs/version2"
	"github.com/nginx/kubernetes-ingress/internal/nginx"
	conf_v1 "github.com/nginx/kubernetes-ingress/pkg/apis/configuration/v1"
	meta_v1 "k8s.io/apimachinery/pkg/apis/meta/v1"
)

// VerifC10NewConfigurator builds a Configurator the way cmd/nginx-ingress/main.go does (real
// template executors over the .tmpl files of repoRoot, default ConfigParams), over the given Manager.
func VerifC10NewConfigurator(ctx context.Context, repoRoot string, mgr nginx.Manager, plus bool, tlsPassthrough bool) (*Configurator, error) {
	dir := filepath.Join(repoRoot, "internal", "configs")
	main1, ing1 := "version1/nginx.tmpl", "version1/nginx.ingress.tmpl"
	vs2, ts2 := "version2/nginx.virtualserver.tmpl", "version2/nginx.transportserver.tmpl"
	if plus {
		main1, ing1 = "version1/nginx-plus.tmpl", "version1/nginx-plus.ingress.tmpl"
		vs2, ts2 = "version2/nginx-plus.virtualserver.tmpl", "version2/nginx-plus.transportserver.tmpl"
	}
	te1, err := version1.NewTemplateExecutor(filepath.Join(dir, main1), filepath.Join(dir, ing1))
	if err != nil {
		return nil, err
	}
	te2, err := version2.NewTemplateExecutor(filepath.Join(dir, vs2), filepath.Join(dir, ts2))
	if err != nil {
		return nil, err
	}
	static := &StaticConfigParams{
		HealthStatus:          true,
		HealthStatusURI:       "/nginx-health",
		NginxStatus:           true,
		NginxStatusAllowCIDRs: []string{"127.0.0.1"},
		NginxStatusPort:       8080,
		TLSPassthrough:        tlsPassthrough,
		TLSPassthroughPort:    443,
		NginxVersion:          nginx.NewVersion("nginx version: nginx/1.25.3 (nginx-plus-r31)"),
	}
	cnf := NewConfigurator(ConfiguratorParams{
		NginxManager:       mgr,
		StaticCfgParams:    static,
		Config:             NewDefaultConfigParams(ctx, plus),
		MGMTCfgParams:      NewDefaultMGMTConfigParams(ctx),
		TemplateExecutor:   te1,
		TemplateExecutorV2: te2,
		IsPlus:             plus,
		NginxVersion:       static.NginxVersion,
	})
	return cnf, nil
}

// VerifC10State is what the Configurator believes is on disk: the keys of its maps, sorted.
type VerifC10State struct {
	Ingresses []string    `json:"ingresses"`
	Mergeable []string    `json:"mergeable"`
	Minions   [][]string  `json:"minions"` // per key of cnf.minions (sorted): key followed by its sorted minion names
	VS        []string    `json:"vs"`
	TS        []string    `json:"ts"`
	Pairs     [][3]string `json:"pairs"` // key, host, unix socket
	ReloadsOn bool        `json:"reloads_on"`
}

func verifSortedKeys[V any](m map[string]V) []string {
	out := make([]string, 0, len(m))
	for k := range m {
		out = append(out, k)
	}
	sort.Strings(out)
	return out
}

// VerifC10State projects the unexported maps.
func (cnf *Configurator) VerifC10State() VerifC10State {
	st := VerifC10State{
		Ingresses: verifSortedKeys(cnf.ingresses),
		Mergeable: verifSortedKeys(cnf.mergeableIngresses),
		VS:        verifSortedKeys(cnf.virtualServers),
		TS:        verifSortedKeys(cnf.transportServers),
		Pairs:     [][3]string{},
		Minions:   [][]string{},
		ReloadsOn: cnf.isReloadsEnabled,
	}
	for _, k := range verifSortedKeys(cnf.tlsPassthroughPairs) {
		p := cnf.tlsPassthroughPairs[k]
		st.Pairs = append(st.Pairs, [3]string{k, p.Host, p.UnixSocket})
	}
	for _, k := range verifSortedKeys(cnf.minions) {
		st.Minions = append(st.Minions, append([]string{k}, verifSortedKeys(cnf.minions[k])...))
	}
	return st
}

// The file-name functions themselves (for the naming cases: the real functions on arbitrary strings).
func VerifC10KeyToFileName(key string) string     { return keyToFileName(key) }
func VerifC10VSFileNameFromKey(key string) string { return getFileNameForVirtualServerFromKey(key) }
func VerifC10TSFileNameFromKey(key string) string { return getFileNameForTransportServerFromKey(key) }
func VerifC10IngressFileName(ns, name string) string {
	return objectMetaToFileName(&meta_v1.ObjectMeta{Namespace: ns, Name: name})
}
func VerifC10NamespaceNameKey(ns, name string) string {
	return generateNamespaceNameKey(&meta_v1.ObjectMeta{Namespace: ns, Name: name})
}
func VerifC10VSFileName(ns, name string) string {
	return getFileNameForVirtualServer(&conf_v1.VirtualServer{ObjectMeta: meta_v1.ObjectMeta{Namespace: ns, Name: name}})
}
func VerifC10TSFileName(ns, name string) string {
	return getFileNameForTransportServer(&conf_v1.TransportServer{ObjectMeta: meta_v1.ObjectMeta{Namespace: ns, Name: name}})
}
