(* C20 -- evaluation of the model (X) and of the decidable specification (S) on the histories the
   harness observed on the implementation.  No proofs here. *)
From Coq Require Import List ZArith String Ascii Bool.
From NIC Require Import Base.Bytes Base.SMap Sync.Model.
Import ListNotations.
Open Scope string_scope.
Open Scope Z_scope.

(* ------------------------------------------------------------------ equalities on inputs *)

Definition fault_eqb (a b : fault) : bool :=
  match a, b with
  | FConflict, FConflict | FExists, FExists | FInternal, FInternal => true
  | _, _ => false
  end.
Definition result_eqb (a b : result) : bool :=
  match a, b with
  | ROk, ROk | ROther, ROther => true
  | RFault f, RFault g => fault_eqb f g
  | _, _ => false
  end.
Definition verb_eqb (a b : verb) : bool :=
  match a, b with
  | VCreate, VCreate | VUpdate, VUpdate | VDelete, VDelete => true
  | _, _ => false
  end.
Definition action_eqb (a b : action) : bool := verb_eqb (fst a) (fst b) && String.eqb (snd a) (snd b).

Definition dur_eqb (a b : dur) : bool :=
  match a, b with
  | DNone, DNone | DBad, DBad => true
  | DOk x, DOk y => Z.eqb x y
  | _, _ => false
  end.
Definition certmgr_eqb (a b : certmgr) : bool :=
  String.eqb (cm_cluster_issuer a) (cm_cluster_issuer b) && String.eqb (cm_issuer a) (cm_issuer b) &&
  String.eqb (cm_issuer_kind a) (cm_issuer_kind b) && String.eqb (cm_issuer_group a) (cm_issuer_group b) &&
  String.eqb (cm_common_name a) (cm_common_name b) && dur_eqb (cm_duration a) (cm_duration b) &&
  dur_eqb (cm_renew_before a) (cm_renew_before b) && String.eqb (cm_usages a) (cm_usages b) &&
  Bool.eqb (cm_issue_temp a) (cm_issue_temp b).
Definition tls_eqb (a b : tls) : bool :=
  String.eqb (t_secret a) (t_secret b) && opt_eqb certmgr_eqb (t_cm a) (t_cm b).
Definition extdns_eqb (a b : extdns) : bool :=
  Bool.eqb (x_enable a) (x_enable b) && String.eqb (x_rtype a) (x_rtype b) && Z.eqb (x_ttl a) (x_ttl b) &&
  opt_eqb kvs_eqb (x_labels a) (x_labels b) && kvs_eqb (x_provider a) (x_provider b).
Definition ipclass_eqb (a b : ipclass) : bool :=
  match a, b with IPv4, IPv4 | IPv6, IPv6 | IPBad, IPBad => true | _, _ => false end.
Definition extep_eqb (a b : extep) : bool :=
  String.eqb (ee_ip a) (ee_ip b) && String.eqb (ee_host a) (ee_host b) && ipclass_eqb (ee_class a) (ee_class b).
Definition vs_eqb (a b : vs) : bool :=
  String.eqb (v_name a) (v_name b) && String.eqb (v_uid a) (v_uid b) && kvs_eqb (v_labels a) (v_labels b) &&
  String.eqb (v_host a) (v_host b) && opt_eqb tls_eqb (v_tls a) (v_tls b) && extdns_eqb (v_xdns a) (v_xdns b) &&
  opt_eqb (list_eqb extep_eqb) (v_endpoints a) (v_endpoints b).

Definition store_eqb {A} (eqb : A -> A -> bool) (a b : smap A) : bool :=
  list_eqb (fun x y => String.eqb (fst x) (fst y) && eqb (snd x) (snd y)) a b.

(* ------------------------------------------------------------------ observed steps *)

Record ostep := mkOstep {
  os_vs : vs; os_cf : faults; os_df : faults;
  os_clog : list action; os_cres : result; os_cstore : smap cert;      (* store after the step *)
  os_dlog : list action; os_dres : result; os_dstore : smap dnsep;
  os_nox : bool;                         (* delivery family, a write of this step failed: the worker loop retried with whatever the
                                            watch had delivered by then; only the specification is judged, on the final cluster *)
  os_cpre : option (smap cert);          (* the cluster before the step, when somebody else changed it since the last step *)
  os_dpre : option (smap dnsep);
  os_ccache : option (smap cert);        (* the lister caches before the step, when they differ from the cluster *)
  os_dcache : option (smap dnsep);
  os_cache_mutated : bool;               (* the synchronization changed a lister-cache object in place *)
  os_unexpected : bool;                  (* an action elsewhere (other resource / namespace), a changed decoy, a panic *)
  os_fcert : option cert; os_fcres : result;   (* a first-time synchronization on an empty cluster *)
  os_fdns : option dnsep; os_fdres : result }.

(* lister order reconstructed from the Delete actions the implementation issued: those names first,
   in that order, then whatever else is to be removed *)
Definition ord_of (log : list action) (cands : list string) : list string :=
  let dels := map snd (filter (fun a => verb_eqb (fst a) VDelete) log) in
  filter (fun n => existsb (String.eqb n) cands) dels ++
  filter (fun n => negb (existsb (String.eqb n) dels)) cands.

Definition singleton {A} (name : A -> string) (o : option A) : smap A :=
  match o with Some x => [(name x, x)] | None => [] end.

(* X: the model reproduces log, error class and store of both controllers, and the first-time objects *)
Definition x_step (cs : cmpset) (prec : smap cert) (pred : smap dnsep) (s : ostep) : bool :=
  os_nox s ||
  let ccache := match os_ccache s with Some c => c | None => prec end in
  let dcache := match os_dcache s with Some d => d | None => pred end in
  let '(c', cl, cr) := sync_cert2 cs (ord_of (os_clog s)) (os_vs s) (os_cf s) ccache prec in
  let '(d', dl, dr) := sync_dns2 (os_vs s) (os_df s) dcache pred in
  let '(fc, _, fcr) := sync_cert cs (fun l => l) (os_vs s) [] [] in
  let '(fd, _, fdr) := sync_dns (os_vs s) [] [] in
  store_eqb cert_eqb c' (os_cstore s) && list_eqb action_eqb cl (os_clog s) && result_eqb cr (os_cres s) &&
  store_eqb dnsep_eqb d' (os_dstore s) && list_eqb action_eqb dl (os_dlog s) && result_eqb dr (os_dres s) &&
  negb (os_unexpected s) && negb (os_cache_mutated s) &&
  store_eqb cert_eqb fc (singleton c_name (os_fcert s)) && result_eqb fcr (os_fcres s) &&
  store_eqb dnsep_eqb fd (singleton d_name (os_fdns s)) && result_eqb fdr (os_fdres s).

(* ------------------------------------------------------------------ S: the four properties, on the
   implementation's own logs and stores (the model's sync functions are not used here) *)

(* no write or delete targets an object that the VirtualServer does not control; creates only where
   nothing exists; every object not controlled by it is still there, unchanged *)
Definition s_foreign {A} (own : A -> owner) (eqb : A -> A -> bool) (uid : string)
           (pre post : smap A) (log : list action) : bool :=
  forallb (fun a => match fst a, lookup (snd a) pre with
                    | VCreate, None => true
                    | VCreate, Some _ => false
                    | _, Some o => controlled_by (own o) uid
                    | _, None => false
                    end) log &&
  forallb (fun kv => controlled_by (own (snd kv)) uid ||
                     match lookup (fst kv) post with Some o => eqb o (snd kv) | None => false end) pre.

(* precondition shared with the theorems: owned Certificates are named after their secret *)
Definition consistent_b (uid : string) (st : smap cert) : bool :=
  forallb (fun kv => negb (controlled_by (c_owner (snd kv)) uid) ||
                     (String.eqb (c_secret (c_spec (snd kv))) (c_name (snd kv)) && String.eqb (c_name (snd kv)) (fst kv))) st.

(* bit mask of the fields in which the stored Certificate differs from the first-time one *)
Definition cert_diff (a b : cert) : Z :=
  (if opt_eqb Z.eqb (c_dur (c_spec a)) (c_dur (c_spec b)) then 0 else 1) +
  (if opt_eqb Z.eqb (c_renew (c_spec a)) (c_renew (c_spec b)) then 0 else 2) +
  (if strs_eqb (c_usages (c_spec a)) (c_usages (c_spec b)) then 0 else 4) +
  (if String.eqb (c_igroup (c_spec a)) (c_igroup (c_spec b)) then 0 else 8) +
  (if opt_eqb String.eqb (c_temp a) (c_temp b) then 0 else 16) +
  (if Bool.eqb (c_is_ca (c_spec a)) (c_is_ca (c_spec b)) then 0 else 32) +
  (if String.eqb (c_name a) (c_name b) && owner_eqb (c_owner a) (c_owner b) && kvs_eqb (c_labels a) (c_labels b) &&
      String.eqb (c_cn (c_spec a)) (c_cn (c_spec b)) && strs_eqb (c_dns (c_spec a)) (c_dns (c_spec b)) &&
      String.eqb (c_secret (c_spec a)) (c_secret (c_spec b)) && String.eqb (c_iname (c_spec a)) (c_iname (c_spec b)) &&
      String.eqb (c_ikind (c_spec a)) (c_ikind (c_spec b)) then 0 else 64).

Definition secret_of (v : vs) : string := match v_tls v with Some t => t_secret t | None => "" end.

(* after a successful synchronization the object the VirtualServer controls (or that did not exist)
   equals what a first-time synchronization creates.  0 = holds / not applicable. *)
Definition s_fresh_cert (s : ostep) (pre : smap cert) : Z :=
  let v := os_vs s in
  if negb (cert_feature_on v) || negb (result_eqb (os_cres s) ROk) || negb (consistent_b (v_uid v) pre) then 0 else
  let mine := match lookup (secret_of v) pre with None => true | Some o => controlled_by (c_owner o) (v_uid v) end in
  if negb mine then 0 else
  match lookup (secret_of v) (os_cstore s), os_fcert s with
  | Some o, Some f => cert_diff o f
  | _, _ => 128
  end.

Definition s_fresh_dns (s : ostep) (pre : smap dnsep) : Z :=
  let v := os_vs s in
  if negb (x_enable (v_xdns v)) || negb (result_eqb (os_dres s) ROk) then 0 else
  let mine := match lookup (v_name v) pre with None => true | Some o => controlled_by (d_owner o) (v_uid v) end in
  if negb mine then 0 else
  match lookup (v_name v) (os_dstore s), os_fdns s with
  | Some o, Some f => if dnsep_eqb o f then 0 else 1
  | _, _ => 128
  end.

(* after a successful synchronization no object controlled by the VirtualServer is left other than
   the one it needs.  1 = Certificate left after the cert-manager block was removed, 2 = DNSEndpoint
   left after ExternalDNS was switched off, 4 = Certificate under another name, 8 = DNSEndpoint under
   another name *)
Definition s_gc (s : ostep) (prec : smap cert) : Z :=
  let v := os_vs s in
  (if result_eqb (os_cres s) ROk && consistent_b (v_uid v) prec then
     if cert_feature_on v then
       (if forallb (fun kv => negb (controlled_by (c_owner (snd kv)) (v_uid v)) || String.eqb (fst kv) (secret_of v)) (os_cstore s)
        then 0 else 4)
     else (if existsb (fun kv => controlled_by (c_owner (snd kv)) (v_uid v)) (os_cstore s) then 1 else 0)
   else 0) +
  (if result_eqb (os_dres s) ROk then
     if x_enable (v_xdns v) then
       (if forallb (fun kv => negb (controlled_by (d_owner (snd kv)) (v_uid v)) || String.eqb (fst kv) (v_name v)) (os_dstore s)
        then 0 else 8)
     else (if existsb (fun kv => controlled_by (d_owner (snd kv)) (v_uid v)) (os_dstore s) then 2 else 0)
   else 0).

(* a second synchronization of the same VirtualServer after a successful one writes nothing.
   1 = the Certificate controller wrote, 2 = the DNSEndpoint controller wrote, 4 = it wrote and the
   VirtualServer has externalDNS.labels: {} (empty, non-nil) *)
Definition is_none {A} (o : option A) : bool := match o with None => true | Some _ => false end.

Definition s_idem (prev : option (ostep * smap cert)) (s : ostep) : Z :=
  match prev with
  | None => 0
  | Some (p, prec) =>     (* prec: the store the previous synchronization started from *)
      if vs_eqb (os_vs p) (os_vs s) then
        (if result_eqb (os_cres p) ROk && consistent_b (v_uid (os_vs s)) prec && is_none (os_cpre s) then
           match os_clog s with [] => 0 | _ => 1 end else 0) +
        (if result_eqb (os_dres p) ROk && is_none (os_dpre s) then
           match os_dlog s with
           | [] => 0
           | _ => match x_labels (v_xdns (os_vs s)) with Some [] => 4 | _ => 2 end
           end else 0)
      else 0
  end.

(* ------------------------------------------------------------------ one observed history *)

Record verdict := mkVerdict {
  vd_x_bad : Z;        (* index of the first step on which model and implementation disagree, -1 if none *)
  vd_foreign_bad : Z;  (* index of the first step that touches a foreign object, -1 if none *)
  vd_cache_bad : Z;    (* index of the first step that wrote into a lister-cache object, -1 if none *)
  vd_idem : Z; vd_fresh_c : Z; vd_fresh_d : Z; vd_gc : Z;      (* or-ed masks over the steps *)
  vd_writes : Z; vd_tags : Z }.

Definition tag_of (s : ostep) (prec : smap cert) (pred : smap dnsep) : Z :=
  let v := os_vs s in
  Z.lor (if existsb (fun a => verb_eqb (fst a) VCreate) (os_clog s ++ os_dlog s) then 1 else 0)
 (Z.lor (if existsb (fun a => verb_eqb (fst a) VUpdate) (os_clog s ++ os_dlog s) then 2 else 0)
 (Z.lor (if existsb (fun a => verb_eqb (fst a) VDelete) (os_clog s) then 4 else 0)
 (Z.lor (match os_cres s, os_dres s with RFault _, _ | _, RFault _ => 8 | _, _ => 0 end)
 (Z.lor (match lookup (secret_of v) prec with
         | Some o => if cert_feature_on v && negb (controlled_by (c_owner o) (v_uid v)) then 16 else 0 | None => 0 end)
 (Z.lor (match lookup (v_name v) pred with
         | Some o => if x_enable (v_xdns v) && negb (controlled_by (d_owner o) (v_uid v)) then 32 else 0 | None => 0 end)
        (match os_cres s, os_dres s with ROther, _ | _, ROther => 64 | _, _ => 0 end)))))).

Fixpoint walk (cs : cmpset) (i : Z) (prev : option (ostep * smap cert)) (prec : smap cert) (pred : smap dnsep)
         (steps : list ostep) (acc : verdict) : verdict :=
  match steps with
  | [] => acc
  | s :: r =>
      let prec := match os_cpre s with Some p => p | None => prec end in
      let pred := match os_dpre s with Some p => p | None => pred end in
      let uid := v_uid (os_vs s) in
      let xok := x_step cs prec pred s in
      let fok := s_foreign c_owner cert_eqb uid prec (os_cstore s) (os_clog s) &&
                 s_foreign d_owner dnsep_eqb uid pred (os_dstore s) (os_dlog s) && negb (os_unexpected s) in
      let acc' := {| vd_x_bad := if (vd_x_bad acc <? 0) && negb xok then i else vd_x_bad acc;
                     vd_foreign_bad := if (vd_foreign_bad acc <? 0) && negb fok then i else vd_foreign_bad acc;
                     vd_cache_bad := if (vd_cache_bad acc <? 0) && os_cache_mutated s then i else vd_cache_bad acc;
                     vd_idem := Z.lor (vd_idem acc) (s_idem prev s);
                     vd_fresh_c := Z.lor (vd_fresh_c acc) (s_fresh_cert s prec);
                     vd_fresh_d := Z.lor (vd_fresh_d acc) (s_fresh_dns s pred);
                     vd_gc := Z.lor (vd_gc acc) (s_gc s prec);
                     vd_writes := vd_writes acc + Z.of_nat (List.length (os_clog s) + List.length (os_dlog s));
                     vd_tags := Z.lor (vd_tags acc) (tag_of s prec pred) |} in
      walk cs (i + 1) (Some (s, prec)) (os_cstore s) (os_dstore s) r acc'
  end.

(* row: [id; model agrees; spec holds; nontrivial; tags; first X-bad step; first foreign-bad step;
         idem mask; fresh-cert mask; fresh-dns mask; gc mask; writes; first cache-mutating step] *)
Definition c20_case (id : Z) (cs : cmpset) (initc : smap cert) (initd : smap dnsep) (steps : list ostep) : list Z :=
  let v := walk cs 0 None initc initd steps (mkVerdict (-1) (-1) (-1) 0 0 0 0 0 0) in
  let spec := (vd_foreign_bad v <? 0) && (vd_cache_bad v <? 0) && (vd_idem v =? 0) && (vd_fresh_c v =? 0) && (vd_fresh_d v =? 0) && (vd_gc v =? 0) in
  [id; if vd_x_bad v <? 0 then 1 else 0; if spec then 1 else 0; if 0 <? vd_writes v then 1 else 0; vd_tags v;
   vd_x_bad v; vd_foreign_bad v; vd_idem v; vd_fresh_c v; vd_fresh_d v; vd_gc v; vd_writes v; vd_cache_bad v].
