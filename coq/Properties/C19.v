(* C19 -- App Protect arbitration: one signature set per tag, policy usable iff satisfiable, DoS
   protected resources usable iff their references resolve; order-independent; changes reported.
   Only statements, each closed by [exact], each followed by Print Assumptions.

   Model:  AppProtect/Model.v  (step : state -> event -> state * output, run en evs = fold_left)
   Spec:   AppProtect/Spec.v   (answers as a function of the current object set only)
   fx          : the code variant -- false = /repo as it is, true = /repo with fixes/F21.diff applied
                 (isReqSatisfiedByUserSig accepts a requirement without bounds); every theorem is for
                 both variants unless it fixes fx.
   K1_hist evs : after every event of the history the stored APUserSig objects have distinct uids
                 (API-server assumption K1; nothing else is assumed about the history: updates may
                 change tags, timestamps, validity; deletes may hit absent keys). *)
From Coq Require Import List ZArith String Bool Permutation.
From NIC Require Import Base.SMap AppProtect.Model AppProtect.Spec AppProtect.ProofsBase AppProtect.ProofsSig
     AppProtect.ProofsInv AppProtect.ProofsAnswers AppProtect.ProofsReport AppProtect.ProofsReport2
     AppProtect.ProofsFinal AppProtect.ProofsRefuted AppProtect.ProofsCtl.
Import ListNotations.
Open Scope string_scope.
Open Scope Z_scope.

(* The invariant, as an equality of states: after EVERY history the two configurations are in
   exactly the state rebuilt from scratch from the current objects. *)
Theorem C19_state_is_rebuilt :
  forall (fx en : bool) (evs : list event), K1_hist evs -> run fx en evs = spec_state fx en (final_objects evs).
Proof. exact @run_is_spec_state. Qed.
Print Assumptions C19_state_is_rebuilt.

(* FULL STATEMENT (false, see C19_revtime_refuted):
     forall en evs, K1_hist evs ->
       (forall kd key, get_app_resource (waf (run en evs)) kd key = spec_answer acceptable (final_objects evs) kd key) /\ ...
   Proved: the same with the revision-time test as coded ([acceptable_as_coded] differs from
   [acceptable] only for a requirement without bounds against a dated signature) ... *)
Theorem C19_flags_are_spec_as_coded :
  forall (fx en : bool) (evs : list event), K1_hist evs ->
    (forall kd key, get_app_resource (waf (run fx en evs)) kd key =
                    spec_answer (acceptable_for fx) (final_objects evs) kd key) /\
    (forall ns nm, get_valid_dos_ex (dos (run fx en evs)) ns nm = spec_dos_answer en (final_objects evs) ns nm).
Proof. exact @flags_are_spec_as_coded. Qed.
Print Assumptions C19_flags_are_spec_as_coded.

(* ... and the full statement for every history whose final objects contain no pair
   (requirement with a tag and no bound, signature with that tag and a revision time). *)
Theorem C19_flags_are_spec :
  forall (fx en : bool) (evs : list event), K1_hist evs -> fx = true \/ f21_free (final_objects evs) ->
    (forall kd key, get_app_resource (waf (run fx en evs)) kd key = spec_answer acceptable (final_objects evs) kd key) /\
    (forall ns nm, get_valid_dos_ex (dos (run fx en evs)) ns nm = spec_dos_answer en (final_objects evs) ns nm).
Proof. exact @flags_are_spec. Qed.
Print Assumptions C19_flags_are_spec.

(* Without that restriction the property text fails of the faithful model: F21. *)
Theorem C19_revtime_refuted :
  exists (evs : list event) (k ks : string),
    pol_class w_pol = ENone /\
    lookup k (ob_pol (final_objects evs)) = Some w_pol /\
    spec_sig_answer (ob_sig (final_objects evs)) ks = AOk /\
    spec_pol_answer acceptable (final_objects evs) k = AOk /\
    get_app_resource (waf (run false true evs)) KPolicy k = AErr EMissing /\
    get_app_resource (waf (run false true (rev evs))) KPolicy k = AErr EMissing.
Proof. exact revtime_refuted. Qed.
Print Assumptions C19_revtime_refuted.

(* With fixes/F21.diff applied (variant fx = true; the harness probes which variant the tree has)
   the FULL statement holds for every history, and the witness above becomes usable. *)
Theorem C19_flags_are_spec_with_fix :
  forall (en : bool) (evs : list event), K1_hist evs ->
    (forall kd key, get_app_resource (waf (run true en evs)) kd key = spec_answer acceptable (final_objects evs) kd key) /\
    (forall ns nm, get_valid_dos_ex (dos (run true en evs)) ns nm = spec_dos_answer en (final_objects evs) ns nm).
Proof. exact flags_are_spec_with_fix. Qed.
Print Assumptions C19_flags_are_spec_with_fix.

Theorem C19_revtime_repaired :
  let evs := [EvUserSig "n1/a" w_sig; EvPolicy "n1/a" w_pol] in
  get_app_resource (waf (run true true evs)) KPolicy "n1/a" = AOk /\
  get_app_resource (waf (run true true (rev evs))) KPolicy "n1/a" = AOk.
Proof. exact revtime_repaired. Qed.
Print Assumptions C19_revtime_repaired.

(* Among the well-formed signatures declaring the same tag exactly one -- the oldest -- is in
   force, the others answer "duplicate tag set". *)
Theorem C19_one_in_force_per_tag :
  forall (fx en : bool) (evs : list event), K1_hist evs ->
    let S := ob_sig (final_objects evs) in
    forall k0 o0, In (k0, o0) S -> sig_competes o0 = true ->
    exists k o, In (k, o) S /\ sig_competes o = true /\ so_tag o = so_tag o0 /\
                get_app_resource (waf (run fx en evs)) KUserSig k = AOk /\
                forall k' o', In (k', o') S -> k' <> k -> sig_competes o' = true -> so_tag o' = so_tag o0 ->
                              older o o' = true /\
                              get_app_resource (waf (run fx en evs)) KUserSig k' = AErr EDup.
Proof. exact @one_in_force_per_tag. Qed.
Print Assumptions C19_one_in_force_per_tag.

(* Which resources are in force depends only on the current objects: two histories (in
   particular two permutations) with the same final objects leave the SAME state, hence the same
   answers now and the same behaviour on every later event. *)
Theorem C19_order_independent :
  forall (fx en : bool) (evs1 evs2 : list event),
    K1_hist evs1 -> K1_hist evs2 -> final_objects evs1 = final_objects evs2 -> run fx en evs1 = run fx en evs2.
Proof. exact @order_independent_state. Qed.
Print Assumptions C19_order_independent.

(* The winner of a tag does not depend on the order in which Go's map iteration presents the
   group to sort.Sort, nor on the sorting algorithm: all sorted permutations coincide (K1). *)
Theorem C19_winner_independent_of_iteration_order :
  forall l l' : list (string * UserSigEx),
    NoDup (map uid_of l) -> Permutation l l' -> sig_sort l = sig_sort l'.
Proof. exact sig_sort_perm_invariant. Qed.
Print Assumptions C19_winner_independent_of_iteration_order.

(* Every change of usability of a policy, log configuration or DoS protected resource appears in
   the returned change list with the right operation, and with a problem when the resource is
   still stored but no longer usable -- after every history, for every next event. *)
Theorem C19_changes_reported :
  forall (fx en : bool) (evs : list event) (ev : event) (kd : kind) (key : string),
    K1_hist evs -> kd = KPolicy \/ kd = KLogConf \/ kd = KDosPR ->
    let st := run fx en evs in
    usable st kd key <> usable (fst (step fx st ev)) kd key ->
    In (chg (op_for (usable (fst (step fx st ev)) kd key)) kd key) (o_changes (snd (step fx st ev))) /\
    (stored (fst (step fx st ev)) kd key = true -> usable (fst (step fx st ev)) kd key = false ->
     exists c, In (prob kd key c) (o_problems (snd (step fx st ev)))).
Proof. exact @changes_reported. Qed.
Print Assumptions C19_changes_reported.

(* Batching: a net change of usability over any further sequence of events -- e.g. the deletions
   cleanupUnwatchedAppWafResources performs for a namespace that stops being watched, in whatever order
   the cache lists them -- is carried by the change list of at least one of the single steps, so a
   consumer must process every one of them (or their union), not only the last. *)
Theorem C19_net_flip_reported :
  forall (fx en : bool) (evs more : list event) (kd : kind) (key : string),
    K1_hist (evs ++ more)%list -> kd = KPolicy \/ kd = KLogConf \/ kd = KDosPR ->
    usable (run fx en evs) kd key <> usable (run fx en (evs ++ more)%list) kd key ->
    exists pre ev post, more = (pre ++ ev :: post)%list /\
      let st := run fx en (evs ++ pre)%list in
      In (chg (op_for (usable (fst (step fx st ev)) kd key)) kd key) (o_changes (snd (step fx st ev))).
Proof. exact @net_flip_reported. Qed.
Print Assumptions C19_net_flip_reported.

(* DoS policies and DoS log configurations have no getter of their own (their validity shows in the
   answers for the protected resources naming them, covered above); their own events always name
   them in the change list, with a problem when they are invalid. *)
Theorem C19_dos_policy_events_reported :
  forall (fx : bool) (st : state) (k : string),
    (forall o, let out := snd (step fx st (EvDosPolicy k o)) in
               In (chg (op_for (dp_valid o)) KDosPolicy k) (o_changes out) /\
               (dp_valid o = false -> In (prob KDosPolicy k PcValidation) (o_problems out))) /\
    (forall o, let out := snd (step fx st (EvDosLogConf k o)) in
               In (chg (op_for (dl_valid o)) KDosLogConf k) (o_changes out) /\
               (dl_valid o = false -> In (prob KDosLogConf k PcValidation) (o_problems out))) /\
    (stored st KDosPolicy k = true -> In (chg OpDelete KDosPolicy k) (o_changes (snd (step fx st (EvDelDosPolicy k))))) /\
    (stored st KDosLogConf k = true -> In (chg OpDelete KDosLogConf k) (o_changes (snd (step fx st (EvDelDosLogConf k))))).
Proof. exact @dos_policy_events_reported. Qed.
Print Assumptions C19_dos_policy_events_reported.

(* Signatures are reported through UserSigChange.UserSigs, the complete list of signatures in
   force after the operation.  FULL STATEMENT (false, see C19_usersig_report_refuted): for every
   signature operation.  Proved: for every signature operation except DeleteUserSig of a key that
   is not stored. *)
Theorem C19_usersig_list_reported_partial :
  forall (fx en : bool) (evs : list event) (ev : event), K1_hist evs ->
    let st := run fx en evs in
    sig_op_effective st ev = true ->
    exists l, o_usersigs (snd (step fx st ev)) = Some l /\
              forall key, In key l <-> usable (fst (step fx st ev)) KUserSig key = true.
Proof. exact @usersig_list_reported. Qed.
Print Assumptions C19_usersig_list_reported_partial.

Theorem C19_usersig_report_refuted : forall fx : bool,
  exists (evs : list event) (ev : event) (k : string),
    let st := run fx true evs in
    get_app_resource (waf (fst (step fx st ev))) KUserSig k = AOk /\
    fst (step fx st ev) = st /\
    o_usersigs (snd (step fx st ev)) = Some [].
Proof. exact usersig_report_refuted. Qed.
Print Assumptions C19_usersig_report_refuted.

(* The deletion of an absent key changes no flag at all (only its report is wrong) ... *)
Theorem C19_delete_absent_changes_nothing :
  forall (fx : bool) (st : state) (k : string), stored st KUserSig k = false ->
    fst (step fx st (EvDelUserSig k)) = st /\ o_usersigs (snd (step fx st (EvDelUserSig k))) = Some [].
Proof. exact @usersig_delete_absent. Qed.
Print Assumptions C19_delete_absent_changes_nothing.

(* ... operations on the other five kinds never change which signatures are in force ... *)
Theorem C19_other_events_keep_signatures :
  forall (fx : bool) (st : state) (ev : event) (key : string), is_sig_event ev = false ->
    usable (fst (step fx st ev)) KUserSig key = usable st KUserSig key /\ o_usersigs (snd (step fx st ev)) = None.
Proof. exact @other_events_keep_sigs. Qed.
Print Assumptions C19_other_events_keep_signatures.

(* ... and a signature that stays stored and is not in force after a signature operation, having
   been in force before or being the object of the operation, is named in a problem. *)
Theorem C19_usersig_problems_reported :
  forall (fx en : bool) (evs : list event) (ev : event) (key : string), K1_hist evs ->
    let st := run fx en evs in
    is_sig_event ev = true ->
    stored (fst (step fx st ev)) KUserSig key = true ->
    usable (fst (step fx st ev)) KUserSig key = false ->
    (usable st KUserSig key = true \/ exists o, ev = EvUserSig key o) ->
    exists c, In (prob KUserSig key c) (o_problems (snd (step fx st ev))).
Proof. exact @usersig_problems_reported. Qed.
Print Assumptions C19_usersig_problems_reported.

(* The controller projection (syncAppProtectUserSig -> processAppProtectUserSigChange ->
   RefreshAppProtectUserSigs): the sets index.conf tells NGINX to load are exactly the signature sets in
   force -- including the transition to the empty set -- after every history in which no DeleteUserSig
   hits a key that is not stored.  FULL STATEMENT (false, see C19_files_refuted): for every history. *)
Theorem C19_files_are_sets_in_force_partial :
  forall (fx en : bool) (evs : list event),
    effective_from (fx := fx) (init en) evs ->
    forall key, In key (snd (ctl_run fx en evs)) <-> usable (fst (ctl_run fx en evs)) KUserSig key = true.
Proof. exact @files_follow. Qed.
Print Assumptions C19_files_are_sets_in_force_partial.

Theorem C19_files_refuted : forall fx : bool,
  exists (evs : list event) (k : string),
    usable (fst (ctl_run fx true evs)) KUserSig k = true /\ snd (ctl_run fx true evs) = [].
Proof. exact files_refuted. Qed.
Print Assumptions C19_files_refuted.

(* ------------------------------------------------------------------------------------------ *)
(* Non-vacuity: a history with a timestamp tie decided by the uid, a tag change, a malformed
   signature, a delete of an absent key, policies with bounded requirements, DoS references by
   bare name and by namespace/name; the hypotheses hold and every class of answer occurs. *)
Definition sg (uid : string) (ts : Z) (tag : string) (rv : tfield) : sigobj :=
  {| so_uid := uid; so_ts := ts; so_valid := true; so_tag := tag; so_rev := rv |}.
Definition ex_hist : list event :=
  [ EvUserSig "n1/a" (sg "ab" 100 "t1" (TAt 50));
    EvUserSig "n1/b" (sg "ac" 100 "t1" TAbsent);            (* same timestamp, greater uid: wins *)
    EvUserSig "n2/a" (sg "aa" 90 "t2" (TAt 70));
    EvUserSig "n2/b" {| so_uid := "zz"; so_ts := 1; so_valid := true; so_tag := "t1"; so_rev := TBad |};
    EvPolicy "n1/p" {| po_valid := true;
                       po_reqs := Some [ {| rq_tag := Some "t2"; rq_min := TAt 60; rq_max := TAt 80 |} ] |};
    EvPolicy "n1/q" {| po_valid := true;
                       po_reqs := Some [ {| rq_tag := Some "t2"; rq_min := TAt 70; rq_max := TAbsent |} ] |};
    EvDelUserSig "n9/none";
    EvUserSig "n2/a" (sg "aa" 90 "t1" (TAt 70));            (* tag change: now the oldest of t1 *)
    EvDosPolicy "n1/dp" {| dp_valid := true |};
    EvDosPR {| pr_ns := "n1"; pr_name := "r1"; pr_valid := true; pr_pol := "dp"; pr_log := Some "n2/lg";
               pr_enable := true; pr_log_enable := false |};
    EvDosPR {| pr_ns := "n1"; pr_name := "r2"; pr_valid := true; pr_pol := "n1/dp"; pr_log := None;
               pr_enable := false; pr_log_enable := false |};
    EvPolicy "n1/a" {| po_valid := true;
                       po_reqs := Some [ {| rq_tag := Some "t1"; rq_min := TAt 60; rq_max := TAbsent |} ] |} ].

Example C19_nonvacuous_hypotheses : K1_hist ex_hist /\ f21_free (final_objects ex_hist).
Proof. split; [apply K1_histb_sound|apply f21_freeb_sound]; vm_compute; reflexivity. Qed.

Example C19_nonvacuous_answers :
  model_answers (run false true ex_hist) ["n1/a"; "n1/b"; "n2/a"; "n2/b"; "n1/p"; "n1/q"] [("n1", "r1"); ("n1", "r2"); ("n2", "r1")]
  = list_ascii_of_string "0NNNMMNNNNNNDD0TNNl0N".
Proof. vm_compute. reflexivity. Qed.
