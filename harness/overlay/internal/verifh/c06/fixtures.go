//go:build verif

package main

// Base fixtures: rich, VALID resources that exercise most template branches.  Every string leaf of
// every resource under test in a fixture is mutated by the harness.

import (
	"fmt"

	api_v1 "k8s.io/api/core/v1"
	discovery_v1 "k8s.io/api/discovery/v1"
	networking "k8s.io/api/networking/v1"
	meta_v1 "k8s.io/apimachinery/pkg/apis/meta/v1"
	"k8s.io/apimachinery/pkg/util/intstr"

	"github.com/nginx/kubernetes-ingress/internal/k8s/secrets"
	conf_v1 "github.com/nginx/kubernetes-ingress/pkg/apis/configuration/v1"
)

func ptr[T any](v T) *T { return &v }

// Obj is one resource under test inside a world.
type Obj struct {
	Kind string // ing | vs | vsr | ts | policy
	Name string
	Val  any // *networking.Ingress | *conf_v1.VirtualServer | *conf_v1.VirtualServerRoute | *conf_v1.TransportServer | *conf_v1.Policy
}

// World is the cluster state plus the resources under test.
type World struct {
	Plus    bool
	HTTP2   bool
	TLSPass bool
	Svcs    []*api_v1.Service
	Slices  []*discovery_v1.EndpointSlice
	Secrets []*api_v1.Secret
	GC      *conf_v1.GlobalConfiguration
	// ExtraAnn: annotation keys that are ABSENT from the Ingresses of the fixture (they cannot be present in a valid
	// base: snippets, App Protect, internal routes) but must still be attacked: the leaf is created by the mutation
	ExtraAnn []string
	// Secondary: the fixture repeats another one under a different context selector (path-regex value, ...); in the
	// quick tier its leaves get the core payloads only
	Secondary bool
	// CoveredBy: a fixture whose (non-empty) fields got their full payload set already; here they get the context set (quick tier)
	CoveredBy string
	Objs     []Obj // application order: policies first, then VSR after VS etc. is handled by the runner
}

const ns = "default"

func meta(name string) meta_v1.ObjectMeta {
	return meta_v1.ObjectMeta{Name: name, Namespace: ns}
}

func clusterState(w *World) {
	svcNames := []string{"tea-svc", "coffee-svc", "grpc-svc", "vsr-svc", "dns-svc", "tcp-svc", "svc1", "svc2", "svc3"}
	ip := 0
	for i, s := range svcNames {
		w.Svcs = append(w.Svcs, &api_v1.Service{
			ObjectMeta: meta_v1.ObjectMeta{Name: s, Namespace: ns},
			Spec: api_v1.ServiceSpec{ClusterIP: fmt.Sprintf("10.0.0.%d", i+1), Ports: []api_v1.ServicePort{
				{Name: "http", Port: 80, TargetPort: intstr.FromInt(8080)},
				{Name: "alt", Port: 8080, TargetPort: intstr.FromInt(8080)},
				{Name: "dns", Port: 5353, TargetPort: intstr.FromInt(5353)},
			}},
		})
		var eps []discovery_v1.Endpoint
		for k := 0; k < 2; k++ {
			ip++
			eps = append(eps, discovery_v1.Endpoint{Addresses: []string{fmt.Sprintf("10.1.0.%d", ip)}, Conditions: discovery_v1.EndpointConditions{Ready: ptr(true)}})
		}
		w.Slices = append(w.Slices, &discovery_v1.EndpointSlice{
			ObjectMeta: meta_v1.ObjectMeta{Name: s + "-x1", Namespace: ns, Labels: map[string]string{"kubernetes.io/service-name": s}},
			Ports:      []discovery_v1.EndpointPort{{Port: ptr(int32(8080))}, {Port: ptr(int32(5353))}},
			Endpoints:  eps,
		})
	}
	w.Svcs = append(w.Svcs, &api_v1.Service{ObjectMeta: meta_v1.ObjectMeta{Name: "backup-svc", Namespace: ns},
		Spec: api_v1.ServiceSpec{Type: api_v1.ServiceTypeExternalName, ExternalName: "backup.example.org",
			Ports: []api_v1.ServicePort{{Name: "http", Port: 8090, TargetPort: intstr.FromInt(8090)}}}})
	sec := func(name string, t api_v1.SecretType, data map[string][]byte) {
		w.Secrets = append(w.Secrets, &api_v1.Secret{ObjectMeta: meta_v1.ObjectMeta{Name: name, Namespace: ns}, Type: t, Data: data})
	}
	sec("tls", api_v1.SecretTypeTLS, map[string][]byte{"tls.crt": validCert, "tls.key": validKey})
	sec("jwk", secrets.SecretTypeJWK, map[string][]byte{"jwk": []byte(`{"keys":[]}`)})
	sec("htpasswd", secrets.SecretTypeHtpasswd, map[string][]byte{"htpasswd": []byte("u:$apr1$x$y\n")})
	sec("ca", secrets.SecretTypeCA, map[string][]byte{"ca.crt": validCert})
	sec("apikey", secrets.SecretTypeAPIKey, map[string][]byte{"client1": []byte("key1")})
	sec("oidc", secrets.SecretTypeOIDC, map[string][]byte{"client-secret": []byte("secret")})
	w.GC = &conf_v1.GlobalConfiguration{ObjectMeta: meta_v1.ObjectMeta{Name: "gc", Namespace: "nginx-ingress"},
		Spec: conf_v1.GlobalConfigurationSpec{Listeners: []conf_v1.Listener{
			{Name: "tcp-5353", Port: 5353, Protocol: "TCP"}, {Name: "udp-5353", Port: 5353, Protocol: "UDP"},
			{Name: "http-8083", Port: 8083, Protocol: "HTTP"}, {Name: "https-8443", Port: 8443, Protocol: "HTTP", Ssl: true},
		}}}
}

func pol(name string, f func(*conf_v1.PolicySpec)) Obj {
	p := &conf_v1.Policy{ObjectMeta: meta(name)}
	p.Spec.IngressClass = "nginx"
	f(&p.Spec)
	return Obj{Kind: "policy", Name: name, Val: p}
}

func policies(plus bool) []Obj {
	out := []Obj{
		pol("acl-allow", func(s *conf_v1.PolicySpec) {
			s.AccessControl = &conf_v1.AccessControl{Allow: []string{"10.0.0.0/8", "127.0.0.1", "2001:db8::/32"}}
		}),
		pol("acl-deny", func(s *conf_v1.PolicySpec) { s.AccessControl = &conf_v1.AccessControl{Deny: []string{"192.168.0.0/16"}} }),
		pol("rl", func(s *conf_v1.PolicySpec) {
			s.RateLimit = &conf_v1.RateLimit{Rate: "10r/s", Key: "${binary_remote_addr}", ZoneSize: "10M", Delay: ptr(2), Burst: ptr(5),
				DryRun: ptr(true), LogLevel: "warn", RejectCode: ptr(429)}
		}),
		pol("rl2", func(s *conf_v1.PolicySpec) {
			s.RateLimit = &conf_v1.RateLimit{Rate: "100r/m", Key: "${request_uri}", ZoneSize: "512k", NoDelay: ptr(true), Scale: true}
		}),
		pol("basic", func(s *conf_v1.PolicySpec) { s.BasicAuth = &conf_v1.BasicAuth{Realm: "My Realm", Secret: "htpasswd"} }),
		pol("imtls", func(s *conf_v1.PolicySpec) {
			s.IngressMTLS = &conf_v1.IngressMTLS{ClientCertSecret: "ca", VerifyClient: "optional", VerifyDepth: ptr(2)}
		}),
		pol("emtls", func(s *conf_v1.PolicySpec) {
			s.EgressMTLS = &conf_v1.EgressMTLS{TLSSecret: "tls", TrustedCertSecret: "ca", VerifyServer: true, VerifyDepth: ptr(2),
				Protocols: "TLSv1.2 TLSv1.3", SessionReuse: ptr(false), Ciphers: "HIGH:!aNULL:!MD5", ServerName: true, SSLName: "up.example.com"}
		}),
		pol("apikey", func(s *conf_v1.PolicySpec) {
			s.APIKey = &conf_v1.APIKey{ClientSecret: "apikey", SuppliedIn: &conf_v1.SuppliedIn{Header: []string{"X-API-Key", "X-Key2"}, Query: []string{"apikey", "key2"}}}
		}),
	}
	if plus {
		out = append(out,
			pol("jwt", func(s *conf_v1.PolicySpec) { s.JWTAuth = &conf_v1.JWTAuth{Realm: "My API", Secret: "jwk", Token: "$http_token"} }),
			pol("jwks", func(s *conf_v1.PolicySpec) {
				s.JWTAuth = &conf_v1.JWTAuth{Realm: "Remote API", JwksURI: "https://idp.example.com:443/keys", KeyCache: "1h", Token: "$cookie_auth"}
			}),
			pol("rl-jwt", func(s *conf_v1.PolicySpec) {
				s.RateLimit = &conf_v1.RateLimit{Rate: "5r/s", Key: "${jwt_claim_sub}", ZoneSize: "1M",
					Condition: &conf_v1.RateLimitCondition{JWT: &conf_v1.JWTCondition{Claim: "user_details.level", Match: "premium"}}}
			}),
			pol("rl-jwt-default", func(s *conf_v1.PolicySpec) {
				s.RateLimit = &conf_v1.RateLimit{Rate: "1r/s", Key: "${jwt_claim_sub}", ZoneSize: "1M",
					Condition: &conf_v1.RateLimitCondition{JWT: &conf_v1.JWTCondition{Claim: "user_details.level", Match: "basic"}, Default: true}}
			}),
			pol("oidc", func(s *conf_v1.PolicySpec) {
				s.OIDC = &conf_v1.OIDC{AuthEndpoint: "https://idp.example.com/auth", TokenEndpoint: "https://idp.example.com/token",
					JWKSURI: "https://idp.example.com/certs", ClientID: "client-id", ClientSecret: "oidc", Scope: "openid+profile",
					RedirectURI: "/_codexch", EndSessionEndpoint: "https://idp.example.com/logout", PostLogoutRedirectURI: "/_logout",
					ZoneSyncLeeway: ptr(20), AuthExtraArgs: []string{"foo=bar", "kc_idp_hint=x"}, AccessTokenEnable: true}
			}),
		)
	}
	return out
}

func pref(names ...string) []conf_v1.PolicyReference {
	var out []conf_v1.PolicyReference
	for _, n := range names {
		out = append(out, conf_v1.PolicyReference{Name: n, Namespace: ns})
	}
	return out
}

func richUpstreams(plus bool) []conf_v1.Upstream {
	tea := conf_v1.Upstream{Name: "tea", Service: "tea-svc", Port: 80, LBMethod: "least_conn", FailTimeout: "10s", MaxFails: ptr(3), MaxConns: ptr(100),
		Keepalive: ptr(16), ProxyConnectTimeout: "30s", ProxyReadTimeout: "31s", ProxySendTimeout: "32s", ProxyNextUpstream: "error timeout http_502",
		ProxyNextUpstreamTimeout: "5s", ProxyNextUpstreamTries: 2, ProxyBuffering: ptr(true), ProxyBuffers: &conf_v1.UpstreamBuffers{Number: 4, Size: "8k"},
		ProxyBufferSize: "16k", ClientMaxBodySize: "2m", Type: "http"}
	coffee := conf_v1.Upstream{Name: "coffee", Service: "coffee-svc", Port: 80, LBMethod: "hash $request_uri consistent", Subselector: map[string]string{"version": "v1"},
		TLS: conf_v1.UpstreamTLS{Enable: true}}
	grpc := conf_v1.Upstream{Name: "grpc-up", Service: "grpc-svc", Port: 8080, Type: "grpc"}
	cip := conf_v1.Upstream{Name: "cip", Service: "svc1", Port: 80, UseClusterIP: true}
	if plus {
		tea.HealthCheck = &conf_v1.HealthCheck{Enable: true, Path: "/healthz", Interval: "5s", Jitter: "1s", Fails: 2, Passes: 2, Port: 8080,
			TLS: &conf_v1.UpstreamTLS{Enable: false}, ConnectTimeout: "10s", ReadTimeout: "11s", SendTimeout: "12s",
			Headers: []conf_v1.Header{{Name: "Host", Value: "my.service"}, {Name: "X-Probe", Value: "a b"}}, StatusMatch: "! 500", Mandatory: true, Persistent: true, KeepaliveTime: "60s"}
		tea.SlowStart = "10s"
		tea.Queue = &conf_v1.UpstreamQueue{Size: 10, Timeout: "60s"}
		tea.SessionCookie = &conf_v1.SessionCookie{Enable: true, Name: "srv_id", Path: "/", Expires: "1h", Domain: ".example.com", HTTPOnly: true, Secure: true, SameSite: "strict"}
		tea.NTLM = true
		tea.Backup = "backup-svc"
		tea.BackupPort = ptr(uint16(8090))
		grpc.HealthCheck = &conf_v1.HealthCheck{Enable: true, GRPCStatus: ptr(12), GRPCService: "my.Service", Interval: "7s"}
	}
	return []conf_v1.Upstream{tea, coffee, grpc, cip}
}

func proxyAction(up string) *conf_v1.Action {
	return &conf_v1.Action{Proxy: &conf_v1.ActionProxy{Upstream: up, RewritePath: "/beans",
		RequestHeaders: &conf_v1.ProxyRequestHeaders{Pass: ptr(true), Set: []conf_v1.Header{{Name: "My-Header", Value: "val ${http_x_user} end"}, {Name: "X-Static", Value: "static"}}},
		ResponseHeaders: &conf_v1.ProxyResponseHeaders{Hide: []string{"x-internal-version"}, Pass: []string{"Server"}, Ignore: []string{"Expires", "Cache-Control"},
			Add: []conf_v1.AddHeader{{Header: conf_v1.Header{Name: "X-Cache", Value: "yes ${server_port}"}, Always: true}, {Header: conf_v1.Header{Name: "X-Plain", Value: "plain"}}}}}}
}

func returnAction() *conf_v1.Action {
	return &conf_v1.Action{Return: &conf_v1.ActionReturn{Code: 200, Type: "text/plain", Body: "Hello ${request_uri} \\\"quoted\\\" \\n",
		Headers: []conf_v1.Header{{Name: "x-ret", Value: "ret value"}}}}
}

func vsWorld(plus bool) *World {
	w := &World{Plus: plus, HTTP2: true}
	clusterState(w)
	w.Objs = append(w.Objs, policies(plus)...)
	vs := &conf_v1.VirtualServer{ObjectMeta: meta("cafe")}
	vs.Spec = conf_v1.VirtualServerSpec{
		IngressClass: "nginx", Host: "cafe.example.com",
		Listener: &conf_v1.VirtualServerListener{HTTP: "http-8083", HTTPS: "https-8443"},
		TLS: &conf_v1.TLS{Secret: "tls", Redirect: &conf_v1.TLSRedirect{Enable: true, Code: ptr(301), BasedOn: "scheme"},
			CertManager: &conf_v1.CertManager{ClusterIssuer: "letsencrypt", IssuerKind: "ClusterIssuer", IssuerGroup: "cert-manager.io", CommonName: "cafe.example.com",
				Duration: "2160h", RenewBefore: "360h", Usages: "server auth"}},
		Gunzip:         true,
		Policies:       pref("acl-allow", "imtls", "rl2"),
		Upstreams:      richUpstreams(plus),
		HTTPSnippets:   "",
		ServerSnippets: "",
		ExternalDNS: conf_v1.ExternalDNS{Enable: true, RecordType: "A", RecordTTL: 60, Labels: map[string]string{"team": "cafe"},
			ProviderSpecific: conf_v1.ProviderSpecific{{Name: "aws/weight", Value: "10"}}},
	}
	errPages := []conf_v1.ErrorPage{
		{Codes: []int{404, 405}, Return: &conf_v1.ErrorPageReturn{ActionReturn: conf_v1.ActionReturn{Code: 200, Type: "application/json",
			Body: "{\\\"msg\\\": \\\"not found ${upstream_status}\\\"}", Headers: []conf_v1.Header{{Name: "x-debug-original-status", Value: "${upstream_status}"}}}}},
		{Codes: []int{502, 503}, Redirect: &conf_v1.ErrorPageRedirect{ActionRedirect: conf_v1.ActionRedirect{URL: "${scheme}://nginx.com/error", Code: 301}}},
	}
	conds := []conf_v1.Condition{{Header: "x-version", Value: "v2"}, {Cookie: "user", Value: "!john"}, {Argument: "q", Value: "a b"}, {Variable: "$request_method", Value: "POST"}}
	authPol := "basic"
	if plus {
		authPol = "jwt"
	}
	redirectAction := func() *conf_v1.Action {
		return &conf_v1.Action{Redirect: &conf_v1.ActionRedirect{URL: "${scheme}://${host}/new${request_uri}", Code: 302}}
	}
	// the four kinds of action, over upstream up
	actions := func(up string) []*conf_v1.Action {
		return []*conf_v1.Action{{Pass: up}, proxyAction(up), redirectAction(), returnAction()}
	}
	splitsOf := func(up string) []conf_v1.Split {
		var out []conf_v1.Split
		for k, a := range actions(up) {
			out = append(out, conf_v1.Split{Weight: []int{40, 30, 20, 10}[k], Action: a})
		}
		return out
	}
	matchesOf := func(up string) []conf_v1.Match {
		as := actions(up)
		return []conf_v1.Match{
			{Conditions: conds, Action: as[1]},
			{Conditions: []conf_v1.Condition{{Header: "x-beta", Value: "\\\"yes\\\""}}, Action: as[2]},
			{Conditions: []conf_v1.Condition{{Argument: "ret", Value: "1"}}, Action: as[3]},
			{Conditions: []conf_v1.Condition{{Cookie: "ab", Value: "b"}}, Splits: splitsOf(up)},
		}
	}
	vs.Spec.Routes = []conf_v1.Route{
		{Path: "/tea", Policies: pref("rl", "emtls"), Action: &conf_v1.Action{Pass: "tea"}, ErrorPages: errPages},
		{Path: "/coffee", Policies: pref(authPol), Action: proxyAction("coffee")},
		{Path: "/redirect", Policies: pref("acl-deny"), Action: redirectAction()},
		{Path: "/return", Policies: pref("apikey"), Action: returnAction()},
		{Path: "/splits", Splits: splitsOf("tea")},
		{Path: "/matches", Matches: matchesOf("coffee"), Action: &conf_v1.Action{Pass: "tea"}, ErrorPages: errPages[:1]},
		{Path: "/matches-splits", Matches: matchesOf("tea")[:1], Splits: splitsOf("coffee")[:2]},
		{Path: "~ ^/regex/(.*)$", Action: &conf_v1.Action{Proxy: &conf_v1.ActionProxy{Upstream: "tea", RewritePath: "/$1"}}},
		{Path: "~* ^/iregex", Action: &conf_v1.Action{Pass: "tea"}},
		{Path: "=/exact", Action: &conf_v1.Action{Pass: "cip"}},
		{Path: "/grpc", Action: &conf_v1.Action{Pass: "grpc-up"}},
		// a delegating route carries route-level attributes too (the generator emits their locations for it)
		{Path: "/vsr", Route: ns + "/vsr1", ErrorPages: errPages, Policies: pref("acl-deny")},
	}
	vs.Spec.Routes[6].Splits[0].Weight, vs.Spec.Routes[6].Splits[1].Weight = 60, 40
	if plus {
		vs.Spec.Routes = append(vs.Spec.Routes,
			conf_v1.Route{Path: "/jwks", Policies: pref("jwks", "rl-jwt", "rl-jwt-default"), Action: &conf_v1.Action{Pass: "tea"}},
			conf_v1.Route{Path: "/basic", Policies: pref("basic"), Action: &conf_v1.Action{Pass: "tea"}},
		)
	}
	w.Objs = append(w.Objs, Obj{Kind: "vs", Name: "cafe", Val: vs})
	vsr := &conf_v1.VirtualServerRoute{ObjectMeta: meta("vsr1")}
	vups := richUpstreams(plus)
	for k := range vups {
		vups[k].Name = "v" + vups[k].Name
		if vups[k].Backup != "" { // one backup service per VirtualServer is enough
			vups[k].Backup, vups[k].BackupPort = "", nil
		}
	}
	vsr.Spec = conf_v1.VirtualServerRouteSpec{IngressClass: "nginx", Host: "cafe.example.com",
		Upstreams: append(vups, conf_v1.Upstream{Name: "vsr-up", Service: "vsr-svc", Port: 80, LBMethod: "ip_hash", ProxyConnectTimeout: "7s"}),
		Subroutes: []conf_v1.Route{
			{Path: "/vsr/a", Policies: pref("rl"), Action: &conf_v1.Action{Pass: "vsr-up"}, ErrorPages: errPages},
			{Path: "/vsr/b", Action: proxyAction("vtea")},
			{Path: "/vsr/c", Action: redirectAction()},
			{Path: "/vsr/d", Action: returnAction()},
			{Path: "/vsr/splits", Splits: splitsOf("vcoffee")},
			{Path: "/vsr/matches", Matches: matchesOf("vsr-up"), Action: &conf_v1.Action{Pass: "vsr-up"}},
			{Path: "/vsr/ms", Matches: matchesOf("vtea")[3:], Splits: splitsOf("vsr-up")[:2]},
		}}
	vsr.Spec.Subroutes[6].Splits[0].Weight, vsr.Spec.Subroutes[6].Splits[1].Weight = 50, 50
	w.Objs = append(w.Objs, Obj{Kind: "vsr", Name: "vsr1", Val: vsr})
	return w
}

// a second, small VirtualServer: the variants that cannot coexist with vsWorld (OIDC, no TLS, deny
// list, jwt at spec level, x-forwarded-proto redirect)
func vs2World(plus bool) *World {
	w := &World{Plus: plus}
	clusterState(w)
	w.Objs = append(w.Objs, policies(plus)...)
	vs := &conf_v1.VirtualServer{ObjectMeta: meta("shop")}
	vs.Spec = conf_v1.VirtualServerSpec{IngressClass: "nginx", Host: "shop.example.com",
		TLS:       &conf_v1.TLS{Secret: "tls", Redirect: &conf_v1.TLSRedirect{Enable: true, BasedOn: "x-forwarded-proto"}},
		Upstreams: []conf_v1.Upstream{{Name: "app", Service: "svc1", Port: 80}, {Name: "app2", Service: "svc2", Port: 8080, LBMethod: "random two least_conn"}},
		Policies:  pref("acl-deny", "basic"),
		Routes: []conf_v1.Route{
			{Path: "/", Action: &conf_v1.Action{Pass: "app"}},
			{Path: "/two", Splits: []conf_v1.Split{{Weight: 90, Action: &conf_v1.Action{Pass: "app"}}, {Weight: 10, Action: &conf_v1.Action{Pass: "app2"}}}},
		}}
	if plus {
		vs.Spec.Policies = pref("acl-deny", "oidc")
		vs.Spec.Routes = append(vs.Spec.Routes, conf_v1.Route{Path: "/api", Policies: pref("apikey"), Action: &conf_v1.Action{Pass: "app2"}})
	}
	w.Objs = append(w.Objs, Obj{Kind: "vs", Name: "shop", Val: vs})
	return w
}

func tsWorld(plus bool, variant string) *World {
	w := &World{Plus: plus, TLSPass: true}
	clusterState(w)
	ts := &conf_v1.TransportServer{ObjectMeta: meta("ts-" + variant)}
	up := conf_v1.TransportServerUpstream{Name: "dns-app", Service: "dns-svc", Port: 5353, FailTimeout: "10s", MaxFails: ptr(2), MaxConns: ptr(50),
		LoadBalancingMethod: "hash ${remote_addr} consistent"}
	up2 := conf_v1.TransportServerUpstream{Name: "tcp-app", Service: "tcp-svc", Port: 5353, LoadBalancingMethod: "least_conn"}
	if plus {
		up.HealthCheck = &conf_v1.TransportServerHealthCheck{Enabled: true, Timeout: "30s", Jitter: "2s", Port: 5353, Interval: "20s", Passes: 2, Fails: 3,
			Match: &conf_v1.TransportServerMatch{Send: "GET / HTTP/1.0\\r\\nHost: localhost\\r\\n\\r\\n", Expect: "~*200 OK"}}
		up2.Backup = "backup-svc"
		up2.BackupPort = ptr(uint16(8090))
		up2.HealthCheck = &conf_v1.TransportServerHealthCheck{Enabled: true, Match: &conf_v1.TransportServerMatch{Send: "\\x50\\x49\\x4e\\x47", Expect: "\\x50\\x4f\\x4e\\x47"}}
	}
	ts.Spec = conf_v1.TransportServerSpec{IngressClass: "nginx", Upstreams: []conf_v1.TransportServerUpstream{up, up2},
		UpstreamParameters: &conf_v1.UpstreamParameters{ConnectTimeout: "60s", NextUpstream: true, NextUpstreamTimeout: "50s", NextUpstreamTries: 2},
		SessionParameters:  &conf_v1.SessionParameters{Timeout: "50s"},
		Action:             &conf_v1.TransportServerAction{Pass: "dns-app"}}
	switch variant {
	case "tcp":
		ts.Spec.Listener = conf_v1.TransportServerListener{Name: "tcp-5353", Protocol: "TCP"}
		ts.Spec.TLS = &conf_v1.TransportServerTLS{Secret: "tls"}
		ts.Spec.Host = "tcp.example.com"
	case "udp":
		ts.Spec.Listener = conf_v1.TransportServerListener{Name: "udp-5353", Protocol: "UDP"}
		ts.Spec.UpstreamParameters.UDPRequests = ptr(1)
		ts.Spec.UpstreamParameters.UDPResponses = ptr(2)
	case "tlsp":
		ts.Spec.Listener = conf_v1.TransportServerListener{Name: "tls-passthrough", Protocol: "TLS_PASSTHROUGH"}
		ts.Spec.Host = "secure.example.com"
	}
	w.Objs = append(w.Objs, Obj{Kind: "ts", Name: ts.Name, Val: ts})
	return w
}

func backend(svc string, port int32, named string) networking.IngressBackend {
	b := networking.IngressBackend{Service: &networking.IngressServiceBackend{Name: svc}}
	if named != "" {
		b.Service.Port.Name = named
	} else {
		b.Service.Port.Number = port
	}
	return b
}

func ingWorld(plus bool, variant string, regex string) *World {
	w := &World{Plus: plus, HTTP2: true, Secondary: variant == "a" && regex != ""}
	clusterState(w)
	prefix, exact, impl := networking.PathTypePrefix, networking.PathTypeExact, networking.PathTypeImplementationSpecific
	ing := &networking.Ingress{ObjectMeta: meta("cafe-ing")}
	ing.Spec = networking.IngressSpec{IngressClassName: ptr("nginx"),
		TLS: []networking.IngressTLS{{Hosts: []string{"cafe.example.com"}, SecretName: "tls"}},
		Rules: []networking.IngressRule{
			{Host: "cafe.example.com", IngressRuleValue: networking.IngressRuleValue{HTTP: &networking.HTTPIngressRuleValue{Paths: []networking.HTTPIngressPath{
				{Path: "/tea", PathType: &prefix, Backend: backend("svc1", 80, "")},
				{Path: "/coffee", PathType: &exact, Backend: backend("svc2", 0, "http")},
				{Path: "/impl/sub", PathType: &impl, Backend: backend("svc3", 8080, "")},
			}}}},
			{Host: "bar.example.com", IngressRuleValue: networking.IngressRuleValue{HTTP: &networking.HTTPIngressRuleValue{Paths: []networking.HTTPIngressPath{
				{Path: "/", PathType: &prefix, Backend: backend("svc1", 80, "")},
			}}}},
		}}
	a := map[string]string{}
	switch variant {
	case "a": // everything that can coexist on a regular Ingress
		db := backend("svc3", 80, "")
		ing.Spec.DefaultBackend = &db
		a["nginx.org/lb-method"] = "hash $request_id consistent"
		a["nginx.org/server-tokens"] = "false"
		a["nginx.org/proxy-connect-timeout"] = "30s"
		a["nginx.org/proxy-read-timeout"] = "20s"
		a["nginx.org/proxy-send-timeout"] = "21s"
		a["nginx.org/proxy-hide-headers"] = "X-Powered-By,Server"
		a["nginx.org/proxy-pass-headers"] = "Date,X-Pass"
		a["nginx.org/proxy-set-headers"] = "X-Forwarded-ABC,X-Val: abc"
		a["nginx.org/client-max-body-size"] = "4m"
		a["nginx.org/redirect-to-https"] = "true"
		a["ingress.kubernetes.io/ssl-redirect"] = "false"
		a["nginx.org/proxy-buffering"] = "true"
		a["nginx.org/hsts"] = "true"
		a["nginx.org/hsts-max-age"] = "2592000"
		a["nginx.org/hsts-include-subdomains"] = "true"
		a["nginx.org/hsts-behind-proxy"] = "true"
		a["nginx.org/proxy-buffers"] = "4 8k"
		a["nginx.org/proxy-buffer-size"] = "8k"
		a["nginx.org/proxy-max-temp-file-size"] = "1024m"
		a["nginx.org/upstream-zone-size"] = "512k"
		a["nginx.org/basic-auth-secret"] = "htpasswd"
		a["nginx.org/basic-auth-realm"] = "Cafe App"
		a["nginx.org/listen-ports"] = "8080,9090"
		a["nginx.org/listen-ports-ssl"] = "8443"
		a["nginx.org/keepalive"] = "16"
		a["nginx.org/max-fails"] = "3"
		a["nginx.org/max-conns"] = "10"
		a["nginx.org/fail-timeout"] = "15s"
		a["nginx.org/websocket-services"] = "svc1"
		a["nginx.org/ssl-services"] = "svc2"
		a["nginx.org/grpc-services"] = "svc3"
		a["nginx.org/rewrites"] = "serviceName=svc1 rewrite=/beans/;serviceName=svc2 rewrite=/"
		a["nginx.org/use-cluster-ip"] = "false"
		a["nginx.org/limit-req-rate"] = "10r/s"
		a["nginx.org/limit-req-key"] = "${binary_remote_addr}"
		a["nginx.org/limit-req-zone-size"] = "10m"
		a["nginx.org/limit-req-delay"] = "2"
		a["nginx.org/limit-req-burst"] = "20"
		a["nginx.org/limit-req-dry-run"] = "true"
		a["nginx.org/limit-req-log-level"] = "notice"
		a["nginx.org/limit-req-reject-code"] = "429"
		a["nginx.org/limit-req-scale"] = "false"
		a["nginx.org/ingress-controller"] = "x"
		if plus {
			a["nginx.com/health-checks"] = "true"
			a["nginx.com/health-checks-mandatory"] = "true"
			a["nginx.com/health-checks-mandatory-queue"] = "10"
			a["nginx.com/slow-start"] = "30s"
			a["nginx.com/sticky-cookie-services"] = "serviceName=svc1 srv_id expires=1h path=/tea;serviceName=svc2 other domain=.example.com"
			a["nginx.org/lb-method"] = "least_conn" // slow start and sticky need a non-hash method
		}
	case "b": // the annotations excluded by variant a: regex paths, jwt (Plus), no-delay, cluster ip, server tokens string (Plus)
		a["nginx.org/use-cluster-ip"] = "true"
		a["nginx.org/limit-req-rate"] = "200r/m"
		a["nginx.org/limit-req-no-delay"] = "true"
		a["nginx.org/limit-req-scale"] = "true"
		a["nginx.org/server-tokens"] = "true"
		a["nginx.org/lb-method"] = "round_robin"
		a["nginx.org/proxy-buffering"] = "false"
		if plus {
			a["nginx.org/server-tokens"] = "custom token"
			a["nginx.com/jwt-key"] = "jwk"
			a["nginx.com/jwt-realm"] = "Cafe"
			a["nginx.com/jwt-token"] = "$cookie_auth_token"
			a["nginx.com/jwt-login-url"] = "https://login.example.com/a"
		}
	}
	if variant == "challenge" {
		// context selector: a cert-manager HTTP01 solver Ingress (label) whose host no VirtualServer owns is configured as
		// an ordinary Ingress, with all of its annotations
		w.Secondary = true
		ing.Labels = map[string]string{"acme.cert-manager.io/http01-solver": "true"}
		ing.Spec.TLS = nil
		ing.Spec.Rules = ing.Spec.Rules[:1]
		ing.Spec.Rules[0].HTTP.Paths = ing.Spec.Rules[0].HTTP.Paths[:1]
		for k, v := range map[string]string{"nginx.org/client-max-body-size": "4m", "nginx.org/proxy-buffers": "4 8k", "nginx.org/proxy-buffer-size": "8k",
			"nginx.org/proxy-hide-headers": "X-Powered-By,Server", "nginx.org/proxy-pass-headers": "Date", "nginx.org/limit-req-rate": "10r/s",
			"nginx.org/limit-req-key": "${binary_remote_addr}", "nginx.org/limit-req-zone-size": "10m", "nginx.org/rewrites": "serviceName=svc1 rewrite=/beans/",
			"nginx.org/lb-method": "least_conn", "nginx.org/upstream-zone-size": "512k", "nginx.org/proxy-connect-timeout": "30s", "nginx.org/server-tokens": "false",
			"nginx.org/proxy-set-headers": "X-Val: abc", "nginx.org/basic-auth-secret": "htpasswd", "nginx.org/basic-auth-realm": "Cafe App"} {
			a[k] = v
		}
		w.ExtraAnn = []string{"nginx.org/location-snippets", "nginx.org/server-snippets"}
	}
	if regex != "" {
		// context selector: the value of nginx.org/path-regex changes how every location path is rendered
		a["nginx.org/path-regex"] = regex
	}
	ing.Annotations = a
	if variant == "a" {
		w.ExtraAnn = []string{"nginx.org/location-snippets", "nginx.org/server-snippets", "appprotect.f5.com/app-protect-enable", "appprotect.f5.com/app-protect-policy",
			"appprotect.f5.com/app-protect-security-log-enable", "appprotect.f5.com/app-protect-security-log", "appprotect.f5.com/app-protect-security-log-destination",
			"appprotectdos.f5.com/app-protect-dos-resource", "nsm.nginx.com/internal-route", "nginx.org/mergeable-ingress-type"}
	}
	w.Objs = append(w.Objs, Obj{Kind: "ing", Name: "cafe-ing", Val: ing})
	return w
}

func mergeableWorld(plus bool) *World {
	w := &World{Plus: plus}
	clusterState(w)
	prefix := networking.PathTypePrefix
	master := &networking.Ingress{ObjectMeta: meta("master")}
	master.Annotations = map[string]string{
		"nginx.org/mergeable-ingress-type": "master",
		"nginx.org/proxy-connect-timeout":  "40s", "nginx.org/client-max-body-size": "8m", "nginx.org/lb-method": "ip_hash",
		"nginx.org/hsts": "true", "nginx.org/hsts-max-age": "100", "nginx.org/server-tokens": "false", "nginx.org/listen-ports": "8081",
		"nginx.org/proxy-hide-headers": "X-Hide", "nginx.org/limit-req-rate": "5r/s", "nginx.org/limit-req-key": "${request_uri}",
		"nginx.org/basic-auth-secret": "htpasswd", "nginx.org/basic-auth-realm": "Master Realm",
	}
	master.Spec = networking.IngressSpec{IngressClassName: ptr("nginx"), TLS: []networking.IngressTLS{{Hosts: []string{"merge.example.com"}, SecretName: "tls"}},
		Rules: []networking.IngressRule{{Host: "merge.example.com"}}}
	m1 := &networking.Ingress{ObjectMeta: meta("minion1")}
	m1.Annotations = map[string]string{
		"nginx.org/mergeable-ingress-type": "minion", "nginx.org/rewrites": "serviceName=svc1 rewrite=/m1/", "nginx.org/proxy-read-timeout": "9s",
		"nginx.org/ssl-services": "svc1", "nginx.org/max-fails": "5", "nginx.org/limit-req-rate": "7r/s", "nginx.org/limit-req-burst": "3",
		"nginx.org/path-regex": "case_sensitive", "nginx.org/proxy-set-headers": "X-Minion: one",
	}
	m1.Spec = networking.IngressSpec{IngressClassName: ptr("nginx"), Rules: []networking.IngressRule{{Host: "merge.example.com",
		IngressRuleValue: networking.IngressRuleValue{HTTP: &networking.HTTPIngressRuleValue{Paths: []networking.HTTPIngressPath{
			{Path: "/m1", PathType: &prefix, Backend: backend("svc1", 80, "")}}}}}}}
	m1.Labels = map[string]string{"acme.cert-manager.io/http01-solver": "true"} // a solver Ingress that is a minion is configured as a minion
	m2 := &networking.Ingress{ObjectMeta: meta("minion2")}
	m2.Annotations = map[string]string{"nginx.org/mergeable-ingress-type": "minion", "nginx.org/websocket-services": "svc2", "nginx.org/proxy-buffers": "2 4k",
		"nginx.org/rewrites": "serviceName=svc2 rewrite=/m2r/;serviceName=svc3 rewrite=/", "nginx.org/path-regex": "exact", "nginx.org/lb-method": "least_conn",
		"nginx.org/limit-req-rate": "3r/s", "nginx.org/limit-req-key": "${request_uri}"}
	if plus {
		m2.Annotations["nginx.com/jwt-key"] = "jwk"
		m2.Annotations["nginx.com/jwt-realm"] = "Minion"
		m2.Annotations["nginx.com/jwt-login-url"] = "https://login.example.com"
		m2.Annotations["nginx.com/sticky-cookie-services"] = "serviceName=svc2 cookie2 expires=2h"
		m2.Annotations["nginx.com/health-checks"] = "true"
	}
	m2.Spec = networking.IngressSpec{IngressClassName: ptr("nginx"), Rules: []networking.IngressRule{{Host: "merge.example.com",
		IngressRuleValue: networking.IngressRuleValue{HTTP: &networking.HTTPIngressRuleValue{Paths: []networking.HTTPIngressPath{
			{Path: "/m2", PathType: &prefix, Backend: backend("svc2", 80, "")}, {Path: "/m2/deep", PathType: &prefix, Backend: backend("svc3", 0, "alt")}}}}}}}
	w.Objs = append(w.Objs, Obj{Kind: "ing", Name: "master", Val: master}, Obj{Kind: "ing", Name: "minion1", Val: m1}, Obj{Kind: "ing", Name: "minion2", Val: m2})
	return w
}

// vsWorldPart keeps one half of the routes of vsWorld (and the policies that half refers to)
func vsWorldPart(plus bool, part string) *World {
	w := vsWorld(plus)
	var vs *conf_v1.VirtualServer
	for _, o := range w.Objs {
		if x, ok := o.Val.(*conf_v1.VirtualServer); ok {
			vs = x
		}
	}
	if part == "a" {
		vs.Spec.Routes = vs.Spec.Routes[:6]
	} else {
		vs.Spec.Routes = vs.Spec.Routes[6:]
	}
	used := map[string]bool{}
	for _, p := range vs.Spec.Policies {
		used[p.Name] = true
	}
	for _, r := range vs.Spec.Routes {
		for _, p := range r.Policies {
			used[p.Name] = true
		}
	}
	var objs []Obj
	for _, o := range w.Objs {
		switch x := o.Val.(type) {
		case *conf_v1.Policy:
			if !used[x.Name] && !(part == "b" && x.Name == "rl") { // rl: referenced by the VirtualServerRoute
				continue
			}
		case *conf_v1.VirtualServerRoute:
			if part == "a" {
				continue
			}
		}
		objs = append(objs, o)
	}
	w.Objs = objs
	if part == "b" {
		w.CoveredBy = "vs-rich-a"
	}
	return w
}

// mergeableCrossWorld crosses the annotations a minion INHERITS from its master (minionInheritanceList) with where
// the enabling annotation sits: the options of a feature on one Ingress, the annotation that switches the feature on
// (nginx.org/limit-req-rate) on the other -- each Ingress alone is harmless, the merged configuration uses both.
//   masterRate = true : the master sets the rate (and every inheritable annotation); minion "opts" sets only options,
//                       minion "bare" sets nothing and inherits everything
//   masterRate = false: the master sets only options; minion "rate" sets the rate and inherits the options
func mergeableCrossWorld(plus bool, masterRate bool) *World {
	w := &World{Plus: plus, Secondary: true}
	clusterState(w)
	prefix := networking.PathTypePrefix
	opts := map[string]string{
		"nginx.org/limit-req-key": "${request_uri}", "nginx.org/limit-req-zone-size": "5m", "nginx.org/limit-req-delay": "2", "nginx.org/limit-req-burst": "7",
		"nginx.org/limit-req-dry-run": "true", "nginx.org/limit-req-log-level": "warn", "nginx.org/limit-req-reject-code": "503", "nginx.org/limit-req-scale": "false",
	}
	inheritable := map[string]string{
		"nginx.org/proxy-connect-timeout": "11s", "nginx.org/proxy-read-timeout": "12s", "nginx.org/proxy-send-timeout": "13s", "nginx.org/client-max-body-size": "3m",
		"nginx.org/proxy-buffering": "true", "nginx.org/proxy-buffers": "2 4k", "nginx.org/proxy-buffer-size": "4k", "nginx.org/proxy-max-temp-file-size": "64m",
		"nginx.org/upstream-zone-size": "256k", "nginx.org/lb-method": "least_conn", "nginx.org/keepalive": "8", "nginx.org/max-fails": "2", "nginx.org/max-conns": "9",
		"nginx.org/fail-timeout": "9s",
	}
	mk := func(name, kind string, ann map[string]string, paths ...string) *networking.Ingress {
		ing := &networking.Ingress{ObjectMeta: meta(name)}
		ing.Annotations = map[string]string{"nginx.org/mergeable-ingress-type": kind}
		for k, v := range ann {
			ing.Annotations[k] = v
		}
		rule := networking.IngressRule{Host: "mx.example.com"}
		if len(paths) > 0 {
			rule.HTTP = &networking.HTTPIngressRuleValue{}
			for i, p := range paths {
				rule.HTTP.Paths = append(rule.HTTP.Paths, networking.HTTPIngressPath{Path: p, PathType: &prefix, Backend: backend([]string{"svc1", "svc2", "svc3"}[i%3], 80, "")})
			}
		}
		ing.Spec = networking.IngressSpec{IngressClassName: ptr("nginx"), Rules: []networking.IngressRule{rule}}
		return ing
	}
	merge := func(ms ...map[string]string) map[string]string {
		out := map[string]string{}
		for _, m := range ms {
			for k, v := range m {
				out[k] = v
			}
		}
		return out
	}
	rate := map[string]string{"nginx.org/limit-req-rate": "9r/s"}
	if masterRate {
		w.Objs = append(w.Objs,
			Obj{Kind: "ing", Name: "mx-master", Val: mk("mx-master", "master", merge(rate, opts, inheritable))},
			Obj{Kind: "ing", Name: "mx-opts", Val: mk("mx-opts", "minion", merge(opts, map[string]string{"nginx.org/limit-req-no-delay": "true"}), "/opts")},
			Obj{Kind: "ing", Name: "mx-bare", Val: mk("mx-bare", "minion", nil, "/bare")})
	} else {
		w.Objs = append(w.Objs,
			Obj{Kind: "ing", Name: "mx-master", Val: mk("mx-master", "master", merge(opts, inheritable))},
			Obj{Kind: "ing", Name: "mx-rate", Val: mk("mx-rate", "minion", rate, "/rate")},
			Obj{Kind: "ing", Name: "mx-own", Val: mk("mx-own", "minion", merge(rate, map[string]string{"nginx.org/limit-req-key": "${binary_remote_addr}", "nginx.org/lb-method": "ip_hash"}), "/own")})
	}
	return w
}

// Fixture is a named world builder.
type Fixture struct {
	Name  string
	Build func(plus bool) *World
}

var fixtures = []Fixture{
	// the rich VirtualServer in two halves (first six routes / the other routes and the VirtualServerRoute): every
	// rendering is half as long, and the fields of the second half that the first one has get the context payloads there
	{"vs-rich-a", func(p bool) *World { return vsWorldPart(p, "a") }},
	{"vs-rich-b", func(p bool) *World { return vsWorldPart(p, "b") }},
	{"vs-small", vs2World},
	{"ts-tcp", func(p bool) *World { return tsWorld(p, "tcp") }},
	{"ts-udp", func(p bool) *World { return tsWorld(p, "udp") }},
	{"ts-tlsp", func(p bool) *World { return tsWorld(p, "tlsp") }},
	{"ing-a", func(p bool) *World { return ingWorld(p, "a", "") }},
	{"ing-b", func(p bool) *World { return ingWorld(p, "b", "case_insensitive") }},
	{"ing-a-exact", func(p bool) *World { return ingWorld(p, "a", "exact") }},
	{"ing-a-cs", func(p bool) *World { return ingWorld(p, "a", "case_sensitive") }},
	{"ing-a-ci", func(p bool) *World { return ingWorld(p, "a", "case_insensitive") }},
	{"ing-challenge", func(p bool) *World { return ingWorld(p, "challenge", "") }},
	{"mergeable", mergeableWorld},
	{"mergeable-x-master-rate", func(p bool) *World { return mergeableCrossWorld(p, true) }},
	{"mergeable-x-minion-rate", func(p bool) *World { return mergeableCrossWorld(p, false) }},
	{"vs-cross-prefix", func(p bool) *World { return vsCrossWorld(p, "prefix") }},
	{"vs-cross-regex", func(p bool) *World { return vsCrossWorld(p, "regex") }},
	{"vs-cross-iregex", func(p bool) *World { return vsCrossWorld(p, "iregex") }},
	{"vs-cross-exact", func(p bool) *World { return vsCrossWorld(p, "exact") }},
}


// vsCrossWorld crosses the string leaves of a route action with the CONTEXT SELECTORS that decide which
// validator and which rendering site apply to them: the kind of the route path (prefix /p, regular
// expression ~ and ~*, exact match =), the kind of location (top-level action, splits, matches, splits inside
// matches: the last three are internal locations), the type of the upstream (plain, TLS, gRPC), and
// VirtualServer route versus VirtualServerRoute subroute (one VirtualServerRoute per path kind, because a
// regular-expression or exact route may only delegate to a single subroute with the same path).
func vsCrossWorld(plus bool, only string) *World {
	w := &World{Plus: plus, HTTP2: true, Secondary: true} // the fields get their full payload set in vs-rich
	clusterState(w)
	ups := []conf_v1.Upstream{
		{Name: "u-http", Service: "tea-svc", Port: 80},
		{Name: "u-tls", Service: "coffee-svc", Port: 80, TLS: conf_v1.UpstreamTLS{Enable: true}},
		{Name: "u-grpc", Service: "grpc-svc", Port: 8080, Type: "grpc"},
	}
	proxy := func(up string) *conf_v1.Action {
		return &conf_v1.Action{Proxy: &conf_v1.ActionProxy{Upstream: up, RewritePath: "/rw",
			RequestHeaders:  &conf_v1.ProxyRequestHeaders{Set: []conf_v1.Header{{Name: "X-Req", Value: "req ${http_x_user}"}}},
			ResponseHeaders: &conf_v1.ProxyResponseHeaders{Hide: []string{"x-hide"}, Pass: []string{"Server"}, Ignore: []string{"Expires"}, Add: []conf_v1.AddHeader{{Header: conf_v1.Header{Name: "X-Add", Value: "add"}, Always: true}}}}}
	}
	redirect := func() *conf_v1.Action {
		return &conf_v1.Action{Redirect: &conf_v1.ActionRedirect{URL: "${scheme}://${host}/new", Code: 301}}
	}
	ret := func() *conf_v1.Action {
		return &conf_v1.Action{Return: &conf_v1.ActionReturn{Code: 200, Type: "text/plain", Body: "body ${request_uri}", Headers: []conf_v1.Header{{Name: "x-ret", Value: "ret"}}}}
	}
	pass := func(up string) *conf_v1.Action { return &conf_v1.Action{Pass: up} }
	splits := func(up string) []conf_v1.Split {
		// a split may have weight 0 (switched off): its location is generated all the same
		return []conf_v1.Split{{Weight: 40, Action: pass(up)}, {Weight: 30, Action: proxy("u-tls")}, {Weight: 20, Action: redirect()}, {Weight: 10, Action: ret()},
			{Weight: 0, Action: proxy(up)}, {Weight: 0, Action: redirect()}, {Weight: 0, Action: ret()}}
	}
	cond := func(v string) []conf_v1.Condition { return []conf_v1.Condition{{Header: "x-sel", Value: v}} }
	matches := func(up string) []conf_v1.Match {
		return []conf_v1.Match{
			{Conditions: cond("a"), Action: proxy(up)},
			{Conditions: cond("b"), Action: redirect()},
			{Conditions: cond("c"), Action: ret()},
			{Conditions: cond("d"), Splits: []conf_v1.Split{{Weight: 50, Action: pass(up)}, {Weight: 50, Action: proxy(up)},
				{Weight: 0, Action: proxy(up)}, {Weight: 0, Action: ret()}}},
		}
	}
	// path of kind k with a distinguishing tail
	mk := func(k, tail string) string {
		switch k {
		case "regex":
			return "~ ^/" + tail
		case "iregex":
			return "~* ^/" + tail
		case "exact":
			return "=/" + tail
		}
		return "/" + tail
	}
	// one world per path kind: small files keep every rendering (and its evaluation in Rocq) cheap
	// route-level attributes are crossed with what the route does (action, splits, matches, delegation to a
	// VirtualServerRoute): every kind of route carries error pages
	ep := func() []conf_v1.ErrorPage {
		return []conf_v1.ErrorPage{
			{Codes: []int{404}, Return: &conf_v1.ErrorPageReturn{ActionReturn: conf_v1.ActionReturn{Code: 200, Type: "text/plain", Body: "ep ${upstream_status}",
				Headers: []conf_v1.Header{{Name: "x-ep", Value: "${upstream_status}"}}}}},
			{Codes: []int{502}, Redirect: &conf_v1.ErrorPageRedirect{ActionRedirect: conf_v1.ActionRedirect{URL: "${scheme}://ep.example.com/e", Code: 302}}},
		}
	}
	kinds := []string{only}
	var routes []conf_v1.Route
	for _, k := range kinds {
		routes = append(routes,
			conf_v1.Route{Path: mk(k, k+"-pass"), Action: pass("u-http"), ErrorPages: ep()},
			conf_v1.Route{Path: mk(k, k+"-proxy"), Action: proxy("u-http")},
			conf_v1.Route{Path: mk(k, k+"-proxy-tls"), Action: proxy("u-tls")},
			conf_v1.Route{Path: mk(k, k+"-proxy-grpc"), Action: proxy("u-grpc")},
			conf_v1.Route{Path: mk(k, k+"-redirect"), Action: redirect()},
			conf_v1.Route{Path: mk(k, k+"-return"), Action: ret()},
			conf_v1.Route{Path: mk(k, k+"-splits"), Splits: splits("u-http"), ErrorPages: ep()},
			conf_v1.Route{Path: mk(k, k+"-matches"), Matches: matches("u-http"), Action: proxy("u-http"), ErrorPages: ep()},
			conf_v1.Route{Path: mk(k, k+"-vsr"), Route: ns + "/cross-" + k, ErrorPages: ep()},
		)
	}
	vsrKinds := []string{only}
	switch only {
	case "exact":
		routes = append(routes, conf_v1.Route{Path: mk("exact", "exact-vsr2"), Route: ns + "/cross-exact2", ErrorPages: ep()})
		vsrKinds = append(vsrKinds, "exact2")
	case "regex":
		routes = append(routes, conf_v1.Route{Path: mk("regex", "regex-vsr2"), Route: ns + "/cross-regex2", ErrorPages: ep()})
		vsrKinds = append(vsrKinds, "regex2")
	}
	vs := &conf_v1.VirtualServer{ObjectMeta: meta("cross")}
	vs.Spec = conf_v1.VirtualServerSpec{IngressClass: "nginx", Host: "cross.example.com", TLS: &conf_v1.TLS{Secret: "tls"}, Upstreams: ups, Routes: routes}
	w.Objs = append(w.Objs, Obj{Kind: "vs", Name: "cross", Val: vs})
	for _, k := range vsrKinds {
		vsr := &conf_v1.VirtualServerRoute{ObjectMeta: meta("cross-" + k)}
		vsr.Spec = conf_v1.VirtualServerRouteSpec{IngressClass: "nginx", Host: "cross.example.com",
			Upstreams: []conf_v1.Upstream{{Name: "u-http", Service: "vsr-svc", Port: 80}, {Name: "u-tls", Service: "svc1", Port: 80, TLS: conf_v1.UpstreamTLS{Enable: true}}}}
		p := mk(k, k+"-vsr")
		switch k {
		case "exact2":
			p = mk("exact", "exact-vsr2")
			vsr.Spec.Subroutes = []conf_v1.Route{{Path: p, Matches: matches("u-tls"), Action: proxy("u-http")}}
		case "regex2":
			p = mk("regex", "regex-vsr2")
			vsr.Spec.Subroutes = []conf_v1.Route{{Path: p, Action: proxy("u-tls")}}
		case "prefix":
			vsr.Spec.Subroutes = []conf_v1.Route{
				{Path: p + "/proxy", Action: proxy("u-http"), ErrorPages: ep()},
				{Path: p + "/splits", Splits: splits("u-http")},
				{Path: p + "/matches", Matches: matches("u-http"), Action: proxy("u-tls")},
			}
		case "regex":
			vsr.Spec.Subroutes = []conf_v1.Route{{Path: p, Matches: matches("u-http"), Action: proxy("u-http")}}
		case "iregex":
			vsr.Spec.Subroutes = []conf_v1.Route{{Path: p, Splits: splits("u-http")}}
		case "exact":
			vsr.Spec.Subroutes = []conf_v1.Route{{Path: p, Action: proxy("u-http")}}
		}
		w.Objs = append(w.Objs, Obj{Kind: "vsr", Name: vsr.Name, Val: vsr})
	}
	return w
}
