(* C04 -- Master/minion and VirtualServer/Route composition is exactly as declared.
   Only statements, each closed by [exact] and followed by Print Assumptions. *)
From Coq Require Import List ZArith String Bool.
From NIC Require Import Base.SMap Arb.Types Arb.Model Arb.Spec Arb.InvProofs Arb.ComposeProofs.
Import ListNotations.
Open Scope Z_scope.

(* For every route list (unbounded): the routes attached to a VirtualServer are exactly the
   referenced (by bare name in the VirtualServer's namespace, or by namespace/name), existing
   VirtualServerRoutes that pass the per-reference check -- nothing else. *)
Theorem C04_routes_exact :
  forall rs v routes r,
    In r (fst (build_vsrs rs v routes)) <->
    exists path route, In (path, route) routes /\ route <> ""%string /\
                       lookup (route_key v route) rs = Some r /\ vsr_ok_for r (v_host v) path = true.
Proof. exact vsrs_exact. Qed.
Print Assumptions C04_routes_exact.

(* the per-reference check: host equal to the VirtualServer's; under a regex/exact route exactly one
   subroute with the identical path; under a prefix route every subroute below the prefix *)
Theorem C04_reference_check_meaning :
  forall r host path,
    host <> ""%string -> vsr_ok_for r host path = true ->
    r_host r = host /\
    (is_regex_or_exact path = true -> r_subpaths r = [path]) /\
    (is_regex_or_exact path = false -> path <> ""%string -> forall p, In p (r_subpaths r) -> String.prefix path p = true).
Proof. exact vsr_ok_for_meaning. Qed.
Print Assumptions C04_reference_check_meaning.

(* the minions rendered with a master are exactly the stored (valid, class-matching) minion
   Ingresses whose host equals the master's, in key order *)
Theorem C04_minions_exact :
  forall is_ host i, In i (minions_of is_ host) <-> exists k, In (k, i) is_ /\ is_minion i = true /\ host0 i = host.
Proof. exact minions_of_exact. Qed.
Print Assumptions C04_minions_exact.

Theorem C04_minions_attached_are_minions_of :
  forall is_ host, map mc_ing (fst (build_minions is_ host)) = minions_of is_ host.
Proof. exact build_minions_list. Qed.
Print Assumptions C04_minions_attached_are_minions_of.

(* composition is a function of the current object set: no dependence on the order of events *)
Theorem C04_order_independent :
  forall c es1 es2, objs_after es1 = objs_after es2 ->
    hosts (run c es1) = hosts (run c es2) /\ lhosts (run c es1) = lhosts (run c es2) /\
    get_resources (run c es1) = get_resources (run c es2).
Proof. exact order_independent. Qed.
Print Assumptions C04_order_independent.
