(* C07 -- Generated configuration always loads: well-formed, no duplicate identifiers.
   Only statements, each closed by [exact], each followed by Print Assumptions. *)
From Coq Require Import List String Ascii Bool.
From NIC Require Import Names.Idents Names.IdentsProofs.
Import ListNotations.
Open Scope string_scope.

(* If a separator byte occurs in none of the components, concatenation with that separator is
   injective, including in the number of components.  For ALL strings. *)
Theorem C07_sep_split_unique : forall c xs x ys y,
    no_sep c (x :: xs) -> no_sep c (y :: ys) -> join c x xs = join c y ys -> x :: xs = y :: ys.
Proof. exact sep_split_unique. Qed.
Print Assumptions C07_sep_split_unique.
