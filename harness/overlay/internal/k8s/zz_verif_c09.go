//go:build verif

package k8s

// Add-only hook for property C09: a LoadBalancerController over stores the harness fills,
// assembled the way controller_test.go assembles one, so that the harness can go the whole way
// createVirtualServerEx (endpoint keys computed by the producer) -> GenerateVirtualServerConfig
// (keys computed again by the consumer) -> template.

import (
	"io"
	"log/slog"

	"github.com/nginx/kubernetes-ingress/internal/configs"
	"github.com/nginx/kubernetes-ingress/internal/k8s/secrets"
	conf_v1 "github.com/nginx/kubernetes-ingress/pkg/apis/configuration/v1"
	"github.com/nginx/kubernetes-ingress/pkg/apis/configuration/validation"
	api_v1 "k8s.io/api/core/v1"
	discovery_v1 "k8s.io/api/discovery/v1"
	networking "k8s.io/api/networking/v1"
	"k8s.io/client-go/tools/cache"
)

// VerifC09 is a controller over stores the harness populates.
type VerifC09 struct {
	lbc    *LoadBalancerController
	svcs   cache.Store
	slices cache.Store
	pods   cache.Indexer
}

// NewVerifC09 builds the controller.
func NewVerifC09(isPlus bool) *VerifC09 {
	v := &VerifC09{
		svcs:   cache.NewStore(cache.MetaNamespaceKeyFunc),
		slices: cache.NewStore(cache.MetaNamespaceKeyFunc),
		pods:   cache.NewIndexer(cache.MetaNamespaceKeyFunc, cache.Indexers{cache.NamespaceIndex: cache.MetaNamespaceIndexFunc}),
	}
	nsi := map[string]*namespacedInformer{
		"": {
			svcLister:           v.svcs,
			endpointSliceLister: storeToEndpointSliceLister{Store: v.slices},
			podLister:           indexerToPodLister{Indexer: v.pods},
			policyLister:        cache.NewStore(cache.MetaNamespaceKeyFunc),
		},
	}
	lbc := &LoadBalancerController{
		ingressClass:              "nginx",
		isNginxPlus:               isPlus,
		areCustomResourcesEnabled: true,
		namespacedInformers:       nsi,
		secretStore:               secrets.NewEmptyFakeSecretsStore(),
		Logger:                    slog.New(slog.NewTextHandler(io.Discard, nil)),
	}
	lbc.configuration = NewConfiguration(
		lbc.HasCorrectIngressClass, isPlus, false, false, false,
		validation.NewVirtualServerValidator(validation.IsPlus(isPlus)),
		validation.NewGlobalConfigurationValidator(map[int]bool{80: true, 443: true}),
		validation.NewTransportServerValidator(true, true, isPlus),
		true, true, false, false,
	)
	v.lbc = lbc
	return v
}

func (v *VerifC09) AddService(s *api_v1.Service) error           { return v.svcs.Add(s) }
func (v *VerifC09) AddSlice(s *discovery_v1.EndpointSlice) error { return v.slices.Add(s) }
func (v *VerifC09) AddPod(p *api_v1.Pod) error                   { return v.pods.Add(p) }

// CreateVirtualServerEx is the real createVirtualServerEx.
func (v *VerifC09) CreateVirtualServerEx(vs *conf_v1.VirtualServer, vsrs []*conf_v1.VirtualServerRoute) *configs.VirtualServerEx {
	return v.lbc.createVirtualServerEx(vs, vsrs)
}

// CreateIngressEx is the real createIngressEx.
func (v *VerifC09) CreateIngressEx(ing *networking.Ingress, validHosts map[string]bool) *configs.IngressEx {
	return v.lbc.createIngressEx(ing, validHosts, nil)
}

// CreateTransportServerEx is the real createTransportServerEx.
func (v *VerifC09) CreateTransportServerEx(ts *conf_v1.TransportServer, listenerPort int) *configs.TransportServerEx {
	return v.lbc.createTransportServerEx(ts, listenerPort, "", "")
}
