(* C19 -- App Protect arbitration.  Only statements, each closed by [exact], each followed by
   Print Assumptions. *)
From Coq Require Import List ZArith String Bool.
From NIC Require Import Base.SMap AppProtect.Model AppProtect.Spec AppProtect.ProofsRefuted.
Import ListNotations.
Open Scope string_scope.
Open Scope Z_scope.

Theorem C19_revtime_refuted :
  exists (evs : list event) (k ks : string),
    pol_class w_pol = ENone /\
    lookup k (ob_pol (final_objects evs)) = Some w_pol /\
    spec_sig_answer (ob_sig (final_objects evs)) ks = AOk /\
    spec_pol_answer acceptable (final_objects evs) k = AOk /\
    get_app_resource (waf (run true evs)) KPolicy k = AErr EMissing /\
    get_app_resource (waf (run true (rev evs))) KPolicy k = AErr EMissing.
Proof. exact revtime_refuted. Qed.
Print Assumptions C19_revtime_refuted.
