(* C16 -- placeholder statement until the non-interference theorem lands (Arb/ClassProofs.v). *)
From Coq Require Import List ZArith String Bool.
From NIC Require Import Base.SMap Arb.Types Arb.Model Arb.Spec Arb.InvProofs.
Theorem C16_state_ignores_foreign_objects : forall c es, objs_of_state (run c es) = objs_after es.
Proof. exact run_objs. Qed.
Print Assumptions C16_state_ignores_foreign_objects.
