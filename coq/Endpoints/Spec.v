(* C14 -- the declarative specification, independent of the resolution functions of
   Model.v, and its decidable form evaluated on what the implementation returned.
   Only definitions here; the equivalences are proved in Proofs.v. *)
From Coq Require Import List ZArith String Ascii Bool.
From NIC Require Import Endpoints.Model.
Import ListNotations.
Open Scope string_scope.
Open Scope Z_scope.

(* ---------- which service port a backend references (Kubernetes' meaning) ---------- *)
(* a backend port with a name references the service port of that name; a backend port
   without a name references the service port with that number *)
Definition spec_port_matches (bp : BPort) (p : SvcPort) : bool :=
  if String.eqb (bp_name bp) "" then sp_port p =? bp_num bp else String.eqb (sp_name p) (bp_name bp).

Definition spec_ref_port (bp : BPort) (ports : list SvcPort) : option SvcPort :=
  find (spec_port_matches bp) ports.

(* ---------- the ideal set of servers, as a Prop ---------- *)
Definition has_port_num (sl : Slice) (P : Z) : Prop :=
  exists p, In p (sl_ports sl) /\ slp_num p = Some P.

(* x is the address of a ready endpoint of a slice of [svc] that exposes port number P *)
Definition ideal_member (c : Cluster) (svc : Service) (P : Z) (x : string) : Prop :=
  exists sl e a,
    In sl (c_slices c) /\ sl_svc sl = s_name svc /\ sl_ns sl = s_ns svc /\
    has_port_num sl P /\
    In e (sl_eps sl) /\ e_ready e = Some true /\ In a (e_addrs e) /\
    x = join a P.

(* Kubernetes' meaning of a service port in the slices of its service: the slice port that
   carries the *name* of the service port, whatever its number (for a named target port the
   number differs from pod to pod and the EndpointSlice controller makes one slice per number) *)
Definition ideal_member_by_name (c : Cluster) (svc : Service) (pname : string) (x : string) : Prop :=
  exists sl p n e a,
    In sl (c_slices c) /\ sl_svc sl = s_name svc /\ sl_ns sl = s_ns svc /\
    In p (sl_ports sl) /\ slp_name p = pname /\ slp_num p = Some n /\
    In e (sl_eps sl) /\ e_ready e = Some true /\ In a (e_addrs e) /\
    x = join a n.

(* the sub-selected variant: additionally the address is the IP of a pod of the namespace
   carrying the labels of the service selector merged with the sub-selector *)
Definition ideal_member_sub (c : Cluster) (svc : Service) (sub : labels) (P : Z) (x : string) : Prop :=
  exists sl e a pod,
    In sl (c_slices c) /\ sl_svc sl = s_name svc /\ sl_ns sl = s_ns svc /\
    has_port_num sl P /\
    In e (sl_eps sl) /\ e_ready e = Some true /\ In a (e_addrs e) /\
    In pod (c_pods c) /\ p_ns pod = s_ns svc /\
    sel_matches (merge_labels (s_selector svc) sub) (p_labels pod) = true /\ p_ip pod = a /\
    x = join a P.

(* bracketing *)
Definition bracketed (a : string) (P : Z) (x : string) : Prop :=
  (has_colon a = true -> x = "[" ++ a ++ "]:" ++ show_Z P) /\
  (has_colon a = false -> x = a ++ ":" ++ show_Z P).

(* ---------- the same sets as lists (computable) ---------- *)
Definition slice_has_port (P : Z) (sl : Slice) : bool := existsb (port_is P) (sl_ports sl).

Definition ideal_num (c : Cluster) (svc : Service) (P : Z) : list string :=
  flat_map (fun sl =>
    if slice_of svc sl && slice_has_port P sl then
      flat_map (fun e => if is_ready e then map (fun a => join a P) (e_addrs e) else []) (sl_eps sl)
    else []) (c_slices c).

Definition ideal_name (c : Cluster) (svc : Service) (pname : string) : list string :=
  flat_map (fun sl =>
    if slice_of svc sl then
      flat_map (fun p =>
        match slp_num p with
        | Some n =>
            if String.eqb (slp_name p) pname then
              flat_map (fun e => if is_ready e then map (fun a => join a n) (e_addrs e) else []) (sl_eps sl)
            else []
        | None => []
        end) (sl_ports sl)
    else []) (c_slices c).

Definition pod_has_ip (c : Cluster) (svc : Service) (sub : labels) (a : string) : bool :=
  existsb (fun pod => String.eqb (p_ns pod) (s_ns svc) &&
                      sel_matches (merge_labels (s_selector svc) sub) (p_labels pod) &&
                      String.eqb (p_ip pod) a) (c_pods c).

Definition ideal_sub (c : Cluster) (svc : Service) (sub : labels) (P : Z) : list string :=
  flat_map (fun sl =>
    if slice_of svc sl && slice_has_port P sl then
      flat_map (fun e => if is_ready e then
                           flat_map (fun a => if pod_has_ip c svc sub a then [join a P] else []) (e_addrs e)
                         else []) (sl_eps sl)
    else []) (c_slices c).

(* ---------- decidable set equality with multiplicity one ---------- *)
Definition mem (x : string) (l : list string) : bool := existsb (String.eqb x) l.

Fixpoint nodupb (l : list string) : bool :=
  match l with
  | [] => true
  | x :: r => negb (mem x r) && nodupb r
  end.

Definition subsetb (a b : list string) : bool := forallb (fun x => mem x b) a.

Definition same_set (a b : list string) : bool := subsetb a b && subsetb b a.

(* S: the observed servers are exactly the ideal ones, each once *)
Definition exact_ok (ideal obs : list string) : bool := nodupb obs && same_set obs ideal.

(* ---------- the ideal Endpoints entry of a backend ---------- *)
Inductive ideal :=
| IExact (l : list string)       (* these servers, each once *)
| IFree.                         (* the reference itself is broken in a way the property does not speak about *)

Definition ideal_for_port (c : Cluster) (svc : Service) (sp : SvcPort) (sub : labels) : list string :=
  match sp_target sp, sub with
  | TUnset, [] => ideal_num c svc (sp_port sp)
  | TNum n, [] => ideal_num c svc n
  | TNamed _, [] => ideal_name c svc (sp_name sp)
  | TUnset, _ => ideal_sub c svc sub (sp_port sp)
  | TNum n, _ => ideal_sub c svc sub n
  | TNamed _, _ =>
      (* by name, restricted to the sub-selected pods *)
      filter (fun x => existsb (fun p => match slp_num p with
                                         | Some n => mem x (ideal_sub c svc sub n)
                                         | None => false end)
                               (flat_map sl_ports (svc_slices c svc)))
             (ideal_name c svc (sp_name sp))
  end.

(* the service counts as ExternalName only while it has no slices *)
Definition svc_external (c : Cluster) (svc : Service) : bool :=
  match s_type svc, svc_slices c svc with ExternalNameT, [] => true | _, _ => false end.

(* cluster-IP mode applies (not to TransportServers; an Ingress keeps the DNS name of an
   ExternalName service under NGINX Plus when that name:port can be formed, i.e. unless the
   backend names a port the service does not have) *)
Definition uses_cluster_ip (plus : bool) (c : Cluster) (svc : Service) (b : Backend) : bool :=
  match b_kind b with
  | KTS => false
  | KIng => b_clusterip b &&
            negb (svc_external c svc && plus &&
                  (String.eqb (bp_name (b_port b)) "" ||
                   match spec_ref_port (b_port b) (s_ports svc) with Some _ => true | None => false end))
  | KVS | KVSR => b_clusterip b
  end.

Definition ideal_entry (plus : bool) (c : Cluster) (ns : string) (b : Backend) : ideal :=
  match find_svc c ns (b_svc b) with
  | None => IExact []
  | Some svc =>
      let subsel := match b_kind b with KVS | KVSR => b_subsel b | _ => [] end in
      if uses_cluster_ip plus c svc b then
        (* cluster-IP mode: the cluster IP and the referenced service port (for a numeric
           backend port: that number, whether or not the service declares it) *)
        if String.eqb (bp_name (b_port b)) "" then IExact [join (s_clusterIP svc) (bp_num (b_port b))]
        else match spec_ref_port (b_port b) (s_ports svc) with
             | Some sp => IExact [join (s_clusterIP svc) (sp_port sp)]
             | None => IFree
             end
      else if svc_external c svc && is_nil subsel then
        if plus then
          if String.eqb (bp_name (b_port b)) "" then IExact [join_plain (s_extname svc) (bp_num (b_port b))]
          else match spec_ref_port (b_port b) (s_ports svc) with
               | Some sp => IExact [join_plain (s_extname svc) (sp_port sp)]
               | None => IExact []
               end
        else IExact []
      else
        match spec_ref_port (b_port b) (s_ports svc) with
        | None => IExact []
        | Some sp => IExact (ideal_for_port c svc sp subsel)
        end
  end.

(* the server lines of the upstream block: the entry, or exactly one placeholder that
   answers with an error when there is nothing to send traffic to (NGINX Plus: an empty
   upstream with a zone, which answers 502 by itself) *)
Definition servers_ok (plus resolver : bool) (k : bkind) (entry : list string) (extsvc : bool) (servers : list string) : bool :=
  let usable := if extsvc && negb resolver then [] else entry in
  if is_nil usable then
    if plus then is_nil servers
    else match servers with [s] => String.eqb s (placeholder k) | _ => false end
  else same_set servers usable && (List.length servers =? List.length usable)%nat.
