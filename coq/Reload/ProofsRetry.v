(* C12 -- the retry clause S6 (Reload.Cases.retry_ok) holds of the model: an endpoints operation that
   returns without error with reloads enabled leaves nothing pending WHATEVER was pending before it
   (in particular the change of a preceding endpoints operation whose fall-back reload failed):
   its log ends in a successful reload, or (Plus) consists of successful API pushes, at least one. *)
From Coq Require Import List ZArith String Bool Lia.
From NIC Require Import Base.SMap Reload.Model Reload.Proofs Reload.Cases.
Import ListNotations.

Lemma endpoints_clear_pending e s k rs s' x p :
  step e s (OEndpoints k rs) = (s', x) ->
  enabled s' = true -> oerr x = ENone -> endp_pushes (OEndpoints k rs) = true ->
  negb (pend_scan p (log x)) || (plus e && forallb api_ok (log x) && existsb is_api (log x)) = true.
Proof.
  cbn [step endp_pushes]. intros H En Er Hp.
  pose proof (endp_loop_facts e rs s) as F. destruct (endp_loop e rs s) as [[s1 l1] rp].
  destruct F as (A & B & C & D).
  destruct (plus e && negb rp) eqn:G.
  - apply andb_prop in G. destruct G as [P Rp]. apply negb_true_iff in Rp.
    inversion H; subst s' x. cbn [log] in *.
    apply andb_prop in Hp. destruct Hp as [Hp Hn].
    rewrite P, (C Rp). rewrite D; auto.
    + apply orb_true_r.
    + congruence.
    + intros ->. discriminate.
  - pose proof (finish_reload_facts e true s1 l1) as R.
    rewrite H in R. destruct R as [En' [(E0 & L & R)|(E1 & ok & L & R)]].
    + congruence.
    + rewrite R in Er. destruct ok; [|discriminate].
      rewrite L, pend_scan_app. cbn. reflexivity.
Qed.

(* two consecutive operations of any run of the model satisfy the clause *)
Theorem model_retry_ok e s po o s1 x1 s2 x2 :
  step e s po = (s1, x1) -> step e s1 o = (s2, x2) -> endp_pushes o = true ->
  retry_ok (plus e) po (log x1, err_code (oerr x1), enabled s1) o (log x2, err_code (oerr x2), enabled s2) = true.
Proof.
  intros H1 H2 Hp. unfold retry_ok.
  destruct (is_endp po); [|reflexivity].
  destruct o as [r|rs|rs al|k n sk|k rs| | |mv rs|fl|rs dl|rs dl|k ns|eg nm vr| ]; cbn [is_endp]; try reflexivity.
  match goal with |- (if ?c then _ else _) = true => destruct c eqn:Hc; [|reflexivity] end.
  repeat (apply andb_prop in Hc; destruct Hc as [Hc ?]).
  match goal with Hz : (err_code (oerr x2) =? 0)%Z = true |- _ =>
    assert (Er : oerr x2 = ENone) by (destruct (oerr x2); [reflexivity|cbn in Hz; discriminate]) end.
  match goal with He : enabled s2 = true |- _ =>
    exact (endpoints_clear_pending e s1 k rs s2 x2 true H2 He Er Hp) end.
Qed.
