(* Names/IdentsProofs.v -- injectivity of the identifier schemes of Names/Idents.v, for ALL strings.

     sep_split_unique            if the separator byte occurs in none of the components, concatenation
                                 with that separator is injective (also in the NUMBER of components)
     dns_no_underscore           DNS-1123/1035 names never contain _
     vs_upstream_name_injective, vsr_upstream_name_injective, vs_vsr_upstream_names_disjoint,
     ts_upstream_name_injective, rl_zone_name_injective, match_name_injective,
     ingress_rl_zone_name_injective
     ingress_upstream_name_refuted, safe_ns_name_refuted, keyval_zone_name_refuted,
     login_location_name_refuted     concrete collisions of the schemes that use - as separator of
                                     components that may contain - (witnesses by vm_compute) *)
From Coq Require Import List String Ascii Bool Arith Lia.
From NIC Require Import Names.Idents.
Import ListNotations.
Open Scope string_scope.

Lemma has_char_app : forall c a b, has_char c (a ++ b) = has_char c a || has_char c b.
Proof.
  induction a as [|x a IH]; intros b; cbn [append has_char]; [reflexivity|].
  rewrite IH. now rewrite orb_assoc.
Qed.

Lemma has_char_sep : forall c a b, has_char c (a ++ String c b) = true.
Proof.
  intros. rewrite has_char_app. cbn [has_char]. rewrite Ascii.eqb_refl. now rewrite orb_true_r.
Qed.

Lemma append_sep_inj : forall c x y r1 r2,
    has_char c x = false -> has_char c y = false ->
    x ++ String c r1 = y ++ String c r2 -> x = y /\ r1 = r2.
Proof.
  induction x as [|a x IH]; intros y r1 r2 Hx Hy E.
  - destruct y as [|b y]; cbn [append] in E.
    + injection E as E. now split.
    + injection E as E1 E2. subst b. cbn [has_char] in Hy. rewrite Ascii.eqb_refl in Hy. discriminate.
  - destruct y as [|b y]; cbn [append] in E.
    + injection E as E1 E2. subst a. cbn [has_char] in Hx. rewrite Ascii.eqb_refl in Hx. discriminate.
    + injection E as E1 E2. subst b.
      cbn [has_char] in Hx, Hy. apply orb_false_elim in Hx as [_ Hx]. apply orb_false_elim in Hy as [_ Hy].
      destruct (IH y r1 r2 Hx Hy E2) as [-> ->]. now split.
Qed.

Definition no_sep (c : ascii) (l : list string) : Prop := Forall (fun s => has_char c s = false) l.

(* the general lemma *)
Theorem sep_split_unique : forall c xs x ys y,
    no_sep c (x :: xs) -> no_sep c (y :: ys) ->
    join c x xs = join c y ys -> x :: xs = y :: ys.
Proof.
  induction xs as [|x' xs IH]; intros x ys y Hx Hy E.
  - destruct ys as [|y' ys]; cbn [join] in E.
    + now subst.
    + exfalso. inversion Hx as [|? ? Hx0 _]; subst. rewrite has_char_sep in Hx0. discriminate.
  - destruct ys as [|y' ys]; cbn [join] in E.
    + exfalso. inversion Hy as [|? ? Hy0 _]; subst. rewrite has_char_sep in Hy0. discriminate.
    + inversion Hx as [|? ? Hx0 Hx1]; inversion Hy as [|? ? Hy0 Hy1]; subst.
      destruct (append_sep_inj c x y _ _ Hx0 Hy0 E) as [-> E'].
      f_equal. now apply IH.
Qed.

Lemma dns_no_underscore : forall s, dns_name s = true -> has_char us s = false.
Proof.
  induction s as [|a s IH]; intros H; [reflexivity|].
  cbn [dns_name] in H. apply andb_true_iff in H as [Ha Hs].
  cbn [has_char]. rewrite (IH Hs), orb_false_r.
  destruct (Ascii.eqb a us) eqn:E; [|reflexivity].
  apply Ascii.eqb_eq in E. subst a. vm_compute in Ha. discriminate.
Qed.

Lemma dns_all : forall l, Forall (fun s => dns_name s = true) l -> no_sep us l.
Proof. intros l H. eapply Forall_impl; [|exact H]. intros s; apply dns_no_underscore. Qed.

Ltac dns_list := repeat (constructor; [first [assumption | reflexivity]|]); constructor.

Lemma lit_vs : has_char us "vs" = false. Proof. reflexivity. Qed.
Lemma lit_ts : has_char us "ts" = false. Proof. reflexivity. Qed.
Lemma lit_vsr : has_char us "vsr" = false. Proof. reflexivity. Qed.
Lemma lit_pol : has_char us "pol" = false. Proof. reflexivity. Qed.
Lemma lit_rl : has_char us "rl" = false. Proof. reflexivity. Qed.

Local Ltac nosep :=
  repeat (apply Forall_cons; [first [apply dns_no_underscore; assumption | reflexivity]|]); apply Forall_nil.

Theorem vs_upstream_name_injective : forall ns1 n1 u1 ns2 n2 u2,
    dns_name ns1 = true -> dns_name n1 = true -> dns_name u1 = true ->
    dns_name ns2 = true -> dns_name n2 = true -> dns_name u2 = true ->
    vs_upstream_name ns1 n1 u1 = vs_upstream_name ns2 n2 u2 -> (ns1, n1, u1) = (ns2, n2, u2).
Proof.
  intros. unfold vs_upstream_name in *.
  assert (E : "vs" :: [ns1; n1; u1] = "vs" :: [ns2; n2; u2]) by (apply (sep_split_unique us); [nosep|nosep|assumption]).
  now inversion E.
Qed.

Theorem vsr_upstream_name_injective : forall a1 b1 c1 d1 u1 a2 b2 c2 d2 u2,
    Forall (fun s => dns_name s = true) [a1; b1; c1; d1; u1; a2; b2; c2; d2; u2] ->
    vsr_upstream_name a1 b1 c1 d1 u1 = vsr_upstream_name a2 b2 c2 d2 u2 ->
    (a1, b1, c1, d1, u1) = (a2, b2, c2, d2, u2).
Proof.
  intros * H E. unfold vsr_upstream_name in E.
  repeat match goal with H : Forall _ (_ :: _) |- _ => inversion H; clear H; subst end.
  assert (E' : "vs" :: [a1; b1; "vsr"; c1; d1; u1] = "vs" :: [a2; b2; "vsr"; c2; d2; u2])
    by (apply (sep_split_unique us); [nosep|nosep|assumption]).
  now inversion E'.
Qed.

(* an upstream of a VirtualServer never gets the name of an upstream of one of its (or any other
   VirtualServer's) VirtualServerRoutes: the number of components differs *)
Theorem vs_vsr_upstream_names_disjoint : forall ns n u a b c d v,
    Forall (fun s => dns_name s = true) [ns; n; u; a; b; c; d; v] ->
    vs_upstream_name ns n u <> vsr_upstream_name a b c d v.
Proof.
  intros * H E. unfold vs_upstream_name, vsr_upstream_name in E.
  repeat match goal with H : Forall _ (_ :: _) |- _ => inversion H; clear H; subst end.
  assert (E' : "vs" :: [ns; n; u] = "vs" :: [a; b; "vsr"; c; d; v])
    by (apply (sep_split_unique us); [nosep|nosep|assumption]).
  discriminate E'.
Qed.

Theorem ts_upstream_name_injective : forall ns1 n1 u1 ns2 n2 u2,
    dns_name ns1 = true -> dns_name n1 = true -> dns_name u1 = true ->
    dns_name ns2 = true -> dns_name n2 = true -> dns_name u2 = true ->
    ts_upstream_name ns1 n1 u1 = ts_upstream_name ns2 n2 u2 -> (ns1, n1, u1) = (ns2, n2, u2).
Proof.
  intros. unfold ts_upstream_name in *.
  assert (E : "ts" :: [ns1; n1; u1] = "ts" :: [ns2; n2; u2]) by (apply (sep_split_unique us); [nosep|nosep|assumption]).
  now inversion E.
Qed.

Theorem rl_zone_name_injective : forall a1 b1 c1 d1 a2 b2 c2 d2,
    Forall (fun s => dns_name s = true) [a1; b1; c1; d1; a2; b2; c2; d2] ->
    rl_zone_name a1 b1 c1 d1 = rl_zone_name a2 b2 c2 d2 -> (a1, b1, c1, d1) = (a2, b2, c2, d2).
Proof.
  intros * H E. unfold rl_zone_name in E.
  repeat match goal with H : Forall _ (_ :: _) |- _ => inversion H; clear H; subst end.
  assert (E' : "pol" :: ["rl"; a1; b1; c1; d1] = "pol" :: ["rl"; a2; b2; c2; d2])
    by (apply (sep_split_unique us); [nosep|nosep|assumption]).
  now inversion E'.
Qed.

Lemma append_inj_r : forall a b c : string, a ++ c = b ++ c -> a = b.
Proof.
  intros a b c E.
  assert (L : forall s t, String.length (s ++ t) = String.length s + String.length t)
    by (induction s; intros; cbn; [reflexivity| now rewrite IHs]).
  revert b E. induction a as [|x a IH]; intros b E.
  - destruct b as [|y b]; [reflexivity|]. exfalso.
    apply (f_equal String.length) in E. cbn [append] in E. cbn [String.length] in E. rewrite L in E. lia.
  - destruct b as [|y b].
    + exfalso. apply (f_equal String.length) in E. cbn [append] in E. cbn [String.length] in E. rewrite L in E. lia.
    + cbn [append] in E. injection E as -> E. f_equal. now apply IH.
Qed.

Theorem match_name_injective : forall u1 u2, match_name u1 = match_name u2 -> u1 = u2.
Proof. intros u1 u2. unfold match_name. apply append_inj_r. Qed.

Theorem ingress_rl_zone_name_injective : forall ns1 n1 ns2 n2,
    has_char "/"%char ns1 = false -> has_char "/"%char ns2 = false ->
    has_char "/"%char n1 = false -> has_char "/"%char n2 = false ->
    ingress_rl_zone_name ns1 n1 = ingress_rl_zone_name ns2 n2 -> (ns1, n1) = (ns2, n2).
Proof.
  intros * A B C D E. unfold ingress_rl_zone_name in E.
  assert (E' : ns1 :: [n1] = ns2 :: [n2]).
  { apply (sep_split_unique "/"%char); [repeat constructor; assumption | repeat constructor; assumption | exact E]. }
  now inversion E'.
Qed.

(* ---------------------------------------------------------------- refutations (witnesses) *)

(* Ingress upstream names: the separator - is a legal byte of every component *)
Theorem ingress_upstream_name_refuted :
  exists ns ing1 host1 ing2 host2 svc port,
    Forall (fun s => dns_name s = true) [ns; ing1; host1; ing2; host2; svc; port] /\
    (ing1, host1) <> (ing2, host2) /\
    ingress_upstream_name ns ing1 host1 svc port = ingress_upstream_name ns ing2 host2 svc port.
Proof.
  exists "ns1", "a", "b-c.com", "a-b", "c.com", "svc", "80".
  split; [repeat constructor|]. split; [discriminate | reflexivity].
Qed.

(* VariableNamer: - is replaced by the separator _ *)
Theorem safe_ns_name_refuted :
  exists ns1 n1 ns2 n2,
    Forall (fun s => dns_name s = true) [ns1; n1; ns2; n2] /\ (ns1, n1) <> (ns2, n2) /\
    safe_ns_name ns1 n1 = safe_ns_name ns2 n2.
Proof.
  exists "a-b", "c", "a", "b-c". split; [repeat constructor|]. split; [discriminate | reflexivity].
Qed.

Theorem keyval_zone_name_refuted :
  exists ns1 n1 ns2 n2 i,
    Forall (fun s => dns_name s = true) [ns1; n1; ns2; n2] /\ (ns1, n1) <> (ns2, n2) /\
    keyval_zone_name ns1 n1 i = keyval_zone_name ns2 n2 i.
Proof.
  exists "a-b", "c", "a", "b-c", 0. split; [repeat constructor|]. split; [discriminate | reflexivity].
Qed.

Theorem login_location_name_refuted :
  exists ns1 n1 ns2 n2,
    Forall (fun s => dns_name s = true) [ns1; n1; ns2; n2] /\ (ns1, n1) <> (ns2, n2) /\
    login_location_name ns1 n1 = login_location_name ns2 n2.
Proof.
  exists "a-b", "c", "a", "b-c". split; [repeat constructor|]. split; [discriminate | reflexivity].
Qed.

(* ---------------------------------------------------------------- append-unless-present (F12, F32) *)

Lemma add_once_spec : forall x l, NoDup l -> NoDup (add_once x l) /\ (forall y, In y (add_once x l) <-> y = x \/ In y l).
Proof.
  intros x l H. unfold add_once. destruct (existsb (String.eqb x) l) eqn:E.
  - split; [exact H|]. intros y. split; [now right|]. intros [->|Hy]; [|exact Hy].
    apply existsb_exists in E as (z & Hz & Ez). apply String.eqb_eq in Ez. now subst z.
  - split.
    + assert (Hn : ~ In x l).
      { intros Hin. assert (existsb (String.eqb x) l = true) by (apply existsb_exists; exists x; split; [exact Hin | apply String.eqb_refl]). congruence. }
      clear E. induction l as [|a l IH]; cbn [app]; [constructor; [intros []|constructor]|].
      inversion H as [|? ? Ha Hl]; subst. constructor.
      * rewrite in_app_iff. intros [Hin|[->|[]]]; [now apply Ha | apply Hn; now left].
      * apply IH; [exact Hl | intros Hin; apply Hn; now right].
    + intros y. rewrite in_app_iff. cbn [In]. split; [intros [Hy|[->|[]]]; [now right | now left] | intros [->|Hy]; [right; now left | now left]].
Qed.

Theorem collect_once_nodup : forall xs, NoDup (collect_once xs) /\ (forall y, In y (collect_once xs) <-> In y xs).
Proof.
  unfold collect_once. intros xs.
  assert (G : forall acc, NoDup acc ->
              NoDup (fold_left (fun acc x => add_once x acc) xs acc) /\
              (forall y, In y (fold_left (fun acc x => add_once x acc) xs acc) <-> In y xs \/ In y acc)).
  { induction xs as [|x xs IH]; intros acc Ha; cbn [fold_left].
    - split; [exact Ha|]. intros y. split; [now right | intros [[]|Hy]; exact Hy].
    - destruct (add_once_spec x acc Ha) as [Hn Hi]. destruct (IH _ Hn) as [H1 H2]. split; [exact H1|].
      intros y. rewrite H2, Hi. cbn [In]. split; [intros [Hy|[->|Hy]]; auto | intros [[->|Hy]|Hy]; auto]. }
  destruct (G [] (NoDup_nil _)) as [H1 H2]. split; [exact H1|].
  intros y. rewrite H2. split; [intros [Hy|[]]; exact Hy | now left].
Qed.
