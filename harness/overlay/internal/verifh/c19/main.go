//go:build verif

// Correspondence harness for C19 (App Protect arbitration).  Drives the REAL
// appprotect.ConfigurationImpl and appprotectdos.Configuration with random histories of
// add/update/delete over the six kinds (few namespaces / names / tags / timestamps so that
// collisions, timestamp ties and tag changes are frequent; malformed specs; deletes of absent
// keys) and, for every history, with a few re-orderings that keep the per-object order and
// therefore end in the same object set.  After every operation it records the projected
// change / problem lists and the answers of GetAppResource / GetValidDosEx for every key.
package main

import (
	"fmt"
	"io"
	"log/slog"
	"os"
	"sort"
	"strings"
	"time"

	"github.com/nginx/kubernetes-ingress/internal/k8s"
	"github.com/nginx/kubernetes-ingress/internal/k8s/appprotect"
	"github.com/nginx/kubernetes-ingress/internal/k8s/appprotectcommon"
	"github.com/nginx/kubernetes-ingress/internal/k8s/appprotectdos"
	"github.com/nginx/kubernetes-ingress/internal/verifh/vh"
	"github.com/nginx/kubernetes-ingress/pkg/apis/configuration/validation"
	"github.com/nginx/kubernetes-ingress/pkg/apis/dos/v1beta1"
	dosvalidation "github.com/nginx/kubernetes-ingress/pkg/apis/dos/validation"
	metav1 "k8s.io/apimachinery/pkg/apis/meta/v1"
	"k8s.io/apimachinery/pkg/apis/meta/v1/unstructured"
)

// TF is an optional RFC3339 field: K=0 absent, 1 present but unparsable, 2 parsable (T unix seconds)
type TF struct {
	K int   `json:"k"`
	T int64 `json:"t"`
	Z int   `json:"z,omitempty"` // rendering: 0 = UTC "Z", 1 = +02:00 offset (same instant)
}

type Req struct {
	HasTag bool   `json:"has_tag"`
	Tag    string `json:"tag"`
	Min    TF     `json:"min"`
	Max    TF     `json:"max"`
}

// Op kinds: 0 APPolicy 1 APLogConf 2 APUserSig 3 APDosPolicy 4 APDosLogConf 5 DosProtectedResource
type Op struct {
	K    int    `json:"k"`
	Del  bool   `json:"del,omitempty"`
	Ns   string `json:"ns"`
	Name string `json:"name"`
	UID  string `json:"uid,omitempty"`
	TS   int64  `json:"ts,omitempty"`
	WF   bool   `json:"wf,omitempty"` // generator intent: required fields present
	// APUserSig
	HasTag bool   `json:"has_tag,omitempty"`
	Tag    string `json:"tag,omitempty"`
	Rev    TF     `json:"rev"`
	// APPolicy
	ReqsKind int   `json:"reqs_kind,omitempty"` // 0 absent, 1 not a slice, 2 list
	Reqs     []Req `json:"reqs,omitempty"`
	// DosProtectedResource
	SpecName string `json:"spec_name,omitempty"`
	PolRef   string `json:"pol_ref,omitempty"`
	HasLog   bool   `json:"has_log,omitempty"`
	LogRef   string `json:"log_ref,omitempty"`
	LogDest  string `json:"log_dest,omitempty"`
	PrEnable bool   `json:"pr_enable,omitempty"`  // spec.enable
	LogEn    bool   `json:"log_enable,omitempty"` // spec.dosSecurityLog.enable
	// APUserSig deleted and re-created under the same name (new uid / creation time, same spec) and
	// delivered as ONE update (the work queue is keyed by kind+name): marker for the statistics only
	Recreate bool `json:"recreate,omitempty"`
	// > 0: this delete is part of the clean-up of a namespace that stops being watched (all stored
	// APPolicy, APLogConf, APUserSig of the namespace, consecutive ops with the same group id).  The
	// Configuration-level runs perform the deletes one by one; the controller run performs the group
	// as ONE call of the real cleanupUnwatchedAppWafResources.
	Unwatch int `json:"unwatch,omitempty"`
	// oracle: verdict of the real validator on the object built from this op (filled by run)
	Valid bool `json:"valid"`
}

type StepObs struct {
	Ch  []string `json:"ch"`
	Pr  []string `json:"pr"`
	Us  []string `json:"us"`
	IsU bool     `json:"is_us"` // a UserSig operation (Us meaningful)
	Ans string   `json:"ans"`
}

type RunObs struct {
	Order []int     `json:"order"`
	Steps []StepObs `json:"steps"`
	Panic string    `json:"panic,omitempty"`
}

type Case struct {
	ID      int        `json:"id"`
	Class   string     `json:"class"`
	Enabled bool       `json:"enabled"`
	// observed code variant: true when the real isReqSatisfiedByUserSig accepts a requirement without
	// bounds against a dated signature (fixes/F21.diff applied); probed on every run, never generated
	Fx bool `json:"fx"`
	WKeys   []string   `json:"wkeys"`
	PKeys   [][]string `json:"pkeys"`
	Hist    []Op       `json:"hist"`
	Perms   [][]int    `json:"perms"`
	Obs     any        `json:"obs"`
}

var (
	nss   = []string{"n1", "n2"}
	names = []string{"a", "b", "c"}
	tpool = []int64{1700000000, 1700001000, 1700002000, 1700003000, 1700004000}
)

func renderTime(t int64, z int) string {
	tm := time.Unix(t, 0).UTC()
	if z == 1 {
		tm = tm.In(time.FixedZone("", 2*3600))
	}
	return tm.Format(time.RFC3339)
}

func tfValue(f TF) (string, bool) {
	switch f.K {
	case 1:
		if f.T%2 == 0 {
			return "time", true
		}
		return "2020-13-41T25:61:00Z", true
	case 2:
		return renderTime(f.T, f.Z), true
	}
	return "", false
}

// ---------------------------------------------------------------- objects handed to the real code

func meta(kind string, op *Op) map[string]interface{} {
	m := map[string]interface{}{"name": op.Name, "namespace": op.Ns}
	if op.UID != "" {
		m["uid"] = op.UID
	}
	if op.TS != 0 {
		m["creationTimestamp"] = renderTime(op.TS, 0)
	}
	return m
}

func buildUnstructured(op *Op) *unstructured.Unstructured {
	obj := map[string]interface{}{}
	spec := map[string]interface{}{}
	switch op.K {
	case 0:
		obj["apiVersion"], obj["kind"] = "appprotect.f5.com/v1beta1", "APPolicy"
		if op.WF {
			pol := map[string]interface{}{"name": op.Name}
			switch op.ReqsKind {
			case 1:
				pol["signature-requirements"] = "not-a-slice"
			case 2:
				l := []interface{}{}
				for _, r := range op.Reqs {
					m := map[string]interface{}{}
					if r.HasTag {
						m["tag"] = r.Tag
					}
					if v, ok := tfValue(r.Min); ok {
						m["minRevisionDatetime"] = v
					}
					if v, ok := tfValue(r.Max); ok {
						m["maxRevisionDatetime"] = v
					}
					l = append(l, m)
				}
				pol["signature-requirements"] = l
			}
			spec["policy"] = pol
		}
	case 1:
		obj["apiVersion"], obj["kind"] = "appprotect.f5.com/v1beta1", "APLogConf"
		spec["filter"] = map[string]interface{}{"request_type": "all"}
		if op.WF {
			spec["content"] = map[string]interface{}{"format": "default"}
		}
	case 2:
		obj["apiVersion"], obj["kind"] = "appprotect.f5.com/v1beta1", "APUserSig"
		if op.WF {
			spec["signatures"] = []interface{}{map[string]interface{}{"name": "sig1"}}
		}
		if op.HasTag {
			spec["tag"] = op.Tag
		}
		if v, ok := tfValue(op.Rev); ok {
			spec["revisionDatetime"] = v
		}
	case 3:
		obj["apiVersion"], obj["kind"] = "appprotectdos.f5.com/v1beta1", "APDosPolicy"
		spec["mitigation_mode"] = "standard"
	case 4:
		obj["apiVersion"], obj["kind"] = "appprotectdos.f5.com/v1beta1", "APDosLogConf"
		if op.WF {
			spec["filter"] = map[string]interface{}{"traffic-mitigation-stats": "all"}
		}
		if op.HasTag { // re-used as: carries the unsupported content field (warning only)
			spec["content"] = map[string]interface{}{"format": "splunk"}
		}
	}
	obj["metadata"] = meta("", op)
	if !(op.K == 3 && !op.WF) {
		obj["spec"] = spec
	}
	return &unstructured.Unstructured{Object: obj}
}

func buildProtected(op *Op) *v1beta1.DosProtectedResource {
	p := &v1beta1.DosProtectedResource{
		ObjectMeta: metav1.ObjectMeta{Name: op.Name, Namespace: op.Ns},
		Spec: v1beta1.DosProtectedResourceSpec{
			Enable:           op.PrEnable,
			Name:             op.SpecName,
			ApDosMonitor:     &v1beta1.ApDosMonitor{URI: "example.com"},
			DosAccessLogDest: "127.0.0.1:5561",
			ApDosPolicy:      op.PolRef,
		},
	}
	if op.HasLog {
		p.Spec.DosSecurityLog = &v1beta1.DosSecurityLog{Enable: op.LogEn, ApDosLogConf: op.LogRef, DosLogDest: op.LogDest}
	}
	return p
}

// validator verdict on the object of op (the oracle the model receives)
func oracle(op *Op, l *slog.Logger) bool {
	switch op.K {
	case 0:
		return validation.ValidateAppProtectPolicy(buildUnstructured(op), l) == nil
	case 1:
		return validation.ValidateAppProtectLogConf(buildUnstructured(op)) == nil
	case 2:
		return validation.ValidateAppProtectUserSig(buildUnstructured(op)) == nil
	case 3:
		return dosvalidation.ValidateAppProtectDosPolicy(buildUnstructured(op)) == nil
	case 4:
		_, err := dosvalidation.ValidateAppProtectDosLogConf(buildUnstructured(op))
		return err == nil
	case 5:
		return dosvalidation.ValidateDosProtectedResource(buildProtected(op)) == nil
	}
	return false
}

// ---------------------------------------------------------------- projections

func wafProblemClass(msg string) string {
	switch {
	case msg == "policy has unsatisfied signature requirements":
		return "m"
	case msg == "duplicate tag set":
		return "d"
	case msg == "invalid timestamp" || strings.HasPrefix(msg, "Error creating time requirements"):
		return "t"
	case msg == "validation failed" || strings.HasPrefix(msg, "Error validating policy") ||
		strings.HasPrefix(msg, "Error retrieving Signature requirements") ||
		strings.HasPrefix(msg, "error validating App Protect"):
		return "v"
	}
	return "?"
}

func wafChange(c appprotect.Change) string {
	o := "D"
	if c.Op == appprotect.AddOrUpdate {
		o = "A"
	}
	switch r := c.Resource.(type) {
	case *appprotect.PolicyEx:
		return o + "0:" + appprotectcommon.GetNsName(r.Obj)
	case *appprotect.LogConfEx:
		return o + "1:" + appprotectcommon.GetNsName(r.Obj)
	case *appprotect.UserSigEx:
		return o + "2:" + appprotectcommon.GetNsName(r.Obj)
	}
	return o + "?:"
}

func wafProblems(kind string, ps []appprotect.Problem) []string {
	out := []string{}
	for _, p := range ps {
		k := "?"
		switch p.Object.GetKind() {
		case "APPolicy":
			k = "0"
		case "APLogConf":
			k = "1"
		case "APUserSig":
			k = "2"
		}
		out = append(out, "P"+k+wafProblemClass(p.Message)+":"+appprotectcommon.GetNsName(p.Object))
	}
	return out
}

func dosChange(c appprotectdos.Change) string {
	o := "D"
	if c.Op == appprotectdos.AddOrUpdate {
		o = "A"
	}
	switch r := c.Resource.(type) {
	case *appprotectdos.DosPolicyEx:
		return o + "3:" + appprotectcommon.GetNsName(r.Obj)
	case *appprotectdos.DosLogConfEx:
		return o + "4:" + appprotectcommon.GetNsName(r.Obj)
	case *appprotectdos.DosProtectedResourceEx:
		return o + "5:" + r.Obj.Namespace + "/" + r.Obj.Name
	}
	return o + "?:"
}

func dosProblems(ps []appprotectdos.Problem) []string {
	out := []string{}
	for _, p := range ps {
		switch o := p.Object.(type) {
		case *unstructured.Unstructured:
			k := "?"
			switch o.GetKind() {
			case "APDosPolicy":
				k = "3"
			case "APDosLogConf":
				k = "4"
			}
			out = append(out, "P"+k+"v:"+appprotectcommon.GetNsName(o))
		case *v1beta1.DosProtectedResource:
			c := "v"
			if strings.HasPrefix(p.Message, "dos protected refers") {
				if strings.Contains(p.Message, "to an invalid DosPolicy") {
					c = "p"
				} else if strings.Contains(p.Message, "to an invalid DosLogConf") {
					c = "l"
				} else {
					c = "?"
				}
			}
			out = append(out, "P5"+c+":"+o.Namespace+"/"+o.Name)
		default:
			out = append(out, "P??:")
		}
	}
	return out
}

func wafAnswer(ci appprotect.Configuration, kind, key string) byte {
	_, err := ci.GetAppResource(kind, key)
	if err == nil {
		return '0'
	}
	switch msg := err.Error(); {
	case msg == "validation failed":
		return 'F'
	case msg == "policy has unsatisfied signature requirements":
		return 'M'
	case msg == "duplicate tag set":
		return 'D'
	case msg == "invalid timestamp":
		return 'T'
	case strings.HasSuffix(msg, "not found"):
		return 'N'
	}
	return '?'
}

func dosAnswer(dc *appprotectdos.Configuration, ns, name string) byte {
	_, err := dc.GetValidDosEx(ns, name)
	if err == nil {
		return '0'
	}
	msg := err.Error()
	switch {
	case strings.HasPrefix(msg, "DosProtectedResource is referenced but Dos feature is not enabled"):
		return 'X'
	case strings.HasPrefix(msg, "DosProtectedResource references a missing DosPolicy: "):
		rest := strings.TrimPrefix(msg, "DosProtectedResource references a missing DosPolicy: ")
		if strings.HasPrefix(rest, "DosPolicy ") && strings.HasSuffix(rest, " not found") {
			return 'p'
		}
		if strings.HasPrefix(rest, "failed to store ApDosPolicy") {
			return 'P'
		}
		return '?'
	case strings.HasPrefix(msg, "DosProtectedResource references a missing DosLogConf: "):
		rest := strings.TrimPrefix(msg, "DosProtectedResource references a missing DosLogConf: ")
		if strings.HasPrefix(rest, "DosLogConf ") && strings.HasSuffix(rest, " not found") {
			return 'l'
		}
		if strings.HasPrefix(rest, "failed to store ApDosLogconf") {
			return 'L'
		}
		return '?'
	case strings.HasPrefix(msg, "failed to store DosProtectedResource"):
		return 'I'
	case strings.HasPrefix(msg, "DosProtectedResource ") && strings.HasSuffix(msg, "not found"):
		return 'N'
	}
	return '?'
}

// ---------------------------------------------------------------- one run on the real code

func runOrder(c *Case, order []int, l *slog.Logger) (ro RunObs) {
	ro.Order = order
	defer func() {
		if r := recover(); r != nil {
			ro.Panic = fmt.Sprint(r)
		}
	}()
	ci := appprotect.NewConfiguration(l)
	dc := appprotectdos.NewConfiguration(c.Enabled)
	for _, idx := range order {
		op := &c.Hist[idx]
		key := op.Ns + "/" + op.Name
		st := StepObs{Ch: []string{}, Pr: []string{}, Us: []string{}}
		switch op.K {
		case 0:
			var ch []appprotect.Change
			var pr []appprotect.Problem
			if op.Del {
				ch, pr = ci.DeletePolicy(key)
			} else {
				ch, pr = ci.AddOrUpdatePolicy(buildUnstructured(op))
			}
			for _, x := range ch {
				st.Ch = append(st.Ch, wafChange(x))
			}
			st.Pr = wafProblems("0", pr)
		case 1:
			var ch []appprotect.Change
			var pr []appprotect.Problem
			if op.Del {
				ch, pr = ci.DeleteLogConf(key)
			} else {
				ch, pr = ci.AddOrUpdateLogConf(buildUnstructured(op))
			}
			for _, x := range ch {
				st.Ch = append(st.Ch, wafChange(x))
			}
			st.Pr = wafProblems("1", pr)
		case 2:
			var uc appprotect.UserSigChange
			var pr []appprotect.Problem
			if op.Del {
				uc, pr = ci.DeleteUserSig(key)
			} else {
				uc, pr = ci.AddOrUpdateUserSig(buildUnstructured(op))
			}
			for _, p := range uc.PolicyAddsOrUpdates {
				st.Ch = append(st.Ch, "A0:"+appprotectcommon.GetNsName(p))
			}
			for _, p := range uc.PolicyDeletions {
				st.Ch = append(st.Ch, "D0:"+appprotectcommon.GetNsName(p))
			}
			for _, s := range uc.UserSigs {
				st.Us = append(st.Us, appprotectcommon.GetNsName(s))
			}
			st.IsU = true
			st.Pr = wafProblems("2", pr)
		case 3:
			var ch []appprotectdos.Change
			var pr []appprotectdos.Problem
			if op.Del {
				ch, pr = dc.DeletePolicy(key)
			} else {
				ch, pr = dc.AddOrUpdatePolicy(buildUnstructured(op))
			}
			for _, x := range ch {
				st.Ch = append(st.Ch, dosChange(x))
			}
			st.Pr = dosProblems(pr)
		case 4:
			var ch []appprotectdos.Change
			var pr []appprotectdos.Problem
			if op.Del {
				ch, pr = dc.DeleteLogConf(key)
			} else {
				ch, pr = dc.AddOrUpdateLogConf(buildUnstructured(op))
			}
			for _, x := range ch {
				st.Ch = append(st.Ch, dosChange(x))
			}
			st.Pr = dosProblems(pr)
		case 5:
			var ch []appprotectdos.Change
			var pr []appprotectdos.Problem
			if op.Del {
				ch, pr = dc.DeleteProtectedResource(key)
			} else {
				ch, pr = dc.AddOrUpdateDosProtectedResource(buildProtected(op))
			}
			for _, x := range ch {
				st.Ch = append(st.Ch, dosChange(x))
			}
			st.Pr = dosProblems(pr)
		}
		sort.Strings(st.Ch)
		sort.Strings(st.Pr)
		sort.Strings(st.Us)
		var b strings.Builder
		for _, kind := range []string{"APPolicy", "APLogConf", "APUserSig"} {
			for _, k := range c.WKeys {
				b.WriteByte(wafAnswer(ci, kind, k))
			}
		}
		for _, nk := range c.PKeys {
			b.WriteByte(dosAnswer(dc, nk[0], nk[1]))
		}
		st.Ans = b.String()
		ro.Steps = append(ro.Steps, st)
	}
	return ro
}

// probeVariant asks the real code which variant it is (see Case.Fx)
func probeVariant(l *slog.Logger) bool {
	ci := appprotect.NewConfiguration(l)
	sig := Op{K: 2, Ns: "probe", Name: "s", UID: "probe-1", TS: tpool[0], WF: true, HasTag: true, Tag: "probe", Rev: TF{K: 2, T: tpool[1]}}
	pol := Op{K: 0, Ns: "probe", Name: "p", UID: "probe-2", TS: tpool[0], WF: true, ReqsKind: 2, Reqs: []Req{{HasTag: true, Tag: "probe"}}}
	ci.AddOrUpdateUserSig(buildUnstructured(&sig))
	ci.AddOrUpdatePolicy(buildUnstructured(&pol))
	_, err := ci.GetAppResource("APPolicy", "probe/p")
	return err == nil
}

// CtlStep is what the controller path shows after one WAF operation: M = 0 a single operation,
// 1 = inside a namespace clean-up (nothing observed yet), 2 = the clean-up is complete;
// Ld / Fl the sets index.conf lists and the files that exist (namespace/name); Pa the APPolicy
// answers of the controller's Configuration over the key universe; Pp the APPolicy keys that
// processed changes asked about and Rj the Rejected events ("R<kind>:<key>") since the last
// observed step.
type CtlStep struct {
	M  int      `json:"m"`
	Ld []string `json:"ld"`
	Fl []string `json:"fl"`
	Pa string   `json:"pa"`
	Pp []string `json:"pp"`
	Rj []string `json:"rj"`
}

type CtlObs struct {
	Order []int     `json:"order"`
	Steps []CtlStep `json:"steps"`
	Panic string    `json:"panic,omitempty"`
}

func fileKeys(fs []string) []string {
	out := []string{}
	for _, f := range fs {
		out = append(out, strings.Replace(f, "_", "/", 1))
	}
	sort.Strings(out)
	return out
}

func rejected(evs []string) []string {
	out := []string{}
	for _, e := range evs {
		parts := strings.SplitN(e, "|", 3)
		if len(parts) < 3 || parts[0] != "Rejected" {
			continue
		}
		kk := strings.SplitN(parts[1], ":", 2)
		d := map[string]string{"APPolicy": "0", "APLogConf": "1", "APUserSig": "2"}[kk[0]]
		if d == "" || len(kk) < 2 {
			continue
		}
		out = append(out, "R"+d+":"+kk[1])
	}
	sort.Strings(out)
	return out
}

// runCtl drives the WAF operations of the history (in the generated order) through the real
// controller path: APUserSig events through syncAppProtectUserSig (cache + work item), APPolicy /
// APLogConf into the cache and straight into the controller's appprotect.Configuration, and every
// namespace clean-up group through one call of the real cleanupUnwatchedAppWafResources.
func runCtl(c *Case) (co CtlObs) {
	defer func() {
		if r := recover(); r != nil {
			co.Panic = fmt.Sprint(r)
		}
	}()
	repo := os.Getenv("VERIF_REPO")
	if repo == "" {
		repo = "/repo"
	}
	v, err := k8s.VerifC19New(nss, c.WKeys, repo)
	if err != nil {
		co.Panic = err.Error()
		return co
	}
	observe := func(mode int) CtlStep {
		var b strings.Builder
		for _, k := range c.WKeys {
			b.WriteByte(wafAnswer(v.Config(), "APPolicy", k))
		}
		asked := v.TakeAsked()
		if asked == nil {
			asked = []string{}
		}
		return CtlStep{M: mode, Ld: fileKeys(v.Loaded()), Fl: fileKeys(v.Files()), Pa: b.String(), Pp: asked, Rj: rejected(v.TakeEvents())}
	}
	for idx := 0; idx < len(c.Hist); idx++ {
		op := &c.Hist[idx]
		if op.K > 2 {
			continue
		}
		key := op.Ns + "/" + op.Name
		if op.Unwatch > 0 {
			// the whole group at once
			last := idx
			for last+1 < len(c.Hist) && c.Hist[last+1].Unwatch == op.Unwatch {
				last++
			}
			v.Unwatch(op.Ns)
			for j := idx; j <= last; j++ {
				co.Order = append(co.Order, j)
				if j < last {
					co.Steps = append(co.Steps, CtlStep{M: 1, Ld: []string{}, Fl: []string{}, Pp: []string{}, Rj: []string{}})
				} else {
					co.Steps = append(co.Steps, observe(2))
				}
			}
			idx = last
			continue
		}
		var obj *unstructured.Unstructured
		if !op.Del {
			obj = buildUnstructured(op)
		}
		v.Store(op.K, op.Ns, key, obj)
		switch op.K {
		case 0:
			if op.Del {
				v.Config().DeletePolicy(key)
			} else {
				v.Config().AddOrUpdatePolicy(obj)
			}
		case 1:
			if op.Del {
				v.Config().DeleteLogConf(key)
			} else {
				v.Config().AddOrUpdateLogConf(obj)
			}
		case 2:
			v.SyncUserSig(key)
		}
		co.Order = append(co.Order, idx)
		co.Steps = append(co.Steps, observe(0))
	}
	if co.Order == nil {
		co.Order, co.Steps = []int{}, []CtlStep{}
	}
	return co
}

func runCase(c *Case, l *slog.Logger) {
	c.Fx = probeVariant(l)
	for i := range c.Hist {
		if !c.Hist[i].Del {
			c.Hist[i].Valid = oracle(&c.Hist[i], l)
		}
	}
	id := make([]int, len(c.Hist))
	for i := range id {
		id[i] = i
	}
	runs := []RunObs{runOrder(c, id, l)}
	for _, p := range c.Perms {
		runs = append(runs, runOrder(c, p, l))
	}
	for _, r := range runs {
		if r.Panic != "" {
			c.Obs = map[string]any{"panic": r.Panic, "runs": runs}
			return
		}
	}
	ctl := runCtl(c)
	if ctl.Panic != "" {
		c.Obs = map[string]any{"panic": "controller path: " + ctl.Panic, "runs": runs}
		return
	}
	c.Obs = map[string]any{"runs": runs, "ctl": ctl}
}

// ---------------------------------------------------------------- generators

type inc struct {
	exists bool
	uid    string
	ts     int64
	last   *Op // last add/update of this incarnation (APUserSig only)
}

func genTF(r *vh.Rng, pAbsent, pBad int) TF {
	x := r.Intn(100)
	switch {
	case x < pAbsent:
		return TF{}
	case x < pAbsent+pBad:
		return TF{K: 1, T: int64(r.Intn(2))}
	}
	return TF{K: 2, T: vh.Pick(r, tpool), Z: r.Intn(2)}
}

// genRefDense: references that mostly hit the few policies / log confs of the DoS-only family
func genRefDense(r *vh.Rng) string {
	x := r.Intn(100)
	switch {
	case x < 45:
		return vh.Pick(r, names[:2])
	case x < 90:
		return "n1/" + vh.Pick(r, names[:2])
	case x < 95:
		return "zz"
	}
	return "n1/a/b"
}

func genRef(r *vh.Rng, ns string) string {
	x := r.Intn(100)
	switch {
	case x < 40:
		return vh.Pick(r, names)
	case x < 80:
		return vh.Pick(r, nss) + "/" + vh.Pick(r, names)
	case x < 88:
		return "zz"
	case x < 94:
		return "n1/a/b" // rejected by the validator
	}
	return "Bad_Ref/x" // rejected by the validator (prefix is not a DNS subdomain)
}

// malformed: the stream where most specs are broken
func genHistory(r *vh.Rng, id int, malformed bool, family int) Case {
	c := Case{ID: id, Class: "structured", Enabled: !r.Chance(1, 12)}
	if family == 1 {
		c.Class = "waf"
	} else if family == 2 {
		c.Class = "dos"
	}
	if malformed {
		c.Class += "-malformed"
	}
	for _, n := range nss {
		for _, m := range names {
			c.WKeys = append(c.WKeys, n+"/"+m)
			c.PKeys = append(c.PKeys, []string{n, m})
		}
	}
	// GetValidDosEx with a namespaced reference and a foreign parent namespace (getNsName)
	c.PKeys = append(c.PKeys, []string{"zz", "n1/a"}, []string{"n2", "n1/b"})
	pwf := 90
	if malformed {
		pwf = 45
	}
	L := 4 + r.Intn(22)
	incs := map[string]*inc{}
	counter := 0
	gid := 0
	tags := []string{"t1", "t1", "t1", "t2", "t2", "t3"}
	for i := 0; i < L; i++ {
		op := Op{Ns: vh.Pick(r, nss), Name: vh.Pick(r, names)}
		if r.Chance(1, 3) { // concentrate on few objects
			op.Ns, op.Name = "n1", vh.Pick(r, names[:2])
		}
		x := r.Intn(100)
		if family == 1 { // WAF kinds only
			x = r.Intn(67)
		} else if family == 2 { // DoS kinds only
			x = 67 + r.Intn(33)
		}
		switch {
		case x < 36:
			op.K = 2
		case x < 62:
			op.K = 0
		case x < 67:
			op.K = 1
		case x < 76:
			op.K = 3
		case x < 84:
			op.K = 4
		default:
			op.K = 5
		}
		if family == 2 && (op.K == 3 || op.K == 4) { // few DoS policies / log confs, so references hit
			op.Ns, op.Name = "n1", vh.Pick(r, names[:2])
		}
		if family == 2 && op.K == 5 && r.Chance(2, 3) {
			op.Ns = "n1"
		}
		if family != 2 && r.Chance(7, 100) {
			// the namespace stops being watched: every stored APPolicy, APLogConf, APUserSig of it goes
			ns := vh.Pick(r, nss)
			gid++
			n := 0
			for _, kd := range []int{0, 1, 2} {
				for _, nm := range names {
					if e := incs[fmt.Sprintf("%d|%s/%s", kd, ns, nm)]; e != nil && e.exists {
						e.exists, e.last = false, nil
						c.Hist = append(c.Hist, Op{K: kd, Del: true, Ns: ns, Name: nm, Unwatch: gid})
						n++
					}
				}
			}
			if n > 0 {
				continue
			}
		}
		ik := fmt.Sprintf("%d|%s/%s", op.K, op.Ns, op.Name)
		st := incs[ik]
		if st == nil {
			st = &inc{}
			incs[ik] = st
		}
		delp := 22
		if family == 2 && (op.K == 3 || op.K == 4) && st.exists {
			delp = 45
		}
		if r.Chance(delp, 100) {
			op.Del = true
			st.exists = false
			st.last = nil
			c.Hist = append(c.Hist, op)
			continue
		}
		if op.K == 2 && st.exists && st.last != nil && r.Chance(18, 100) {
			// delete + re-create under the same name collapsed into one update: new uid, new creation
			// time, same tag / revision / signatures
			counter++
			re := *st.last
			re.Recreate = true
			re.UID = fmt.Sprintf("%c%c-%d", 'a'+byte(r.Intn(3)), 'a'+byte(r.Intn(3)), counter)
			re.TS = vh.Pick(r, tpool[:4])
			st.uid, st.ts = re.UID, re.TS
			c.Hist = append(c.Hist, re)
			cp := re
			st.last = &cp
			continue
		}
		if !st.exists { // a new incarnation: new uid (K1), creation time from a small pool (ties)
			counter++
			st.exists = true
			st.uid = fmt.Sprintf("%c%c-%d", 'a'+byte(r.Intn(3)), 'a'+byte(r.Intn(3)), counter)
			st.ts = vh.Pick(r, tpool[:3])
		}
		op.UID, op.TS = st.uid, st.ts // unchanged while the object exists (K2)
		op.WF = r.Intn(100) < pwf
		if family == 2 && !malformed {
			switch op.K {
			case 3:
				op.WF = r.Intn(100) < 75
			case 4:
				op.WF = r.Intn(100) < 65
			case 5:
				op.WF = r.Intn(100) < 95
			}
		}
		switch op.K {
		case 0:
			y := r.Intn(100)
			switch {
			case y < 12:
				op.ReqsKind = 0
			case y < 17:
				op.ReqsKind = 1
			default:
				op.ReqsKind = 2
				n := 1 + r.Intn(3)
				pbad := 4
				if malformed {
					pbad = 20
				}
				for j := 0; j < n; j++ {
					q := Req{HasTag: !r.Chance(1, 10), Tag: vh.Pick(r, tags), Min: genTF(r, 55, pbad), Max: genTF(r, 55, pbad)}
					if r.Chance(1, 25) {
						q.Tag = ""
					}
					op.Reqs = append(op.Reqs, q)
				}
			}
		case 2:
			op.HasTag = !r.Chance(1, 8)
			op.Tag = vh.Pick(r, tags[:5])
			if r.Chance(1, 30) {
				op.Tag = ""
			}
			pbad := 6
			if malformed {
				pbad = 25
			}
			op.Rev = genTF(r, 40, pbad)
		case 4:
			op.HasTag = r.Chance(1, 4)
		case 5:
			// the two enable switches: valid either way, and usability must not depend on them
			op.PrEnable = !r.Chance(1, 4)
			op.LogEn = r.Bool()
			op.SpecName = "dos-" + op.Name
			if !op.WF {
				switch r.Intn(3) {
				case 0:
					op.SpecName = ""
				case 1:
					op.SpecName = "bad\"name"
				default:
					op.PolRef = "n1/a/b"
				}
			}
			if op.PolRef == "" && !r.Chance(1, 5) {
				op.PolRef = genRef(r, op.Ns)
				if family == 2 {
					op.PolRef = genRefDense(r)
				}
			}
			if r.Chance(3, 5) || (family == 2 && r.Chance(1, 2)) {
				op.HasLog = true
				op.LogRef = genRef(r, op.Ns)
				if family == 2 {
					op.LogRef = genRefDense(r)
				}
				op.LogDest = "stderr"
				y := r.Intn(100)
				if y < 30 {
					op.LogDest = "127.0.0.1:514"
				} else if y < 36 {
					op.LogDest = "nope"
				} else if y < 40 {
					op.LogRef = ""
				}
			}
		}
		if op.K == 2 {
			cp := op
			st.last = &cp
		}
		c.Hist = append(c.Hist, op)
	}
	np := 3
	for p := 0; p < np; p++ {
		c.Perms = append(c.Perms, permute(r, c.Hist))
	}
	return c
}

// permute returns a random interleaving that keeps, for every (kind, key), the relative order of
// its operations: the last writer of every object is the same, so the final object set is too.
func permute(r *vh.Rng, h []Op) []int {
	queues := map[string][]int{}
	var ks []string
	for i, op := range h {
		k := fmt.Sprintf("%d|%s/%s", op.K, op.Ns, op.Name)
		if _, ok := queues[k]; !ok {
			ks = append(ks, k)
		}
		queues[k] = append(queues[k], i)
	}
	out := make([]int, 0, len(h))
	for len(ks) > 0 {
		j := r.Intn(len(ks))
		k := ks[j]
		out = append(out, queues[k][0])
		queues[k] = queues[k][1:]
		if len(queues[k]) == 0 {
			ks = append(ks[:j], ks[j+1:]...)
		}
	}
	return out
}

// fixed corpus: the witnesses of the theorems C19_revtime_refuted / C19_usersig_report_refuted,
// replayed on the real code on every run
func corpus() []Case {
	mk := func(id int, class string, hist []Op) Case {
		c := Case{ID: id, Class: class, Enabled: true}
		for _, n := range nss {
			for _, m := range names {
				c.WKeys = append(c.WKeys, n+"/"+m)
				c.PKeys = append(c.PKeys, []string{n, m})
			}
		}
		c.Hist = hist
		rev := make([]int, 0, len(hist))
		for i := len(hist) - 1; i >= 0; i-- {
			rev = append(rev, i)
		}
		c.Perms = [][]int{rev}
		return c
	}
	sig := Op{K: 2, Ns: "n1", Name: "a", UID: "aa-1", TS: tpool[0], WF: true, HasTag: true, Tag: "t1", Rev: TF{K: 2, T: tpool[1]}}
	pol := Op{K: 0, Ns: "n1", Name: "a", UID: "ab-2", TS: tpool[0], WF: true, ReqsKind: 2, Reqs: []Req{{HasTag: true, Tag: "t1"}}}
	delAbsent := Op{K: 2, Ns: "n2", Name: "c", Del: true}
	// a protected resource whose security log is switched off but names log conf n1/b and policy a,
	// stored BEFORE they arrive, turn invalid and are deleted: every flip must be reported
	prOff := Op{K: 5, Ns: "n1", Name: "a", WF: true, SpecName: "dos-a", PolRef: "a", HasLog: true, LogRef: "n1/b", LogDest: "stderr", PrEnable: true, LogEn: false}
	dpol := Op{K: 3, Ns: "n1", Name: "a", UID: "ca-3", TS: tpool[0], WF: true}
	dlog := Op{K: 4, Ns: "n1", Name: "b", UID: "cb-4", TS: tpool[0], WF: true}
	dlogBad := Op{K: 4, Ns: "n1", Name: "b", UID: "cb-4", TS: tpool[0], WF: false}
	delLog := Op{K: 4, Ns: "n1", Name: "b", Del: true}
	delPol := Op{K: 3, Ns: "n1", Name: "a", Del: true}
	c2 := mk(2, "corpus-dos-disabled-log", []Op{prOff, dpol, dlog, dlogBad, dlog, delLog, dlog, delPol})
	c2.Perms = [][]int{{1, 0, 2, 3, 4, 5, 6, 7}, {1, 2, 0, 3, 4, 5, 6, 7}}
	// delete + re-create of n1/a delivered as one update: the re-created set is the youngest of t1 and must lose
	sigB := Op{K: 2, Ns: "n1", Name: "b", UID: "ab-5", TS: tpool[1], WF: true, HasTag: true, Tag: "t1"}
	sigA2 := sig
	sigA2.UID, sigA2.TS, sigA2.Recreate = "ac-6", tpool[2], true
	c3 := mk(3, "corpus-recreate", []Op{sig, sigB, sigA2})
	c3.Perms = [][]int{{1, 0, 2}, {0, 2, 1}}
	// the in-force set becomes empty: the last set is deleted; the last set becomes malformed
	delA := Op{K: 2, Ns: "n1", Name: "a", Del: true}
	sigBbad := sigB
	sigBbad.WF = false
	c4 := mk(4, "corpus-last-set-gone", []Op{sig, delA, sigB, sigBbad})
	c4.Perms = [][]int{{2, 0, 1, 3}}
	// namespace n2 holds two signature sets with different tags, each required by one policy of n1;
	// n2 stops being watched: both policies become unusable and both must be reported
	sg1 := Op{K: 2, Ns: "n2", Name: "a", UID: "ba-7", TS: tpool[0], WF: true, HasTag: true, Tag: "t1"}
	sg2 := Op{K: 2, Ns: "n2", Name: "b", UID: "bb-8", TS: tpool[0], WF: true, HasTag: true, Tag: "t2"}
	pl1 := Op{K: 0, Ns: "n1", Name: "a", WF: true, ReqsKind: 2, Reqs: []Req{{HasTag: true, Tag: "t1"}}}
	pl2 := Op{K: 0, Ns: "n1", Name: "b", WF: true, ReqsKind: 2, Reqs: []Req{{HasTag: true, Tag: "t2"}}}
	un1 := Op{K: 2, Del: true, Ns: "n2", Name: "a", Unwatch: 1}
	un2 := Op{K: 2, Del: true, Ns: "n2", Name: "b", Unwatch: 1}
	c5 := mk(5, "corpus-unwatch-namespace", []Op{sg1, sg2, pl1, pl2, un1, un2})
	c5.Perms = [][]int{{2, 3, 0, 1, 5, 4}}
	return []Case{
		mk(0, "corpus-revtime", []Op{sig, pol}),
		mk(1, "corpus-delete-absent", []Op{sig, delAbsent}),
		c2,
		c3,
		c4,
		c5,
	}
}

func main() {
	a := vh.ParseArgs()
	l := slog.New(slog.NewTextHandler(io.Discard, nil))
	var cases []Case
	if a.Replay != "" {
		if err := vh.ReadReplay(a.Replay, &cases); err != nil {
			fmt.Fprintln(os.Stderr, err)
			os.Exit(3)
		}
	} else {
		cases = corpus()
		root := vh.NewRng(a.Seed)
		for i := 0; i < a.N; i++ {
			id := len(cases)
			cases = append(cases, genHistory(root.Fork(uint64(id)), id, i%6 == 5, []int{0, 0, 1, 2}[i%4]))
		}
	}
	w, err := vh.NewWriter(a.Out)
	if err != nil {
		fmt.Fprintln(os.Stderr, err)
		os.Exit(3)
	}
	defer w.Close()
	for i := range cases {
		c := &cases[i]
		func() {
			defer func() {
				if r := recover(); r != nil {
					c.Obs = map[string]any{"error": fmt.Sprint(r)}
				}
			}()
			runCase(c, l)
		}()
		w.Emit(c)
	}
}
