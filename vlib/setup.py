"""setup_cmd: build everything from files on disk (offline): the Rocq development and the
harness binaries' shared build cache."""
import os, sys, glob
from . import common


def run():
    common.ensure_dirs()
    rc = 0
    try:
        from . import translate
        translate.run_all()
    except ImportError:
        pass
    except common.TieBroken as e:
        print("setup: translators failed: %s" % e)
        rc = 1
    r, out = common.coq_make(timeout=7200)
    print(out[-3000:])
    if r != 0:
        print("setup: coq build failed")
        rc = 1
    # warm the go build cache with every harness
    try:
        names = sorted(os.path.basename(os.path.dirname(p)) for p in
                       glob.glob(os.path.join(common.OVERLAY_SRC, "internal/verifh/*/main.go")))
        for n in names:
            common.go_build(n, race=(n == "c18"))
            print("setup: built harness", n)
        common.go_build("c02", pkg="./cmd/nginx-ingress")
        print("setup: built harness c02")
    except common.TieBroken as e:
        print("setup: %s" % e)
        rc = 1
    return rc
