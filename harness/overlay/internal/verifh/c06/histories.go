//go:build verif

package main

// The controller-level family of C06: the premise "only resources that validation accepts are rendered" is a
// property of the controller path (syncPolicy / getPolicies / createVirtualServerEx), not of the validators.
// A referenced Policy that validation accepts is replaced -- through the informer store and the REAL syncPolicy --
// by a Policy of the same name that validation REJECTS, along several histories:
//
//	recreate-coalesced   deleted and created again (new UID, generation 1 again); the controller never sees the
//	                     Policy absent (delete and add coalesced in the work queue, or a watch gap): one sync
//	recreate-seen        the same with a sync while the Policy is absent
//	update               updated in place (same UID, generation 2)
//	rejected-first       the other way round: a rejected Policy re-created valid (coalesced)
//
// Oracle (history independence): what the controller renders after the history is compared with what a FRESH
// controller renders from the final cluster state: same bytes, in particular the same structural events
// (Tmpl.C06Cases), and the rejected value must not appear in the files.

import (
	"bytes"
	"fmt"
	"strings"
	"sync"

	"k8s.io/apimachinery/pkg/types"

	"github.com/nginx/kubernetes-ingress/internal/k8s"
	"github.com/nginx/kubernetes-ingress/internal/verifh/vh"
	conf_v1 "github.com/nginx/kubernetes-ingress/pkg/apis/configuration/v1"
)

var historyKinds = []string{"recreate-coalesced", "recreate-seen", "update", "rejected-first"}

// runHistory: w's object oi is a Policy; first/last are its two incarnations
func (e *env) runHistory(w *World, oi int, first, last *conf_v1.Policy, hist string) (after, fresh Render) {
	mk := func(p *conf_v1.Policy, uid string, gen int64) *conf_v1.Policy {
		q := p.DeepCopy()
		q.UID, q.Generation = types.UID(uid), gen
		return q
	}
	p1 := mk(first, "uid-1", 1)
	p2 := mk(last, "uid-2", 1)
	if hist == "update" {
		p2 = mk(last, "uid-1", 2)
	}
	w1 := *w
	w1.Objs = append([]Obj(nil), w.Objs...)
	w1.Objs[oi].Val = p1
	key := p1.Namespace + "/" + p1.Name
	after = e.runWorldH(&w1, false, func(v *k8s.VerifC06) {
		v.SyncPolicy(key) // the controller has processed the first incarnation
		switch hist {
		case "recreate-seen":
			v.RemovePolicy(p1)
			v.SyncPolicy(key)
			v.AddPolicy(p2)
		case "update":
			v.AddPolicy(p2)
		default:
			v.RemovePolicy(p1)
			v.AddPolicy(p2)
		}
		v.SyncPolicy(key)
	})
	w2 := *w
	w2.Objs = append([]Obj(nil), w.Objs...)
	w2.Objs[oi].Val = p2
	fresh = e.runWorld(&w2)
	return after, fresh
}

// HistoryRec summarises the controller-level family
type HistoryRec struct {
	Rec       string         `json:"rec"` // "histories"
	Runs      map[string]int `json:"runs"`      // history kind -> number of histories run
	Differing int            `json:"differing"` // histories whose rendering differs from the fresh controller's (all are emitted as cases)
	Emitted   int            `json:"emitted"`
}

func emitHistories(out *vh.Writer, envs map[bool]*env, thorough bool, id, baseID *int) {
	type group struct {
		base  BaseRec
		cases []Case
		runs  map[string]int
	}
	var groups []*group
	var wg sync.WaitGroup
	for _, fx := range fixtures {
		if !strings.HasPrefix(fx.Name, "vs-rich") && fx.Name != "vs-small" {
			continue
		}
		for _, plus := range []bool{false, true} {
			g := &group{runs: map[string]int{}}
			groups = append(groups, g)
			wg.Add(1)
			go func(fx Fixture, plus bool, g *group) {
				defer wg.Done()
				historyGroup(envs[plus], fx, plus, thorough, g.runs, &g.base, &g.cases)
			}(fx, plus, g)
		}
	}
	wg.Wait()
	rec := HistoryRec{Rec: "histories", Runs: map[string]int{}}
	for _, g := range groups {
		g.base.BaseID = *baseID
		out.Emit(g.base)
		for k, n := range g.runs {
			rec.Runs[k] += n
		}
		for i, c := range g.cases {
			differs := c.Obs.Reject != "" || c.Obs.Go != 0 || c.Obs.Raw
			if differs {
				rec.Differing++
			} else if i%8 != 0 {
				continue // byte-identical to the fresh controller: a sample goes to Rocq
			}
			c.ID, c.BaseID = *id, *baseID
			*id++
			rec.Emitted++
			out.Emit(c)
		}
		*baseID++
	}
	out.Emit(rec)
}

func historyGroup(e *env, fx Fixture, plus, thorough bool, runs map[string]int, baseOut *BaseRec, casesOut *[]Case) {
	{
		{
			w := fx.Build(plus)
			base := e.runWorld(w)
			*baseOut = baseRecord(0, fx.Name+"#histories", w, &base, e)
			for oi, o := range w.Objs {
				pol, ok := o.Val.(*conf_v1.Policy)
				if !ok {
					continue
				}
				for _, l := range objLeaves(o, nil) {
					if l.Value == "" || l.Field == "Policy.spec.ingressClassName" {
						continue
					}
					// the first values of this leaf that the REAL validator rejects
					n := 0
					for _, cd := range candidates(l.Value, contextPayloads[2:8], false, true, nil, nil) {
						if n >= 1 && !thorough || n >= 6 {
							break
						}
						w2 := mutate(w, oi, l.Path, cd.val)
						if w2 == nil || (crdAdmits("Policy", l.Path, cd.val) == "" && e.validate(w2, oi) == "") {
							continue // accepted values belong to the other family
						}
						n++
						bad := w2.Objs[oi].Val.(*conf_v1.Policy)
						for hi, hist := range historyKinds {
							if !thorough && n > 1 && hi > 0 {
								continue // quick: every history for the first rejected value, the coalesced one for the others
							}
							first, last := pol, bad
							if hist == "rejected-first" {
								first, last = bad, pol
							}
							after, fresh := e.runHistory(w, oi, first, last, hist)
							runs[hist]++
							c := Case{Rec: "case", Fixture: fx.Name, Plus: plus, Obj: oi, Kind: "policy", Path: l.Path, Field: l.Field,
								Placement: cd.placement, History: hist, Value: vh.Bytes(cd.val), Harmless: vh.Bytes(l.Value), HKind: "fresh-controller"}
							c.Obs.Accepted, c.Obs.Attached = true, true
							c.Obs.Panic = after.Panic + fresh.Panic
							c.Obs.Errors = after.Errors
							c.Obs.Files = diffAgainst(base.Files, after.Files)
							c.Obs.HFiles = diffAgainst(base.Files, fresh.Files)
							c.Obs.Go = filesVerdict(after.Files, fresh.Files)
							// the rejected value occurs in the files more often than in the fresh controller's
							if hist != "rejected-first" && len(after.Files) == len(fresh.Files) {
								for k := range after.Files {
									if bytes.Count(after.Files[k].Bytes, []byte(cd.val)) > bytes.Count(fresh.Files[k].Bytes, []byte(cd.val)) {
										c.Obs.Raw = true
									}
								}
							}
							if !sameFiles(after.Files, fresh.Files) {
								c.Obs.Reject = fmt.Sprintf("history-dependent rendering (%s)", hist)
							}
							*casesOut = append(*casesOut, c)
						}
					}
				}
			}
		}
	}
}
