//go:build verif

package version1

import "text/template"

// VerifC06THelperFunctions exports the FuncMap the Ingress templates are parsed and executed with.
func VerifC06THelperFunctions() template.FuncMap { return helperFunctions }
