(* C06 -- Accepted resources cannot alter the structure of the NGINX configuration.
   Only statements, each closed by [exact], each followed by Print Assumptions.

   Reading guide.  [run] is the NGINX tokenizer of Lex/Lexer.v (a DFA with structural events);
   [structural] keeps the events Semi / Open / Close / Err (LexAux): two byte strings with equal
   structural event lists have the same directive / block skeleton (argument counts aside).
   Layers:  (1) classes of values and the DFA states in which they are neutral (Tmpl/Classes);
            (2) validator regular expressions are inside / outside those classes (Tmpl/Regex,
                Tmpl/Validators) -- positive theorems for the sound validators, refutations with the
                offending string for the unsound ones (F06 F28 F29 F54 F65).  The validators repaired in
                /repo (F27 rewrites d7c2e82, F26 limit-req-* 3e8e85f, F52 return headers 7a5e973,
                F62 match.send c1888e6) are transcribed as they are NOW and have safety theorems;
                their former refutations are history and are no longer stated here;
            (3) the abstract interpreter over the translated templates (Tmpl/Analyze) and its
                soundness: the structure of a rendering depends only on the control choices.
   The obligations  file_ok <translated template> = true  are discharged by vm_compute against
   coq/gen/Templates.v on every run (vlib/c06.py); that site values really are in their classes is
   the tested part (harness c06: the specification Tmpl.C06Cases.spec_ok_file evaluated on the
   real bytes). *)
From Coq Require Import List String Ascii Bool.
From NIC Require Import Lex.Lexer Tmpl.Syntax Tmpl.LexAux Tmpl.Classes Tmpl.ClassesProofs
     Tmpl.ClassesCorollaries Tmpl.Regex Tmpl.RegexProofs Tmpl.Validators Tmpl.ValidatorsProofs
     Tmpl.Analyze Tmpl.AnalyzeProofs.
Import ListNotations.
Open Scope string_scope.
Open Scope list_scope.

(* ------------------------------------------------------------------ the tokenizer is a fold *)

Theorem C06_run_app :
  forall a q b,
    run q (a ++ b)%string =
    let (q1, e1) := run q a in let (q2, e2) := run q1 b in (q2, e1 ++ e2).
Proof. exact run_app. Qed.
Print Assumptions C06_run_app.

(* ------------------------------------------------------------------ (1) classes, for ALL strings *)

(* A value of class c printed in a DFA state q where [transfer c q] is defined emits no structural
   event and leaves the tokenizer in one of the listed states.  ([transfer] is computed: for the
   byte-set classes by a sweep over all 256 bytes from every reachable state.) *)
Theorem C06_class_neutral :
  forall c q qs s, transfer c q = Some qs -> in_class c s ->
    exists q' e, run q s = (q', e) /\ structural e = [] /\ In q' qs.
Proof. exact transfer_sound. Qed.
Print Assumptions C06_class_neutral.

(* plain words are neutral in EVERY word / quote state and at token start: no event at all *)
Theorem C06_word_neutral_everywhere :
  forall s, in_class CWord s ->
    run QBare s = (QBare, []) /\ run QDQ s = (QDQ, []) /\ run QSQ s = (QSQ, []) /\
    run QVar s = (after_word QVar s, []) /\ run QBetween s = (after_word QBetween s, []).
Proof. exact word_neutral_everywhere. Qed.
Print Assumptions C06_word_neutral_everywhere.

(* bare-word safe values: at the start of a token and inside a word *)
Theorem C06_baretok_neutral_at_start :
  forall s, in_class CBareTok s -> s <> EmptyString ->
    exists q', run QBetween s = (q', []) /\ in_bare q'.
Proof. exact baretok_neutral_at_start. Qed.
Print Assumptions C06_baretok_neutral_at_start.

Theorem C06_baretok_neutral_in_word :
  forall s q, in_class CBareTok s -> in_bare q -> exists q', run q s = (q', []) /\ in_bare q'.
Proof. exact baretok_neutral_in_word. Qed.
Print Assumptions C06_baretok_neutral_in_word.

(* inside double quotes the escaped-string language is EXACTLY the set of neutral values *)
Theorem C06_dq_neutral : forall s, in_class CDQ s -> run QDQ s = (QDQ, []).
Proof. exact dq_neutral. Qed.
Print Assumptions C06_dq_neutral.

Theorem C06_dq_complete : forall s, run QDQ s = (QDQ, []) -> in_class CDQ s.
Proof. exact dq_complete. Qed.
Print Assumptions C06_dq_complete.

Theorem C06_sq_neutral : forall s, in_class CSQ s -> run QSQ s = (QSQ, []).
Proof. exact sq_neutral. Qed.
Print Assumptions C06_sq_neutral.

(* a complete quoted token, and the model of Go's %q: neutral for EVERY string *)
Theorem C06_quoted_neutral : forall s, in_class CQuoted s -> run QBetween s = (QNeedSpace, [TokEnd]).
Proof. exact quoted_neutral. Qed.
Print Assumptions C06_quoted_neutral.

Theorem C06_go_quote_neutral : forall s, run QBetween (go_quote s) = (QNeedSpace, [TokEnd]).
Proof. exact go_quote_neutral. Qed.
Print Assumptions C06_go_quote_neutral.

(* the substitution theorem for one site: pre ++ value ++ post *)
Theorem C06_subst_one_site :
  forall c q0 pre q e0 qs s1 s2 post,
    run q0 pre = (q, e0) ->
    transfer c q = Some qs -> in_class c s1 -> in_class c s2 ->
    post_agrees qs post ->
    structural (snd (run q0 (pre ++ s1 ++ post))) = structural (snd (run q0 (pre ++ s2 ++ post))) /\
    final_ok (fst (run q0 (pre ++ s1 ++ post))) = final_ok (fst (run q0 (pre ++ s2 ++ post))).
Proof. exact skeleton_subst_structural. Qed.
Print Assumptions C06_subst_one_site.

(* ------------------------------------------------------------------ (2) validators inside classes *)

(* the matcher is a correct decision procedure for the regular language *)
Theorem C06_matches_lang : forall s r, matches r s = true <-> lang r s.
Proof. exact matches_lang. Qed.
Print Assumptions C06_matches_lang.

(* the certificate checker: one soundness proof, every instance below by vm_compute *)
Theorem C06_incl_check_sound :
  forall R q ok, incl_check R q ok = true ->
    forall s, matches R s = true ->
      exists q' e, run q s = (q', e) /\ structural e = [] /\ ok q' = true.
Proof. exact incl_check_sound. Qed.
Print Assumptions C06_incl_check_sound.

(* VirtualServer route path  ^/[^\s{};\\]*$  printed bare after "location " *)
Theorem C06_vs_path_bare_safe :
  forall s, matches vs_path s = true -> exists q', run QBetween s = (q', []) /\ In q' [QBare; QVar].
Proof. exact vs_path_bare_safe. Qed.
Print Assumptions C06_vs_path_bare_safe.

(* the escaped-string, realm / header-value / annotation-value, jwt-token and return-type languages
   are neutral INSIDE DOUBLE QUOTES *)
Theorem C06_escaped_dq_safe : forall s, matches escaped s = true -> run QDQ s = (QDQ, []).
Proof. exact escaped_dq_safe. Qed.
Print Assumptions C06_escaped_dq_safe.

Theorem C06_realm_dq_safe : forall s, matches realm s = true -> run QDQ s = (QDQ, []).
Proof. exact realm_dq_safe. Qed.
Print Assumptions C06_realm_dq_safe.

Theorem C06_jwt_token_dq_safe : forall s, matches jwt_token s = true -> run QDQ s = (QDQ, []).
Proof. exact jwt_token_dq_safe. Qed.
Print Assumptions C06_jwt_token_dq_safe.

Theorem C06_return_type_dq_safe : forall s, matches return_type s = true -> run QDQ s = (QDQ, []).
Proof. exact return_type_dq_safe. Qed.
Print Assumptions C06_return_type_dq_safe.

(* nginx.org/rewrites  ^/[^\s{};$\\]*$  glued bare after proxy_pass http://upstream: no event, stays in
   the word, and the template's terminator that follows is exactly one Semi (F27, repaired) *)
Theorem C06_ing_rewrite_safe :
  forall s, matches ing_rewrite s = true -> exists q', run QBare s = (q', []) /\ In q' [QBare].
Proof. exact ing_rewrite_safe. Qed.
Print Assumptions C06_ing_rewrite_safe.

Theorem C06_ing_rewrite_then_semi :
  forall s, matches ing_rewrite s = true -> run QBare (s ++ ";") = (QBetween, [TokEnd; Semi]).
Proof. exact ing_rewrite_then_semi. Qed.
Print Assumptions C06_ing_rewrite_then_semi.

(* nginx.org/limit-req-key  ^(\$\{\w+\}|\$\w+|[^\s;{}\\dq'#$])+$  printed bare as the first argument of
   limit_req_zone: one bare word, no event (F26, repaired); the rate  ^(\d+)(r/s|r/m)$  is a plain word *)
Theorem C06_limit_req_key_bare_safe :
  forall s, matches limit_req_key s = true -> exists q', run QBetween s = (q', []) /\ In q' [QBare; QVar].
Proof. exact limit_req_key_bare_safe. Qed.
Print Assumptions C06_limit_req_key_bare_safe.

Theorem C06_ing_rate_word : forall s, matches ing_rate s = true -> in_class CWord s.
Proof. exact ing_rate_word. Qed.
Print Assumptions C06_ing_rate_word.

(* header names (IsHTTPHeaderName, now also for action.return.headers: F52, repaired) are plain words;
   header values of a return action and the send string of a TransportServer health check match
   (F62, repaired) are escaped strings: C06_escaped_dq_safe above *)
Theorem C06_http_header_name_word : forall s, matches http_header_name s = true -> in_class CWord s.
Proof. exact http_header_name_word. Qed.
Print Assumptions C06_http_header_name_word.

(* action.proxy.rewritePath: WHICH validator language applies and WHERE the value is rendered depends on context
   selectors: the kind of the route path (prefix, exact, and the two regular-expression kinds) and the kind of location (top level, default
   action of a route with matches, inside matches, inside splits).  Tmpl.Validators.rewrite_path_lang /
   rewrite_path_site transcribe both choices (compared with the real validator and generator per selector on
   every run).  In every row but the two of F65 the selected language is neutral at the selected site; the
   exact-match row at top level is: strict path language, value glued bare after proxy_pass. *)
Theorem C06_rewrite_path_safe :
  forall k l s,
    rewrite_path_row_ok k l = true -> matches (rewrite_path_lang k l) s = true ->
    exists q', run (site_state (rewrite_path_site k l)) s = (q', []) /\ In q' (site_ends (rewrite_path_site k l)).
Proof. exact rewrite_path_safe. Qed.
Print Assumptions C06_rewrite_path_safe.

Theorem C06_rewrite_path_exact_top :
  forall s, matches (rewrite_path_lang PKExact LTop) s = true ->
    exists q', run QBare s = (q', []) /\ In q' [QBare; QVar].
Proof. exact rewrite_path_exact_top. Qed.
Print Assumptions C06_rewrite_path_exact_top.

(* validators that are parsers are bounded from above (tie: no accepted perturbation of the samples, near misses such
   as an IPv6 zone included, may fall outside the bound).  accessControl allow / deny entries (net.ParseCIDR /
   net.ParseIP) are plain words; *)
Theorem C06_ip_or_cidr_word : forall s, matches ip_or_cidr_upper s = true -> in_class CWord s.
Proof. exact ip_or_cidr_word. Qed.
Print Assumptions C06_ip_or_cidr_word.

(* a regular-expression route path, as generatePath (model gen_path, compared with the real function every run) writes
   it after location: the modifier and ONE quoted word, with or without a space after the modifier in the resource;
   and every route path the validator can accept yields no structural event at that site *)
Theorem C06_regex_path_quoted :
  forall r, matches escaped (String "~" r) = true ->
    run QBetween (gen_path (String "~" r)) = (QNeedSpace, [TokEnd; TokEnd]).
Proof. exact regex_path_quoted. Qed.
Print Assumptions C06_regex_path_quoted.

Theorem C06_route_path_location_safe :
  forall p, matches route_path_upper p = true ->
    exists q' e, run QBetween (gen_path p) = (q', e) /\ structural e = [] /\ In q' [QBare; QVar; QNeedSpace].
Proof. exact route_path_location_safe. Qed.
Print Assumptions C06_route_path_location_safe.

(* sizes, offsets and rates are plain words *)
Theorem C06_size_word : forall s, matches size s = true -> in_class CWord s.
Proof. exact size_word. Qed.
Print Assumptions C06_size_word.

Theorem C06_offset_word : forall s, matches offset s = true -> in_class CWord s.
Proof. exact offset_word. Qed.
Print Assumptions C06_offset_word.

Theorem C06_rate_word : forall s, matches rate s = true -> in_class CWord s.
Proof. exact rate_word. Qed.
Print Assumptions C06_rate_word.

(* ------------------------------------------------------------------ (2') refutations: validators
   that accept a string which is structural at the site they guard, with the witness *)

(* F06  Ingress path  ^/[^\s;]*$  printed bare after "location " *)
Theorem C06_ing_path_refuted :
  exists s, matches ing_path s = true /\ structural (snd (run QBetween s)) = [Open].
Proof. exact ing_path_refuted. Qed.
Print Assumptions C06_ing_path_refuted.

(* F28  the realm language printed BARE (sticky cookie parameters; also jwt-token, F64) *)
Theorem C06_realm_bare_refuted :
  exists s, matches realm s = true /\ structural (snd (run QBare s)) = [Open].
Proof. exact realm_bare_refuted. Qed.
Print Assumptions C06_realm_bare_refuted.

(* F29  TransportServer  ^hash (\S+)(?: consistent)?$  printed as a bare line *)
Theorem C06_ts_hash_refuted_semi :
  exists s, matches ts_hash s = true /\ structural (snd (run QBetween s)) = [Semi].
Proof. exact ts_hash_refuted_semi. Qed.
Print Assumptions C06_ts_hash_refuted_semi.

Theorem C06_ts_hash_refuted_open :
  exists s, matches ts_hash s = true /\ structural (snd (run QBetween s)) = [Open].
Proof. exact ts_hash_refuted_open. Qed.
Print Assumptions C06_ts_hash_refuted_open.

(* F54  healthCheck.grpcService  ^[^\s{};]*$  glued bare before the terminator *)
Theorem C06_grpc_service_refuted :
  (exists s, matches grpc_service s = true /\ run QBare s = (QBareEsc, []) /\
             structural (snd (run QBare (s ++ ";"))) = []) /\
  structural (snd (run QBare ("a" ++ ";"))) = [Semi].
Proof. exact grpc_service_refuted. Qed.
Print Assumptions C06_grpc_service_refuted.

(* F65  the default action of a route with matches: bare-word language (accepts a double quote), quoted site *)
Theorem C06_rewrite_path_default_action_refuted :
  forall k, is_regex_kind k = false ->
    exists s, rewrite_path_accepts k LTopWithMatches s = true /\
              rewrite_path_site k LTopWithMatches = SInDQ /\
              run QDQ s = (QNeedSpace, [TokEnd]).
Proof. exact rewrite_path_default_action_refuted. Qed.
Print Assumptions C06_rewrite_path_default_action_refuted.

(* what a repair of F29 (and F28 / F54: Tmpl.ValidatorsProofs) would use is safe *)
Theorem C06_ts_hash_fixed_safe :
  forall s, matches ts_hash_fixed s = true ->
    exists q' e, run QBetween s = (q', e) /\ structural e = [] /\ In q' [QBare; QVar].
Proof. exact ts_hash_fixed_safe. Qed.
Print Assumptions C06_ts_hash_fixed_safe.

(* ------------------------------------------------------------------ (3) templates *)

(* Soundness of the abstract interpreter, for every abstract template, every set Q of entry states,
   every two renderings that make the same control choices and whose site values are in the
   classes of their sites: equal structural events, end states inside the computed set, no lexical
   error.  (Choice and Star are nondeterministic: sound over-approximation of if / with / range.) *)
Theorem C06_analyze_sound :
  forall t Q Q',
    analyze t Q = Some Q' ->
    forall tr1 tr2, fits t tr1 -> fits t tr2 -> same_control t tr1 tr2 ->
                    values_ok t tr1 -> values_ok t tr2 ->
    forall q1 q2, In q1 Q -> In q2 Q ->
      let (q1', e1) := run q1 (render t tr1) in
      let (q2', e2) := run q2 (render t tr2) in
      structural e1 = structural e2 /\ In q1' Q' /\ In q2' Q' /\
      no_err e1 = true /\ no_err e2 = true.
Proof. exact analyze_sound. Qed.
Print Assumptions C06_analyze_sound.

(* THE PROPERTY, for a whole file: if the analysis of a template succeeds from "between tokens" and
   ends in states in which a file may end, then any two renderings with the same control choices
   and class-respecting values have the same structure, and both are lexically well formed.  Taking
   for tr2 the rendering with harmless text in one field gives the statement of C06. *)
Theorem C06_structure_invariant :
  forall t,
    file_ok t = true ->
    forall tr1 tr2, fits t tr1 -> fits t tr2 -> same_control t tr1 tr2 ->
                    values_ok t tr1 -> values_ok t tr2 ->
      structural (snd (run QBetween (render t tr1))) = structural (snd (run QBetween (render t tr2))) /\
      events_ok (render t tr1) = true /\ events_ok (render t tr2) = true.
Proof. exact file_ok_invariant. Qed.
Print Assumptions C06_structure_invariant.

(* ------------------------------------------------------------------ the hypotheses are satisfiable *)

(* a small template in the style of the real ones: path bare, upstream word, rewrite bare, header value
   inside quotes, a %q site inside a range *)
Definition example_template : tmpl :=
  seqs [Text "location "; Site 0 CBareTok; Text " { proxy_pass http://"; Site 1 CWord; Site 2 CBareTok;
        Text "; add_header X """; Site 3 CDQ; Text """; ";
        Star (seqs [Text "set $a "; Site 4 CQuoted; Text "; "]); Text "}"].

Example example_template_ok : file_ok example_template = true.
Proof. vm_compute. reflexivity. Qed.

(* the same with the quoted-only value printed OUTSIDE the quotes is refused, and names the site *)
Example example_template_bad :
  analyze_diag (seqs [Text "add_header X "; Site 3 CDQ; Text ";"]) [QBetween] = DSite 3 CDQ QBetween.
Proof. vm_compute. reflexivity. Qed.

Example example_values : in_class CBareTok "/tea" /\ in_class CWord "default-cafe-tea" /\
                         in_class CDQ "a \""quoted\"" value; with {braces}" /\ ~ in_class CBareTok "/tea{".
Proof. vm_compute. repeat split; try reflexivity. discriminate. Qed.
