"""C05 -- every resource not serving traffic has been told why; active ones are not."""
import json
from . import common as C, arb

ID, MASK, FIRST, STEP, CODE, NEV = range(6)
RELEVANT = 1 | 2
WHAT = {1: "a resource that is active has a rejection/problem as its most recent report (no fresh success)",
        2: "a known resource that is not applied has a success (or nothing) as its most recent report",
        3: "an attached minion that lost all its paths was last told success without warning",
        9: "the validation error of the resource being processed is not reported in that step"}
KIND = {1: "active-but-last-report-negative", 2: "inactive-but-last-report-positive", 3: "minion-without-paths-not-warned", 9: "validation-error-not-reported"}


def describe(c, step):
    ev = c["histories"][0]["events"][step - 1]
    st = c["histories"][0]["steps"][step - 1]
    return {"event": ev.get("note"), "kind": ev["spec"]["kind"], "key": ev["spec"].get("ns", "") + "/" + ev["spec"].get("name", ""),
            "changes": [(x["op"], x["res"]["k"], (x["res"].get(x["res"]["k"]) or {}).get("meta", {}).get("ns", "") + "/" + (x["res"].get(x["res"]["k"]) or {}).get("meta", {}).get("name", ""), x["err"], x["res"]["warnings"]) for x in st["changes"]],
            "problems": [(p["obj"], p["reason"], p["msg"]) for p in st["problems"]], "hosts": st["hosts"], "lhosts": st["lhosts"]}


def judge(run, cases, rows):
    for c in cases:
        if c.get("error"):
            run.failing({"kind": "harness-case-error"}, [c], "harness could not run case %d: %s" % (c["id"], c["error"][:300]),
                        theorem="correspondence harness arb", found_input="panic" in c["error"])
            continue
        r = rows[c["id"]]
        nontrivial = any(st["problems"] for st in c["histories"][0]["steps"])
        run.count_case(arb.canon(c), nontrivial)
        run.cov["traces_validated_against_impl"] += 1
        if r[STEP] != 0:
            ev = c["histories"][0]["events"][r[STEP] - 1]
            run.failing({"kind": KIND.get(r[CODE], str(r[CODE])), "event_kind": ev["spec"]["kind"]}, [c],
                        "C05: accumulating the reports derived from the real change and problem lists, after step %d of case %d %s: %s"
                        % (r[STEP], c["id"], WHAT.get(r[CODE], r[CODE]), json.dumps(describe(c, r[STEP]))[:700]), theorem="Arb.Cases.c05_run")
        elif r[MASK] & RELEVANT:
            run.failing({"kind": "correspondence", "components": r[MASK] & RELEVANT}, [c],
                        "model and implementation disagree on changes/problems (mask %d, first step %d, case %d) while the accumulated reports stay truthful" % (r[MASK], r[FIRST], c["id"]),
                        theorem="correspondence Arb.Model ~ internal/k8s/configuration.go (changes, problems)", found_input=False)


CID, DX, DS, DC, DF, CNEV, DD, DK, DL = range(9)


def judge_ctl(run, cases, rows):
    """controller level: the Events really recorded by LoadBalancerController.sync"""
    for c in cases:
        if c.get("error") or c["id"] not in rows:
            continue
        r = rows[c["id"]]
        run.cov["traces_validated_against_impl"] += 1
        run.cov["controller_events"] = run.cov.get("controller_events", 0) + sum(len(st["events"]) for st in c["ctl"])
        # a warning must name its cause: every warning the Configuration holds for a resource (or for a minion, as a child warning)
        # is in the message of the success Event about it
        for i, st in enumerate(c["ctl"]):
            un = (st.get("verr") or {}).get("unnamed") or []
            if un:
                ev = c["histories"][0]["events"][i]
                run.failing({"kind": "warning-not-named", "level": "controller-events", "event_kind": ev["spec"]["kind"]}, [c],
                            "C05: at step %d of case %d (%s %s %s/%s) the real LoadBalancerController.sync recorded an 'added or updated' Event whose message does not name a warning "
                            "that the Configuration holds for the object: %s" % (i + 1, c["id"], ev["op"], ev["spec"]["kind"], ev["spec"].get("ns"), ev["spec"].get("name"), json.dumps(un)[:400]),
                            theorem="harness rule unnamedWarnings (zz_verif_arbctl.go)")
                break
        # a weights-only edit that makes the split invalid (sum != 100), delivered to the real update handler with
        # -weight-changes-dynamic-reload on: the validation error must be reported, for a two-way and for a three-way split
        for n, wp in zip((2, 3), c.get("weight_probe_invalid") or []):
            rej = [e for e in wp.get("events") or [] if e.get("type") == "Warning" and "VirtualServer/wp/inv%d" % n == e.get("obj")]
            if not rej or wp.get("stored"):
                run.failing({"kind": "validation-error-not-reported", "level": "controller-events", "how": "weights-only-edit", "splits": n}, [c],
                            "C05: with -weight-changes-dynamic-reload, after the history of case %d a served VirtualServer with a %d-way split is edited so that only the weights change and no "
                            "longer add up to 100; the update goes through the real informer update handler and the real sync: %s; events %s"
                            % (c["id"], n, "no Warning event about it was recorded" if not rej else "it was rejected, but the next unrelated event made it active again (it holds its host) although its most recent report is the rejection", json.dumps(wp.get("events"))[:400]),
                            theorem="harness arb (VerifCtl.WeightProbeInvalid)")
                break
        if r[DS] != 0:
            ev = c["histories"][0]["events"][r[DS] - 1]
            run.failing({"kind": KIND.get(r[DC], str(r[DC])), "level": "controller-events", "event_kind": ev["spec"]["kind"]}, [c],
                        "C05: accumulating the Events recorded by the real LoadBalancerController.sync, after step %d of case %d %s; events of that step: %s"
                        % (r[DS], c["id"], WHAT.get(r[DC], r[DC]), json.dumps(c["ctl"][r[DS] - 1]["events"])[:500]), theorem="Arb.Cases.ctl_run")
        elif len(r) > 12 and r[11] != 0:
            st = c["ctl"][r[11] - 1]
            run.failing({"kind": KIND.get(r[12], str(r[12])), "level": "controller-status"}, [c],
                        "C05: accumulating the status.reason the real LoadBalancerController.sync wrote to the status subresources (the informer store receives the written status, as after a "
                        "watch event), after step %d of case %d %s; status writes of that step: %s"
                        % (r[11], c["id"], WHAT.get(r[12], r[12]), json.dumps([(w["resource"], w["key"], w.get("reason")) for w in st["writes"]])[:500]),
                        theorem="Arb.Cases.status_run")
        elif r[DD] != 0 and r[DK] == 2:
            ev = c["histories"][0]["events"][r[DD] - 1]
            run.failing({"kind": "event-not-delivered", "event_kind": ev["spec"]["kind"]}, [c],
                        "C05: at step %d of case %d the real informer handler drops a %s event about %s %s/%s that differs from the last one about that object: the controller "
                        "never processes it and the resource is never told the outcome" % (r[DD], c["id"], (c["ctl"][r[DD] - 1].get("probe") or {}).get("kind"),
                                                                                        ev["spec"]["kind"], ev["spec"].get("ns"), ev["spec"].get("name")),
                        theorem="Arb.Cases.delivery_code")
        elif r[DX] != 0:
            run.failing({"kind": "correspondence", "part": "reports"}, [c],
                        "the reports the model derives from the change/problem lists (Arb.Cases.reports_of_step_ev, a transcription of processChanges / processProblems / "
                        "update*StatusAndEvents*) differ from the Events the real controller recorded at step %d of case %d: %s"
                        % (r[DX], c["id"], json.dumps(c["ctl"][r[DX] - 1]["events"])[:500]),
                        theorem="correspondence Arb.Cases.reports_of_step_ev ~ internal/k8s/controller.go processChanges/processProblems", found_input=False)


def check(run):
    n = 200 if run.tier == "quick" else 4000
    run.proof_obligations()
    cases = arb.generate(run, n, ctl=True)
    rows = arb.evaluate(run, cases, fn="c05_case")
    judge(run, cases, rows)
    # controller level on a part of the cases (each case is evaluated a second time)
    part = cases[: (120 if run.tier == "quick" else 2000)]
    crow = arb.evaluate(run, part, fn="ctl_case", extra=arb.ctl_term, tag="arbctl")
    judge_ctl(run, part, crow)
    run.cov["controller_level_histories"] = len(part)
    for c in cases[:2]:
        run.sample(arb.summarize_case(c))
    run.cov["problems_total"] = sum(len(s["problems"]) for c in cases for s in c["histories"][0]["steps"])
    run.cov["rule"] = ("histories of the arb harness (see C01); per object the most recent report is accumulated from the real change lists (success for the resource, its minions and routes; "
                       "rejection for a delete change with an error or warnings if the object still exists) and problem lists, the way events and status accumulate in the cluster; after every "
                       "event every object the controller knows (exists, own class) is checked: active <=> last report is a success; non-trivial = the history produced at least one problem")
    run.cov["trusted_base"] = arb.TRUSTED + ["the mapping from changes/problems to reports (processChanges / processProblems / update*StatusAndEvents*) is transcribed in "
                                             "Arb.Cases.reports_of_step_ev and compared on every step with the Events recorded by the real LoadBalancerController.sync "
                                             "(production constructor, fake clientsets, harness-filled informer stores, fake NGINX manager)"]
    run.assumptions += ["converted cert-manager challenge Ingresses are excluded (they are reported through a synthesised VirtualServerRoute)"]


def replay(run, path):
    cases = arb.replay_cases(run, path, ctl=True)
    crow = arb.evaluate(run, cases, fn="ctl_case", extra=arb.ctl_term, tag="arbctl")
    for c in cases:
        if not c.get("error") and c["id"] in crow:
            r = crow[c["id"]]
            print("replay case %d (controller level): reports differ from Events first at step %d; first untruthful step %d (code %d); foreign object reported at step %d" % (c["id"], r[DX], r[DS], r[DC], r[DF]))
    judge_ctl(run, cases, crow)
    rows = arb.evaluate(run, cases, fn="c05_case")
    for c in cases:
        if not c.get("error"):
            r = rows[c["id"]]
            print("replay case %d: mask=%d first=%d; first untruthful step=%d code=%s" % (c["id"], r[MASK], r[FIRST], r[STEP], WHAT.get(r[CODE], r[CODE])))
            if r[STEP]:
                print("   ", json.dumps(describe(c, r[STEP]))[:1200])
    judge(run, cases, rows)
