//go:build verif

package k8s

import (
	"fmt"
	"sort"
	"strings"
	"sync"

	"github.com/nginx/kubernetes-ingress/internal/configs"
	"github.com/nginx/kubernetes-ingress/internal/metrics/collectors"
	conf_v1 "github.com/nginx/kubernetes-ingress/pkg/apis/configuration/v1"
	"github.com/nginx/kubernetes-ingress/pkg/apis/configuration/validation"
	fake_v1 "github.com/nginx/kubernetes-ingress/pkg/client/clientset/versioned/fake"
	api_v1 "k8s.io/api/core/v1"
	networking "k8s.io/api/networking/v1"
	"k8s.io/apimachinery/pkg/runtime"
	"k8s.io/client-go/kubernetes/fake"
	"k8s.io/client-go/tools/cache"
	k8stesting "k8s.io/client-go/testing"
)

// VerifCtl drives the real LoadBalancerController.sync (production constructor, fake clientsets,
// informer stores filled by the harness) and records what the cluster would see: Events and status
// writes.  It is the controller-level counterpart of VerifArb (C05, C16).
type VerifCtl struct {
	Arb  *VerifArb
	lbc  *LoadBalancerController
	rec  *verifRecorder
	conf *fake_v1.Clientset
	kube *fake.Clientset
}

// VEvent is one recorded Event, identified by the kind/namespace/name of its object.
type VEvent struct {
	Obj    string `json:"obj"` // Kind/namespace/name
	Type   string `json:"type"`
	Reason string `json:"reason"`
	msg    string
}

// VStatusWrite is one write to a status subresource (or an Ingress status update).
type VStatusWrite struct {
	Resource string `json:"resource"`
	Key      string `json:"key"`
}

type verifRecorder struct {
	mu  sync.Mutex
	evs []VEvent
}

func verifObjKey(obj runtime.Object) string {
	switch o := obj.(type) {
	case *networking.Ingress:
		return getResourceKeyWithKind(ingressKind, &o.ObjectMeta)
	case *conf_v1.VirtualServer:
		return getResourceKeyWithKind(virtualServerKind, &o.ObjectMeta)
	case *conf_v1.VirtualServerRoute:
		return getResourceKeyWithKind(virtualServerRouteKind, &o.ObjectMeta)
	case *conf_v1.TransportServer:
		return getResourceKeyWithKind(transportServerKind, &o.ObjectMeta)
	case *conf_v1.GlobalConfiguration:
		return "GlobalConfiguration/" + o.Namespace + "/" + o.Name
	case *api_v1.Secret:
		return "Secret/" + o.Namespace + "/" + o.Name
	}
	return fmt.Sprintf("?%T", obj)
}

func (r *verifRecorder) Event(object runtime.Object, eventtype, reason, message string) {
	r.mu.Lock()
	r.evs = append(r.evs, VEvent{Obj: verifObjKey(object), Type: eventtype, Reason: reason, msg: message})
	r.mu.Unlock()
}

func (r *verifRecorder) Eventf(object runtime.Object, eventtype, reason, messageFmt string, args ...interface{}) {
	r.Event(object, eventtype, reason, fmt.Sprintf(messageFmt, args...))
}

func (r *verifRecorder) AnnotatedEventf(object runtime.Object, _ map[string]string, eventtype, reason, messageFmt string, args ...interface{}) {
	r.Event(object, eventtype, reason, fmt.Sprintf(messageFmt, args...))
}

func (r *verifRecorder) take() []VEvent {
	r.mu.Lock()
	defer r.mu.Unlock()
	out := r.evs
	r.evs = nil
	if out == nil {
		out = []VEvent{}
	}
	return out
}

// VerifGCKey is the key of the watched GlobalConfiguration.
const VerifGCKey = "nginx-ingress/globalconfiguration"

// VerifCtlNew builds the controller with the same class, validators and feature flags as VerifNewArb.
func VerifCtlNew(cnf *configs.Configurator, class string, tlsPassthrough, certManager bool, anns map[string]int) *VerifCtl {
	rec := &verifRecorder{}
	kube := fake.NewSimpleClientset()
	conf := fake_v1.NewSimpleClientset()
	lbc := NewLoadBalancerController(NewLoadBalancerControllerInput{
		KubeClient:                   kube,
		ConfClient:                   conf,
		Recorder:                     rec,
		LoggerContext:                configs.VerifC12Context(),
		NginxConfigurator:            cnf,
		IngressClass:                 class,
		Namespace:                    []string{""},
		SecretNamespace:              []string{""},
		ControllerNamespace:          "nginx-ingress",
		AreCustomResourcesEnabled:    true,
		ReportIngressStatus:          true,
		GlobalConfiguration:          VerifGCKey,
		MetricsCollector:             collectors.NewControllerFakeCollector(),
		GlobalConfigurationValidator: validation.NewGlobalConfigurationValidator(map[int]bool{80: true, 443: true}),
		TransportServerValidator:     validation.NewTransportServerValidator(tlsPassthrough, true, false),
		VirtualServerValidator:       validation.NewVirtualServerValidator(validation.IsPlus(tlsPassthrough), validation.IsDosEnabled(false), validation.IsCertManagerEnabled(certManager)),
		IsTLSPassthroughEnabled:      tlsPassthrough,
		SnippetsEnabled:              true,
	})
	// CertManagerEnabled in the constructor input would also start a cert-manager controller, which needs a
	// REST config; only the arbitration flag is wanted here
	lbc.configuration.isCertManagerEnabled = certManager
	lbc.isNginxReady = true
	cnf.EnableReloads()
	return &VerifCtl{Arb: &VerifArb{C: lbc.configuration, lbc: lbc, anns: anns, TLSPassthrough: tlsPassthrough, CertManager: certManager},
		lbc: lbc, rec: rec, conf: conf, kube: kube}
}

func (v *VerifCtl) store(kind string) (cache.Store, kind, error) {
	nsi := v.lbc.namespacedInformers[""]
	switch kind {
	case "ing":
		return nsi.ingressLister.Store, ingress, nil
	case "vs":
		return nsi.virtualServerLister, virtualserver, nil
	case "vsr":
		return nsi.virtualServerRouteLister, virtualServerRoute, nil
	case "ts":
		return nsi.transportServerLister, transportserver, nil
	case "gc":
		return v.lbc.globalConfigurationLister, globalConfiguration, nil
	}
	return nil, 0, fmt.Errorf("unknown kind %q", kind)
}

// validationErrorText is the text of the validation error the controller will find for obj ("" if none or
// if the object is not of the controller's class)
func (v *VerifCtl) validationErrorText(obj interface{}) string {
	if obj == nil || !v.lbc.HasCorrectIngressClass(obj) {
		return ""
	}
	var err error
	c := v.lbc.configuration
	switch o := obj.(type) {
	case *networking.Ingress:
		err = validateIngress(o, c.isPlus, c.appProtectEnabled, c.appProtectDosEnabled, c.internalRoutesEnabled, c.snippetsEnabled).ToAggregate()
	case *conf_v1.VirtualServer:
		err = c.virtualServerValidator.ValidateVirtualServer(o)
	case *conf_v1.VirtualServerRoute:
		err = c.virtualServerValidator.ValidateVirtualServerRoute(o)
	case *conf_v1.TransportServer:
		err = c.transportServerValidator.ValidateTransportServer(o)
	}
	if err == nil {
		return ""
	}
	return err.Error()
}

// VErr tells whether the object of a sync was invalid and whether an Event about it carried the error text.
type VErr struct {
	Expected bool `json:"expected"`
	Reported bool `json:"reported"`
}

// Apply puts (or removes, when obj is nil) the object in the informer store of its kind and runs the
// real lbc.sync on the corresponding task with an empty work queue.  It returns the Events recorded
// and the status writes issued during that sync.
func (v *VerifCtl) Apply(kindName, key string, obj interface{}) (evs []VEvent, writes []VStatusWrite, verr VErr, err error) {
	s, k, err := v.store(kindName)
	if err != nil {
		return nil, nil, verr, err
	}
	verrText := v.validationErrorText(obj)
	if obj != nil {
		if err := s.Add(obj); err != nil {
			return nil, nil, verr, err
		}
	} else if old, exists, _ := s.GetByKey(key); exists {
		if err := s.Delete(old); err != nil {
			return nil, nil, verr, err
		}
	}
	q := v.lbc.syncQueue.queue
	for q.Len() > 0 {
		it, _ := q.Get()
		q.Done(it)
	}
	v.kube.ClearActions()
	v.conf.ClearActions()
	v.lbc.sync(task{Kind: k, Key: key})
	collect := func(acts []k8stesting.Action) {
		for _, a := range acts {
			if a.GetVerb() != "update" && a.GetVerb() != "patch" {
				continue
			}
			name := ""
			if ua, ok := a.(k8stesting.UpdateAction); ok {
				if m, ok := ua.GetObject().(interface{ GetName() string }); ok {
					name = m.GetName()
				}
			}
			if a.GetSubresource() == "status" || a.GetResource().Resource == "ingresses" {
				writes = append(writes, VStatusWrite{Resource: a.GetResource().Resource, Key: a.GetNamespace() + "/" + name})
			}
		}
	}
	collect(v.kube.Actions())
	collect(v.conf.Actions())
	sort.Slice(writes, func(i, j int) bool {
		if writes[i].Resource != writes[j].Resource {
			return writes[i].Resource < writes[j].Resource
		}
		return writes[i].Key < writes[j].Key
	})
	if writes == nil {
		writes = []VStatusWrite{}
	}
	evs = v.rec.take()
	if verrText != "" {
		verr.Expected = true
		if ro, ok := obj.(runtime.Object); ok {
			me := verifObjKey(ro)
			for _, e := range evs {
				if e.Obj == me && strings.Contains(e.msg, verrText) {
					verr.Reported = true
				}
			}
		}
	}
	return evs, writes, verr, nil
}
