//go:build verif

// Race harness for C18 (built with -race).  It assembles the controller the way
// cmd/nginx-ingress/main.go does -- the production NewLoadBalancerController, Configurator,
// LocalSecretStore, Configuration, informers and work queue -- over fake API clientsets and the
// fake NGINX manager, runs lbc.Run() (so the control-loop worker and the informer event handlers
// are the real goroutines), and runs beside it the real concurrent observers:
//   - service-insight: HealthServer.UpstreamStats / StreamStats (the production handlers),
//   - telemetry: Collector.Collect with the controller's own Policies / SecretStore accessors,
//   - leader election: the production callbacks (and the real elector over the fake lease API).
// A driver goroutine plays the API server: it creates, updates and deletes VirtualServers,
// VirtualServerRoutes (incl. split-weight-only updates, which the informer handlers process
// themselves), Ingresses, TransportServers, Secrets, the ConfigMap and Namespaces.
// Every choice is derived from -seed.  The race detector's reports (GORACE log_path) are the
// observable; this program only writes what it did.
package main

import (
	"context"
	"crypto/ecdsa"
	"crypto/elliptic"
	"crypto/rand"
	"crypto/x509"
	"crypto/x509/pkix"
	"encoding/pem"
	"flag"
	"fmt"
	"io"
	"log/slog"
	"math/big"
	"net/http/httptest"
	"net/url"
	"os"
	"path/filepath"
	"sync"
	"sync/atomic"
	"time"

	"github.com/nginx/kubernetes-ingress/internal/configs"
	"github.com/nginx/kubernetes-ingress/internal/configs/version1"
	"github.com/nginx/kubernetes-ingress/internal/configs/version2"
	"github.com/nginx/kubernetes-ingress/internal/healthcheck"
	"github.com/nginx/kubernetes-ingress/internal/k8s"
	nl "github.com/nginx/kubernetes-ingress/internal/logger"
	"github.com/nginx/kubernetes-ingress/internal/metrics/collectors"
	"github.com/nginx/kubernetes-ingress/internal/nginx"
	"github.com/nginx/kubernetes-ingress/internal/telemetry"
	"github.com/nginx/kubernetes-ingress/internal/verifh/vh"
	conf_v1 "github.com/nginx/kubernetes-ingress/pkg/apis/configuration/v1"
	"github.com/nginx/kubernetes-ingress/pkg/apis/configuration/validation"
	conffake "github.com/nginx/kubernetes-ingress/pkg/client/clientset/versioned/fake"
	"github.com/nginx/nginx-plus-go-client/v2/client"
	"github.com/spiffe/go-spiffe/v2/bundle/x509bundle"
	"github.com/spiffe/go-spiffe/v2/spiffeid"
	"github.com/spiffe/go-spiffe/v2/svid/x509svid"
	"github.com/spiffe/go-spiffe/v2/workloadapi"
	api_v1 "k8s.io/api/core/v1"
	discovery_v1 "k8s.io/api/discovery/v1"
	networking "k8s.io/api/networking/v1"
	meta_v1 "k8s.io/apimachinery/pkg/apis/meta/v1"
	"k8s.io/apimachinery/pkg/types"
	k8sfake "k8s.io/client-go/kubernetes/fake"
	"k8s.io/client-go/tools/record"
)

type Case struct {
	ID       int            `json:"id"`
	Kind     string         `json:"kind"`
	Seed     uint64         `json:"seed"`
	Iter     int            `json:"iter"`
	Ops      map[string]int `json:"ops"`
	Observed map[string]int `json:"observed"`
	Obs      map[string]any `json:"obs"`
}

type nopLabels struct{}

func (nopLabels) UpdateUpstreamServerPeerLabels(map[string][]string)   {}
func (nopLabels) DeleteUpstreamServerPeerLabels([]string)              {}
func (nopLabels) UpdateUpstreamServerLabels(map[string][]string)       {}
func (nopLabels) DeleteUpstreamServerLabels([]string)                  {}
func (nopLabels) UpdateStreamUpstreamServerPeerLabels(map[string][]string) {}
func (nopLabels) DeleteStreamUpstreamServerPeerLabels([]string)        {}
func (nopLabels) UpdateStreamUpstreamServerLabels(map[string][]string) {}
func (nopLabels) DeleteStreamUpstreamServerLabels([]string)            {}
func (nopLabels) UpdateServerZoneLabels(map[string][]string)           {}
func (nopLabels) DeleteServerZoneLabels([]string)                      {}
func (nopLabels) UpdateStreamServerZoneLabels(map[string][]string)     {}
func (nopLabels) DeleteStreamServerZoneLabels([]string)                {}
func (nopLabels) UpdateCacheZoneLabels(map[string][]string)            {}
func (nopLabels) DeleteCacheZoneLabels([]string)                       {}
func (nopLabels) UpdateWorkerLabels(map[string][]string)               {}
func (nopLabels) DeleteWorkerLabels([]string)                          {}

func makeCert() (certPEM, keyPEM []byte) {
	key, _ := ecdsa.GenerateKey(elliptic.P256(), rand.Reader)
	tmpl := &x509.Certificate{SerialNumber: big.NewInt(1), Subject: pkix.Name{CommonName: "example.com"},
		NotBefore: time.Now().Add(-time.Hour), NotAfter: time.Now().Add(24 * time.Hour), DNSNames: []string{"example.com"}}
	der, _ := x509.CreateCertificate(rand.Reader, tmpl, tmpl, &key.PublicKey, key)
	kb, _ := x509.MarshalECPrivateKey(key)
	return pem.EncodeToMemory(&pem.Block{Type: "CERTIFICATE", Bytes: der}), pem.EncodeToMemory(&pem.Block{Type: "EC PRIVATE KEY", Bytes: kb})
}

const (
	ctrlNS  = "nginx-ingress"
	class   = "nginx"
	nsLabel = "verif=watch"
)

// ns-a and ns-c hold resources (two sets of informers); ns-b is empty and comes and goes
var namespaces = []string{"ns-a", "ns-c", "ns-b"}

func main() {
	repo := flag.String("repo", "/repo", "repository root (templates are read from it)")
	a := vh.ParseArgs()
	w, err := vh.NewWriter(a.Out)
	if err != nil {
		fmt.Fprintln(os.Stderr, err)
		os.Exit(2)
	}
	defer w.Close()
	iter := a.N
	c := Case{ID: 0, Kind: "scenario", Seed: a.Seed, Iter: iter, Ops: map[string]int{}, Observed: map[string]int{}, Obs: map[string]any{}}
	if a.Replay != "" {
		var rc []struct {
			Seed uint64 `json:"seed"`
			Iter int    `json:"iter"`
		}
		if err := vh.ReadReplay(a.Replay, &rc); err == nil && len(rc) > 0 && rc[0].Iter > 0 {
			c.Seed, c.Iter = rc[0].Seed, rc[0].Iter
			iter = rc[0].Iter
		}
	}
	func() {
		defer func() {
			if r := recover(); r != nil {
				c.Obs["error"] = fmt.Sprintf("panic in harness: %v", r)
			}
		}()
		spiffeScenario(*repo, &c)
		gcScenario(*repo, &c)
		run(*repo, &c, iter)
	}()
	w.Emit(c)
}

// newConfigurator builds the production Configurator over the fake NGINX manager.
func newConfigurator(ctx context.Context, repo string) (*configs.Configurator, error) {
	tpl := func(p string) string { return filepath.Join(repo, "internal/configs", p) }
	te, err := version1.NewTemplateExecutor(tpl("version1/nginx-plus.tmpl"), tpl("version1/nginx-plus.ingress.tmpl"))
	if err != nil {
		return nil, err
	}
	te2, err := version2.NewTemplateExecutor(tpl("version2/nginx-plus.virtualserver.tmpl"), tpl("version2/nginx-plus.transportserver.tmpl"))
	if err != nil {
		return nil, err
	}
	nginxVersion := nginx.NewVersion("nginx version: nginx/1.25.3 (nginx-plus-r31)")
	static := &configs.StaticConfigParams{HealthStatus: true, HealthStatusURI: "/nginx-health", NginxStatus: true,
		NginxStatusAllowCIDRs: []string{"127.0.0.1"}, NginxStatusPort: 8080, NginxServiceMesh: true, NginxVersion: nginxVersion}
	return configs.NewConfigurator(configs.ConfiguratorParams{
		NginxManager: nginx.NewFakeManager("/etc/nginx"), StaticCfgParams: static, Config: configs.NewDefaultConfigParams(ctx, true),
		MGMTCfgParams: configs.NewDefaultMGMTConfigParams(ctx), TemplateExecutor: te, TemplateExecutorV2: te2,
		LabelUpdater: nopLabels{}, LatencyCollector: collectors.NewLatencyFakeCollector(), IsPlus: true, NginxVersion: nginxVersion,
	}), nil
}

func x509Context() (*workloadapi.X509Context, error) {
	key, err := ecdsa.GenerateKey(elliptic.P256(), rand.Reader)
	if err != nil {
		return nil, err
	}
	id := spiffeid.RequireFromString("spiffe://example.org/ns/nginx-ingress/sa/nginx-ingress")
	tmpl := &x509.Certificate{SerialNumber: big.NewInt(1), Subject: pkix.Name{CommonName: "verif"},
		NotBefore: time.Now().Add(-time.Hour), NotAfter: time.Now().Add(time.Hour), URIs: []*url.URL{id.URL()},
		IsCA: true, BasicConstraintsValid: true, KeyUsage: x509.KeyUsageDigitalSignature | x509.KeyUsageCertSign}
	der, err := x509.CreateCertificate(rand.Reader, tmpl, tmpl, &key.PublicKey, key)
	if err != nil {
		return nil, err
	}
	cert, err := x509.ParseCertificate(der)
	if err != nil {
		return nil, err
	}
	return &workloadapi.X509Context{
		SVIDs:   []*x509svid.SVID{{ID: id, Certificates: []*x509.Certificate{cert}, PrivateKey: key}},
		Bundles: x509bundle.NewSet(x509bundle.FromX509Authorities(id.TrustDomain(), []*x509.Certificate{cert})),
	}, nil
}

// spiffeScenario: the controller configured for SPIFFE (spiffeCertFetcher set, so sync takes syncLock), the
// production sync run by one goroutine on ConfigMap tasks -- the first task of the initial sync, then batches of
// two (the first holds reloads back, the last one of the batch applies them) -- beside the production
// syncSVIDRotation on certificates the harness makes up.  No SPIRE agent and no lbc.Run(): the harness plays
// the work-queue worker (VerifSync) and the fetcher's channel.
func spiffeScenario(repo string, c *Case) {
	logger := slog.New(slog.NewTextHandler(io.Discard, &slog.HandlerOptions{Level: slog.LevelError}))
	ctx := nl.ContextWithLogger(context.Background(), logger)
	cnf, err := newConfigurator(ctx, repo)
	if err != nil {
		c.Obs["spiffe_error"] = err.Error()
		return
	}
	x, err := x509Context()
	if err != nil {
		c.Obs["spiffe_error"] = err.Error()
		return
	}
	kube := k8sfake.NewSimpleClientset()
	pod := &api_v1.Pod{ObjectMeta: meta_v1.ObjectMeta{Name: "verif-pod", Namespace: ctrlNS}}
	lbc := k8s.NewLoadBalancerController(k8s.NewLoadBalancerControllerInput{
		KubeClient: kube, ConfClient: conffake.NewSimpleClientset(), Recorder: &record.FakeRecorder{}, ResyncPeriod: 30 * time.Second,
		LoggerContext: ctx, Namespace: []string{""}, SecretNamespace: []string{""}, NginxConfigurator: cnf,
		IsNginxPlus: true, IngressClass: class, ControllerNamespace: ctrlNS, Pod: pod, AreCustomResourcesEnabled: true,
		MetricsCollector:             collectors.NewControllerFakeCollector(),
		GlobalConfigurationValidator: validation.NewGlobalConfigurationValidator(map[int]bool{}),
		TransportServerValidator:     validation.NewTransportServerValidator(false, false, true),
		VirtualServerValidator:       validation.NewVirtualServerValidator(validation.IsPlus(true)),
	})
	k8s.VerifEnableSpiffe(lbc)
	cm := func(i int) *api_v1.ConfigMap {
		return &api_v1.ConfigMap{ObjectMeta: meta_v1.ObjectMeta{Name: fmt.Sprintf("cm%d", i), Namespace: ctrlNS}}
	}
	var wg sync.WaitGroup
	var stop atomic.Bool
	wg.Add(2)
	go func() { // the certificate rotation goroutine
		defer wg.Done()
		defer func() { recover() }()
		for !stop.Load() {
			k8s.VerifSyncSVIDRotation(lbc, x)
			c.Observed["spiffe-rotation"]++
			time.Sleep(200 * time.Microsecond)
		}
	}()
	go func() { // the control-loop worker
		defer wg.Done()
		defer stop.Store(true)
		defer func() {
			if r := recover(); r != nil {
				c.Obs["spiffe_error"] = fmt.Sprintf("panic: %v", r)
			}
		}()
		k8s.VerifSync(lbc, cm(0)) // last task of the initial sync: NGINX becomes ready
		for i := 0; i < 150; i++ {
			lbc.AddSyncQueue(cm(1))
			lbc.AddSyncQueue(cm(2))
			k8s.VerifSync(lbc, cm(1)) // first of a batch: reloads are held back
			k8s.VerifDrainQueue(lbc)
			k8s.VerifSync(lbc, cm(2)) // last of the batch: reloads are enabled again and applied
			c.Ops["spiffe-batch"]++
			time.Sleep(300 * time.Microsecond)
		}
	}()
	wg.Wait()
}

// gcScenario: the GlobalConfiguration informer delivers its production UpdateFunc -- as a resync does
// (old = cur = the cached object), as a relist does (the store is given an equal, freshly decoded object, then
// old = the previous cached object, cur = the new one) and, every 40 rounds, as a watch update does -- while the production sync of the
// globalConfiguration task takes the cached object out of the store and has it validated.  The object has a
// listener on a forbidden port, so the validator has something to drop.
func gcScenario(repo string, c *Case) {
	logger := slog.New(slog.NewTextHandler(io.Discard, &slog.HandlerOptions{Level: slog.LevelError}))
	ctx := nl.ContextWithLogger(context.Background(), logger)
	cnf, err := newConfigurator(ctx, repo)
	if err != nil {
		c.Obs["gc_error"] = err.Error()
		return
	}
	pod := &api_v1.Pod{ObjectMeta: meta_v1.ObjectMeta{Name: "verif-pod", Namespace: ctrlNS}}
	lbc := k8s.NewLoadBalancerController(k8s.NewLoadBalancerControllerInput{
		KubeClient: k8sfake.NewSimpleClientset(), ConfClient: conffake.NewSimpleClientset(), Recorder: &record.FakeRecorder{}, ResyncPeriod: 30 * time.Second,
		LoggerContext: ctx, Namespace: []string{""}, SecretNamespace: []string{""}, NginxConfigurator: cnf,
		IsNginxPlus: true, IngressClass: class, ControllerNamespace: ctrlNS, Pod: pod, AreCustomResourcesEnabled: true,
		GlobalConfiguration:          ctrlNS + "/gc",
		MetricsCollector:             collectors.NewControllerFakeCollector(),
		GlobalConfigurationValidator: validation.NewGlobalConfigurationValidator(map[int]bool{9113: true}),
		TransportServerValidator:     validation.NewTransportServerValidator(false, false, true),
		VirtualServerValidator:       validation.NewVirtualServerValidator(validation.IsPlus(true)),
	})
	store := k8s.VerifGlobalConfigurationStore(lbc)
	h := k8s.VerifGlobalConfigurationHandlers(lbc)
	mk := func(gen int) *conf_v1.GlobalConfiguration {
		return &conf_v1.GlobalConfiguration{ObjectMeta: meta_v1.ObjectMeta{Name: "gc", Namespace: ctrlNS, Generation: int64(gen), UID: "gc-uid"},
			Spec: conf_v1.GlobalConfigurationSpec{Listeners: []conf_v1.Listener{
				{Name: "dns-udp", Port: 5353, Protocol: "UDP"},
				{Name: fmt.Sprintf("tcp-%d", 7000+gen%50), Port: 7000 + gen%50, Protocol: "TCP"},
				{Name: "forbidden", Port: 9113, Protocol: "TCP"}, // dropped by the validator
			}}}
	}
	cached := mk(0)
	store.Add(cached)
	var wg sync.WaitGroup
	var stop atomic.Bool
	wg.Add(2)
	go func() { // the informer goroutine of the GlobalConfiguration
		defer wg.Done()
		defer func() { recover() }()
		for gen := 1; !stop.Load(); gen++ {
			h.UpdateFunc(cached, cached) // resync: same pointer twice (reflect.DeepEqual stops at once)
			// relist (watch expired, the reflector lists again): the store is given a freshly decoded object
			// that equals the cached one, metadata included, so reflect.DeepEqual(old, cur) goes all the way
			// through both objects -- old is the object the worker may be validating right now
			n := mk(gen / 40)
			old := cached
			store.Update(n)
			cached = n
			h.UpdateFunc(old, n)
			c.Observed["gc-informer"]++
			time.Sleep(150 * time.Microsecond)
		}
	}()
	go func() { // the control-loop worker
		defer wg.Done()
		defer stop.Store(true)
		defer func() {
			if r := recover(); r != nil {
				c.Obs["gc_error"] = fmt.Sprintf("panic: %v", r)
			}
		}()
		task := &conf_v1.GlobalConfiguration{ObjectMeta: meta_v1.ObjectMeta{Name: "gc", Namespace: ctrlNS}}
		for i := 0; i < 300; i++ {
			k8s.VerifSync(lbc, task)
			k8s.VerifDrainQueue(lbc)
			c.Ops["gc-sync"]++
			time.Sleep(200 * time.Microsecond)
		}
	}()
	wg.Wait()
}

func run(repo string, c *Case, iter int) {
	os.Setenv("POD_NAME", "verif-pod")
	os.Setenv("POD_NAMESPACE", ctrlNS)
	logger := slog.New(slog.NewTextHandler(io.Discard, &slog.HandlerOptions{Level: slog.LevelError}))
	ctx := nl.ContextWithLogger(context.Background(), logger)
	rng := vh.NewRng(c.Seed)

	tpl := func(p string) string { return filepath.Join(repo, "internal/configs", p) }
	te, err := version1.NewTemplateExecutor(tpl("version1/nginx-plus.tmpl"), tpl("version1/nginx-plus.ingress.tmpl"))
	if err != nil {
		c.Obs["error"] = "templates v1: " + err.Error()
		return
	}
	te2, err := version2.NewTemplateExecutor(tpl("version2/nginx-plus.virtualserver.tmpl"), tpl("version2/nginx-plus.transportserver.tmpl"))
	if err != nil {
		c.Obs["error"] = "templates v2: " + err.Error()
		return
	}
	nginxVersion := nginx.NewVersion("nginx version: nginx/1.25.3 (nginx-plus-r31)")
	static := &configs.StaticConfigParams{HealthStatus: true, HealthStatusURI: "/nginx-health", NginxStatus: true,
		NginxStatusAllowCIDRs: []string{"127.0.0.1"}, NginxStatusPort: 8080, TLSPassthrough: true, TLSPassthroughPort: 443,
		DynamicWeightChangesReload: true, NginxVersion: nginxVersion}
	manager := nginx.NewFakeManager("/etc/nginx")
	cnf := configs.NewConfigurator(configs.ConfiguratorParams{
		NginxManager: manager, StaticCfgParams: static, Config: configs.NewDefaultConfigParams(ctx, true),
		MGMTCfgParams: configs.NewDefaultMGMTConfigParams(ctx), TemplateExecutor: te, TemplateExecutorV2: te2,
		LabelUpdater: nopLabels{}, LatencyCollector: collectors.NewLatencyFakeCollector(), IsPlus: true, IsPrometheusEnabled: true,
		IsDynamicWeightChangesReloadEnabled: true, NginxVersion: nginxVersion,
	})

	kube := k8sfake.NewSimpleClientset()
	conf := conffake.NewSimpleClientset()
	pod := &api_v1.Pod{ObjectMeta: meta_v1.ObjectMeta{Name: "verif-pod", Namespace: ctrlNS}}
	kube.CoreV1().Pods(ctrlNS).Create(ctx, pod, meta_v1.CreateOptions{})

	lbc := k8s.NewLoadBalancerController(k8s.NewLoadBalancerControllerInput{
		KubeClient: kube, ConfClient: conf, Recorder: &record.FakeRecorder{}, ResyncPeriod: 30 * time.Second,
		LoggerContext: ctx, Namespace: []string{""}, SecretNamespace: []string{""}, NginxConfigurator: cnf,
		IsNginxPlus: true, IngressClass: class, ControllerNamespace: ctrlNS, Pod: pod,
		ReportIngressStatus: true, IsLeaderElectionEnabled: true, LeaderElectionLockName: "verif-leader",
		ExternalServiceName: "nginx-ingress",
		AreCustomResourcesEnabled: true,
		MetricsCollector:             collectors.NewControllerFakeCollector(),
		GlobalConfigurationValidator: validation.NewGlobalConfigurationValidator(map[int]bool{}),
		TransportServerValidator:     validation.NewTransportServerValidator(true, false, true),
		VirtualServerValidator:       validation.NewVirtualServerValidator(validation.IsPlus(true)),
		IsPrometheusEnabled:          true, IsTLSPassthroughEnabled: true, TLSPassthroughPort: 443,
		WatchNamespaceLabel: nsLabel, DynamicWeightChangesReload: true,
	})

	certPEM, keyPEM := makeCert()
	d := &driver{ctx: ctx, kube: kube, conf: conf, rng: rng, c: c, cert: certPEM, key: keyPEM, lbc: lbc, nsB: true}
	// the controller's own namespace is watched too: the EndpointSlices of its external service tell the worker
	// how many replicas there are (Configurator.ingressControllerReplicas); the controller Pod has no owner
	// reference here, so telemetry cannot ask a ReplicaSet / DaemonSet for that number
	d.nsCreate(ctrlNS)
	kube.CoreV1().Services(ctrlNS).Create(ctx, &api_v1.Service{ObjectMeta: meta_v1.ObjectMeta{Name: "nginx-ingress", Namespace: ctrlNS},
		Spec: api_v1.ServiceSpec{Ports: []api_v1.ServicePort{{Port: 80}}}}, meta_v1.CreateOptions{})
	d.epsUpdate()
	// ns-b comes and goes (its label is given and taken at run time); it holds nothing but two supported
	// Secrets, which the controller has to take into its store whenever the namespace becomes watched
	for i := 0; i < 2; i++ {
		kube.CoreV1().Secrets("ns-b").Create(ctx, &api_v1.Secret{ObjectMeta: meta_v1.ObjectMeta{Name: fmt.Sprintf("tls-b%d", i), Namespace: "ns-b"},
			Type: api_v1.SecretTypeTLS, Data: map[string][]byte{"tls.crt": certPEM, "tls.key": keyPEM}}, meta_v1.CreateOptions{})
	}
	for _, ns := range namespaces {
		d.nsCreate(ns)
		if ns == "ns-b" {
			continue
		}
		for _, s := range []string{"svc1", "svc2"} {
			kube.CoreV1().Services(ns).Create(ctx, &api_v1.Service{ObjectMeta: meta_v1.ObjectMeta{Name: s, Namespace: ns},
				Spec: api_v1.ServiceSpec{Ports: []api_v1.ServicePort{{Port: 80}, {Port: 443, Name: "tls"}}}}, meta_v1.CreateOptions{})
		}
		d.secretUpsert(ns, 0)
		d.policyUpsert(ns, 0)
		d.policyUpsert(ns, 1)
	}

	go lbc.Run()
	time.Sleep(1200 * time.Millisecond)
	for i := 0; i < 3; i++ {
		d.vsUpsert("ns-a", i)
		d.ingUpsert("ns-a", i)
	}
	d.vsrUpsert("ns-a", 0, false)
	d.tsUpsert("ns-a", 0)
	d.mergeable("ns-a", 0)
	d.vsUpsert("ns-c", 0)
	d.vsrUpsert("ns-c", 0, false)
	time.Sleep(800 * time.Millisecond)

	var stop atomic.Bool
	var wg sync.WaitGroup
	var mu sync.Mutex
	count := func(k string) { mu.Lock(); c.Observed[k]++; mu.Unlock() }
	observer := func(name string, pause time.Duration, f func()) {
		wg.Add(1)
		go func() {
			defer wg.Done()
			for !stop.Load() {
				func() {
					defer func() {
						if r := recover(); r != nil {
							count(name + ":panic")
						}
					}()
					f()
				}()
				count(name)
				time.Sleep(pause)
			}
		}()
	}

	// service insight: the production handlers over the production Configurator accessors
	hs, err := healthcheck.NewHealthServer("127.0.0.1:0", nil, cnf, nil)
	if err != nil {
		c.Obs["error"] = "health server: " + err.Error()
		return
	}
	hs.NginxUpstreams = func(context.Context) (*client.Upstreams, error) { return &client.Upstreams{}, nil }
	hs.NginxStreamUpstreams = func(context.Context) (*client.StreamUpstreams, error) { return &client.StreamUpstreams{}, nil }
	for k := 0; k < 2; k++ {
		k := k
		observer("service-insight", time.Millisecond, func() {
			req := httptest.NewRequest("GET", "/probe/x", nil)
			req.SetPathValue("hostname", fmt.Sprintf("vs%d.ns-a.example.com", k))
			hs.UpstreamStats(httptest.NewRecorder(), req)
			req2 := httptest.NewRequest("GET", "/probe/ts/x", nil)
			req2.SetPathValue("name", "svc1")
			hs.StreamStats(httptest.NewRecorder(), req2)
		})
	}

	// telemetry: the production collector with the accessors the controller gives it
	col, err := telemetry.NewCollector(telemetry.CollectorConfig{
		Period: time.Hour, K8sClientReader: kube, Version: "verif", Configurator: cnf,
		SecretStore: k8s.VerifSecretStore(lbc), PodNSName: types.NamespacedName{Namespace: ctrlNS, Name: "verif-pod"},
		Policies: k8s.VerifGetAllPolicies(lbc), IsPlus: true, CustomResourcesEnabled: true,
	})
	if err != nil {
		c.Obs["error"] = "collector: " + err.Error()
		return
	}
	observer("telemetry", 2*time.Millisecond, func() { col.Collect(ctx) })

	// leader election callbacks (the real elector also calls them once over the fake lease API)
	cb := k8s.VerifLeaderCallbacks(lbc)
	observer("leader-callbacks", 5*time.Millisecond, func() { cb.OnStartedLeading(ctx); cb.OnStoppedLeading() })

	// the API server
	for i := 0; i < iter; i++ {
		d.step()
		time.Sleep(time.Duration(1+rng.Intn(4)) * time.Millisecond)
	}
	// let the queue drain
	for k := 0; k < 200 && k8s.VerifQueueLen(lbc) > 0; k++ {
		time.Sleep(10 * time.Millisecond)
	}
	time.Sleep(300 * time.Millisecond)
	stop.Store(true)
	wg.Wait()
	lbc.Stop()
	time.Sleep(100 * time.Millisecond)
	c.Obs["queue_left"] = k8s.VerifQueueLen(lbc)
	c.Obs["done"] = true
}

// ---------------------------------------------------------------- the driver (API server role)

type driver struct {
	ctx       context.Context
	kube      *k8sfake.Clientset
	conf      *conffake.Clientset
	rng       *vh.Rng
	c         *Case
	cert, key []byte
	gen       int
	lbc       *k8s.LoadBalancerController
	nsB       bool
}

func (d *driver) op(k string) { d.c.Ops[k]++ }

// meta plays the API server: a stable UID per (kind, namespace, name) and a fresh
// metadata.generation for every spec the driver writes
func (d *driver) meta(kind, ns, name string, ann map[string]string) meta_v1.ObjectMeta {
	d.gen++
	return meta_v1.ObjectMeta{Name: name, Namespace: ns, Annotations: ann, Generation: int64(d.gen),
		UID: types.UID(kind + "-" + ns + "-" + name)}
}

func (d *driver) nsCreate(ns string) {
	d.op("ns-create")
	d.kube.CoreV1().Namespaces().Create(d.ctx, &api_v1.Namespace{ObjectMeta: meta_v1.ObjectMeta{Name: ns, Labels: map[string]string{"verif": "watch"}},
		Status: api_v1.NamespaceStatus{Phase: api_v1.NamespaceActive}}, meta_v1.CreateOptions{})
}

func (d *driver) nsDelete(ns string) {
	d.op("ns-delete")
	d.kube.CoreV1().Namespaces().Delete(d.ctx, ns, meta_v1.DeleteOptions{})
}

func (d *driver) secretUpsert(ns string, i int) {
	d.op("secret-upsert")
	d.gen++
	s := &api_v1.Secret{ObjectMeta: meta_v1.ObjectMeta{Name: fmt.Sprintf("tls-%d", i), Namespace: ns, Annotations: map[string]string{"gen": fmt.Sprint(d.gen)}},
		Type: api_v1.SecretTypeTLS, Data: map[string][]byte{"tls.crt": d.cert, "tls.key": d.key}}
	if _, err := d.kube.CoreV1().Secrets(ns).Update(d.ctx, s, meta_v1.UpdateOptions{}); err != nil {
		d.kube.CoreV1().Secrets(ns).Create(d.ctx, s, meta_v1.CreateOptions{})
	}
}

func (d *driver) secretDelete(ns string, i int) {
	d.op("secret-delete")
	d.kube.CoreV1().Secrets(ns).Delete(d.ctx, fmt.Sprintf("tls-%d", i), meta_v1.DeleteOptions{})
}

func splits(w int) []conf_v1.Split {
	return []conf_v1.Split{{Weight: w, Action: &conf_v1.Action{Pass: "u1"}}, {Weight: 100 - w, Action: &conf_v1.Action{Pass: "u2"}}}
}

func upstreams() []conf_v1.Upstream {
	return []conf_v1.Upstream{{Name: "u1", Service: "svc1", Port: 80}, {Name: "u2", Service: "svc2", Port: 80}}
}

func (d *driver) vs(ns string, i, w int, extra bool) *conf_v1.VirtualServer {
	v := &conf_v1.VirtualServer{ObjectMeta: d.meta("vs", ns, fmt.Sprintf("vs%d", i), nil),
		Spec: conf_v1.VirtualServerSpec{IngressClass: class, Host: fmt.Sprintf("vs%d.%s.example.com", i, ns),
			TLS: &conf_v1.TLS{Secret: "tls-0"}, Upstreams: upstreams(), Policies: []conf_v1.PolicyReference{{Name: "rl0"}},
			Routes: []conf_v1.Route{{Path: "/", Splits: splits(w)}}}}
	if i == 0 {
		v.Spec.Routes = append(v.Spec.Routes, conf_v1.Route{Path: "/r", Route: ns + "/vsr0"})
	}
	if extra {
		v.Spec.Routes = append(v.Spec.Routes, conf_v1.Route{Path: "/extra", Action: &conf_v1.Action{Pass: "u1"}})
	}
	return v
}

func (d *driver) vsUpsert(ns string, i int) {
	d.op("vs-upsert")
	v := d.vs(ns, i, 10+d.rng.Intn(80), d.rng.Bool())
	if _, err := d.conf.K8sV1().VirtualServers(ns).Update(d.ctx, v, meta_v1.UpdateOptions{}); err != nil {
		d.conf.K8sV1().VirtualServers(ns).Create(d.ctx, v, meta_v1.CreateOptions{})
	}
}

// only the split weights change: handled by the informer goroutine itself
func (d *driver) vsWeights(ns string, i int) {
	cur, err := d.conf.K8sV1().VirtualServers(ns).Get(d.ctx, fmt.Sprintf("vs%d", i), meta_v1.GetOptions{})
	if err != nil {
		return
	}
	d.op("vs-weights")
	n := cur.DeepCopy()
	n.Spec.Routes[0].Splits = splits(10 + d.rng.Intn(80))
	d.gen++
	n.Generation = int64(d.gen)
	d.conf.K8sV1().VirtualServers(ns).Update(d.ctx, n, meta_v1.UpdateOptions{})
}

func (d *driver) vsDelete(ns string, i int) {
	d.op("vs-delete")
	d.conf.K8sV1().VirtualServers(ns).Delete(d.ctx, fmt.Sprintf("vs%d", i), meta_v1.DeleteOptions{})
}

func (d *driver) vsr(ns string, i, w int, invalid bool) *conf_v1.VirtualServerRoute {
	r := &conf_v1.VirtualServerRoute{ObjectMeta: d.meta("vsr", ns, fmt.Sprintf("vsr%d", i), nil),
		Spec: conf_v1.VirtualServerRouteSpec{IngressClass: class, Host: fmt.Sprintf("vs%d.%s.example.com", i, ns), Upstreams: upstreams(),
			Subroutes: []conf_v1.Route{{Path: "/r", Splits: splits(w)}}}}
	if invalid {
		r.Status.State = conf_v1.StateInvalid
	} else {
		r.Status.State = conf_v1.StateValid
	}
	return r
}

func (d *driver) vsrUpsert(ns string, i int, invalidStatus bool) {
	d.op("vsr-upsert")
	r := d.vsr(ns, i, 10+d.rng.Intn(80), invalidStatus)
	if d.rng.Bool() {
		r.Spec.Subroutes = append(r.Spec.Subroutes, conf_v1.Route{Path: "/r/x", Action: &conf_v1.Action{Pass: "u1"}})
	}
	if _, err := d.conf.K8sV1().VirtualServerRoutes(ns).Update(d.ctx, r, meta_v1.UpdateOptions{}); err != nil {
		d.conf.K8sV1().VirtualServerRoutes(ns).Create(d.ctx, r, meta_v1.CreateOptions{})
	}
}

// weights-only update of a VirtualServerRoute; when its recorded status is Invalid the informer
// goroutine re-admits it through Configuration.AddOrUpdateVirtualServerRoute + processChanges
func (d *driver) vsrWeights(ns string, i int, markInvalid bool) {
	cur, err := d.conf.K8sV1().VirtualServerRoutes(ns).Get(d.ctx, fmt.Sprintf("vsr%d", i), meta_v1.GetOptions{})
	if err != nil {
		return
	}
	if markInvalid {
		d.op("vsr-status-invalid")
		m := cur.DeepCopy()
		m.Status.State = conf_v1.StateInvalid
		if _, err := d.conf.K8sV1().VirtualServerRoutes(ns).Update(d.ctx, m, meta_v1.UpdateOptions{}); err != nil {
			return
		}
		cur = m
	}
	d.op("vsr-weights")
	n := cur.DeepCopy()
	n.Spec.Subroutes[0].Splits = splits(10 + d.rng.Intn(80))
	d.gen++
	n.Generation = int64(d.gen)
	d.conf.K8sV1().VirtualServerRoutes(ns).Update(d.ctx, n, meta_v1.UpdateOptions{})
}

func (d *driver) ing(ns, name, host string, ann map[string]string, paths []string) *networking.Ingress {
	cls := class
	pt := networking.PathTypePrefix
	var hp []networking.HTTPIngressPath
	for _, p := range paths {
		hp = append(hp, networking.HTTPIngressPath{Path: p, PathType: &pt, Backend: networking.IngressBackend{
			Service: &networking.IngressServiceBackend{Name: "svc1", Port: networking.ServiceBackendPort{Number: 80}}}})
	}
	rule := networking.IngressRule{Host: host}
	if len(hp) > 0 {
		rule.IngressRuleValue = networking.IngressRuleValue{HTTP: &networking.HTTPIngressRuleValue{Paths: hp}}
	}
	return &networking.Ingress{ObjectMeta: d.meta("ing", ns, name, ann),
		Spec: networking.IngressSpec{IngressClassName: &cls, Rules: []networking.IngressRule{rule}}}
}

func (d *driver) ingPut(in *networking.Ingress) {
	if _, err := d.kube.NetworkingV1().Ingresses(in.Namespace).Update(d.ctx, in, meta_v1.UpdateOptions{}); err != nil {
		d.kube.NetworkingV1().Ingresses(in.Namespace).Create(d.ctx, in, meta_v1.CreateOptions{})
	}
}

func (d *driver) ingUpsert(ns string, i int) {
	d.op("ing-upsert")
	paths := []string{"/"}
	if d.rng.Bool() {
		paths = append(paths, "/b")
	}
	d.ingPut(d.ing(ns, fmt.Sprintf("ing%d", i), fmt.Sprintf("ing%d.%s.example.com", i, ns),
		map[string]string{"nginx.org/proxy-connect-timeout": fmt.Sprintf("%ds", 1+d.rng.Intn(50))}, paths))
}

func (d *driver) ingDelete(ns string, i int) {
	d.op("ing-delete")
	d.kube.NetworkingV1().Ingresses(ns).Delete(d.ctx, fmt.Sprintf("ing%d", i), meta_v1.DeleteOptions{})
}

func (d *driver) mergeable(ns string, i int) {
	d.op("mergeable-upsert")
	host := fmt.Sprintf("merge%d.%s.example.com", i, ns)
	// the master carries an annotation a master may not have but that still validates (a mistake the
	// controller tolerates by dropping it in its own copy while generating): the generator must not
	// touch the object it was given, which is the one Configuration and the informer store hold
	d.ingPut(d.ing(ns, fmt.Sprintf("master%d", i), host, map[string]string{"nginx.org/mergeable-ingress-type": "master",
		"nginx.org/use-cluster-ip": "true",
		"nginx.org/proxy-read-timeout": fmt.Sprintf("%ds", 1+d.rng.Intn(50))}, nil))
	d.ingPut(d.ing(ns, fmt.Sprintf("minion%d", i), host, map[string]string{"nginx.org/mergeable-ingress-type": "minion",
		"nginx.org/proxy-read-timeout": fmt.Sprintf("%ds", 1+d.rng.Intn(50))}, []string{"/m"}))
}

func (d *driver) minionDelete(ns string, i int) {
	d.op("minion-delete")
	d.kube.NetworkingV1().Ingresses(ns).Delete(d.ctx, fmt.Sprintf("minion%d", i), meta_v1.DeleteOptions{})
}

func (d *driver) tsUpsert(ns string, i int) {
	d.op("ts-upsert")
	t := &conf_v1.TransportServer{ObjectMeta: d.meta("ts", ns, fmt.Sprintf("ts%d", i), nil),
		Spec: conf_v1.TransportServerSpec{IngressClass: class, Listener: conf_v1.TransportServerListener{Name: "tls-passthrough", Protocol: "TLS_PASSTHROUGH"},
			Host:      fmt.Sprintf("ts%d.%s.example.com", i, ns),
			Upstreams: []conf_v1.TransportServerUpstream{{Name: "tsu", Service: "svc1", Port: 443, MaxFails: intp(1 + d.rng.Intn(5))}},
			Action:    &conf_v1.TransportServerAction{Pass: "tsu"}}}
	if _, err := d.conf.K8sV1().TransportServers(ns).Update(d.ctx, t, meta_v1.UpdateOptions{}); err != nil {
		d.conf.K8sV1().TransportServers(ns).Create(d.ctx, t, meta_v1.CreateOptions{})
	}
}

func intp(i int) *int { return &i }

func (d *driver) tsDelete(ns string, i int) {
	d.op("ts-delete")
	d.conf.K8sV1().TransportServers(ns).Delete(d.ctx, fmt.Sprintf("ts%d", i), meta_v1.DeleteOptions{})
}

// The ConfigMap informer is built on CoreV1().RESTClient(), which the fake clientset does not have,
// so it cannot run here; the only thing its handlers do is lbc.AddSyncQueue(configMap), which the
// driver does in their place.  The worker then runs the production syncConfigMap -> updateAllConfigs.
// rate-limit Policies referenced by every VirtualServer: rl0 spells the unit in lower case, rl1 in upper case
// (the validators are handed the informer store's own Policy objects by the worker, by telemetry and by the
// leader callback; whatever they do to them, they do to shared memory)
func (d *driver) policyUpsert(ns string, i int) {
	d.op("policy-upsert")
	rate := fmt.Sprintf("%dr/s", 5+d.rng.Intn(50))
	if i == 1 {
		rate = fmt.Sprintf("%dr/S", 5+d.rng.Intn(50))
	}
	pol := &conf_v1.Policy{ObjectMeta: d.meta("pol", ns, fmt.Sprintf("rl%d", i), nil),
		Spec: conf_v1.PolicySpec{IngressClass: class, RateLimit: &conf_v1.RateLimit{Rate: rate, Key: "${binary_remote_addr}", ZoneSize: "10M"}}}
	if _, err := d.conf.K8sV1().Policies(ns).Update(d.ctx, pol, meta_v1.UpdateOptions{}); err != nil {
		d.conf.K8sV1().Policies(ns).Create(d.ctx, pol, meta_v1.CreateOptions{})
	}
}

// the EndpointSlice of the controller's own external service with a varying number of ready endpoints
func (d *driver) epsUpdate() {
	d.op("controller-endpointslice")
	ready := true
	n := 1 + d.rng.Intn(4)
	var eps []discovery_v1.Endpoint
	for i := 0; i < n; i++ {
		eps = append(eps, discovery_v1.Endpoint{Addresses: []string{fmt.Sprintf("10.0.0.%d", i+1)}, Conditions: discovery_v1.EndpointConditions{Ready: &ready}})
	}
	port := int32(80)
	es := &discovery_v1.EndpointSlice{ObjectMeta: d.meta("eps", ctrlNS, "nginx-ingress-abc", nil), AddressType: discovery_v1.AddressTypeIPv4,
		Endpoints: eps, Ports: []discovery_v1.EndpointPort{{Port: &port}}}
	es.Labels = map[string]string{"kubernetes.io/service-name": "nginx-ingress"}
	if _, err := d.kube.DiscoveryV1().EndpointSlices(ctrlNS).Update(d.ctx, es, meta_v1.UpdateOptions{}); err != nil {
		d.kube.DiscoveryV1().EndpointSlices(ctrlNS).Create(d.ctx, es, meta_v1.CreateOptions{})
	}
}

func (d *driver) configMap() {
	d.op("configmap-update")
	d.lbc.AddSyncQueue(&api_v1.ConfigMap{ObjectMeta: meta_v1.ObjectMeta{Name: "nginx-config", Namespace: ctrlNS},
		Data: map[string]string{"proxy-connect-timeout": fmt.Sprintf("%ds", 1+d.rng.Intn(50))}})
}

func (d *driver) step() {
	// all resources live in ns-a; ns-b only comes and goes (an API server empties a namespace before
	// it deletes it, so the controller never sees resources of a namespace it stopped watching)
	ns := "ns-a"
	if d.rng.Chance(1, 3) {
		ns = "ns-c"
	}
	i := d.rng.Intn(3)
	switch d.rng.Intn(20) {
	case 0, 1:
		d.vsUpsert(ns, i)
	case 2, 3, 4:
		d.vsWeights(ns, i)
	case 5:
		d.vsDelete(ns, i)
	case 6:
		d.vsrUpsert(ns, 0, d.rng.Bool())
	case 7, 8, 9:
		d.vsrWeights(ns, 0, d.rng.Chance(2, 3))
	case 10, 11:
		d.ingUpsert(ns, i)
	case 12:
		switch d.rng.Intn(3) {
		case 0:
			d.ingDelete(ns, i)
		case 1:
			d.minionDelete(ns, 0)
		default:
			d.mergeable(ns, 0)
		}
	case 13:
		d.mergeable(ns, 0)
	case 14:
		if d.rng.Chance(2, 3) {
			d.tsUpsert(ns, d.rng.Intn(2))
		} else {
			d.tsDelete(ns, d.rng.Intn(2))
		}
	case 15, 16:
		if d.rng.Chance(3, 4) {
			d.secretUpsert(ns, d.rng.Intn(2))
		} else {
			d.secretDelete(ns, d.rng.Intn(2))
		}
	case 17:
		if d.rng.Bool() {
			d.configMap()
		} else {
			d.epsUpdate()
		}
	case 18:
		if d.nsB {
			d.nsDelete("ns-b")
		} else {
			d.nsCreate("ns-b")
		}
		d.nsB = !d.nsB
	case 19:
		if d.rng.Bool() {
			d.vsUpsert(ns, i)
		} else {
			d.policyUpsert(ns, d.rng.Intn(2))
		}
	}
}
