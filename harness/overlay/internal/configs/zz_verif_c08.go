//go:build verif

package configs

// Add-only hook for the C08 harness.  The real Configurator entry points (AddOrUpdateVirtualServer,
// AddOrUpdateIngress, AddOrUpdateMergeableIngress) only hand the rendered bytes to the
// nginx.Manager; the intermediate template data (where PoliciesErrorReturn, SSL.RejectHandshake,
// JWTAuth, BasicAuth live) is not observable through them.  These functions run exactly the
// generation steps of addOrUpdateVirtualServer / addOrUpdateIngress / addOrUpdateMergeableIngress
// (same real functions, same arguments taken from the Configurator) and return the data
// structure together with the bytes, without storing anything.  The harness calls the real entry
// point as well and reports a tie error if the bytes differ.

import (
	"github.com/nginx/kubernetes-ingress/internal/configs/version1"
	"github.com/nginx/kubernetes-ingress/internal/configs/version2"
)

// VerifC08VS generates the template data and the configuration bytes of a VirtualServer.
func (cnf *Configurator) VerifC08VS(vsEx *VirtualServerEx) (version2.VirtualServerConfig, []byte, int, error) {
	apResources := cnf.updateApResourcesForVs(vsEx)
	dosResources := map[string]*appProtectDosResource{}
	vsc := newVirtualServerConfigurator(cnf.CfgParams, cnf.isPlus, cnf.IsResolverConfigured(), cnf.staticCfgParams, cnf.isWildcardEnabled, nil)
	vsc.IngressControllerReplicas = cnf.ingressControllerReplicas
	vsCfg, warnings := vsc.GenerateVirtualServerConfig(vsEx, apResources, dosResources)
	content, err := cnf.templateExecutorV2.ExecuteVirtualServerTemplate(&vsCfg)
	n := 0
	for _, w := range warnings {
		n += len(w)
	}
	return vsCfg, content, n, err
}

// VerifC08Ingress generates the template data and the bytes of a regular Ingress.
func (cnf *Configurator) VerifC08Ingress(ingEx *IngressEx) (version1.IngressNginxConfig, []byte, error) {
	apResources := cnf.updateApResources(ingEx)
	if jwtKey, exists := ingEx.Ingress.Annotations[JWTKeyAnnotation]; exists {
		ingEx.SecretRefs[jwtKey].Path = cnf.nginxManager.GetFilenameForSecret(ingEx.Ingress.Namespace + "-" + jwtKey)
	}
	if basicAuth, exists := ingEx.Ingress.Annotations[BasicAuthSecretAnnotation]; exists {
		ingEx.SecretRefs[basicAuth].Path = cnf.nginxManager.GetFilenameForSecret(ingEx.Ingress.Namespace + "-" + basicAuth)
	}
	nginxCfg, _ := generateNginxCfg(NginxCfgParams{
		staticParams:              cnf.staticCfgParams,
		ingEx:                     ingEx,
		apResources:               apResources,
		dosResource:               nil,
		isMinion:                  false,
		isPlus:                    cnf.isPlus,
		BaseCfgParams:             cnf.CfgParams,
		isResolverConfigured:      cnf.IsResolverConfigured(),
		isWildcardEnabled:         cnf.isWildcardEnabled,
		ingressControllerReplicas: cnf.ingressControllerReplicas,
	})
	content, err := cnf.templateExecutor.ExecuteIngressConfigTemplate(&nginxCfg)
	return nginxCfg, content, err
}

// VerifC08Mergeable generates the template data and the bytes of a master with its minions.
func (cnf *Configurator) VerifC08Mergeable(m *MergeableIngresses) (version1.IngressNginxConfig, []byte, error) {
	apResources := cnf.updateApResources(m.Master)
	fix := func(e *IngressEx) {
		if jwtKey, exists := e.Ingress.Annotations[JWTKeyAnnotation]; exists {
			e.SecretRefs[jwtKey].Path = cnf.nginxManager.GetFilenameForSecret(e.Ingress.Namespace + "-" + jwtKey)
		}
		if basicAuth, exists := e.Ingress.Annotations[BasicAuthSecretAnnotation]; exists {
			e.SecretRefs[basicAuth].Path = cnf.nginxManager.GetFilenameForSecret(e.Ingress.Namespace + "-" + basicAuth)
		}
	}
	fix(m.Master)
	for _, minion := range m.Minions {
		fix(minion)
	}
	nginxCfg, _ := generateNginxCfgForMergeableIngresses(NginxCfgParams{
		mergeableIngs:             m,
		apResources:               apResources,
		dosResource:               nil,
		BaseCfgParams:             cnf.CfgParams,
		isPlus:                    cnf.isPlus,
		isResolverConfigured:      cnf.IsResolverConfigured(),
		staticParams:              cnf.staticCfgParams,
		isWildcardEnabled:         cnf.isWildcardEnabled,
		ingressControllerReplicas: cnf.ingressControllerReplicas,
	})
	content, err := cnf.templateExecutor.ExecuteIngressConfigTemplate(&nginxCfg)
	return nginxCfg, content, err
}
