(* C19 -- every change of usability is reported: assembly over all events. *)
From Coq Require Import List ZArith String Ascii Bool Lia Permutation.
From NIC Require Import Base.SMap AppProtect.Model AppProtect.Spec AppProtect.ProofsBase AppProtect.ProofsSig
     AppProtect.ProofsInv AppProtect.ProofsReport.
Import ListNotations.
Open Scope string_scope.
Open Scope list_scope.

Section V.
Context {fx : bool}.
Open Scope Z_scope.

Lemma no_flip st st' out kd key : usable st kd key = usable st' kd key -> flip_reported st st' out kd key.
Proof. intros E H. contradiction. Qed.

Lemma insert_agree {A} k (v : A) m k' : k' <> k -> lookup k' (insert k v m) = lookup k' m.
Proof. intros H. apply lookup_insert_neq. exact H. Qed.

Lemma remove_agree {A} k (m : smap A) k' : k' <> k -> lookup k' (remove k m) = lookup k' m.
Proof. intros H. apply lookup_remove_neq. exact H. Qed.

Lemma dos_policy_ev_reported en ob k o K : Inv ob ->
  let st := spec_state fx en ob in
  flip_reported st (fst (step fx st (EvDosPolicy k o))) (snd (step fx st (EvDosPolicy k o))) KDosPR K.
Proof.
  intros [_ _ _ _ _ Wpr HK] st. subst st.
  unfold flip_reported, usable, stored, step, lift_d, dos_add_or_update_policy. cbn [fst snd dos].
  change (dos (spec_state fx en ob)) with (spec_dos en ob).
  set (X := {| dpe_obj := o; dpe_valid := dp_valid o |}).
  change {| dpols := insert k X (dpols (spec_dos en ob)); dlogs := dlogs (spec_dos en ob);
            dprs := dprs (spec_dos en ob); d_enabled := d_enabled (spec_dos en ob) |}
    with (st_with en ob (insert k X (mapk mk_dp (ob_dpol ob))) (mapk mk_dl (ob_dlog ob))).
  pose proof (pol_reeval_state en ob Wpr HK (insert k X (mapk mk_dp (ob_dpol ob))) (mapk mk_dl (ob_dlog ob)) k) as E1.
  pose proof (pol_change_reported en ob Wpr HK (insert k X (mapk mk_dp (ob_dpol ob))) k K (insert_agree k X _)) as R.
  cbn zeta in R.
  destruct (reeval _ _) as [[st2 c] p]. cbn [fst snd] in *. subst st2. cbn [o_changes o_problems dos_out].
  intros Hflip. destruct (R Hflip) as [R1 R2]. split.
  - apply in_or_app. right. exact R1.
  - intros _ Hu. destruct (R2 Hu) as [c0 Hc0]. exists c0. apply in_or_app. right. exact Hc0.
Qed.

Lemma dos_del_policy_ev_reported en ob k K : Inv ob ->
  let st := spec_state fx en ob in
  flip_reported st (fst (step fx st (EvDelDosPolicy k))) (snd (step fx st (EvDelDosPolicy k))) KDosPR K.
Proof.
  intros [_ _ _ _ _ Wpr HK] st. subst st.
  unfold flip_reported, usable, stored, step, lift_d, dos_delete_policy. cbn [fst snd dos].
  change (dos (spec_state fx en ob)) with (spec_dos en ob).
  destruct (lookup k (dpols (spec_dos en ob))) eqn:L.
  - change {| dpols := remove k (dpols (spec_dos en ob)); dlogs := dlogs (spec_dos en ob);
              dprs := dprs (spec_dos en ob); d_enabled := d_enabled (spec_dos en ob) |}
      with (st_with en ob (remove k (mapk mk_dp (ob_dpol ob))) (mapk mk_dl (ob_dlog ob))).
    pose proof (pol_reeval_state en ob Wpr HK (remove k (mapk mk_dp (ob_dpol ob))) (mapk mk_dl (ob_dlog ob)) k) as E1.
    pose proof (pol_change_reported en ob Wpr HK (remove k (mapk mk_dp (ob_dpol ob))) k K (remove_agree k _)) as R.
    cbn zeta in R.
    destruct (reeval _ _) as [[st2 c] p]. cbn [fst snd] in *. subst st2. cbn [o_changes o_problems dos_out].
    intros Hflip. destruct (R Hflip) as [R1 R2]. split.
    + apply in_or_app. right. exact R1.
    + intros _ Hu. destruct (R2 Hu) as [c0 Hc0]. exists c0. exact Hc0.
  - change (spec_dos en ob) with (st_with en ob (mapk mk_dp (ob_dpol ob)) (mapk mk_dl (ob_dlog ob))).
    pose proof (pol_reeval_state en ob Wpr HK (mapk mk_dp (ob_dpol ob)) (mapk mk_dl (ob_dlog ob)) k) as E1.
    destruct (reeval _ _) as [[st2 c] p]. cbn [fst snd] in *. subst st2.
    intros Hflip. exfalso. apply Hflip. reflexivity.
Qed.

Lemma dos_logconf_ev_reported en ob k o K : Inv ob ->
  let st := spec_state fx en ob in
  flip_reported st (fst (step fx st (EvDosLogConf k o))) (snd (step fx st (EvDosLogConf k o))) KDosPR K.
Proof.
  intros [_ _ _ _ _ Wpr HK] st. subst st.
  unfold flip_reported, usable, stored, step, lift_d, dos_add_or_update_logconf. cbn [fst snd dos].
  change (dos (spec_state fx en ob)) with (spec_dos en ob).
  set (X := {| dle_obj := o; dle_valid := dl_valid o |}).
  change {| dpols := dpols (spec_dos en ob); dlogs := insert k X (dlogs (spec_dos en ob));
            dprs := dprs (spec_dos en ob); d_enabled := d_enabled (spec_dos en ob) |}
    with (st_with en ob (mapk mk_dp (ob_dpol ob)) (insert k X (mapk mk_dl (ob_dlog ob)))).
  pose proof (log_reeval_state en ob Wpr HK (mapk mk_dp (ob_dpol ob)) (insert k X (mapk mk_dl (ob_dlog ob))) k) as E1.
  pose proof (log_change_reported en ob Wpr HK (insert k X (mapk mk_dl (ob_dlog ob))) k K (insert_agree k X _)) as R.
  cbn zeta in R.
  destruct (reeval _ _) as [[st2 c] p]. cbn [fst snd] in *. subst st2. cbn [o_changes o_problems dos_out].
  intros Hflip. destruct (R Hflip) as [R1 R2]. split.
  - apply in_or_app. right. exact R1.
  - intros _ Hu. destruct (R2 Hu) as [c0 Hc0]. exists c0. apply in_or_app. right. exact Hc0.
Qed.

Lemma dos_del_logconf_ev_reported en ob k K : Inv ob ->
  let st := spec_state fx en ob in
  flip_reported st (fst (step fx st (EvDelDosLogConf k))) (snd (step fx st (EvDelDosLogConf k))) KDosPR K.
Proof.
  intros [_ _ _ _ _ Wpr HK] st. subst st.
  unfold flip_reported, usable, stored, step, lift_d, dos_delete_logconf. cbn [fst snd dos].
  change (dos (spec_state fx en ob)) with (spec_dos en ob).
  destruct (lookup k (dlogs (spec_dos en ob))) eqn:L.
  - change {| dpols := dpols (spec_dos en ob); dlogs := remove k (dlogs (spec_dos en ob));
              dprs := dprs (spec_dos en ob); d_enabled := d_enabled (spec_dos en ob) |}
      with (st_with en ob (mapk mk_dp (ob_dpol ob)) (remove k (mapk mk_dl (ob_dlog ob)))).
    pose proof (log_reeval_state en ob Wpr HK (mapk mk_dp (ob_dpol ob)) (remove k (mapk mk_dl (ob_dlog ob))) k) as E1.
    pose proof (log_change_reported en ob Wpr HK (remove k (mapk mk_dl (ob_dlog ob))) k K (remove_agree k _)) as R.
    cbn zeta in R.
    destruct (reeval _ _) as [[st2 c] p]. cbn [fst snd] in *. subst st2. cbn [o_changes o_problems dos_out].
    intros Hflip. destruct (R Hflip) as [R1 R2]. split.
    + apply in_or_app. right. exact R1.
    + intros _ Hu. destruct (R2 Hu) as [c0 Hc0]. exists c0. exact Hc0.
  - change (spec_dos en ob) with (st_with en ob (mapk mk_dp (ob_dpol ob)) (mapk mk_dl (ob_dlog ob))).
    pose proof (log_reeval_state en ob Wpr HK (mapk mk_dp (ob_dpol ob)) (mapk mk_dl (ob_dlog ob)) k) as E1.
    destruct (reeval _ _) as [[st2 c] p]. cbn [fst snd] in *. subst st2.
    intros Hflip. exfalso. apply Hflip. reflexivity.
Qed.

(* the answer for K does not look at the entries of other protected resources *)
Lemma dos_ex_other_key st key ex K : K <> key ->
  dos_ex_by_key (with_dprs st (insert key ex (dprs st))) K = dos_ex_by_key st K.
Proof.
  intros Hne. unfold dos_ex_by_key, get_dos_policy, get_dos_logconf. cbn [d_enabled with_dprs dprs dpols dlogs].
  rewrite lookup_insert_neq by exact Hne. reflexivity.
Qed.

Lemma dos_pr_ev_reported st o K :
  let r := add_or_update_dos_pr (dos st) o in
  flip_reported st {| waf := waf st; dos := fst (fst r) |} (dos_out (snd (fst r)) (snd r)) KDosPR K.
Proof.
  intros r. unfold flip_reported, usable, stored. cbn [dos o_changes o_problems dos_out].
  destruct (string_dec K (ns_name (pr_ns o) (pr_name o))) as [->|Hne].
  - destruct (d_enabled (dos st)) eqn:En.
    + pose proof (aou_pr_report (dos st) o) as R. cbn zeta in R. fold r in R. destruct (R En) as [R1 R2].
      intros _. split.
      * rewrite R1. left. reflexivity.
      * intros _ Hu. destruct (R2 Hu) as [c Hc]. exists c. rewrite Hc. left. reflexivity.
    + intros Hflip. exfalso. apply Hflip. unfold r. rewrite aou_pr_state. unfold dos_ex_by_key.
      cbn [d_enabled with_dprs]. rewrite En. reflexivity.
  - intros Hflip. exfalso. apply Hflip. unfold r. rewrite aou_pr_state. rewrite dos_ex_other_key by exact Hne.
    reflexivity.
Qed.

Lemma dos_del_pr_ev_reported st k K : wf (dprs (dos st)) ->
  let r := dos_delete_pr (dos st) k in
  flip_reported st {| waf := waf st; dos := fst r |} (snd r) KDosPR K.
Proof.
  intros W r. unfold flip_reported, usable, stored. cbn [dos]. unfold r, dos_delete_pr.
  destruct (lookup k (dprs (dos st))) eqn:L; cbn [fst snd o_changes o_problems dos_out].
  - destruct (string_dec K k) as [->|Hne].
    + assert (E : dos_ex_by_key (with_dprs (dos st) (remove k (dprs (dos st)))) k =
                  if negb (d_enabled (dos st)) then DDisabled else DNotFound).
      { unfold dos_ex_by_key. cbn [d_enabled with_dprs dprs]. rewrite lookup_remove_eq by exact W. reflexivity. }
      rewrite E. intros _. split.
      * destruct (negb (d_enabled (dos st))); left; reflexivity.
      * unfold mem. cbn [with_dprs dprs]. rewrite lookup_remove_eq by exact W. discriminate.
    + intros Hflip. exfalso. apply Hflip. unfold dos_ex_by_key, get_dos_policy, get_dos_logconf.
      cbn [d_enabled with_dprs dprs dpols dlogs]. rewrite lookup_remove_neq by exact Hne. reflexivity.
  - intros Hflip. exfalso. apply Hflip. reflexivity.
Qed.

(* ------------------------------------------------------------------------------------------ *)
(* components an operation does not touch *)

Lemma aop_logconfs w k o : logconfs (fst (add_or_update_policy fx w k o)) = logconfs w.
Proof.
  unfold add_or_update_policy. destruct (create_policy_ex o) as [pol [c|]]; [reflexivity|].
  destruct (verify_policy_against_user_sigs fx (usersigs w) pol); reflexivity.
Qed.
Lemma dp_logconfs w k : logconfs (fst (delete_policy w k)) = logconfs w.
Proof. unfold delete_policy. destruct (lookup k (policies w)); reflexivity. Qed.
Lemma aol_policies w k o : policies (fst (add_or_update_logconf w k o)) = policies w.
Proof. unfold add_or_update_logconf. destruct (create_logconf_ex o) as [lc [c|]]; reflexivity. Qed.
Lemma dl_policies w k : policies (fst (delete_logconf w k)) = policies w.
Proof. unfold delete_logconf. destruct (lookup k (logconfs w)); reflexivity. Qed.
Lemma busc_logconfs w sigs0 pr0 : logconfs (fst (build_user_sig_change fx w sigs0 pr0)) = logconfs w.
Proof.
  unfold build_user_sig_change. destruct (reconcile_user_sigs sigs0) as [[s1 a] b].
  destruct (verify_policies fx s1 (policies w)) as [[p1 c] d]. reflexivity.
Qed.

Lemma usable_log_eq st st' key : logconfs (waf st') = logconfs (waf st) -> usable st KLogConf key = usable st' KLogConf key.
Proof. intros E. unfold usable, get_app_resource. rewrite E. reflexivity. Qed.
Lemma usable_pol_eq st st' key : policies (waf st') = policies (waf st) -> usable st KPolicy key = usable st' KPolicy key.
Proof. intros E. unfold usable, get_app_resource. rewrite E. reflexivity. Qed.
Lemma usable_pr_eq st st' key : dos st' = dos st -> usable st KDosPR key = usable st' KDosPR key.
Proof. intros E. unfold usable. rewrite E. reflexivity. Qed.

(* ------------------------------------------------------------------------------------------ *)
(* every flip of a policy, log configuration or DoS protected resource is in the change list *)

Theorem step_flips_reported en ob ev kd key :
  Inv ob -> kd = KPolicy \/ kd = KLogConf \/ kd = KDosPR ->
  let st := spec_state fx en ob in
  flip_reported st (fst (step fx st ev)) (snd (step fx st ev)) kd key.
Proof.
  intros HI Hkd st.
  assert (Wp : wf (policies (waf st))) by (apply wf_mapk; apply (inv_pol _ HI)).
  assert (Wl : wf (logconfs (waf st))) by (apply wf_mapk; apply (inv_log _ HI)).
  assert (Wd : wf (dprs (dos st))) by (apply wf_mapk; apply (inv_dpr _ HI)).
  assert (Est : st = {| waf := waf st; dos := dos st |}) by reflexivity.
  destruct ev as [k o|k|k o|k|k o|k|k o|k|k o|k|o|k]; destruct Hkd as [-> | [-> | ->]];
    try (apply no_flip; unfold step, lift_w, lift_d; try (destruct (add_or_update_dos_pr _ _) as [[? ?] ?]); cbn [fst];
         first [ apply usable_pr_eq; reflexivity
               | apply usable_pol_eq; cbn [waf]; first [reflexivity|apply aol_policies|apply dl_policies]
               | apply usable_log_eq; cbn [waf]; first [reflexivity|apply aop_logconfs|apply dp_logconfs] ]).
  - rewrite Est at 1. apply policy_event_reported.
  - rewrite Est at 1. apply del_policy_reported. exact Wp.
  - rewrite Est at 1. apply logconf_event_reported.
  - rewrite Est at 1. apply del_logconf_reported. exact Wl.
  - (* signature event, policies *)
    unfold step, lift_w, add_or_update_usersig. destruct (create_usersig_ex o) as [sg e]. cbn [fst snd].
    rewrite Est at 1. apply usersig_event_policies_reported.
  - apply no_flip. unfold step, lift_w, add_or_update_usersig. destruct (create_usersig_ex o) as [sg e].
    apply usable_log_eq. cbn [fst waf]. apply busc_logconfs.
  - unfold step, lift_w, delete_usersig. destruct (lookup k (usersigs (waf st))).
    + cbn [fst snd]. rewrite Est at 1. apply usersig_event_policies_reported.
    + apply no_flip. reflexivity.
  - apply no_flip. unfold step, lift_w, delete_usersig. destruct (lookup k (usersigs (waf st))).
    + apply usable_log_eq. cbn [fst waf]. apply busc_logconfs.
    + reflexivity.
  - apply dos_policy_ev_reported. exact HI.
  - apply dos_del_policy_ev_reported. exact HI.
  - apply dos_logconf_ev_reported. exact HI.
  - apply dos_del_logconf_ev_reported. exact HI.
  - unfold step. pose proof (dos_pr_ev_reported st o key) as R. cbn zeta in R.
    destruct (add_or_update_dos_pr (dos st) o) as [[d c] p]. exact R.
  - unfold step, lift_d. apply dos_del_pr_ev_reported. exact Wd.
Qed.

(* ------------------------------------------------------------------------------------------ *)
(* signatures: UserSigChange.UserSigs is the complete list of signatures in force *)

Lemma wf_reconcile sigs0 : wf sigs0 -> wf (fst (fst (reconcile_user_sigs sigs0))).
Proof. intros W. unfold reconcile_user_sigs. cbn [fst]. apply wf_apply_writes. exact W. Qed.

Lemma busc_usersigs w sigs0 pr0 :
  usersigs (fst (build_user_sig_change fx w sigs0 pr0)) = fst (fst (reconcile_user_sigs sigs0)) /\
  o_usersigs (snd (build_user_sig_change fx w sigs0 pr0)) = Some (all_user_sig_keys (fst (fst (reconcile_user_sigs sigs0)))).
Proof.
  unfold build_user_sig_change. destruct (reconcile_user_sigs sigs0) as [[s1 a] b].
  destruct (verify_policies fx s1 (policies w)) as [[p1 c] d]. split; reflexivity.
Qed.

Lemma usable_sig_iff st key :
  usable st KUserSig key = true <-> exists e, lookup key (usersigs (waf st)) = Some e /\ s_valid e = true.
Proof.
  unfold usable, get_app_resource. destruct (lookup key (usersigs (waf st))) as [e|].
  - destruct (s_valid e) eqn:V; cbn; split; eauto; try discriminate.
    intros [e' [E V']]. inversion E; subst. congruence.
  - cbn. split; [discriminate|]. intros [e [E _]]. discriminate.
Qed.

Definition is_sig_event (ev : event) : bool :=
  match ev with EvUserSig _ _ | EvDelUserSig _ => true | _ => false end.

(* a signature operation that is not the deletion of an absent key *)
Definition sig_op_effective (st : state) (ev : event) : bool :=
  match ev with
  | EvUserSig _ _ => true
  | EvDelUserSig k => stored st KUserSig k
  | _ => false
  end.

Theorem usersig_list_complete st ev :
  wf (usersigs (waf st)) -> sig_op_effective st ev = true ->
  exists l, o_usersigs (snd (step fx st ev)) = Some l /\
            forall key, In key l <-> usable (fst (step fx st ev)) KUserSig key = true.
Proof.
  intros W Heff. destruct ev as [k o|k|k o|k|k o|k|k o|k|k o|k|o|k]; try discriminate.
  - unfold step, lift_w, add_or_update_usersig. destruct (create_usersig_ex o) as [sg e].
    destruct (busc_usersigs (waf st) (insert k sg (usersigs (waf st)))
                (match e with Some c => [prob KUserSig k c] | None => [] end)) as [E1 E2].
    cbn [fst snd]. rewrite E2. eexists. split; [reflexivity|]. intros key.
    rewrite usable_sig_iff. cbn [waf]. rewrite E1. apply in_all_user_sig_keys.
    apply wf_reconcile. apply wf_insert. exact W.
  - cbn in Heff. unfold stored, mem in Heff. unfold step, lift_w, delete_usersig.
    destruct (lookup k (usersigs (waf st))); [|discriminate].
    destruct (busc_usersigs (waf st) (remove k (usersigs (waf st))) []) as [E1 E2].
    cbn [fst snd]. rewrite E2. eexists. split; [reflexivity|]. intros key.
    rewrite usable_sig_iff. cbn [waf]. rewrite E1. apply in_all_user_sig_keys.
    apply wf_reconcile. apply wf_remove. exact W.
Qed.

(* the deletion of an absent key changes nothing (but reports the empty list: F37) *)
Theorem usersig_delete_absent st k :
  stored st KUserSig k = false ->
  fst (step fx st (EvDelUserSig k)) = st /\ o_usersigs (snd (step fx st (EvDelUserSig k))) = Some [].
Proof.
  unfold stored, mem, step, lift_w, delete_usersig. destruct (lookup k (usersigs (waf st))); [discriminate|].
  intros _. destruct st as [w d]. split; reflexivity.
Qed.

(* operations on other kinds never change which signatures are in force *)
Theorem other_events_keep_sigs st ev key :
  is_sig_event ev = false ->
  usable (fst (step fx st ev)) KUserSig key = usable st KUserSig key /\ o_usersigs (snd (step fx st ev)) = None.
Proof.
  intros H. destruct ev as [k o|k|k o|k|k o|k|k o|k|k o|k|o|k]; try discriminate;
    unfold step, lift_w, lift_d, usable, get_app_resource; cbn [fst snd waf].
  - unfold add_or_update_policy. destruct (create_policy_ex o) as [pol [c|]]; [split; reflexivity|].
    destruct (verify_policy_against_user_sigs fx (usersigs (waf st)) pol); split; reflexivity.
  - unfold delete_policy. destruct (lookup k (policies (waf st))); split; reflexivity.
  - unfold add_or_update_logconf. destruct (create_logconf_ex o) as [lc [c|]]; split; reflexivity.
  - unfold delete_logconf. destruct (lookup k (logconfs (waf st))); split; reflexivity.
  - unfold dos_add_or_update_policy. destruct (reeval _ _) as [[? ?] ?]. split; reflexivity.
  - unfold dos_delete_policy. destruct (lookup k (dpols (dos st))); destruct (reeval _ _) as [[? ?] ?]; split; reflexivity.
  - unfold dos_add_or_update_logconf. destruct (reeval _ _) as [[? ?] ?]. split; reflexivity.
  - unfold dos_delete_logconf. destruct (lookup k (dlogs (dos st))); destruct (reeval _ _) as [[? ?] ?]; split; reflexivity.
  - destruct (add_or_update_dos_pr (dos st) o) as [[? ?] ?]. split; reflexivity.
  - unfold dos_delete_pr. destruct (lookup k (dprs (dos st))); split; reflexivity.
Qed.

(* a signature that is still stored and is not in force after a signature operation, and that was in
   force before or is the object of the operation, is named in a problem *)
Lemma busc_problems w sigs0 pr0 p :
  In p pr0 \/ In p (snd (reconcile_user_sigs sigs0)) -> In p (o_problems (snd (build_user_sig_change fx w sigs0 pr0))).
Proof.
  unfold build_user_sig_change. destruct (reconcile_user_sigs sigs0) as [[s1 a] b].
  destruct (verify_policies fx s1 (policies w)) as [[p1 c] d]. cbn [snd o_problems].
  intros [H|H]; apply in_or_app; [left; exact H|right; apply in_or_app; left; exact H].
Qed.

Theorem usersig_problem_reported st ev key :
  wf (usersigs (waf st)) -> is_sig_event ev = true ->
  stored (fst (step fx st ev)) KUserSig key = true ->
  usable (fst (step fx st ev)) KUserSig key = false ->
  (usable st KUserSig key = true \/ exists o, ev = EvUserSig key o) ->
  exists c, In (prob KUserSig key c) (o_problems (snd (step fx st ev))).
Proof.
  intros W Hev Hst Hu Hbefore.
  destruct ev as [k o|k|k o|k|k o|k|k o|k|k o|k|o|k]; try discriminate.
  - unfold step, lift_w, add_or_update_usersig in *. destruct (create_usersig_ex o) as [sg e] eqn:Ec.
    cbn [fst snd] in *.
    destruct (busc_usersigs (waf st) (insert k sg (usersigs (waf st)))
                (match e with Some c => [prob KUserSig k c] | None => [] end)) as [E1 _].
    unfold stored, mem, usable, get_app_resource in Hst, Hu. cbn [waf] in Hst, Hu. rewrite E1 in Hst, Hu.
    destruct (lookup key (fst (fst (reconcile_user_sigs (insert k sg (usersigs (waf st))))))) as [e'|] eqn:L1; [|discriminate].
    assert (V1 : s_valid e' = false) by (destruct (s_valid e'); [discriminate|reflexivity]).
    destruct (string_dec key k) as [->|Hne].
    + destruct (s_valid sg) eqn:Vsg.
      * exists PcDup. apply busc_problems. right.
        eapply reconcile_problem; [apply lookup_insert_eq|exact Vsg|exact L1|exact V1].
      * destruct (create_usersig_invalid _ _ _ Ec Vsg) as [c ->]. exists c. apply busc_problems. left. left. reflexivity.
    + destruct Hbefore as [Hb|[o' Eo]]; [|injection Eo as Ea Eb; exfalso; apply Hne; symmetry; exact Ea].
      apply usable_sig_iff in Hb. destruct Hb as [e0 [L0 V0]].
      exists PcDup. apply busc_problems. right.
      eapply reconcile_problem; [rewrite lookup_insert_neq by exact Hne; exact L0|exact V0|exact L1|exact V1].
  - unfold step, lift_w, delete_usersig in *. destruct (lookup k (usersigs (waf st))) eqn:Lk.
    + cbn [fst snd] in *.
      destruct (busc_usersigs (waf st) (remove k (usersigs (waf st))) []) as [E1 _].
      unfold stored, mem, usable, get_app_resource in Hst, Hu. cbn [waf] in Hst, Hu. rewrite E1 in Hst, Hu.
      destruct (lookup key (fst (fst (reconcile_user_sigs (remove k (usersigs (waf st))))))) as [e'|] eqn:L1; [|discriminate].
      assert (V1 : s_valid e' = false) by (destruct (s_valid e'); [discriminate|reflexivity]).
      destruct Hbefore as [Hb|[o' Eo]]; [|discriminate].
      apply usable_sig_iff in Hb. destruct Hb as [e0 [L0 V0]].
      assert (Hne : key <> k).
      { intros ->. unfold reconcile_user_sigs in L1. cbn [fst] in L1. rewrite apply_writes_lookup in L1.
        rewrite lookup_remove_eq in L1 by exact W.
        match type of L1 with last_write k ?ws _ = _ => destruct (last_write_cases ws k (@None UserSigEx)) as [[H1 _]|[e [H1 H2]]] end.
        - rewrite H1 in L1. discriminate.
        - (* a write to k would need k in a group, i.e. stored *)
          apply in_flat_map in H1. destruct H1 as [r [Hr Hin]]. apply in_map_iff in Hr. destruct Hr as [g [<- Hg]].
          apply in_detect in Hg. destruct Hg as [t [_ [<- _]]].
          assert (Hk : In k (map fst (filter (in_group t) (remove k (usersigs (waf st)))))).
          { unfold reconcile_group in Hin. destruct (sig_sort _) as [|w0 rest] eqn:Es; cbn [fst] in Hin; [contradiction|].
            assert (Hp : In k (map fst (w0 :: rest))).
            { apply in_app_iff in Hin. destruct Hin as [Hin|Hin].
              - destruct (s_valid (snd w0)); cbn in Hin; [contradiction|]. destruct Hin as [Hin|[]]. inversion Hin. left. reflexivity.
              - apply in_map_iff in Hin. destruct Hin as [ke [Eke Hke]]. inversion Eke. apply filter_In in Hke.
                right. apply in_map. tauto. }
            rewrite <- Es in Hp. eapply Permutation_in; [apply Permutation_map, sig_sort_perm|exact Hp]. }
          apply in_map_iff in Hk. destruct Hk as [[k2 e2] [Ek Hk]]. cbn in Ek. subst k2.
          apply filter_In in Hk. destruct Hk as [Hk _].
          assert (Hl : lookup k (remove k (usersigs (waf st))) = Some e2).
          { apply In_lookup; [apply wf_remove; exact W|exact Hk]. }
          rewrite lookup_remove_eq in Hl by exact W. discriminate. }
      exists PcDup. apply busc_problems. right.
      eapply reconcile_problem; [rewrite lookup_remove_neq by exact Hne; exact L0|exact V0|exact L1|exact V1].
    + cbn [fst] in *. destruct Hbefore as [Hb|[o' Eo]]; [|discriminate].
      unfold usable in *. cbn [waf] in *. congruence.
Qed.

(* ------------------------------------------------------------------------------------------ *)
(* DoS policies and log configurations have no getter; their own events always report them *)

Theorem dos_policy_events_reported st k :
  (forall o, let out := snd (step fx st (EvDosPolicy k o)) in
             In (chg (op_for (dp_valid o)) KDosPolicy k) (o_changes out) /\
             (dp_valid o = false -> In (prob KDosPolicy k PcValidation) (o_problems out))) /\
  (forall o, let out := snd (step fx st (EvDosLogConf k o)) in
             In (chg (op_for (dl_valid o)) KDosLogConf k) (o_changes out) /\
             (dl_valid o = false -> In (prob KDosLogConf k PcValidation) (o_problems out))) /\
  (stored st KDosPolicy k = true -> In (chg OpDelete KDosPolicy k) (o_changes (snd (step fx st (EvDelDosPolicy k))))) /\
  (stored st KDosLogConf k = true -> In (chg OpDelete KDosLogConf k) (o_changes (snd (step fx st (EvDelDosLogConf k))))).
Proof.
  repeat split.
  - unfold step, lift_d, dos_add_or_update_policy. destruct (reeval _ _) as [[? ?] ?]. cbn.
    left. destruct (dp_valid o); reflexivity.
  - intros Hv. unfold step, lift_d, dos_add_or_update_policy. destruct (reeval _ _) as [[? ?] ?]. cbn.
    rewrite Hv. left. reflexivity.
  - unfold step, lift_d, dos_add_or_update_logconf. destruct (reeval _ _) as [[? ?] ?]. cbn.
    left. destruct (dl_valid o); reflexivity.
  - intros Hv. unfold step, lift_d, dos_add_or_update_logconf. destruct (reeval _ _) as [[? ?] ?]. cbn.
    rewrite Hv. left. reflexivity.
  - unfold stored, mem, step, lift_d, dos_delete_policy. destruct (lookup k (dpols (dos st))); [|discriminate].
    intros _. destruct (reeval _ _) as [[? ?] ?]. cbn. left. reflexivity.
  - unfold stored, mem, step, lift_d, dos_delete_logconf. destruct (lookup k (dlogs (dos st))); [|discriminate].
    intros _. destruct (reeval _ _) as [[? ?] ?]. cbn. left. reflexivity.
Qed.

End V.
