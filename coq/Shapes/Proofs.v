(* C17 -- proofs about the nil-shape models of Shapes/Model.v.

   1. the enumerations are complete: every inhabitant of a shape type is in its list;
   2. the sweep, inside Rocq, of the pipeline over the whole finite shape space
      (forallb ... = true by vm_compute), lifted with forallb_forall;
   3. the behaviour of the unpatched validateChallengeIngress (finding F05), refuted by a
      concrete admissible witness;
   (that the shape codes used to talk to the harness decode back to the shape they encode is
   a computed obligation, Cases.codes_roundtrip: primitive integers stay out of the theorems). *)
From Coq Require Import List Bool Arith.
From NIC Require Import Shapes.Model.
Import ListNotations.

(* ------------------------------------------------------------------ completeness of the enumerations *)

Ltac fin := intros x; destruct x; simpl; tauto.

Lemma all_bool_complete : forall b : bool, In b all_bool. Proof. fin. Qed.
Lemma all_bk_complete : forall k : bk, In k all_bk. Proof. fin. Qed.
Lemma all_pspec_complete : forall s : pspec, In s all_pspec. Proof. fin. Qed.
Lemma all_merge_complete : forall m : merge, In m all_merge. Proof. fin. Qed.
Lemma all_annots_complete : forall a : annots, In a all_annots. Proof. fin. Qed.
Lemma all_ctx_complete : forall c : ctx, In c all_ctx. Proof. fin. Qed.

Lemma all_iflags_complete : forall f : iflags, In f all_iflags.
Proof. intros [[|] [|]]; simpl; tauto. Qed.

Lemma all_paths_sh_complete : forall p : paths_sh, In p all_paths_sh.
Proof.
  intros [|s k|s k k2]; unfold all_paths_sh.
  - left; reflexivity.
  - right. apply in_or_app. left. apply in_flat_map. exists s. split.
    + apply all_pspec_complete.
    + apply in_map, all_bk_complete.
  - right. apply in_or_app. right. apply in_flat_map. exists s. split.
    + apply all_pspec_complete.
    + apply in_flat_map. exists k. split; [apply all_bk_complete | apply in_map, all_bk_complete].
Qed.

Lemma all_http_sh_complete : forall h : http_sh, In h all_http_sh.
Proof.
  intros [|p]; unfold all_http_sh; [left; reflexivity | right; apply in_map, all_paths_sh_complete].
Qed.

Lemma all_rule2_sh_complete : forall r : rule2_sh, In r all_rule2_sh.
Proof.
  intros [|k]; unfold all_rule2_sh; [left; reflexivity | right; apply in_map, all_bk_complete].
Qed.

Lemma all_rules_sh_complete : forall r : rules_sh, In r all_rules_sh.
Proof.
  intros [|h|h r2]; unfold all_rules_sh.
  - left; reflexivity.
  - right. apply in_or_app. left. apply in_map, all_http_sh_complete.
  - right. apply in_or_app. right. apply in_flat_map. exists h. split.
    + apply all_http_sh_complete.
    + apply in_map, all_rule2_sh_complete.
Qed.

Lemma all_default_complete : forall d : option bk, In d all_default.
Proof.
  intros [k|]; unfold all_default; [right; apply in_map, all_bk_complete | left; reflexivity].
Qed.

Theorem all_ing_shapes_complete : forall s : ing_shape, In s all_ing_shapes.
Proof.
  intros [d t r m c a]. unfold all_ing_shapes.
  apply in_flat_map. exists d. split; [apply all_default_complete|].
  apply in_flat_map. exists t. split; [apply all_bool_complete|].
  apply in_flat_map. exists r. split; [apply all_rules_sh_complete|].
  apply in_flat_map. exists m. split; [apply all_merge_complete|].
  apply in_flat_map. exists c. split; [apply all_bool_complete|].
  apply in_map_iff. exists a. split; [reflexivity | apply all_annots_complete].
Qed.

(* ------------------------------------------------------------------ the Ingress sweep *)

Definition ing_sweep (P : ing_scenario -> bool) : bool :=
  forallb (fun fl => forallb (fun c => forallb (fun sh =>
    P {| sc_flags := fl; sc_ctx := c; sc_shape := sh |}) all_ing_shapes) all_ctx) all_iflags.

Lemma ing_sweep_spec : forall P, ing_sweep P = true ->
  forall fl c sh, P {| sc_flags := fl; sc_ctx := c; sc_shape := sh |} = true.
Proof.
  intros P H fl c sh. unfold ing_sweep in H.
  rewrite forallb_forall in H. specialize (H fl (all_iflags_complete fl)).
  rewrite forallb_forall in H. specialize (H c (all_ctx_complete c)).
  rewrite forallb_forall in H. exact (H sh (all_ing_shapes_complete sh)).
Qed.

Definition ing_no_panic (s : ing_scenario) : bool :=
  negb (shape_admissible (sc_shape s)) || negb (is_panic (scenario_pipeline s)).

(* 4 flag settings x 4 prior states x 36672 shapes, evaluated by the kernel's VM *)
Lemma ing_sweep_no_panic : ing_sweep ing_no_panic = true.
Proof. vm_compute. reflexivity. Qed.

Theorem ing_no_panic_shapes :
  forall (fl : flags) (c : ctx) (sh : ing_shape),
    shape_admissible sh = true ->
    scenario_pipeline {| sc_flags := iflags_of fl; sc_ctx := c; sc_shape := sh |} <> OPanic.
Proof.
  intros fl c sh Hadm Hp.
  pose proof (ing_sweep_spec _ ing_sweep_no_panic (iflags_of fl) c sh) as H.
  unfold ing_no_panic in H. simpl in H. rewrite Hadm, Hp in H. discriminate.
Qed.

(* each stage separately: none of the four observed stages panics *)
Definition ing_no_stage_panic (s : ing_scenario) : bool :=
  negb (shape_admissible (sc_shape s)) ||
  match scenario_observe_with validate_challenge s with
  | None => false
  | Some o => negb (is_panic (o_validate o)) && negb (is_panic (o_config o)) &&
              negb (is_panic (o_extend o)) && negb (is_panic (o_delete o))
  end.

Lemma ing_sweep_no_stage_panic : ing_sweep ing_no_stage_panic = true.
Proof. vm_compute. reflexivity. Qed.

(* the validator rejects exactly when the store rejects (validate-then-store) *)
Definition ing_validate_then_store (s : ing_scenario) : bool :=
  match scenario_observe_with validate_challenge s with
  | None => false
  | Some o => outcome_eqb (o_validate o) (o_config o) || is_panic (o_config o)
  end.

Lemma ing_sweep_validate_then_store : ing_sweep ing_validate_then_store = true.
Proof. vm_compute. reflexivity. Qed.

(* ------------------------------------------------------------------ finding F05 *)

(* a challenge-labelled Ingress with one rule and one Prefix path whose backend is a resource
   backend (API-admissible): the unpatched validator dereferences Backend.Service *)
Definition f05_shape : ing_shape :=
  {| sh_default := None; sh_tls := false; sh_rules := Rs1 (HPaths (Ps1 PPrefix KRes));
     sh_merge := MNone; sh_chal := true; sh_ann := ANone |}.
Definition f05_scenario : ing_scenario :=
  {| sc_flags := {| if_plus := false; if_certmgr := true |}; sc_ctx := CEmpty; sc_shape := f05_shape |}.

Lemma f05_old_panics :
  shape_admissible f05_shape = true /\ scenario_pipeline_old f05_scenario = OPanic /\
  validate_ingress_old (sc_flags f05_scenario) (ingress_of f05_shape) = Pan.
Proof. vm_compute. repeat split. Qed.

Lemma f05_fixed_rejects : scenario_pipeline f05_scenario = ORejected.
Proof. vm_compute. reflexivity. Qed.

Theorem no_panic_old_refuted :
  exists s, shape_admissible (sc_shape s) = true /\ scenario_pipeline_old s = OPanic.
Proof. exists f05_scenario. vm_compute. split; reflexivity. Qed.

(* the only admissible shapes on which the old validator differs from the repaired one are
   challenge-labelled shapes with exactly one rule and one path whose backend has no service *)
Definition f05_class (sh : ing_shape) : bool :=
  sh_chal sh &&
  match sh_rules sh with
  | Rs1 (HPaths (Ps1 _ KRes)) | Rs1 (HPaths (Ps1 _ KNeither)) => true
  | _ => false
  end.

Definition old_differs_only_on_f05 (s : ing_scenario) : bool :=
  f05_class (sc_shape s) ||
  outcome_eqb (scenario_pipeline_old s) (scenario_pipeline s).

Lemma ing_sweep_old_differs_only_on_f05 : ing_sweep old_differs_only_on_f05 = true.
Proof. vm_compute. reflexivity. Qed.

(* ------------------------------------------------------------------ the admissibility hypothesis is needed *)

(* a backend with neither service nor resource passes validateBackend and panics later in
   createIngressEx: the theorem is not true of inadmissible shapes (and the harness confirms
   the panic on the real code) *)
Definition neither_shape : ing_shape :=
  {| sh_default := None; sh_tls := false; sh_rules := Rs1 (HPaths (Ps1 PPrefix KNeither));
     sh_merge := MNone; sh_chal := false; sh_ann := ANone |}.

Lemma inadmissible_can_panic :
  shape_admissible neither_shape = false /\
  scenario_pipeline {| sc_flags := {| if_plus := false; if_certmgr := false |}; sc_ctx := CEmpty;
                       sc_shape := neither_shape |} = OPanic.
Proof. vm_compute. split; reflexivity. Qed.

(* ================================================================== custom resources *)

Lemma all_act_sh_complete : forall a : act_sh, In a all_act_sh. Proof. fin. Qed.
Lemma all_act2_sh_complete : forall a : act2_sh, In a all_act2_sh. Proof. fin. Qed.
Lemma all_msplits_sh_complete : forall a : msplits_sh, In a all_msplits_sh. Proof. fin. Qed.
Lemma all_optbool_complete : forall o : option bool, In o all_optbool.
Proof. intros [[|]|]; simpl; tauto. Qed.

Lemma all_splits_sh_complete : forall s : splits_sh, In s all_splits_sh.
Proof.
  intros [| |a b]; unfold all_splits_sh.
  - left; reflexivity.
  - right; left; reflexivity.
  - right; right. apply in_flat_map. exists a. split; [apply all_act2_sh_complete | apply in_map, all_act2_sh_complete].
Qed.

Lemma all_match_sh_complete : forall m : match_sh, In m all_match_sh.
Proof.
  intros [|c a s]; unfold all_match_sh.
  - left; reflexivity.
  - right. apply in_flat_map. exists c. split; [apply all_bool_complete|].
    apply in_flat_map. exists a. split; [apply all_bool_complete | apply in_map, all_msplits_sh_complete].
Qed.

Lemma all_errpage_sh_complete : forall e : errpage_sh, In e all_errpage_sh.
Proof.
  intros [|a b]; unfold all_errpage_sh.
  - left; reflexivity.
  - right. apply in_flat_map. exists a. split; [apply all_bool_complete | apply in_map, all_bool_complete].
Qed.

Lemma all_route_sh_complete : forall r : route_sh, In r all_route_sh.
Proof.
  intros [a s m e r]. unfold all_route_sh.
  apply in_flat_map. exists a. split; [apply all_act_sh_complete|].
  apply in_flat_map. exists s. split; [apply all_splits_sh_complete|].
  apply in_flat_map. exists m. split; [apply all_match_sh_complete|].
  apply in_flat_map. exists e. split; [apply all_errpage_sh_complete|].
  apply in_map_iff. exists r. split; [reflexivity | apply all_bool_complete].
Qed.

Lemma all_tls_sh_complete : forall t : tls_sh, In t all_tls_sh.
Proof.
  intros [|s r c]; unfold all_tls_sh.
  - left; reflexivity.
  - right. apply in_flat_map. exists s. split; [apply all_bool_complete|].
    apply in_flat_map. exists r. split; [apply all_optbool_complete | apply in_map, all_bool_complete].
Qed.

Lemma all_up_sh_complete : forall u : up_sh, In u all_up_sh.
Proof. intros [ |[|]| | | | | | | ]; simpl; tauto. Qed.

Lemma all_pkind_complete : forall k : pkind, In k all_pkind. Proof. fin. Qed.

Theorem all_vs_shapes_complete : forall s : vs_shape, In s all_vs_shapes.
Proof.
  intros [|r|t l|u|k]; unfold all_vs_shapes.
  - left; reflexivity.
  - right. apply in_or_app. left. apply in_map, all_route_sh_complete.
  - right. apply in_or_app. right. apply in_or_app. left.
    apply in_flat_map. exists t. split; [apply all_tls_sh_complete | apply in_map, all_bool_complete].
  - right. do 2 (apply in_or_app; right). apply in_or_app. left. apply in_map, all_up_sh_complete.
  - right. do 3 (apply in_or_app; right). apply in_map, all_pkind_complete.
Qed.

Theorem all_vsr_shapes_complete : forall s : vsr_shape, In s all_vsr_shapes.
Proof.
  intros [|r|u| |]; unfold all_vsr_shapes.
  - left; reflexivity.
  - do 3 right. apply in_or_app. left. apply in_map, all_route_sh_complete.
  - do 3 right. apply in_or_app. right. apply in_map, all_up_sh_complete.
  - right; left; reflexivity.
  - right; right; left; reflexivity.
Qed.

Lemma all_vctx_complete : forall c : vctx, In c all_vctx. Proof. fin. Qed.
Lemma all_rctx_complete : forall c : rctx, In c all_rctx.
Proof.
  intros [|k]; unfold all_rctx; [left; reflexivity | right; apply in_map, all_pkind_complete].
Qed.
Lemma all_tctx_complete : forall c : tctx, In c all_tctx. Proof. fin. Qed.
Lemma all_ts_listener_complete : forall l : ts_listener, In l all_ts_listener. Proof. fin. Qed.

Lemma all_tsup_sh_complete : forall u : tsup_sh, In u all_tsup_sh.
Proof.
  intros [|h]; unfold all_tsup_sh; [left; reflexivity | right; apply in_map, all_optbool_complete].
Qed.

Theorem all_ts_shapes_complete : forall s : ts_shape, In s all_ts_shapes.
Proof.
  intros [l h t u p s a]. unfold all_ts_shapes.
  apply in_flat_map. exists l. split; [apply all_ts_listener_complete|].
  apply in_flat_map. exists h. split; [apply all_bool_complete|].
  apply in_flat_map. exists t. split; [apply all_optbool_complete|].
  apply in_flat_map. exists u. split; [apply all_tsup_sh_complete|].
  apply in_flat_map. exists p. split; [apply all_optbool_complete|].
  apply in_flat_map. exists s. split; [apply all_bool_complete|].
  apply in_map_iff. exists a. split; [reflexivity | apply all_optbool_complete].
Qed.

Lemma all_rl_sh_complete : forall r : rl_sh, In r all_rl_sh.
Proof.
  intros [p c]. unfold all_rl_sh. apply in_flat_map. exists p.
  split; [apply all_bool_complete | apply in_map, all_optbool_complete].
Qed.
Lemma all_ak_sh_complete : forall k : ak_sh, In k all_ak_sh.
Proof.
  intros [|h q]; unfold all_ak_sh; [left; reflexivity|]. right.
  apply in_flat_map. exists h. split; [apply all_bool_complete | apply in_map, all_bool_complete].
Qed.
Lemma all_waf_sh_complete : forall w : waf_sh, In w all_waf_sh.
Proof.
  intros [l ls]. unfold all_waf_sh. apply in_flat_map. exists l.
  split; [apply all_bool_complete | apply in_map, all_optbool_complete].
Qed.

Lemma all_polkind_sh_complete : forall k : polkind_sh, In k all_polkind_sh.
Proof.
  intros k. unfold all_polkind_sh.
  destruct k as [a d|r| | |d|d|l|k|w].
  - apply in_or_app. left. apply in_flat_map. exists a.
    split; [apply all_bool_complete | apply in_map, all_bool_complete].
  - apply in_or_app. right. apply in_or_app. left. apply in_map, all_rl_sh_complete.
  - do 2 (apply in_or_app; right). apply in_or_app. left. simpl; tauto.
  - do 2 (apply in_or_app; right). apply in_or_app. left. simpl; tauto.
  - do 3 (apply in_or_app; right). apply in_or_app. left. apply in_map, all_bool_complete.
  - do 4 (apply in_or_app; right). apply in_or_app. left. apply in_map, all_bool_complete.
  - do 5 (apply in_or_app; right). apply in_or_app. left. apply in_map, all_bool_complete.
  - do 6 (apply in_or_app; right). apply in_or_app. left. apply in_map, all_ak_sh_complete.
  - do 7 (apply in_or_app; right). apply in_map, all_waf_sh_complete.
Qed.

Theorem all_pol_shapes_complete : forall s : pol_shape, In s all_pol_shapes.
Proof.
  intros [|k|k]; unfold all_pol_shapes.
  - left; reflexivity.
  - right. apply in_or_app. left. apply in_map, all_polkind_sh_complete.
  - right. apply in_or_app. right. apply in_map, all_polkind_sh_complete.
Qed.

Theorem all_gc_shapes_complete : forall g : gc_shape, In g all_gc_shapes. Proof. fin. Qed.

(* --- the sweeps *)

Definition no_panic (o : outcome) : bool := negb (is_panic o).

Definition vs_sweep : bool :=
  forallb (fun plus => forallb (fun cm => forallb (fun c => forallb (fun s =>
    no_panic (crd_worst (vs_observe plus cm c (vs_of s)))) all_vs_shapes) all_vctx) all_bool) all_bool.
Lemma vs_sweep_ok : vs_sweep = true. Proof. vm_compute. reflexivity. Qed.

Theorem vs_no_panic_shapes :
  forall (fl : flags) (c : vctx) (s : vs_shape),
    crd_worst (vs_observe (f_plus fl) (f_certmgr fl) c (vs_of s)) <> OPanic.
Proof.
  intros fl c s Hp. pose proof vs_sweep_ok as H. unfold vs_sweep in H.
  rewrite forallb_forall in H. specialize (H (f_plus fl) (all_bool_complete _)).
  rewrite forallb_forall in H. specialize (H (f_certmgr fl) (all_bool_complete _)).
  rewrite forallb_forall in H. specialize (H c (all_vctx_complete _)).
  rewrite forallb_forall in H. specialize (H s (all_vs_shapes_complete _)).
  unfold no_panic in H. rewrite Hp in H. discriminate.
Qed.

Definition vsr_sweep : bool :=
  forallb (fun plus => forallb (fun c => forallb (fun s =>
    no_panic (crd_worst (vsr_observe plus c (vsr_of s)))) all_vsr_shapes) all_rctx) all_bool.
Lemma vsr_sweep_ok : vsr_sweep = true. Proof. vm_compute. reflexivity. Qed.

Theorem vsr_no_panic_shapes :
  forall (fl : flags) (c : rctx) (s : vsr_shape),
    crd_worst (vsr_observe (f_plus fl) c (vsr_of s)) <> OPanic.
Proof.
  intros fl c s Hp. pose proof vsr_sweep_ok as H. unfold vsr_sweep in H.
  rewrite forallb_forall in H. specialize (H (f_plus fl) (all_bool_complete _)).
  rewrite forallb_forall in H. specialize (H c (all_rctx_complete _)).
  rewrite forallb_forall in H. specialize (H s (all_vsr_shapes_complete _)).
  unfold no_panic in H. rewrite Hp in H. discriminate.
Qed.

(* the guard of the regex/exact branch of validateVirtualServerRouteSubroutes is what makes
   [routes[0]] safe: a VirtualServerRoute without subroutes is valid stand-alone and is
   re-validated during arbitration; with the guard weakened to [len(routes) > 1] the index panics *)
Definition revalidate_subroutes_weak (k : pkind) (subs : list route) : R bool :=
  match k with
  | PkPrefix => Val (existsb (fun r => validate_route true r || negb (rt_match r)) subs)
  | _ => if Nat.ltb 1 (List.length subs) then Val true
         else r0 <- index0 subs ;; if negb (rt_match r0) then Val true else Val (validate_route true r0)
  end.

Lemma revalidation_guard_needed :
  validate_vsr false (vsr_of VrBare) = false /\
  revalidate_subroutes PkExact (vr_subroutes (vsr_of VrBare)) = Val true /\
  revalidate_subroutes_weak PkExact (vr_subroutes (vsr_of VrBare)) = Pan /\
  revalidate_subroutes_weak PkRegex (vr_subroutes (vsr_of VrBare)) = Pan.
Proof. vm_compute. repeat split. Qed.

(* the re-validation never panics, for subroute lists of any length *)
Lemma revalidate_subroutes_total : forall k subs, exists b, revalidate_subroutes k subs = Val b.
Proof.
  intros k subs. destruct k; simpl; eauto;
    (destruct subs as [|r [|r' t]]; simpl; eauto; destruct (rt_match r); simpl; eauto).
Qed.

Definition ts_sweep_with gen : bool :=
  forallb (fun tp => forallb (fun c => forallb (fun s =>
    no_panic (crd_worst (ts_observe_with gen tp c (ts_of s)))) all_ts_shapes) all_tctx) all_bool.
Lemma ts_sweep_ok : ts_sweep_with gen_ts = true. Proof. vm_compute. reflexivity. Qed.

Theorem ts_no_panic_shapes :
  forall (fl : flags) (c : tctx) (s : ts_shape),
    crd_worst (ts_observe (f_tlspass fl) c (ts_of s)) <> OPanic.
Proof.
  intros fl c s Hp. pose proof ts_sweep_ok as H. unfold ts_sweep_with in H.
  rewrite forallb_forall in H. specialize (H (f_tlspass fl) (all_bool_complete _)).
  rewrite forallb_forall in H. specialize (H c (all_tctx_complete _)).
  rewrite forallb_forall in H. specialize (H s (all_ts_shapes_complete _)).
  unfold no_panic in H. unfold ts_observe in Hp. rewrite Hp in H. discriminate.
Qed.

(* finding F43: [tls: {}] (a TLS block without a secret name) on a TransportServer without host,
   attached to a TCP listener of the GlobalConfiguration: valid, and the unpatched generateSSLConfig
   dereferences the missing SecretReference *)
Definition f43_shape : ts_shape :=
  {| tsh_listener := TLTcp; tsh_host := false; tsh_tls := Some false; tsh_up := TU1 None;
     tsh_uparams := None; tsh_sparams := false; tsh_action := Some true |}.

Theorem ts_no_panic_old_refuted :
  exists tp c s, validate_ts tp (ts_of s) = false /\
                 crd_worst (ts_observe_old tp c (ts_of s)) = OPanic.
Proof. exists false, TCGlobal, f43_shape. vm_compute. split; reflexivity. Qed.

Lemma f43_fixed_ok : crd_worst (ts_observe false TCGlobal (ts_of f43_shape)) = OOk.
Proof. vm_compute. reflexivity. Qed.

(* the old generator differs from the repaired one exactly on valid active shapes with an
   empty TLS block *)
Definition ts_old_differs_only_on_f43 : bool :=
  forallb (fun tp => forallb (fun c => forallb (fun s =>
    (match tsh_tls s with Some false => true | _ => false end) ||
    outcome_eqb (crd_worst (ts_observe_old tp c (ts_of s))) (crd_worst (ts_observe tp c (ts_of s))))
    all_ts_shapes) all_tctx) all_bool.
Lemma ts_old_differs_only_on_f43_ok : ts_old_differs_only_on_f43 = true.
Proof. vm_compute. reflexivity. Qed.

Definition pol_sweep : bool :=
  forallb (fun plus => forallb (fun ap => forallb (fun s =>
    let o := pol_observe plus ap (policy_of s) in
    no_panic (po_validate o) && no_panic (po_extend o)) all_pol_shapes) all_bool) all_bool.
Lemma pol_sweep_ok : pol_sweep = true. Proof. vm_compute. reflexivity. Qed.

Theorem pol_no_panic_shapes :
  forall (fl : flags) (s : pol_shape),
    let o := pol_observe (f_plus fl) (f_approtect fl) (policy_of s) in
    po_validate o <> OPanic /\ po_extend o <> OPanic.
Proof.
  intros fl s. pose proof pol_sweep_ok as H. unfold pol_sweep in H.
  rewrite forallb_forall in H. specialize (H (f_plus fl) (all_bool_complete _)).
  rewrite forallb_forall in H. specialize (H (f_approtect fl) (all_bool_complete _)).
  rewrite forallb_forall in H. specialize (H s (all_pol_shapes_complete _)).
  cbv zeta in *. apply andb_true_iff in H. destruct H as [H1 H2]. unfold no_panic in *.
  split; intros Hp; [rewrite Hp in H1 | rewrite Hp in H2]; discriminate.
Qed.

(* the validator's guard is what makes the generator's dereferences safe: a rate-limit
   condition without jwt, or an apiKey without suppliedIn, is rejected, and would panic in
   addRateLimitConfig / addAPIKeyConfig if it were not *)
Lemma policy_guards_needed :
  validate_policy true true true (policy_of (Po1 (KRate (Rl false (Some false))))) = true /\
  gen_policy (policy_of (Po1 (KRate (Rl false (Some false))))) = Pan /\
  validate_policy true true true (policy_of (Po1 (KApiKey Ak0))) = true /\
  gen_policy (policy_of (Po1 (KApiKey Ak0))) = Pan.
Proof. vm_compute. repeat split. Qed.

(* likewise for routes: a route without action, splits or route reference is rejected and
   would panic in GetNameForUpstreamFromAction *)
Lemma route_guard_needed :
  let r := route_of {| rs_action := ActNil; rs_splits := Sp0; rs_matches := Mt0; rs_errpages := Ep0; rs_route := false |} in
  validate_route false r = true /\ gen_route true r = Pan.
Proof. vm_compute. split; reflexivity. Qed.

Theorem gc_no_panic_shapes : forall g : gc_shape, crd_worst (gc_observe g) <> OPanic.
Proof. intros [ | | | | ]; vm_compute; discriminate. Qed.
