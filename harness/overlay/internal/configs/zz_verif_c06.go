//go:build verif

package configs

import "regexp"

// VerifC06Regexps exposes the validator regular expressions of this package whose hand
// transcriptions in coq/Tmpl/Validators.v are compared with them on a corpus on every run.
func VerifC06Regexps() map[string]*regexp.Regexp {
	return map[string]*regexp.Regexp{
		"ing_rewrite@configs.pathRegexp":          pathRegexp,
		"realm@configs.stickyCookieRegex":         stickyCookieRegex,
		"size@configs.sizeRegexp":                 sizeRegexp,
		"offset@configs.offsetRegexp":             offsetRegexp,
		"proxy_buffers@configs.proxyBuffersRegexp": proxyBuffersRegexp,
		"time@configs.timeRegexp":                 timeRegexp,
	}
}
