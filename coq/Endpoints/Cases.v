(* C14 -- evaluation of the model (X) and of the decidable specification (S) on the cases
   the harness observed on the implementation.  No proofs here. *)
From Coq Require Import List ZArith String Ascii Bool.
From NIC Require Import Base.Bytes Endpoints.Model Endpoints.Spec.
Import ListNotations.
Open Scope string_scope.
Open Scope Z_scope.

(* ---------- multiset equality (the implementation's orders are Go map orders) ---------- *)
Fixpoint remove_one (x : string) (l : list string) : option (list string) :=
  match l with
  | [] => None
  | y :: r => if String.eqb x y then Some r
              else match remove_one x r with Some r' => Some (y :: r') | None => None end
  end.

Fixpoint perm_eqb (a b : list string) : bool :=
  match a with
  | [] => is_nil b
  | x :: r => match remove_one x b with Some b' => perm_eqb r b' | None => false end
  end.

Definition flat_pep (p : pep) : string := fst p ++ "|" ++ snd p.
Definition perm_pep (a b : list pep) : bool := perm_eqb (map flat_pep a) (map flat_pep b).

(* ---------- the pod lister's order is Go map order: try every pod as the first ---------- *)
Definition pod_orders (c : Cluster) : list Cluster :=
  c :: map (fun p => {| c_svcs := c_svcs c; c_slices := c_slices c;
                        c_pods := p :: c_pods c |}) (c_pods c).
(* (putting a copy of p in front: list_pods then starts with p if p is selected; the copy
   further down changes nothing because every use of the pod list is a set or its head) *)

Definition err_code (e : err) : Z :=
  match e with
  | ENoSvc => 1 | ENoSlices => 2 | ENoPort => 3 | ENoPods => 4
  | ENoNamedPort => 5 | ENoEndpoints => 6 | EExternalOSS => 7
  end.

(* the direct call: getEndpointsForIngressBackend / getEndpointsForSubselector *)
Definition direct_agrees (fx : Fixes) (plus : bool) (c : Cluster) (ns : string) (b : Backend)
           (obs_err : Z) (obs_eps : list pep) (obs_external : bool) : bool :=
  let sub := match b_kind b with KVS | KVSR => b_subsel b | _ => [] end in
  match sub with
  | [] =>
      match resolve fx plus c ns (b_svc b) (b_port b) with
      | Ok (l, x) => (obs_err =? 0) && perm_pep l obs_eps && Bool.eqb x obs_external
      | Err e => (obs_err =? err_code e)
      end
  | _ =>
      match resolve_sub c ns (b_svc b) (bp_num (b_port b)) sub with
      | Ok l => (obs_err =? 0) && perm_pep l obs_eps
      | Err e => (obs_err =? err_code e)
      end
  end.

Definition case_agrees (fx : Fixes) (plus resolver : bool) (c : Cluster) (ns : string) (b : Backend)
           (obs_err : Z) (obs_eps : list pep) (obs_external : bool)
           (obs_entry : list string) (obs_extsvc : bool) (obs_servers : list string) : bool :=
  (* the two calls list the pods independently *)
  existsb (fun c' => direct_agrees fx plus c' ns b obs_err obs_eps obs_external) (pod_orders c) &&
  existsb (fun c' =>
    let e := endpoints_entry fx plus c' ns b in
    perm_eqb (fst e) obs_entry && Bool.eqb (snd e) obs_extsvc &&
    perm_eqb (rendered plus resolver (b_kind b) e) obs_servers) (pod_orders c).

(* ---------- S: the specification on the implementation's own Endpoints entry ---------- *)
(* classification of a failure, so that a known defect is told apart from a new one.  The
   classification is deliberately narrow: a result is attributed to a known defect only when
   it is EXACTLY (as a multiset) what that defect produces from the declarative sets. *)
Definition selected_pods (c : Cluster) (svc : Service) : list Pod := list_pods c (s_ns svc) (s_selector svc).

(* (address, pod name) of the ready endpoints of the slices of svc exposing port number P *)
Definition pairs_num (c : Cluster) (svc : Service) (P : Z) : list pep :=
  flat_map (fun sl =>
    if slice_of svc sl && slice_has_port P sl then
      flat_map (fun e => if is_ready e then map (fun a => (join a P, e_ref e)) (e_addrs e) else []) (sl_eps sl)
    else []) (c_slices c).

(* what de-duplication on (address, pod name) leaves of the ideal set for port number P: an
   address stays once per pod name it is listed under *)
Definition expected_num (c : Cluster) (svc : Service) (sub : labels) (P : Z) : list string :=
  let ideal := match sub with [] => ideal_num c svc P | _ => ideal_sub c svc sub P end in
  map fst (dedup (filter (fun p => mem (fst p) ideal) (pairs_num c svc P))).

(* with or without repair F41 (every address once) *)
Definition matches_expected (obs exp : list string) : bool :=
  perm_eqb obs exp || perm_eqb obs (nodup string_dec exp).

(* the observed entry is what resolving the target [tgt] BY NUMBER gives (for a name: through
   any one selected pod; nothing at all when there is no pod or a pod lacks the name) *)
Definition explained_by_number (c : Cluster) (svc : Service) (sub : labels) (tgt : target) (port : Z) (proto : string)
           (obs_entry : list string) : bool :=
  match tgt with
  | TUnset => matches_expected obs_entry (expected_num c svc sub port)
  | TNum n => matches_expected obs_entry (expected_num c svc sub n)
  | TNamed s =>
      let pods := selected_pods c svc in
      (is_nil obs_entry &&
       (is_nil pods || existsb (fun pod => match find_port pod s proto with
                                           | None => true | Some n => n =? 0 end) pods))
      || existsb (fun pod => match find_port pod s proto with
                             | Some n => matches_expected obs_entry (expected_num c svc sub n)
                             | None => false end) pods
  end.

(* failure kinds: 0 holds; 1 an address twice because it is listed under two pod names (set still
   exact); 2 named target port resolved through one pod only; 3 VirtualServerRoute cluster IP
   not bracketed; 4 an unnamed service port matched a backend port number it does not have;
   5 ExternalName with a named backend port written with port 0; 6 server lines / placeholder
   wrong; 9 anything else *)
Definition spec_kind (plus resolver : bool) (c : Cluster) (ns : string) (b : Backend)
           (obs_entry : list string) (obs_extsvc : bool) (obs_servers : list string) : Z :=
  let servers_good := servers_ok plus resolver (b_kind b) obs_entry obs_extsvc obs_servers in
  match ideal_entry plus c ns b with
  | IFree => if servers_good then 0 else 6
  | IExact ideal =>
      if exact_ok ideal obs_entry then (if servers_good then 0 else 6)
      else
        match find_svc c ns (b_svc b) with
        | None => 9
        | Some svc =>
            let sub := match b_kind b with KVS | KVSR => b_subsel b | _ => [] end in
            if uses_cluster_ip plus c svc b then
              match b_kind b with
              | KVSR =>
                  if has_colon (s_clusterIP svc) &&
                     perm_eqb obs_entry [join_plain (s_clusterIP svc) (bp_num (b_port b))] then 3 else 9
              | _ => 9
              end
            else
            if svc_external c svc && is_nil sub then
                if negb (String.eqb (bp_name (b_port b)) "") &&
                   perm_eqb obs_entry [join_plain (s_extname svc) 0] then 5 else 9
            else
            match spec_ref_port (b_port b) (s_ports svc), find_svc_port legacy (b_port b) (s_ports svc) with
            | Some sp, _ =>
                if explained_by_number c svc sub (sp_target sp) (sp_port sp) (sp_proto sp) obs_entry then
                  if same_set obs_entry ideal then 1
                  else match sp_target sp with TNamed _ => 2 | _ => 9 end
                else 9
            | None, Some sp' =>
                (* the code found a port where the specification finds none *)
                if String.eqb (bp_name (b_port b)) "" && String.eqb (sp_name sp') "" &&
                   explained_by_number c svc sub (sp_target sp') (sp_port sp') (sp_proto sp') obs_entry
                then 4 else 9
            | None, None => 9
            end
        end
  end.

(* one row per backend: [id; model agrees; spec holds; nontrivial; branch tag; failure kind] *)
Definition branch_tag (fx : Fixes) (plus : bool) (c : Cluster) (ns : string) (b : Backend) : Z :=
  let k := match b_kind b with KIng => 100 | KVS => 200 | KVSR => 300 | KTS => 400 end in
  let sub := match b_kind b with KVS | KVSR => negb (is_nil (b_subsel b)) | _ => false end in
  let useip := match b_kind b with KTS => false | _ => b_clusterip b end in
  k + (if useip then 10 else if sub then 20 else 0) +
  match find_svc c ns (b_svc b) with
  | None => 1
  | Some svc =>
      match resolve fx plus c ns (b_svc b) (b_port b) with
      | Ok (_, true) => 2
      | Ok (_, false) =>
          match find_svc_port fx (b_port b) (s_ports svc) with
          | Some sp => match sp_target sp with TUnset => 3 | TNum _ => 4 | TNamed _ => 5 end
          | None => 9
          end
      | Err e => match e with ENoEndpoints => 6 | ENoPort => 7 | _ => 8 end
      end
  end.

Definition backend_case (id : Z) (fx : Fixes) (plus resolver : bool) (c : Cluster) (ns : string) (b : Backend)
           (obs_err : Z) (obs_eps : list pep) (obs_external : bool)
           (obs_entry : list string) (obs_extsvc : bool) (obs_servers : list string) : list Z :=
  let k := spec_kind plus resolver c ns b obs_entry obs_extsvc obs_servers in
  [id;
   if case_agrees fx plus resolver c ns b obs_err obs_eps obs_external obs_entry obs_extsvc obs_servers then 1 else 0;
   if k =? 0 then 1 else 0;
   if is_nil obs_entry then 0 else 1;
   branch_tag fx plus c ns b;
   k].

(* ---------- the dynamic family: what is configured after watch events ---------- *)
(* The observable is the list of `server` lines of the configuration file written last.  The
   Endpoints entry behind it is that list, or nothing when the only line is the placeholder. *)
Definition entry_of_servers (k : bkind) (servers : list string) : list string :=
  match servers with
  | [s] => if String.eqb s (placeholder k) then [] else servers
  | _ => servers
  end.

(* [c] is the cluster AFTER the events.  Model (X): once the queue is drained the file holds
   the rendering of the resolution on [c].  Specification (S): C14 on [c], evaluated on the
   configured servers. *)
Definition dyn_case (id : Z) (fx : Fixes) (plus resolver : bool) (c : Cluster) (ns : string) (b : Backend)
           (obs_servers : list string) : list Z :=
  let entry := entry_of_servers (b_kind b) obs_servers in
  let k := spec_kind plus resolver c ns b entry false obs_servers in
  let agrees := existsb (fun c' => perm_eqb (rendered plus resolver (b_kind b) (endpoints_entry fx plus c' ns b)) obs_servers)
                        (pod_orders c) in
  [id; if agrees then 1 else 0; if k =? 0 then 1 else 0; if is_nil entry then 0 else 1;
   500 + branch_tag fx plus c ns b; k].

(* ---------- the resource family: one backend of a resource with several backends ---------- *)
(* The observations of one backend: its Endpoints entry, the server lines of ITS upstream block
   in the file written last, and what was pushed for ITS upstream through the NGINX Plus API
   (after an endpoints-only update).  Model (X): the single-backend entry in the owner's
   namespace [ns] (pointwise by ingress_no_leak / vs_no_leak), its rendering, and [pushed].
   Specification (S): spec_kind on the entry and the server lines; the pushed servers equal the
   server lines of the file (failure kind 7). *)
Definition opt_perm (a : option (list string)) (present : bool) (l : list string) : bool :=
  match a with
  | Some x => present && perm_eqb x l
  | None => negb present
  end.

(* ExternalNameSvcs is keyed by the SERVICE, not by the upstream: the flag of a backend is also
   set when another backend of the resource on the same service (another port / subselector) is
   external.  [ext_shared]: the resource has such another backend. *)
Definition res_item_case (id : Z) (fx : Fixes) (plus resolver : bool) (c : Cluster) (ns : string) (b : Backend)
           (ext_shared : bool)
           (obs_entry : list string) (obs_extsvc : bool) (obs_servers : list string)
           (was_pushed : bool) (obs_pushed : list string) : list Z :=
  let agrees := existsb (fun c' =>
                  let e := endpoints_entry fx plus c' ns b in
                  let e' := (fst e, obs_extsvc) in
                  perm_eqb (fst e) obs_entry &&
                  (Bool.eqb (snd e) obs_extsvc || (ext_shared && obs_extsvc && plus)) &&
                  perm_eqb (rendered plus resolver (b_kind b) e') obs_servers &&
                  opt_perm (pushed plus (b_kind b) e') was_pushed obs_pushed) (pod_orders c) in
  let k0 := spec_kind plus resolver c ns b obs_entry obs_extsvc obs_servers in
  let push_ok := if obs_extsvc then true
                 else if plus then was_pushed && perm_eqb obs_pushed obs_servers
                 else negb was_pushed in
  let k := if k0 =? 0 then (if push_ok then 0 else 7) else k0 in
  [id; if agrees then 1 else 0; if k =? 0 then 1 else 0; if is_nil obs_entry then 0 else 1;
   600 + branch_tag fx plus c ns b; k].
