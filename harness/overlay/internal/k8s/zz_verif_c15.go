//go:build verif

// Hooks for the C15 correspondence harness (add-only; compiled only with -tags verif).
// They build a LoadBalancerController the way controller_test.go does (struct literal, stores the
// harness populates, a real Configuration, a real appprotectdos.Configuration) and give the
// harness access to the unexported functions C15 is about: createExtendedResources
// (createIngressEx / createMergeableIngresses / createVirtualServerEx / createTransportServerEx),
// Configuration.FindResourcesFor*, getPoliciesForSecret, getWAFPoliciesForAppProtect*,
// the *RequiresEndpointsUpdate filters and lbc.sync.
package k8s

import (
	"context"
	"io"
	"log/slog"
	"reflect"
	"sort"
	"strings"

	"github.com/nginx/kubernetes-ingress/internal/configs"
	"github.com/nginx/kubernetes-ingress/internal/k8s/appprotect"
	"github.com/nginx/kubernetes-ingress/internal/k8s/appprotectdos"
	"github.com/nginx/kubernetes-ingress/internal/k8s/secrets"
	"github.com/nginx/kubernetes-ingress/internal/metrics/collectors"
	conf_v1 "github.com/nginx/kubernetes-ingress/pkg/apis/configuration/v1"
	"github.com/nginx/kubernetes-ingress/pkg/apis/configuration/validation"
	"github.com/nginx/kubernetes-ingress/pkg/apis/dos/v1beta1"
	api_v1 "k8s.io/api/core/v1"
	discovery_v1 "k8s.io/api/discovery/v1"
	networking "k8s.io/api/networking/v1"
	"k8s.io/apimachinery/pkg/apis/meta/v1/unstructured"
	"k8s.io/client-go/tools/cache"
	"k8s.io/client-go/tools/record"
)

// VerifC15Opts selects the feature flags and the parts the harness instruments.
type VerifC15Opts struct {
	Plus, AppProtect, Dos bool
	DefaultServerSecret   string                   // -default-server-tls-secret (ns/name), "" = none
	WildcardTLSSecret     string                   // -wildcard-tls-secret (ns/name), "" = none
	SecretStore           secrets.SecretStore      // harness-supplied (recording) store
	AppProtectConf        appprotect.Configuration // harness-supplied (recording); nil = the real one
	Configurator          *configs.Configurator    // nil when only create*Ex / Find* are driven
	Wrap                  func(name string, s cache.Store) cache.Store
	Share                 *VerifC15 // a second controller over the stores of this one (a freshly started controller on the same cluster)
}

// VerifC15 is a controller plus the stores behind its listers.
type VerifC15 struct {
	Lbc      *LoadBalancerController
	Services cache.Store
	Slices   cache.Store
	Policies cache.Store
	Secrets  cache.Store
	Pods     cache.Indexer
	Ingress  cache.Store
	VS       cache.Store
	VSR      cache.Store
	TS       cache.Store
	ApPol    cache.Store
	ApLog    cache.Store
	DosProt  cache.Store
	DosPol   cache.Store
	DosLog   cache.Store
	ApSig    cache.Store
	Recorder *record.FakeRecorder
}

// NewVerifC15 builds the controller.  One global ("") namespaced informer, as in the unit tests.
func NewVerifC15(o VerifC15Opts) *VerifC15 {
	logger := slog.New(slog.NewTextHandler(io.Discard, nil))
	wrap := o.Wrap
	if wrap == nil {
		wrap = func(_ string, s cache.Store) cache.Store { return s }
	}
	v := &VerifC15{
		Services: wrap("service", cache.NewStore(cache.DeletionHandlingMetaNamespaceKeyFunc)),
		Slices:   wrap("endpointslice", cache.NewStore(cache.DeletionHandlingMetaNamespaceKeyFunc)),
		Policies: wrap("policy", cache.NewStore(cache.DeletionHandlingMetaNamespaceKeyFunc)),
		Secrets:  wrap("secret", cache.NewStore(cache.DeletionHandlingMetaNamespaceKeyFunc)),
		Pods:     cache.NewIndexer(cache.DeletionHandlingMetaNamespaceKeyFunc, cache.Indexers{cache.NamespaceIndex: cache.MetaNamespaceIndexFunc}),
		Ingress:  cache.NewStore(cache.DeletionHandlingMetaNamespaceKeyFunc),
		VS:       cache.NewStore(cache.DeletionHandlingMetaNamespaceKeyFunc),
		VSR:      cache.NewStore(cache.DeletionHandlingMetaNamespaceKeyFunc),
		TS:       cache.NewStore(cache.DeletionHandlingMetaNamespaceKeyFunc),
		ApPol:    cache.NewStore(cache.DeletionHandlingMetaNamespaceKeyFunc),
		ApLog:    cache.NewStore(cache.DeletionHandlingMetaNamespaceKeyFunc),
		DosProt:  cache.NewStore(cache.DeletionHandlingMetaNamespaceKeyFunc),
		DosPol:   cache.NewStore(cache.DeletionHandlingMetaNamespaceKeyFunc),
		DosLog:   cache.NewStore(cache.DeletionHandlingMetaNamespaceKeyFunc),
		ApSig:    cache.NewStore(cache.DeletionHandlingMetaNamespaceKeyFunc),
		Recorder: record.NewFakeRecorder(1 << 16),
	}
	if o.Share != nil {
		sh := o.Share
		v.Services, v.Slices, v.Policies, v.Secrets, v.Pods = sh.Services, sh.Slices, sh.Policies, sh.Secrets, sh.Pods
		v.Ingress, v.VS, v.VSR, v.TS = sh.Ingress, sh.VS, sh.VSR, sh.TS
		v.ApPol, v.ApLog, v.DosProt, v.DosPol, v.DosLog, v.ApSig = sh.ApPol, sh.ApLog, sh.DosProt, sh.DosPol, sh.DosLog, sh.ApSig
	}
	nsi := &namespacedInformer{
		namespace:                    "",
		svcLister:                    v.Services,
		endpointSliceLister:          storeToEndpointSliceLister{v.Slices},
		podLister:                    indexerToPodLister{v.Pods},
		secretLister:                 v.Secrets,
		policyLister:                 v.Policies,
		ingressLister:                storeToIngressLister{v.Ingress},
		virtualServerLister:          v.VS,
		virtualServerRouteLister:     v.VSR,
		transportServerLister:        v.TS,
		appProtectPolicyLister:       v.ApPol,
		appProtectLogConfLister:      v.ApLog,
		appProtectUserSigLister:      v.ApSig,
		appProtectDosPolicyLister:    v.DosPol,
		appProtectDosLogConfLister:   v.DosLog,
		appProtectDosProtectedLister: v.DosProt,
		isSecretsEnabledNamespace:    true,
		areCustomResourcesEnabled:    true,
		appProtectEnabled:            o.AppProtect,
		appProtectDosEnabled:         o.Dos,
	}
	lbc := &LoadBalancerController{
		ingressClass:              "nginx",
		specialSecrets:            specialSecrets{defaultServerSecret: o.DefaultServerSecret, wildcardTLSSecret: o.WildcardTLSSecret},
		isNginxPlus:               o.Plus,
		appProtectEnabled:         o.AppProtect,
		appProtectDosEnabled:      o.Dos,
		areCustomResourcesEnabled: true,
		enableOIDC:                true,
		isLeaderElectionEnabled:   true, // with a nil leaderElector: status reporting is off
		isNginxReady:              true,
		namespacedInformers:       map[string]*namespacedInformer{"": nsi},
		metricsCollector:          collectors.NewControllerFakeCollector(),
		Logger:                    logger,
		ctx:                       context.Background(),
		recorder:                  v.Recorder,
		secretStore:               o.SecretStore,
		appProtectConfiguration:   o.AppProtectConf,
		dosConfiguration:          appprotectdos.NewConfiguration(o.Dos),
		configurator:              o.Configurator,
		statusUpdater:             &statusUpdater{},
		transportServerValidator:  validation.NewTransportServerValidator(true, true, o.Plus),
		globalConfigurationValidator: validation.NewGlobalConfigurationValidator(map[int]bool{
			80: true, 443: true,
		}),
	}
	if lbc.appProtectConfiguration == nil {
		lbc.appProtectConfiguration = appprotect.NewConfiguration(logger)
	}
	lbc.syncQueue = newTaskQueue(logger, lbc.sync)
	lbc.configuration = NewConfiguration(
		lbc.HasCorrectIngressClass,
		o.Plus, o.AppProtect, o.Dos,
		false, // internalRoutesEnabled
		validation.NewVirtualServerValidator(validation.IsPlus(o.Plus), validation.IsDosEnabled(o.Dos), validation.IsCertManagerEnabled(true)),
		lbc.globalConfigurationValidator,
		lbc.transportServerValidator,
		true,  // isTLSPassthroughEnabled
		true,  // snippetsEnabled
		true,  // isCertManagerEnabled
		false, // isIPV6Disabled
	)
	v.Lbc = lbc
	return v
}

// VerifC15Problem is what the Configuration said about an added resource.
type VerifC15Problem struct {
	Key    string
	Reason string
	Msg    string
}

func verifC15Outcome(changes []ResourceChange, problems []ConfigurationProblem) []VerifC15Problem {
	var out []VerifC15Problem
	for _, c := range changes {
		if c.Error != "" {
			out = append(out, VerifC15Problem{Key: c.Resource.GetKeyWithKind(), Reason: "change-error", Msg: c.Error})
		}
	}
	for _, p := range problems {
		out = append(out, VerifC15Problem{Key: p.Reason, Reason: p.Reason, Msg: p.Message})
	}
	return out
}

// AddIngress etc. hand the object to the real Configuration (validation included).
func (v *VerifC15) AddIngress(ing *networking.Ingress) []VerifC15Problem {
	_ = v.Ingress.Add(ing)
	return verifC15Outcome(v.Lbc.configuration.AddOrUpdateIngress(ing))
}

func (v *VerifC15) AddVirtualServer(vs *conf_v1.VirtualServer) []VerifC15Problem {
	_ = v.VS.Add(vs)
	return verifC15Outcome(v.Lbc.configuration.AddOrUpdateVirtualServer(vs))
}

func (v *VerifC15) AddVirtualServerRoute(vsr *conf_v1.VirtualServerRoute) []VerifC15Problem {
	_ = v.VSR.Add(vsr)
	return verifC15Outcome(v.Lbc.configuration.AddOrUpdateVirtualServerRoute(vsr))
}

func (v *VerifC15) AddTransportServer(ts *conf_v1.TransportServer) []VerifC15Problem {
	_ = v.TS.Add(ts)
	return verifC15Outcome(v.Lbc.configuration.AddOrUpdateTransportServer(ts))
}

// AddGlobalConfiguration installs a GlobalConfiguration (its listeners admit TransportServers).
func (v *VerifC15) AddGlobalConfiguration(gc *conf_v1.GlobalConfiguration) []VerifC15Problem {
	ch, pr, err := v.Lbc.configuration.AddOrUpdateGlobalConfiguration(gc)
	out := verifC15Outcome(ch, pr)
	if err != nil {
		out = append(out, VerifC15Problem{Key: "globalconfiguration", Reason: "error", Msg: err.Error()})
	}
	return out
}

// VerifC15Resource describes one resource the Configuration serves.
type VerifC15Resource struct {
	Key        string          // GetKeyWithKind()
	Kind       string          // ingress | mergeable | vs | ts
	ValidHosts map[string]bool // Ingress
	MinionKeys []string
	MinionPath []map[string]bool // ValidPaths per minion
	VsrKeys    []string          // ns/name of the VirtualServerRoutes attached to a VirtualServer
}

// Resources lists what the Configuration serves (c.hosts and c.listenerHosts).
func (v *VerifC15) Resources() []VerifC15Resource {
	var out []VerifC15Resource
	for _, r := range v.Lbc.configuration.GetResources() {
		d := VerifC15Resource{Key: r.GetKeyWithKind()}
		switch impl := r.(type) {
		case *IngressConfiguration:
			d.Kind = "ingress"
			d.ValidHosts = impl.ValidHosts
			if impl.IsMaster {
				d.Kind = "mergeable"
				for _, m := range impl.Minions {
					d.MinionKeys = append(d.MinionKeys, m.Ingress.Namespace+"/"+m.Ingress.Name)
					d.MinionPath = append(d.MinionPath, m.ValidPaths)
				}
			}
		case *VirtualServerConfiguration:
			d.Kind = "vs"
			for _, vsr := range impl.VirtualServerRoutes {
				d.VsrKeys = append(d.VsrKeys, vsr.Namespace+"/"+vsr.Name)
			}
		case *TransportServerConfiguration:
			d.Kind = "ts"
		}
		out = append(out, d)
	}
	return out
}

func (v *VerifC15) resource(key string) Resource {
	for _, r := range v.Lbc.configuration.GetResources() {
		if r.GetKeyWithKind() == key {
			return r
		}
	}
	return nil
}

// CreateEx runs the real createExtendedResources on the resource with the given key.
func (v *VerifC15) CreateEx(key string) (configs.ExtendedResources, bool) {
	r := v.resource(key)
	if r == nil {
		return configs.ExtendedResources{}, false
	}
	return v.Lbc.createExtendedResources([]Resource{r}), true
}

func verifC15Keys(rs []Resource) []string {
	out := []string{}
	for _, r := range rs {
		out = append(out, r.GetKeyWithKind())
	}
	sort.Strings(out)
	return out
}

// Find runs the real Configuration.FindResourcesFor<what>.
func (v *VerifC15) Find(what, ns, name string) []string {
	c := v.Lbc.configuration
	switch what {
	case "secret":
		return verifC15Keys(c.FindResourcesForSecret(ns, name))
	case "service":
		return verifC15Keys(c.FindResourcesForService(ns, name))
	case "endpoints":
		return verifC15Keys(c.FindResourcesForEndpoints(ns, name))
	case "policy":
		return verifC15Keys(c.FindResourcesForPolicy(ns, name))
	case "appolicy":
		return verifC15Keys(c.FindResourcesForAppProtectPolicyAnnotation(ns, name))
	case "aplogconf":
		return verifC15Keys(c.FindResourcesForAppProtectLogConfAnnotation(ns, name))
	case "dos":
		return verifC15Keys(c.FindResourcesForAppProtectDosProtected(ns, name))
	}
	return nil
}

func verifC15PolKeys(ps []*conf_v1.Policy) []string {
	out := []string{}
	for _, p := range ps {
		out = append(out, p.Namespace+"/"+p.Name)
	}
	sort.Strings(out)
	return out
}

// PoliciesFor runs the real second hop: getPoliciesForSecret / getWAFPoliciesForAppProtectPolicy /
// getWAFPoliciesForAppProtectLogConf over getAllPolicies.
func (v *VerifC15) PoliciesFor(what, ns, name string) []string {
	switch what {
	case "secret":
		return verifC15PolKeys(v.Lbc.getPoliciesForSecret(ns, name))
	case "appolicy":
		return verifC15PolKeys(getWAFPoliciesForAppProtectPolicy(v.Lbc.getAllPolicies(), ns+"/"+name))
	case "aplogconf":
		return verifC15PolKeys(getWAFPoliciesForAppProtectLogConf(v.Lbc.getAllPolicies(), ns+"/"+name))
	}
	return []string{}
}

// RequiresEndpointsUpdate runs the filter syncEndpointSlices applies to the resources
// FindResourcesForService returned (TransportServers are updated unconditionally).
func (v *VerifC15) RequiresEndpointsUpdate(ex configs.ExtendedResources, svcName string) bool {
	for _, e := range ex.IngressExes {
		if v.Lbc.ingressRequiresEndpointsUpdate(e, svcName) {
			return true
		}
	}
	for _, e := range ex.MergeableIngresses {
		if v.Lbc.mergeableIngressRequiresEndpointsUpdate(e, svcName) {
			return true
		}
	}
	for _, e := range ex.VirtualServerExes {
		if v.Lbc.virtualServerRequiresEndpointsUpdate(e, svcName) {
			return true
		}
	}
	return len(ex.TransportServerExes) > 0
}

// PolicyVerdict is what getPolicies / getAllPolicies decide about a stored policy.
func (v *VerifC15) PolicyVerdict(p *conf_v1.Policy) (valid bool, classOK bool) {
	err := validation.ValidatePolicy(p, v.Lbc.isNginxPlus, v.Lbc.enableOIDC, v.Lbc.appProtectEnabled)
	return err == nil, v.Lbc.HasCorrectIngressClass(p)
}

// Dos gives access to the real appprotectdos.Configuration.
func (v *VerifC15) AddDosProtected(d *v1beta1.DosProtectedResource) bool {
	_ = v.DosProt.Add(d)
	ch, _ := v.Lbc.dosConfiguration.AddOrUpdateDosProtectedResource(d)
	for _, c := range ch {
		if c.Op == appprotectdos.Delete {
			return false
		}
	}
	return true
}

func (v *VerifC15) DeleteDosProtected(d *v1beta1.DosProtectedResource) {
	_ = v.DosProt.Delete(d)
	v.Lbc.dosConfiguration.DeleteProtectedResource(d.Namespace + "/" + d.Name)
}

// SetDosPolicy / SetDosLogConf put (obj != nil) or remove an APDosPolicy / APDosLogConf in the real
// appprotectdos.Configuration, without going through the controller.
func (v *VerifC15) SetDosPolicy(key string, obj *unstructured.Unstructured) {
	if obj == nil {
		v.Lbc.dosConfiguration.DeletePolicy(key)
		return
	}
	v.Lbc.dosConfiguration.AddOrUpdatePolicy(obj)
}

func (v *VerifC15) SetDosLogConf(key string, obj *unstructured.Unstructured) {
	if obj == nil {
		v.Lbc.dosConfiguration.DeleteLogConf(key)
		return
	}
	v.Lbc.dosConfiguration.AddOrUpdateLogConf(obj)
}

// DosProtectedFor runs the real GetDosProtectedThatReferencedDosPolicy / ...DosLogConf.
func (v *VerifC15) DosProtectedFor(what, key string) []string {
	var ps []*v1beta1.DosProtectedResource
	switch what {
	case "dospolicy":
		ps = v.Lbc.dosConfiguration.GetDosProtectedThatReferencedDosPolicy(key)
	case "doslogconf":
		ps = v.Lbc.dosConfiguration.GetDosProtectedThatReferencedDosLogConf(key)
	}
	out := []string{}
	for _, p := range ps {
		out = append(out, p.Namespace+"/"+p.Name)
	}
	sort.Strings(out)
	return out
}

// ProbeVsrBackup asks the real serviceReferenceChecker whether the backup Service of a
// VirtualServerRoute upstream is a reference (false on /repo as it is; true with fixes/F19a.diff).
func VerifC15ProbeVsrBackup() bool {
	vsr := &conf_v1.VirtualServerRoute{}
	vsr.Namespace = "probe"
	vsr.Spec.Upstreams = []conf_v1.Upstream{{Name: "u", Service: "main", Backup: "bak"}}
	return newServiceReferenceChecker(false).IsReferencedByVirtualServerRoute("probe", "bak", vsr)
}

// VerifC15ProbeBackupEndpoints asks the real virtualServerRequiresEndpointsUpdate whether an EndpointSlice
// change of the backup Service of an upstream updates the VirtualServer (false on /repo without fixes/F19c.diff).
func VerifC15ProbeBackupEndpoints() bool {
	vs := &conf_v1.VirtualServer{}
	vs.Spec.Upstreams = []conf_v1.Upstream{{Name: "u", Service: "main", Backup: "bak"}}
	lbc := &LoadBalancerController{}
	return lbc.virtualServerRequiresEndpointsUpdate(&configs.VirtualServerEx{VirtualServer: vs}, "bak")
}

// VerifC15ProbeSliceDelete delivers the deletion of an EndpointSlice to the real handler and reports whether a
// task for its Service is queued (false on /repo without fixes/F19b.diff: only the vanished slice is queued).
func VerifC15ProbeSliceDelete() bool {
	v := NewVerifC15(VerifC15Opts{})
	svc := &api_v1.Service{}
	svc.Namespace, svc.Name = "probe", "svc"
	_ = v.Services.Add(svc)
	sl := &discovery_v1.EndpointSlice{}
	sl.Namespace, sl.Name = "probe", "svc-abcde"
	sl.Labels = map[string]string{"kubernetes.io/service-name": "svc"}
	createEndpointSliceHandlers(v.Lbc).DeleteFunc(sl)
	q := v.Lbc.syncQueue.queue
	found := false
	for q.Len() > 0 {
		t, quit := q.Get()
		if quit {
			break
		}
		if t.(task).Kind == service {
			found = true
		}
		q.Done(t)
	}
	return found
}

// VerifC15FieldInventory lists, by reflection over the conf_v1 types reachable from VirtualServer,
// VirtualServerRoute, TransportServer and Policy, every string-typed field (also inside slices, maps and
// pointers) whose name suggests a reference to another object (or whose struct type is a ...Reference), as
// "<StructType>.<Field>"; and the
// annotation constants through which an Ingress names another object.
func VerifC15FieldInventory() []string {
	seen := map[reflect.Type]bool{}
	found := map[string]bool{}
	suggest := []string{"Secret", "Service", "Backup", "Policy", "Policies", "LogConf", "Dos", "Namespace"}
	var walk func(t reflect.Type)
	walk = func(t reflect.Type) {
		switch t.Kind() {
		case reflect.Ptr, reflect.Slice, reflect.Array:
			walk(t.Elem())
			return
		case reflect.Map:
			walk(t.Key())
			walk(t.Elem())
			return
		case reflect.Struct:
		default:
			return
		}
		if seen[t] || !strings.Contains(t.PkgPath(), "pkg/apis/configuration/v1") {
			return
		}
		seen[t] = true
		for i := 0; i < t.NumField(); i++ {
			f := t.Field(i)
			ft := f.Type
			for ft.Kind() == reflect.Ptr || ft.Kind() == reflect.Slice || ft.Kind() == reflect.Array {
				ft = ft.Elem()
			}
			if ft.Kind() == reflect.String && strings.Contains(t.Name(), "Reference") {
				found[t.Name()+"."+f.Name] = true
			} else if ft.Kind() == reflect.String {
				for _, s := range suggest {
					if strings.Contains(f.Name, s) {
						found[t.Name()+"."+f.Name] = true
						break
					}
				}
			}
			walk(f.Type)
		}
	}
	walk(reflect.TypeOf(conf_v1.VirtualServerSpec{}))
	walk(reflect.TypeOf(conf_v1.VirtualServerRouteSpec{}))
	walk(reflect.TypeOf(conf_v1.TransportServerSpec{}))
	walk(reflect.TypeOf(conf_v1.PolicySpec{}))
	// annotations: every key the Ingress validator knows whose name suggests a reference
	asuggest := []string{"secret", "jwt-key", "policy", "security-log", "dos-resource", "service-name", "backup"}
	for name := range verifC15AnnotationNames() {
		if strings.HasSuffix(name, "-enable") || strings.HasSuffix(name, "-destination") {
			continue
		}
		for _, s := range asuggest {
			if strings.Contains(name, s) {
				found["annotation:"+name] = true
				break
			}
		}
	}
	out := make([]string, 0, len(found))
	for k := range found {
		out = append(out, k)
	}
	sort.Strings(out)
	return out
}

// the annotation table of validateIngressAnnotations, with every feature switched on
func verifC15AnnotationNames() map[string]bool {
	out := map[string]bool{}
	for name := range annotationValidations {
		out[name] = true
	}
	return out
}
