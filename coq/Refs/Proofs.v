(* C15 -- Refs/Proofs.v : every dependency [consulted] lists is mapped back by [reaches],
   for resources with unbounded lists of routes / upstreams / policies / paths / minions,
   except in the positions [refuted_pos] names, for which concrete counterexamples are given. *)
From Coq Require Import List String Ascii Bool Arith.
From NIC Require Import Refs.Model.
Import ListNotations.
Open Scope string_scope.
Open Scope list_scope.

(* ------------------------------------------------------------------ strings *)

Lemma ascii_eqb_eq a b : Ascii.eqb a b = true <-> a = b.
Proof. apply Ascii.eqb_eq. Qed.

Lemma contains_append c a b : contains c (String.append a b) = contains c a || contains c b.
Proof. induction a as [|x a IH]; simpl; [reflexivity|]. rewrite IH. apply orb_assoc. Qed.

Lemma contains_key a b : contains slash (key a b) = true.
Proof.
  unfold key. rewrite contains_append. simpl.
  replace (Ascii.eqb "/"%char slash) with true by reflexivity. simpl. apply orb_true_r.
Qed.

(* a key splits in one way only once the namespace and the name on one side are slash-free *)
Lemma key_inj a b c d :
  contains slash c = false -> contains slash d = false -> key a b = key c d -> a = c /\ b = d.
Proof.
  revert c. induction a as [|x a IH]; intros c Hc Hd H.
  - destruct c as [|y c]; simpl in H.
    + unfold key in H. simpl in H. inversion H. auto.
    + unfold key in H. simpl in H. inversion H. subst y.
      simpl in Hc. replace (Ascii.eqb "/"%char slash) with true in Hc by reflexivity. discriminate.
  - destruct c as [|y c].
    + unfold key in H. simpl in H. inversion H. subst x.
      rewrite <- H2 in Hd. change (contains slash (key a b) = false) in Hd. rewrite contains_key in Hd. discriminate.
    + unfold key in H. simpl in H. inversion H. subst y.
      simpl in Hc. apply orb_false_iff in Hc. destruct Hc as [_ Hc].
      destruct (IH c Hc Hd) as [-> ->]; [exact H2|auto].
Qed.

Lemma split_on_none c s : contains c s = false -> split_on c s = [s].
Proof.
  induction s as [|a s IH]; simpl; intros H; [reflexivity|].
  apply orb_false_iff in H. destruct H as [H1 H2]. rewrite H1, (IH H2). reflexivity.
Qed.

Lemma eqb_refl' s : String.eqb s s = true.
Proof. apply String.eqb_refl. Qed.

Lemma valid_no_slash s : valid_name s -> contains slash s = false.
Proof. intros [H _]; exact H. Qed.

Lemma valid_no_comma s : valid_name s -> contains comma s = false.
Proof. intros [_ H]; exact H. Qed.

(* `res == ns+"/"+name || (ns == owner && res == name)` accepts every reference that resolves to the key *)
Lemma ref_matches_nsname owner ref ns name :
  valid_name ns -> valid_name name -> nsname owner ref = key ns name -> ref_matches owner ns name ref = true.
Proof.
  intros Hns Hname H. unfold ref_matches, nsname in *.
  destruct (contains slash ref).
  - subst ref. rewrite eqb_refl'. reflexivity.
  - apply key_inj in H; [|apply valid_no_slash; assumption ..].
    destruct H as [-> ->]. rewrite !eqb_refl'. apply orb_true_r.
Qed.

(* ------------------------------------------------------------------ lists *)

Lemma take_until_fail_In {A} (ok : A -> bool) l x : In x (take_until_fail ok l) -> In x l.
Proof.
  induction l as [|y l IH]; simpl; [auto|].
  destruct (ok y); simpl; intros [H|H]; auto. contradiction.
Qed.

Lemma mem_true k l : In k l -> mem k l = true.
Proof. intros H. unfold mem. apply existsb_exists. exists k. split; [exact H|apply eqb_refl']. Qed.

Lemma opt_is_some s : opt_is (Some s) s = true.
Proof. simpl. apply eqb_refl'. Qed.

(* ------------------------------------------------------------------ cluster well-formedness *)

(* the stored policies are Kubernetes objects: their namespace and name are slash-free *)
Definition cluster_wf (cl : cluster) : Prop :=
  (forall p, In p (cl_policies cl) -> valid_name (p_ns p) /\ valid_name (p_name p)) /\
  (forall d, In d (cl_dos cl) -> valid_name (d_ns d) /\ valid_name (d_name d)).

(* validateMinionSpec rejects a minion with spec.tls, so an attached minion has none *)
Definition resource_wf (r : resource) : Prop :=
  match r with
  | RMergeable _ ms => forall m, In m ms -> i_tls m = []
  | _ => True
  end.

Lemma resource_wfb_ok r : resource_wfb r = true -> resource_wf r.
Proof.
  destruct r as [i|m ms|v|t]; simpl; auto. intros H mi Hmi.
  rewrite forallb_forall in H. specialize (H mi Hmi). destruct (i_tls mi); [reflexivity|discriminate].
Qed.

Definition cluster_wfb (cl : cluster) : bool :=
  forallb (fun p => valid_nameb (p_ns p) && valid_nameb (p_name p)) (cl_policies cl) &&
  forallb (fun d => valid_nameb (d_ns d) && valid_nameb (d_name d)) (cl_dos cl).

(* ------------------------------------------------------------------ policies *)

Lemma get_policies_In cl refs owner pol :
  cluster_wf cl -> In pol (get_policies cl refs owner) ->
  In pol (all_policies cl) /\ is_policy_referenced refs owner (p_ns pol) (p_name pol) = true.
Proof.
  intros WF0 H. destruct WF0 as [WF _]. unfold get_policies in H. apply in_flat_map in H. destruct H as [r [Hr H]].
  destruct (lookup_policy cl (polref_key owner r)) as [q|] eqn:L; [|contradiction].
  destruct (p_class_ok q && p_valid q) eqn:V; [|contradiction].
  destruct H as [H|[]]. subst q.
  unfold lookup_policy in L. apply find_some in L. destruct L as [Hin Heq].
  apply String.eqb_eq in Heq.
  apply andb_true_iff in V. destruct V as [_ V].
  split.
  - unfold all_policies. apply filter_In. split; assumption.
  - destruct (WF pol Hin) as [W1 W2].
    unfold policy_key, polref_key in Heq. symmetry in Heq.
    apply key_inj in Heq; [|apply valid_no_slash; assumption ..].
    destruct Heq as [E1 E2].
    unfold is_policy_referenced. apply existsb_exists. exists r. split; [exact Hr|].
    rewrite E2, E1, !eqb_refl'. reflexivity.
Qed.

Lemma secret_field_key pns s ns name :
  valid_name ns -> valid_name name -> key pns s = key ns name -> pns = ns /\ s = name.
Proof. intros H1 H2 H. apply key_inj in H; [exact H|apply valid_no_slash; assumption ..]. Qed.

Lemma sec_In ks p k ky : In (p, (k, ky)) (sec ks) -> k = KSecret /\ In ky ks.
Proof.
  unfold sec. intros H. apply in_map_iff in H. destruct H as [x [E H]]. inversion E; subst. auto.
Qed.

(* H : (p0, (k0, ky0)) = (p, (k, ky)) with Hk : ky = key ns name  ~~>  Eky : ky0 = key ns name, p and k replaced *)
Ltac dep_inj H Hk Eky :=
  let Ep := fresh "Ep" in let Ek := fresh "Ek" in
  injection H as Ep Ek Eky; rewrite Hk in Eky;
  try (rewrite <- Ep in *); try (rewrite <- Ek in *); try clear Ep; try clear Ek.

Ltac key_split H :=
  apply secret_field_key in H; [destruct H as [? ?]; subst | assumption | assumption].

Lemma mentions_intro ns name pol :
  p_ns pol = ns ->
  (opt_is (p_ingress_mtls pol) name = true \/
   (match p_jwt pol with Some (s, _) => String.eqb s name | None => false end) = true \/
   opt_is (p_basic pol) name = true \/
   (match p_egress_mtls pol with Some (t, c) => String.eqb t name || String.eqb c name | None => false end) = true \/
   opt_is (p_oidc pol) name = true \/
   opt_is (p_apikey pol) name = true) ->
  policy_mentions_secret ns name pol = true.
Proof.
  intros <- H. unfold policy_mentions_secret. rewrite eqb_refl'. simpl.
  destruct H as [H|[H|[H|[H|[H|H]]]]]; rewrite H; repeat rewrite orb_true_r; reflexivity.
Qed.

Lemma policy_hops_witness cl spec pols p k ky ns name :
  valid_name ns -> valid_name name ->
  In (p, (k, ky)) (policy_hops cl spec pols) -> ky = key ns name ->
  match k with
  | KSecret => exists pol, In pol pols /\ policy_mentions_secret ns name pol = true
  | KApPolicy | KApLogConf =>
      exists pol w, In pol pols /\ p_waf pol = Some w /\
        match k with
        | KApPolicy => matching_ref (p_ns pol) (w_ap_policy w) (key ns name) = true
        | _ => (match w_seclog w with Some l => matching_ref (p_ns pol) l (key ns name) | None => false end) ||
               (match w_seclogs w with Some ls => existsb (fun l => matching_ref (p_ns pol) l (key ns name)) ls | None => false end) = true
        end
  | _ => False
  end.
Proof.
  intros Vns Vname H Hk. unfold policy_hops in H.
  repeat (apply in_app_or in H; destruct H as [H|H]).
  - (* jwt *)
    apply sec_In in H. destruct H as [-> H]. apply take_until_fail_In in H.
    unfold jwt_keys in H. apply in_flat_map in H. destruct H as [pol [Hp H]].
    destruct (p_jwt pol) as [[s j]|] eqn:E; [|contradiction]. destruct j; [contradiction|].
    destruct H as [H|[]]. rewrite Hk in H. key_split H.
    exists pol. split; [assumption|]. apply mentions_intro; [reflexivity|].
    right; left. rewrite E. apply eqb_refl'.
  - (* basic *)
    apply sec_In in H. destruct H as [-> H]. apply take_until_fail_In in H.
    unfold basic_keys in H. apply in_flat_map in H. destruct H as [pol [Hp H]].
    destruct (p_basic pol) as [s|] eqn:E; [|contradiction].
    destruct H as [H|[]]. rewrite Hk in H. key_split H.
    exists pol. split; [assumption|]. apply mentions_intro; [reflexivity|].
    right; right; left. rewrite E. apply opt_is_some.
  - (* ingress mtls *)
    destruct spec; [|contradiction].
    apply sec_In in H. destruct H as [-> H].
    unfold ingress_mtls_keys in H.
    destruct (flat_map (fun p0 => match p_ingress_mtls p0 with Some s => [key (p_ns p0) s] | None => [] end) pols) as [|k0 rest] eqn:F;
      [contradiction|].
    destruct H as [H|[]]. subst k0.
    assert (In ky (flat_map (fun p0 => match p_ingress_mtls p0 with Some s => [key (p_ns p0) s] | None => [] end) pols)) as HI
        by (rewrite F; left; reflexivity).
    apply in_flat_map in HI. destruct HI as [pol [Hp H]].
    destruct (p_ingress_mtls pol) as [s|] eqn:E; [|contradiction].
    destruct H as [H|[]]. rewrite Hk in H. key_split H.
    exists pol. split; [assumption|]. apply mentions_intro; [reflexivity|].
    left. rewrite E. apply opt_is_some.
  - (* egress mtls *)
    apply sec_In in H. destruct H as [-> H]. apply take_until_fail_In in H.
    unfold egress_keys in H. apply in_flat_map in H. destruct H as [pol [Hp H]].
    destruct (p_egress_mtls pol) as [[t c]|] eqn:E; [|contradiction].
    apply in_app_or in H. destruct H as [H|H].
    + destruct (nonempty t); [|contradiction]. destruct H as [H|[]]. rewrite Hk in H. key_split H.
      exists pol. split; [assumption|]. apply mentions_intro; [reflexivity|].
      right; right; right; left. rewrite E. rewrite eqb_refl'. reflexivity.
    + destruct (nonempty c); [|contradiction]. destruct H as [H|[]]. rewrite Hk in H. key_split H.
      exists pol. split; [assumption|]. apply mentions_intro; [reflexivity|].
      right; right; right; left. rewrite E. rewrite eqb_refl'. apply orb_true_r.
  - (* oidc *)
    apply sec_In in H. destruct H as [-> H]. apply take_until_fail_In in H.
    unfold oidc_keys in H. apply in_flat_map in H. destruct H as [pol [Hp H]].
    destruct (p_oidc pol) as [s|] eqn:E; [|contradiction].
    destruct H as [H|[]]. rewrite Hk in H. key_split H.
    exists pol. split; [assumption|]. apply mentions_intro; [reflexivity|].
    right; right; right; right; left. rewrite E. apply opt_is_some.
  - (* api key *)
    apply sec_In in H. destruct H as [-> H]. apply take_until_fail_In in H.
    unfold apikey_keys in H. apply in_flat_map in H. destruct H as [pol [Hp H]].
    destruct (p_apikey pol) as [s|] eqn:E; [|contradiction].
    destruct H as [H|[]]. rewrite Hk in H. key_split H.
    exists pol. split; [assumption|]. apply mentions_intro; [reflexivity|].
    right; right; right; right; right. rewrite E. apply opt_is_some.
  - (* waf *)
    apply in_map_iff in H. destruct H as [d [E H]]. injection E as E1 E2. subst d. clear E1.
    apply take_until_fail_In in H. apply in_flat_map in H. destruct H as [pol [Hp H]].
    unfold waf_items in H. destruct (p_waf pol) as [w|] eqn:W; [|contradiction].
    apply in_app_or in H. destruct H as [H|H].
    + destruct (nonempty (w_ap_policy w)); [|contradiction]. destruct H as [H|[]].
      injection H as Ek Eky. subst k. rewrite Hk in Eky.
      exists pol, w. repeat split; try assumption. unfold matching_ref. rewrite Eky. apply eqb_refl'.
    + apply in_app_or in H. destruct H as [H|H].
      * destruct (w_seclog w) as [l|] eqn:SL; [|contradiction].
        destruct (w_seclogs w) eqn:SLS; [contradiction|].
        destruct (nonempty l); [|contradiction]. destruct H as [H|[]].
        injection H as Ek Eky. subst k. rewrite Hk in Eky.
        exists pol, w. repeat split; try assumption. rewrite SL. unfold matching_ref. rewrite Eky, eqb_refl'. reflexivity.
      * destruct (w_seclogs w) as [ls|] eqn:SLS; [|contradiction].
        apply in_flat_map in H. destruct H as [l [Hl H]].
        destruct (nonempty l); [|contradiction]. destruct H as [H|[]].
        injection H as Ek Eky. subst k. rewrite Hk in Eky.
        exists pol, w. repeat split; try assumption. rewrite SLS.
        apply orb_true_iff. right. apply existsb_exists. exists l. split; [assumption|].
        unfold matching_ref. rewrite Eky. apply eqb_refl'.
Qed.

(* a reference list [refs] (of owner namespace [owner]) sits somewhere in resource [r] where the
   policy checker looks *)
Definition refs_seen (refs : list polref) (owner : string) (r : resource) : Prop :=
  forall ns name, is_policy_referenced refs owner ns name = true -> finds policy_checker ns name r = true.

Lemma policy_deps_reach e cl pp spec refs owner r p k ky ns name :
  cluster_wf cl -> refs_seen refs owner r ->
  valid_name ns -> valid_name name ->
  In (p, (k, ky)) (policy_deps cl pp spec refs owner) -> ky = key ns name ->
  reaches e cl k ns name r = true.
Proof.
  intros WF Seen Vns Vname H Hk. unfold policy_deps in H. apply in_app_or in H. destruct H as [H|H].
  - (* the policy itself *)
    apply in_map_iff in H. destruct H as [rf [E Hr]]. dep_inj E Hk Eky.
    simpl. apply Seen. unfold polref_key in Eky.
    apply key_inj in Eky; [|apply valid_no_slash; assumption ..]. destruct Eky as [E1 E2].
    unfold is_policy_referenced. apply existsb_exists. exists rf. split; [assumption|].
    rewrite E1, E2, !eqb_refl'. reflexivity.
  - (* one hop further *)
    pose proof (policy_hops_witness _ _ _ _ _ _ _ _ Vns Vname H Hk) as W.
    destruct k; try contradiction.
    + destruct W as [pol [Hp M]]. apply (get_policies_In _ _ _ _ WF) in Hp. destruct Hp as [Hall Href].
      simpl. apply orb_true_iff. right. unfold via_policies. apply existsb_exists. exists pol. split.
      * unfold policies_for_secret. apply filter_In. split; assumption.
      * apply Seen. exact Href.
    + destruct W as [pol [w [Hp [Hw M]]]]. apply (get_policies_In _ _ _ _ WF) in Hp. destruct Hp as [Hall Href].
      simpl. apply orb_true_iff. right. unfold via_policies. apply existsb_exists. exists pol. split.
      * unfold waf_policies_for. apply filter_In. split; [assumption|]. rewrite Hw. exact M.
      * apply Seen. exact Href.
    + destruct W as [pol [w [Hp [Hw M]]]]. apply (get_policies_In _ _ _ _ WF) in Hp. destruct Hp as [Hall Href].
      simpl. apply orb_true_iff. right. unfold via_policies. apply existsb_exists. exists pol. split.
      * unfold waf_policies_for. apply filter_In. split; [assumption|]. rewrite Hw. exact M.
      * apply Seen. exact Href.
Qed.

(* the DoS chain: the DosProtectedResource itself, then its APDosPolicy / APDosLogConf *)
Lemma dos_chain_kinds cl pd owner ref p k ky :
  In (p, (k, ky)) (dos_chain cl pd owner ref) ->
  (p = pd /\ k = KDos) \/ (p = PDosHop /\ (k = KDosPolicy \/ k = KDosLogConf)).
Proof.
  unfold dos_chain. intros [H|H].
  - injection H as <- <- _. left. auto.
  - right. unfold dos_hops in H. destruct (lookup_dos cl (nsname owner ref)) as [d|]; [|contradiction].
    destruct (d_valid d); [|contradiction].
    apply in_map_iff in H. destruct H as [x [E H]]. injection E as <- E. subst x.
    apply take_until_fail_In in H. unfold dos_hop_items in H. apply in_app_or in H. destruct H as [H|H].
    + destruct (nonempty (d_policy d)); [|contradiction]. destruct H as [H|[]]. injection H as <- _. auto.
    + destruct (d_logconf d) as [l|]; [|contradiction]. destruct (nonempty l); [|contradiction].
      destruct H as [H|[]]. injection H as <- _. auto.
Qed.

Lemma dos_dep_kinds cl pd owner ref p k ky :
  In (p, (k, ky)) (dos_dep cl pd owner ref) ->
  (p = pd /\ k = KDos) \/ (p = PDosHop /\ (k = KDosPolicy \/ k = KDosLogConf)).
Proof. unfold dos_dep. destruct (nonempty ref); [apply dos_chain_kinds|contradiction]. Qed.

Lemma dos_ref_matches_nsname d ref ky : nsname (d_ns d) ref = ky -> dos_ref_matches d ref ky = true.
Proof.
  unfold nsname, dos_ref_matches. destruct (contains slash ref); intros <-; rewrite eqb_refl'; [reflexivity|apply orb_true_r].
Qed.

Lemma dos_chain_cases cl pd owner ref p k ky ns name :
  cluster_wf cl -> valid_name ns -> valid_name name ->
  In (p, (k, ky)) (dos_chain cl pd owner ref) -> ky = key ns name ->
  (k = KDos /\ ref_matches owner ns name ref = true) \/
  ((k = KDosPolicy \/ k = KDosLogConf) /\
   exists d, In d (dos_referencing cl k (key ns name)) /\ ref_matches owner (d_ns d) (d_name d) ref = true).
Proof.
  intros WF0 Vns Vname H Hk. destruct WF0 as [_ WF]. unfold dos_chain in H. destruct H as [H|H].
  - left. injection H as _ <- E. split; [reflexivity|]. apply ref_matches_nsname; try assumption. rewrite E. exact Hk.
  - right. unfold dos_hops in H. destruct (lookup_dos cl (nsname owner ref)) as [d|] eqn:L; [|contradiction].
    unfold lookup_dos in L. apply find_some in L. destruct L as [Hin Heq]. apply String.eqb_eq in Heq.
    destruct (WF d Hin) as [W1 W2].
    assert (ref_matches owner (d_ns d) (d_name d) ref = true) as RM
        by (apply ref_matches_nsname; try assumption; symmetry; exact Heq).
    destruct (d_valid d); [|contradiction].
    apply in_map_iff in H. destruct H as [x [E H]]. injection E as _ E. subst x.
    apply take_until_fail_In in H. unfold dos_hop_items in H. apply in_app_or in H. destruct H as [H|H].
    + destruct (nonempty (d_policy d)); [|contradiction]. destruct H as [H|[]]. injection H as <- E.
      split; [auto|]. exists d. split; [|exact RM]. unfold dos_referencing. apply filter_In. split; [exact Hin|].
      apply dos_ref_matches_nsname. rewrite E. exact Hk.
    + destruct (d_logconf d) as [l|] eqn:DL; [|contradiction]. destruct (nonempty l); [|contradiction].
      destruct H as [H|[]]. injection H as <- E.
      split; [auto|]. exists d. split; [|exact RM]. unfold dos_referencing. apply filter_In. split; [exact Hin|].
      rewrite DL. apply dos_ref_matches_nsname. rewrite E. exact Hk.
Qed.

Lemma dos_dep_reach e cl pd owner ref r p k ky ns name :
  cluster_wf cl ->
  (forall ns name, ref_matches owner ns name ref = true -> finds dos_checker ns name r = true) ->
  valid_name ns -> valid_name name ->
  In (p, (k, ky)) (dos_dep cl pd owner ref) -> ky = key ns name ->
  reaches e cl k ns name r = true.
Proof.
  intros WF Seen Vns Vname H Hk. unfold dos_dep in H. destruct (nonempty ref); [|contradiction].
  destruct (dos_chain_cases _ _ _ _ _ _ _ _ _ WF Vns Vname H Hk) as [[-> RM]|[K [d [Hd RM]]]].
  - simpl. apply Seen. exact RM.
  - assert (via_dos (dos_referencing cl k (key ns name)) r = true) as V
        by (unfold via_dos; apply existsb_exists; exists d; split; [exact Hd|apply Seen; exact RM]).
    destruct K as [->| ->]; exact V.
Qed.

Lemma endpoints_dep_In cl pp ky0 p k ky :
  In (p, (k, ky)) (endpoints_dep cl pp ky0) -> p = pp /\ k = KEndpoints /\ ky = ky0.
Proof.
  unfold endpoints_dep. destruct (svc_of cl ky0) as [[|]|]; try contradiction.
  intros [H|[]]. inversion H; auto.
Qed.

(* ------------------------------------------------------------------ VirtualServer *)

Lemma upstream_cases cl pu pb ns0 bns u p k ky :
  In (p, (k, ky)) (upstream_deps cl pu pb ns0 bns u) ->
  (p = pu /\ k = KService /\ ky = key ns0 (u_service u)) \/
  (p = pu /\ k = KEndpoints /\ ky = key ns0 (u_service u) /\ u_use_cluster_ip u = false) \/
  (p = pb /\ (k = KService \/ k = KEndpoints) /\ ky = key bns (u_backup u)).
Proof.
  unfold upstream_deps. intros [H|H].
  - inversion H. left. auto.
  - apply in_app_or in H. destruct H as [H|H].
    + destruct (u_use_cluster_ip u) eqn:C; [contradiction|].
      apply endpoints_dep_In in H. destruct H as [-> [-> ->]]. right; left. auto.
    + destruct (nonempty (u_backup u) && u_backup_port u); [|contradiction].
      destruct H as [H|H].
      * inversion H. right; right. auto.
      * apply endpoints_dep_In in H. destruct H as [-> [-> ->]]. right; right. auto.
Qed.

Lemma route_deps_reach e cl pp pd owner rt r p k ky ns name :
  cluster_wf cl -> refs_seen (rt_policies rt) owner r ->
  (forall ns name, ref_matches owner ns name (rt_dos rt) = true -> finds dos_checker ns name r = true) ->
  valid_name ns -> valid_name name ->
  In (p, (k, ky)) (route_deps cl pp pd owner rt) -> ky = key ns name ->
  reaches e cl k ns name r = true.
Proof.
  intros WF Seen SeenDos Vns Vname H Hk. unfold route_deps in H. apply in_app_or in H. destruct H as [H|H].
  - eapply policy_deps_reach; eassumption.
  - eapply dos_dep_reach; eassumption.
Qed.

Lemma existsb_intro {A} (f : A -> bool) l x : In x l -> f x = true -> existsb f l = true.
Proof. intros. apply existsb_exists. exists x. auto. Qed.

Theorem vs_reach e cl v p k ky ns name :
  cluster_wf cl -> valid_name ns -> valid_name name ->
  In (p, (k, ky)) (consulted_vs e cl v) -> refuted_pos e p k = false -> ky = key ns name ->
  reaches e cl k ns name (RVS v) = true.
Proof.
  intros WF Vns Vname H NR Hk. unfold consulted_vs in H.
  apply in_app_or in H. destruct H as [H|H].
  { (* TLS *)
    destruct (vs_tls v) as [s|] eqn:T; [|contradiction]. destruct (nonempty s); [|contradiction].
    destruct H as [H|[]]. dep_inj H Hk Eky.
    apply secret_field_key in Eky; try assumption. destruct Eky as [E1 E2].
    simpl. rewrite T, E1, E2. simpl. rewrite !eqb_refl'. reflexivity. }
  apply in_app_or in H. destruct H as [H|H].
  { (* spec policies *)
    eapply policy_deps_reach; try eassumption.
    intros n1 n2 R. simpl. rewrite R. reflexivity. }
  apply in_app_or in H. destruct H as [H|H].
  { (* spec dos *)
    eapply dos_dep_reach; try eassumption.
    intros n1 n2 R. simpl. rewrite R. reflexivity. }
  apply in_app_or in H. destruct H as [H|H].
  { (* upstreams *)
    apply in_flat_map in H. destruct H as [u [Hu H]]. apply upstream_cases in H.
    destruct H as [[-> [-> E]]|[[-> [-> [E C]]]|[-> [[->| ->] E]]]]; rewrite Hk in E; symmetry in E;
      apply secret_field_key in E; try assumption; destruct E as [E1 E2].
    - simpl. rewrite E1, eqb_refl'. simpl. apply orb_true_iff. left.
      eapply existsb_intro; [exact Hu|]. simpl. rewrite E2, eqb_refl'. reflexivity.
    - simpl. rewrite E1, eqb_refl'. simpl. apply andb_true_iff. split.
      + apply orb_true_iff. left. eapply existsb_intro; [exact Hu|]. simpl. rewrite E2, eqb_refl'. reflexivity.
      + apply orb_true_iff. left. eapply existsb_intro; [exact Hu|].
        unfold upstream_requires_update. rewrite E2, eqb_refl', C. reflexivity.
    - simpl. rewrite E1, eqb_refl'. simpl. apply orb_true_iff. left.
      eapply existsb_intro; [exact Hu|]. simpl. rewrite E2, eqb_refl'. apply orb_true_r.
    - (* endpoints of the backup Service: only with fixes/F19c.diff *)
      simpl in NR. apply negb_false_iff in NR.
      simpl. rewrite E1, eqb_refl'. simpl. apply andb_true_iff. split.
      + apply orb_true_iff. left. eapply existsb_intro; [exact Hu|]. simpl. rewrite E2, eqb_refl'. apply orb_true_r.
      + apply orb_true_iff. left. eapply existsb_intro; [exact Hu|].
        unfold upstream_requires_update. rewrite NR, E2, eqb_refl'. apply orb_true_r. }
  apply in_app_or in H. destruct H as [H|H].
  { (* routes *)
    apply in_flat_map in H. destruct H as [rt [Hrt H]].
    eapply route_deps_reach; try eassumption.
    - intros n1 n2 R. simpl. apply orb_true_iff. left. apply orb_true_iff. right.
      eapply existsb_intro; [exact Hrt|exact R].
    - intros n1 n2 R. simpl. apply orb_true_iff. left. apply orb_true_iff. right.
      eapply existsb_intro; [exact Hrt|exact R]. }
  (* VirtualServerRoutes *)
  apply in_flat_map in H. destruct H as [vr [Hvr H]]. unfold vsr_deps in H.
  apply in_app_or in H. destruct H as [H|H].
  { apply in_flat_map in H. destruct H as [rt [Hrt H]].
    eapply route_deps_reach; try eassumption.
    - intros n1 n2 R. simpl. apply orb_true_iff. right.
      eapply existsb_intro; [exact Hvr|]. simpl. eapply existsb_intro; [exact Hrt|exact R].
    - intros n1 n2 R. simpl. apply orb_true_iff. right.
      eapply existsb_intro; [exact Hvr|]. simpl. eapply existsb_intro; [exact Hrt|exact R]. }
  apply in_flat_map in H. destruct H as [u [Hu H]]. apply upstream_cases in H.
  destruct H as [[-> [-> E]]|[[-> [-> [E C]]]|[-> [[->| ->] E]]]].
  - rewrite Hk in E. symmetry in E. apply secret_field_key in E; try assumption. destruct E as [E1 E2].
    simpl. apply orb_true_iff. right. eapply existsb_intro; [exact Hvr|]. simpl.
    rewrite E1, eqb_refl'. simpl. eapply existsb_intro; [exact Hu|]. simpl. rewrite E2, eqb_refl'. reflexivity.
  - rewrite Hk in E. symmetry in E. apply secret_field_key in E; try assumption. destruct E as [E1 E2].
    simpl. apply andb_true_iff. split.
    + apply orb_true_iff. right. eapply existsb_intro; [exact Hvr|]. simpl.
      rewrite E1, eqb_refl'. simpl. eapply existsb_intro; [exact Hu|]. simpl. rewrite E2, eqb_refl'. reflexivity.
    + apply orb_true_iff. right. eapply existsb_intro; [exact Hvr|]. simpl.
      eapply existsb_intro; [exact Hu|]. unfold upstream_requires_update. rewrite E2, eqb_refl', C. reflexivity.
  - simpl in NR. apply negb_false_iff in NR. rewrite NR in E.
    rewrite Hk in E. symmetry in E. apply secret_field_key in E; try assumption. destruct E as [E1 E2].
    simpl. apply orb_true_iff. right. eapply existsb_intro; [exact Hvr|]. simpl.
    rewrite E1, eqb_refl'. simpl. eapply existsb_intro; [exact Hu|]. simpl. rewrite NR, E2, eqb_refl'. simpl. apply orb_true_r.
  - (* endpoints of the backup Service: only with fixes/F19c.diff and fixes/F19a.diff *)
    simpl in NR. apply negb_false_iff in NR. apply andb_true_iff in NR. destruct NR as [NC NA]. rewrite NA in E.
    rewrite Hk in E. symmetry in E. apply secret_field_key in E; try assumption. destruct E as [E1 E2].
    simpl. apply andb_true_iff. split.
    + apply orb_true_iff. right. eapply existsb_intro; [exact Hvr|]. simpl.
      rewrite E1, eqb_refl'. simpl. eapply existsb_intro; [exact Hu|]. simpl. rewrite NA, E2, eqb_refl'. simpl. apply orb_true_r.
    + apply orb_true_iff. right. eapply existsb_intro; [exact Hvr|]. simpl.
      eapply existsb_intro; [exact Hu|]. unfold upstream_requires_update. rewrite NC, E2, eqb_refl'. apply orb_true_r.
Qed.

(* ------------------------------------------------------------------ TransportServer *)

Theorem ts_reach e cl t p k ky ns name :
  valid_name ns -> valid_name name ->
  In (p, (k, ky)) (consulted_ts cl t) -> ky = key ns name ->
  reaches e cl k ns name (RTS t) = true.
Proof.
  intros Vns Vname H Hk. unfold consulted_ts in H. apply in_app_or in H. destruct H as [H|H].
  - apply in_flat_map in H. destruct H as [u [Hu H]]. unfold ts_upstream_deps in H.
    destruct H as [H|H].
    { dep_inj H Hk Eky. apply secret_field_key in Eky; try assumption. destruct Eky as [E1 E2].
      simpl. rewrite E1, eqb_refl'. simpl. eapply existsb_intro; [exact Hu|]. rewrite E2, eqb_refl'. reflexivity. }
    apply in_app_or in H. destruct H as [H|H].
    { apply endpoints_dep_In in H. destruct H as [-> [-> E]]. rewrite Hk in E. symmetry in E.
      apply secret_field_key in E; try assumption. destruct E as [E1 E2].
      simpl. rewrite E1, eqb_refl'. simpl. rewrite andb_true_r.
      eapply existsb_intro; [exact Hu|]. rewrite E2, eqb_refl'. reflexivity. }
    destruct (nonempty (tu_backup u) && tu_backup_port u); [|contradiction].
    destruct H as [H|H].
    { dep_inj H Hk Eky. apply secret_field_key in Eky; try assumption. destruct Eky as [E1 E2].
      simpl. rewrite E1, eqb_refl'. simpl. eapply existsb_intro; [exact Hu|]. rewrite E2, eqb_refl'. apply orb_true_r. }
    apply endpoints_dep_In in H. destruct H as [-> [-> E]]. rewrite Hk in E. symmetry in E.
    apply secret_field_key in E; try assumption. destruct E as [E1 E2].
    simpl. rewrite E1, eqb_refl'. simpl. rewrite andb_true_r.
    eapply existsb_intro; [exact Hu|]. rewrite E2, eqb_refl'. apply orb_true_r.
  - destruct (ts_tls t) as [s|] eqn:T; [|contradiction]. destruct (nonempty s); [|contradiction].
    destruct H as [H|[]]. dep_inj H Hk Eky.
    apply secret_field_key in Eky; try assumption. destruct Eky as [E1 E2].
    simpl. rewrite T, E1, E2. simpl. rewrite !eqb_refl'. reflexivity.
Qed.

(* ------------------------------------------------------------------ Ingress *)

Lemma backend_cases cl pp i svc p k ky :
  In (p, (k, ky)) (backend_deps cl pp i svc) ->
  ky = key (i_ns i) svc /\ (k = KService \/ (k = KEndpoints /\ i_use_cluster_ip i = false)).
Proof.
  unfold backend_deps. intros [H|H].
  - inversion H. auto.
  - destruct (i_use_cluster_ip i) eqn:C; [contradiction|].
    apply endpoints_dep_In in H. destruct H as [_ [-> ->]]. auto.
Qed.

(* what one Ingress contributes, as master / regular Ingress (minion = false) or as a minion *)
Definition ing_goal (e : env) (cl : cluster) (minion : bool) (k : kind) (ns name : string) (i : ingress) : Prop :=
  match k with
  | KSecret => (if minion then ck_minion (secret_checker e) ns name i else ck_ing (secret_checker e) ns name i) = true
  | KService => ck_ing (service_checker e false) ns name i = true
  | KEndpoints => ck_ing (service_checker e false) ns name i = true /\ ing_requires_update name i = true
  | KApPolicy => minion = false /\ ck_ing (ap_checker i_ap_policy) ns name i = true
  | KApLogConf => minion = false /\ ck_ing (ap_checker i_ap_logconf) ns name i = true
  | KDos => minion = false /\ ck_ing dos_checker ns name i = true
  | KDosPolicy | KDosLogConf =>
      minion = false /\
      existsb (fun d => ck_ing dos_checker (d_ns d) (d_name d) i) (dos_referencing cl k (key ns name)) = true
  | KPolicy => False
  end.

Lemma ing_service_goal e cl minion i svc k ky ns name :
  valid_name ns -> valid_name name ->
  ing_services svc i = true ->
  ky = key (i_ns i) svc -> (k = KService \/ (k = KEndpoints /\ i_use_cluster_ip i = false)) -> ky = key ns name ->
  ing_goal e cl minion k ns name i.
Proof.
  intros Vns Vname Hs E K Hk. rewrite Hk in E. symmetry in E. apply secret_field_key in E; try assumption.
  destruct E as [E1 E2]. subst svc.
  destruct K as [->|[-> C]]; simpl.
  - rewrite E1, eqb_refl', Hs. reflexivity.
  - rewrite E1, eqb_refl', Hs. split; [reflexivity|]. unfold ing_requires_update. rewrite C, Hs. reflexivity.
Qed.

Theorem ing_reach e cl minion i p k ky ns name :
  cluster_wf cl -> valid_name ns -> valid_name name -> (minion = true -> i_tls i = []) ->
  In (p, (k, ky)) (consulted_ing e cl minion i) -> ky = key ns name ->
  ing_goal e cl minion k ns name i.
Proof.
  intros WF Vns Vname Htls H Hk. unfold consulted_ing in H.
  apply in_app_or in H. destruct H as [H|H].
  { (* TLS *)
    apply in_map_iff in H. destruct H as [s [E Hs]]. dep_inj E Hk Eky.
    apply secret_field_key in Eky; try assumption. destruct Eky as [E1 E2]. subst s.
    destruct minion.
    - rewrite (Htls eq_refl) in Hs. contradiction.
    - simpl. rewrite E1, eqb_refl', (mem_true _ _ Hs). reflexivity. }
  apply in_app_or in H. destruct H as [H|H].
  { (* basic auth annotation *)
    destruct (i_basic i) as [s|] eqn:B; [|contradiction]. destruct H as [H|[]]. dep_inj H Hk Eky.
    apply secret_field_key in Eky; try assumption. destruct Eky as [E1 E2]. subst s.
    assert (secret_annotations e name i = true) as SA
        by (unfold secret_annotations; rewrite B, opt_is_some; apply orb_true_r).
    destruct minion; simpl; rewrite E1, eqb_refl', SA; [reflexivity|apply orb_true_r]. }
  apply in_app_or in H. destruct H as [H|H].
  { destruct (plus e) eqn:P; [|contradiction].
    apply in_app_or in H. destruct H as [H|H].
    { (* jwt annotation *)
      destruct (i_jwt i) as [s|] eqn:J; [|contradiction]. destruct H as [H|[]]. dep_inj H Hk Eky.
      apply secret_field_key in Eky; try assumption. destruct Eky as [E1 E2]. subst s.
      assert (secret_annotations e name i = true) as SA
          by (unfold secret_annotations; rewrite P, J, opt_is_some; reflexivity).
      destruct minion; simpl; rewrite E1, eqb_refl', SA; [reflexivity|apply orb_true_r]. }
    apply in_app_or in H. destruct H as [H|H].
    { (* app protect annotations *)
      destruct (ap_enabled e && negb minion) eqn:A; [|contradiction].
      apply andb_true_iff in A. destruct A as [_ A]. apply negb_true_iff in A. subst minion.
      apply in_app_or in H. destruct H as [H|H].
      - destruct (i_ap_policy i) as [v|] eqn:AP; [|contradiction]. destruct H as [H|[]]. dep_inj H Hk Eky.
        simpl. split; [reflexivity|]. rewrite AP.
        (* the annotation resolves to the key of an object with a comma-free name: it has no comma itself *)
        assert (contains comma v = false) as NC.
        { unfold nsname in Eky. destruct (contains slash v).
          - subst v. unfold key. rewrite contains_append. simpl.
            rewrite (valid_no_comma _ Vns), (valid_no_comma _ Vname). reflexivity.
          - apply secret_field_key in Eky; try assumption. destruct Eky as [_ ->]. apply valid_no_comma; assumption. }
        rewrite (split_on_none _ _ NC). simpl. rewrite orb_false_r.
        apply ref_matches_nsname; assumption.
      - destruct (i_ap_logconf i) as [v|] eqn:AL; [|contradiction].
        destruct (i_ap_logdst i) as [d|]; [|contradiction].
        destruct (Nat.eqb (List.length (split_on comma v)) (List.length (split_on comma d))); [|contradiction].
        apply in_map_iff in H. destruct H as [x [E H]]. injection E as Ep Ex. subst x p.
        apply take_until_fail_In in H. apply in_map_iff in H. destruct H as [c [E Hc]].
        injection E as Ek Eky. rewrite Hk in Eky. subst k.
        simpl. split; [reflexivity|]. rewrite AL. eapply existsb_intro; [exact Hc|].
        apply ref_matches_nsname; assumption. }
    (* dos annotation *)
    destruct (dos_enabled e && negb minion) eqn:A; [|contradiction].
    apply andb_true_iff in A. destruct A as [_ A]. apply negb_true_iff in A. subst minion.
    destruct (i_dos i) as [v|] eqn:D; [|contradiction].
    destruct (dos_chain_cases _ _ _ _ _ _ _ _ _ WF Vns Vname H Hk) as [[-> RM]|[K [d [Hd RM]]]].
    - simpl. split; [reflexivity|]. rewrite D. exact RM.
    - assert (existsb (fun d0 => ck_ing dos_checker (d_ns d0) (d_name d0) i) (dos_referencing cl k (key ns name)) = true) as V
          by (apply existsb_exists; exists d; split; [exact Hd|simpl; rewrite D; exact RM]).
      destruct K as [->| ->]; simpl; auto. }
  apply in_app_or in H. destruct H as [H|H].
  { (* default backend *)
    destruct (i_default i) as [s|] eqn:DB; [|contradiction].
    apply backend_cases in H. destruct H as [E K].
    eapply ing_service_goal; try eassumption.
    unfold ing_services. rewrite DB, opt_is_some. reflexivity. }
  (* path backends *)
  apply in_flat_map in H. destruct H as [rl [Hrl H]].
  destruct (ir_host_valid rl); [|contradiction].
  destruct (ir_paths rl) as [ps|] eqn:PS; [|contradiction].
  apply in_flat_map in H. destruct H as [pa [Hpa H]].
  destruct (ip_valid pa); [|contradiction].
  apply backend_cases in H. destruct H as [E K].
  eapply ing_service_goal; try eassumption.
  unfold ing_services. apply orb_true_iff. right.
  eapply existsb_intro; [exact Hrl|]. rewrite PS. eapply existsb_intro; [exact Hpa|]. apply eqb_refl'.
Qed.

(* ------------------------------------------------------------------ the main theorem *)

Theorem consulted_reachable_partial :
  forall e cl r p k ky ns name,
    cluster_wf cl -> resource_wf r -> valid_name ns -> valid_name name ->
    In (p, (k, ky)) (consulted e cl r) -> refuted_pos e p k = false -> ky = key ns name ->
    reaches e cl k ns name r = true.
Proof.
  intros e cl r p k ky ns name WF RWF Vns Vname H NR Hk. destruct r as [i|m ms|v|t]; simpl in H.
  - pose proof (ing_reach e cl false i p k ky ns name WF Vns Vname (fun X => ltac:(discriminate X)) H Hk) as G.
    destruct k; simpl in G |- *.
    + rewrite G. reflexivity.
    + exact G.
    + destruct G as [G1 G2]. rewrite G1, G2. reflexivity.
    + contradiction.
    + destruct G as [_ G]. rewrite G. reflexivity.
    + destruct G as [_ G]. rewrite G. reflexivity.
    + destruct G as [_ G]. exact G.
    + destruct G as [_ G]. exact G.
    + destruct G as [_ G]. exact G.
  - apply in_app_or in H. destruct H as [H|H].
    + pose proof (ing_reach e cl false m p k ky ns name WF Vns Vname (fun X => ltac:(discriminate X)) H Hk) as G.
      destruct k; simpl in G |- *.
      * rewrite G. reflexivity.
      * rewrite G. reflexivity.
      * destruct G as [G1 G2]. rewrite G1, G2. simpl. apply orb_true_r.
      * contradiction.
      * destruct G as [_ G]. rewrite G. reflexivity.
      * destruct G as [_ G]. rewrite G. reflexivity.
      * destruct G as [_ G]. rewrite G. reflexivity.
      * destruct G as [_ G]. apply existsb_exists in G. destruct G as [d [Hd G]].
        unfold via_dos. apply existsb_exists. exists d. split; [exact Hd|]. simpl. simpl in G. rewrite G. reflexivity.
      * destruct G as [_ G]. apply existsb_exists in G. destruct G as [d [Hd G]].
        unfold via_dos. apply existsb_exists. exists d. split; [exact Hd|]. simpl. simpl in G. rewrite G. reflexivity.
    + apply in_flat_map in H. destruct H as [mi [Hmi H]].
      pose proof (ing_reach e cl true mi p k ky ns name WF Vns Vname (fun _ => RWF mi Hmi) H Hk) as G.
      destruct k; simpl in G |- *.
      * apply orb_true_iff. left. apply orb_true_iff. right. eapply existsb_intro; [exact Hmi|exact G].
      * apply orb_true_iff. right. eapply existsb_intro; [exact Hmi|exact G].
      * destruct G as [G1 G2]. apply andb_true_iff. split.
        -- apply orb_true_iff. right. eapply existsb_intro; [exact Hmi|exact G1].
        -- apply orb_true_iff. left. eapply existsb_intro; [exact Hmi|exact G2].
      * contradiction.
      * destruct G as [G _]. discriminate.
      * destruct G as [G _]. discriminate.
      * destruct G as [G _]. discriminate.
      * destruct G as [G _]. discriminate.
      * destruct G as [G _]. discriminate.
  - eapply vs_reach; eassumption.
  - eapply ts_reach; eassumption.
Qed.

(* no refuted position occurs in an Ingress, a master with minions or a TransportServer: there the
   full statement holds *)
Lemma ing_positions e cl minion i p k ky :
  In (p, (k, ky)) (consulted_ing e cl minion i) -> refuted_pos e p k = false.
Proof.
  intros H. unfold consulted_ing in H.
  repeat (apply in_app_or in H; destruct H as [H|H]).
  - apply in_map_iff in H. destruct H as [s [E _]]. injection E as <- <- _. reflexivity.
  - destruct (i_basic i); [|contradiction]. destruct H as [H|[]]. injection H as <- <- _. reflexivity.
  - destruct (plus e); [|contradiction].
    repeat (apply in_app_or in H; destruct H as [H|H]).
    + destruct (i_jwt i); [|contradiction]. destruct H as [H|[]]. injection H as <- <- _. reflexivity.
    + destruct (ap_enabled e && negb minion); [|contradiction].
      apply in_app_or in H. destruct H as [H|H].
      * destruct (i_ap_policy i); [|contradiction]. destruct H as [H|[]]. injection H as <- <- _. reflexivity.
      * destruct (i_ap_logconf i); [|contradiction]. destruct (i_ap_logdst i); [|contradiction].
        destruct (Nat.eqb _ _); [|contradiction].
        apply in_map_iff in H. destruct H as [x [E _]]. injection E as <- E. destruct x. injection E as <- _. reflexivity.
    + destruct (dos_enabled e && negb minion); [|contradiction].
      destruct (i_dos i); [|contradiction].
      apply dos_chain_kinds in H. destruct H as [[-> ->]|[-> [->| ->]]]; reflexivity.
  - destruct (i_default i); [|contradiction]. unfold backend_deps in H. destruct H as [H|H].
    + injection H as <- <- _. reflexivity.
    + destruct (i_use_cluster_ip i); [contradiction|]. apply endpoints_dep_In in H. destruct H as [-> [-> _]]. reflexivity.
  - apply in_flat_map in H. destruct H as [rl [_ H]]. destruct (ir_host_valid rl); [|contradiction].
    destruct (ir_paths rl); [|contradiction]. apply in_flat_map in H. destruct H as [pa [_ H]].
    destruct (ip_valid pa); [|contradiction]. unfold backend_deps in H. destruct H as [H|H].
    + injection H as <- <- _. reflexivity.
    + destruct (i_use_cluster_ip i); [contradiction|]. apply endpoints_dep_In in H. destruct H as [-> [-> _]]. reflexivity.
Qed.

Lemma ts_positions e cl t p k ky :
  In (p, (k, ky)) (consulted_ts cl t) -> refuted_pos e p k = false.
Proof.
  intros H. unfold consulted_ts in H. apply in_app_or in H. destruct H as [H|H].
  - apply in_flat_map in H. destruct H as [u [_ H]]. unfold ts_upstream_deps in H. destruct H as [H|H].
    + injection H as <- <- _. reflexivity.
    + apply in_app_or in H. destruct H as [H|H].
      * apply endpoints_dep_In in H. destruct H as [-> [-> _]]. reflexivity.
      * destruct (nonempty (tu_backup u) && tu_backup_port u); [|contradiction]. destruct H as [H|H].
        -- injection H as <- <- _. reflexivity.
        -- apply endpoints_dep_In in H. destruct H as [-> [-> _]]. reflexivity.
  - destruct (ts_tls t) as [s|]; [|contradiction]. destruct (nonempty s); [|contradiction].
    destruct H as [H|[]]. injection H as <- <- _. reflexivity.
Qed.

Definition not_vs (r : resource) : Prop := match r with RVS _ => False | _ => True end.

Theorem consulted_reachable_ingress_ts :
  forall e cl r p k ky ns name,
    not_vs r -> cluster_wf cl -> resource_wf r -> valid_name ns -> valid_name name ->
    In (p, (k, ky)) (consulted e cl r) -> ky = key ns name ->
    reaches e cl k ns name r = true.
Proof.
  intros e cl r p k ky ns name NV WF RWF Vns Vname H Hk.
  eapply consulted_reachable_partial; try eassumption.
  destruct r as [i|m ms|v|t]; simpl in H.
  - eapply ing_positions; eassumption.
  - apply in_app_or in H. destruct H as [H|H]; [eapply ing_positions; eassumption|].
    apply in_flat_map in H. destruct H as [mi [_ H]]. eapply ing_positions; eassumption.
  - contradiction.
  - eapply ts_positions; eassumption.
Qed.

(* with fixes/F19a.diff the Service kind is complete for VirtualServers too *)
Theorem consulted_service_reachable_fixed :
  forall e cl r p ky ns name,
    vsr_backup_fix e = true ->
    cluster_wf cl -> resource_wf r -> valid_name ns -> valid_name name ->
    In (p, (KService, ky)) (consulted e cl r) -> ky = key ns name ->
    reaches e cl KService ns name r = true.
Proof.
  intros e cl r p ky ns name F WF RWF Vns Vname H Hk.
  eapply consulted_reachable_partial; try eassumption.
  destruct p; simpl; try reflexivity. rewrite F. reflexivity.
Qed.

(* ------------------------------------------------------------------ endpoints are only consulted of Services with pods *)

Lemma endpoints_dep_svc cl pp ky0 p k ky :
  In (p, (k, ky)) (endpoints_dep cl pp ky0) -> svc_of cl ky = Some SvcPods.
Proof.
  unfold endpoints_dep. destruct (svc_of cl ky0) as [[|]|] eqn:S; try contradiction.
  intros [H|[]]. injection H as _ _ <-. exact S.
Qed.

Lemma policy_deps_no_endpoints cl pp spec refs owner p ky :
  ~ In (p, (KEndpoints, ky)) (policy_deps cl pp spec refs owner).
Proof.
  intros H. unfold policy_deps in H. apply in_app_or in H. destruct H as [H|H].
  - apply in_map_iff in H. destruct H as [x [E _]]. discriminate E.
  - unfold policy_hops in H.
    repeat (apply in_app_or in H; destruct H as [H|H]);
      try (apply sec_In in H; destruct H as [E _]; discriminate E).
    + destruct spec; [|contradiction]. apply sec_In in H. destruct H as [E _]. discriminate E.
    + apply in_map_iff in H. destruct H as [d [E H]]. injection E as _ E. subst d.
      apply take_until_fail_In in H. apply in_flat_map in H. destruct H as [pol [_ H]].
      unfold waf_items in H. destruct (p_waf pol) as [w|]; [|contradiction].
      apply in_app_or in H. destruct H as [H|H].
      * destruct (nonempty (w_ap_policy w)); [|contradiction]. destruct H as [H|[]]. discriminate H.
      * apply in_app_or in H. destruct H as [H|H].
        -- destruct (w_seclog w) as [l|]; [|contradiction]. destruct (w_seclogs w); [contradiction|].
           destruct (nonempty l); [|contradiction]. destruct H as [H|[]]. discriminate H.
        -- destruct (w_seclogs w) as [ls|]; [|contradiction]. apply in_flat_map in H. destruct H as [l [_ H]].
           destruct (nonempty l); [|contradiction]. destruct H as [H|[]]. discriminate H.
Qed.

Lemma route_deps_no_endpoints cl pp pd owner rt p ky :
  ~ In (p, (KEndpoints, ky)) (route_deps cl pp pd owner rt).
Proof.
  intros H. unfold route_deps in H. apply in_app_or in H. destruct H as [H|H].
  - exact (policy_deps_no_endpoints _ _ _ _ _ _ _ H).
  - apply dos_dep_kinds in H. destruct H as [[_ E]|[_ [E|E]]]; discriminate E.
Qed.

Lemma upstream_deps_svc cl pu pb ns0 bns u p ky :
  In (p, (KEndpoints, ky)) (upstream_deps cl pu pb ns0 bns u) -> svc_of cl ky = Some SvcPods.
Proof.
  unfold upstream_deps. intros [H|H]; [discriminate H|].
  apply in_app_or in H. destruct H as [H|H].
  - destruct (u_use_cluster_ip u); [contradiction|]. eapply endpoints_dep_svc; exact H.
  - destruct (nonempty (u_backup u) && u_backup_port u); [|contradiction].
    destruct H as [H|H]; [discriminate H|]. eapply endpoints_dep_svc; exact H.
Qed.

Lemma backend_deps_svc cl pp i svc p ky :
  In (p, (KEndpoints, ky)) (backend_deps cl pp i svc) -> svc_of cl ky = Some SvcPods.
Proof.
  unfold backend_deps. intros [H|H]; [discriminate H|].
  destruct (i_use_cluster_ip i); [contradiction|]. eapply endpoints_dep_svc; exact H.
Qed.

Lemma consulted_ing_svc e cl minion i p ky :
  In (p, (KEndpoints, ky)) (consulted_ing e cl minion i) -> svc_of cl ky = Some SvcPods.
Proof.
  intros H. unfold consulted_ing in H.
  repeat (apply in_app_or in H; destruct H as [H|H]).
  - apply in_map_iff in H. destruct H as [s [E _]]. discriminate E.
  - destruct (i_basic i); [|contradiction]. destruct H as [H|[]]. discriminate H.
  - destruct (plus e); [|contradiction].
    repeat (apply in_app_or in H; destruct H as [H|H]).
    + destruct (i_jwt i); [|contradiction]. destruct H as [H|[]]. discriminate H.
    + destruct (ap_enabled e && negb minion); [|contradiction].
      apply in_app_or in H. destruct H as [H|H].
      * destruct (i_ap_policy i); [|contradiction]. destruct H as [H|[]]. discriminate H.
      * destruct (i_ap_logconf i); [|contradiction]. destruct (i_ap_logdst i); [|contradiction].
        destruct (Nat.eqb _ _); [|contradiction].
        apply in_map_iff in H. destruct H as [x [E H]]. injection E as _ E. subst x.
        apply take_until_fail_In in H. apply in_map_iff in H. destruct H as [c [E _]]. discriminate E.
    + destruct (dos_enabled e && negb minion); [|contradiction].
      destruct (i_dos i); [|contradiction]. apply dos_chain_kinds in H. destruct H as [[_ E]|[_ [E|E]]]; discriminate E.
  - destruct (i_default i); [|contradiction]. eapply backend_deps_svc; exact H.
  - apply in_flat_map in H. destruct H as [rl [_ H]]. destruct (ir_host_valid rl); [|contradiction].
    destruct (ir_paths rl); [|contradiction]. apply in_flat_map in H. destruct H as [pa [_ H]].
    destruct (ip_valid pa); [|contradiction]. eapply backend_deps_svc; exact H.
Qed.

Theorem consulted_endpoints_svc e cl r p ky :
  In (p, (KEndpoints, ky)) (consulted e cl r) -> svc_of cl ky = Some SvcPods.
Proof.
  intros H. destruct r as [i|m ms|v|t]; simpl in H.
  - eapply consulted_ing_svc; exact H.
  - apply in_app_or in H. destruct H as [H|H]; [eapply consulted_ing_svc; exact H|].
    apply in_flat_map in H. destruct H as [mi [_ H]]. eapply consulted_ing_svc; exact H.
  - unfold consulted_vs in H.
    apply in_app_or in H. destruct H as [H|H].
    { destruct (vs_tls v) as [s|]; [|contradiction]. destruct (nonempty s); [|contradiction]. destruct H as [H|[]]. discriminate H. }
    apply in_app_or in H. destruct H as [H|H]; [exfalso; exact (policy_deps_no_endpoints _ _ _ _ _ _ _ H)|].
    apply in_app_or in H. destruct H as [H|H]; [apply dos_dep_kinds in H; destruct H as [[_ E]|[_ [E|E]]]; discriminate E|].
    apply in_app_or in H. destruct H as [H|H].
    { apply in_flat_map in H. destruct H as [u [_ H]]. eapply upstream_deps_svc; exact H. }
    apply in_app_or in H. destruct H as [H|H].
    { apply in_flat_map in H. destruct H as [rt [_ H]]. exfalso. exact (route_deps_no_endpoints _ _ _ _ _ _ _ H). }
    apply in_flat_map in H. destruct H as [vr [_ H]]. unfold vsr_deps in H.
    apply in_app_or in H. destruct H as [H|H].
    { apply in_flat_map in H. destruct H as [rt [_ H]]. exfalso. exact (route_deps_no_endpoints _ _ _ _ _ _ _ H). }
    apply in_flat_map in H. destruct H as [u [_ H]]. eapply upstream_deps_svc; exact H.
  - unfold consulted_ts in H. apply in_app_or in H. destruct H as [H|H].
    + apply in_flat_map in H. destruct H as [u [_ H]]. unfold ts_upstream_deps in H.
      destruct H as [H|H]; [discriminate H|].
      apply in_app_or in H. destruct H as [H|H]; [eapply endpoints_dep_svc; exact H|].
      destruct (nonempty (tu_backup u) && tu_backup_port u); [|contradiction].
      destruct H as [H|H]; [discriminate H|]. eapply endpoints_dep_svc; exact H.
    + destruct (ts_tls t) as [s|]; [|contradiction]. destruct (nonempty s); [|contradiction]. destruct H as [H|[]]. discriminate H.
Qed.

(* ------------------------------------------------------------------ several served resources *)

Lemma reached_set_In e cl k ns name served r :
  In r (reached_set e cl k ns name served) <-> In r served /\ reaches e cl k ns name r = true.
Proof. unfold reached_set. apply filter_In. Qed.

(* the set reached among the served resources is the union of what is reached in its parts *)
Lemma reached_set_app e cl k ns name a b :
  reached_set e cl k ns name (a ++ b) = reached_set e cl k ns name a ++ reached_set e cl k ns name b.
Proof. unfold reached_set. apply filter_app. Qed.

Theorem served_set_reachable_partial :
  forall e cl served r p k ky ns name,
    In r served ->
    cluster_wf cl -> resource_wf r -> valid_name ns -> valid_name name ->
    In (p, (k, ky)) (consulted e cl r) -> refuted_pos e p k = false -> ky = key ns name ->
    In r (reached_set e cl k ns name served).
Proof.
  intros. apply reached_set_In. split; [assumption|]. eapply consulted_reachable_partial; eassumption.
Qed.

(* ------------------------------------------------------------------ events *)

Theorem event_reaches_partial :
  forall e cl r p k ky ns name o relevant,
    cluster_wf cl -> resource_wf r -> valid_name ns -> valid_name name ->
    In (p, (k, ky)) (consulted e cl r) -> refuted_pos e p k = false -> ky = key ns name ->
    (k = KEndpoints -> o = Delete -> slice_delete_fix e = true) ->
    (o = Update -> relevant = true) ->
    event_reaches e cl k o relevant ns name r = true.
Proof.
  intros e cl r p k ky ns name o relevant WF RWF Vns Vname H NR Hk NE SV.
  pose proof (consulted_reachable_partial e cl r p k ky ns name WF RWF Vns Vname H NR Hk) as R.
  unfold event_reaches. destruct k, o; try exact R; try (rewrite (SV eq_refl); exact R).
  (* the deletion of an EndpointSlice: through the Service, which exists because its endpoints were consulted *)
  rewrite (NE eq_refl eq_refl). subst ky. rewrite (consulted_endpoints_svc _ _ _ _ _ H).
  simpl in R. apply andb_true_iff in R. destruct R as [R _]. rewrite R. reflexivity.
Qed.

(* the DoS chain sits in no refuted position and has no event exclusion *)
Lemma consulted_dos_hop_pos e cl r p k ky :
  k = KDosPolicy \/ k = KDosLogConf -> In (p, (k, ky)) (consulted e cl r) -> refuted_pos e p k = false.
Proof. intros [->| ->] _; destruct p; reflexivity. Qed.

Theorem dos_chain_events :
  forall e cl r p k ky ns name o relevant,
    k = KDosPolicy \/ k = KDosLogConf ->
    cluster_wf cl -> resource_wf r -> valid_name ns -> valid_name name ->
    In (p, (k, ky)) (consulted e cl r) -> ky = key ns name ->
    (o = Update -> relevant = true) ->
    event_reaches e cl k o relevant ns name r = true.
Proof.
  intros e cl r p k ky ns name o relevant K WF RWF Vns Vname H Hk SV.
  eapply event_reaches_partial; try eassumption.
  - eapply consulted_dos_hop_pos; eassumption.
  - intros E. destruct K as [->| ->]; discriminate E.
Qed.

(* ------------------------------------------------------------------ the repaired code *)

Lemma refuted_pos_fixed e p k :
  vsr_backup_fix e = true -> backup_ep_fix e = true -> refuted_pos e p k = false.
Proof. intros A C. destruct p, k; simpl; rewrite ?A, ?C; reflexivity. Qed.

(* with fixes/F19a.diff and fixes/F19c.diff the statement planned in DESIGN.md holds in full *)
Theorem consulted_reachable_fixed :
  forall e cl r p k ky ns name,
    vsr_backup_fix e = true -> backup_ep_fix e = true ->
    cluster_wf cl -> resource_wf r -> valid_name ns -> valid_name name ->
    In (p, (k, ky)) (consulted e cl r) -> ky = key ns name ->
    reaches e cl k ns name r = true.
Proof.
  intros. eapply consulted_reachable_partial; try eassumption. apply refuted_pos_fixed; assumption.
Qed.

(* ... and with fixes/F19b.diff as well, every notification the handlers let through reaches the resource *)
Theorem event_reaches_fixed :
  forall e cl r p k ky ns name o relevant,
    vsr_backup_fix e = true -> backup_ep_fix e = true -> slice_delete_fix e = true ->
    cluster_wf cl -> resource_wf r -> valid_name ns -> valid_name name ->
    In (p, (k, ky)) (consulted e cl r) -> ky = key ns name ->
    (o = Update -> relevant = true) ->
    event_reaches e cl k o relevant ns name r = true.
Proof.
  intros e cl r p k ky ns name o relevant A C B WF RWF Vns Vname H Hk SV.
  eapply event_reaches_partial; try eassumption; [apply refuted_pos_fixed; assumption|auto].
Qed.

(* ------------------------------------------------------------------ counterexamples *)

Ltac in_list := vm_compute; repeat (first [left; reflexivity | right]).

Lemma valid_nameb_ok s : valid_nameb s = true -> valid_name s.
Proof.
  unfold valid_nameb, valid_name. intros H. apply andb_true_iff in H. destruct H as [H1 H2].
  apply negb_true_iff in H1. apply negb_true_iff in H2. auto.
Qed.

Ltac witness := repeat match goal with
  | |- _ /\ _ => split
  | |- cluster_wf _ => split; intros ? []
  | |- resource_wf _ => exact I
  | |- valid_name _ => apply valid_nameb_ok; reflexivity
  | |- In _ _ => in_list
  | |- _ = _ => reflexivity
  end.

Definition env0 : env := {| plus := true; ap_enabled := false; dos_enabled := false; vsr_backup_fix := false; backup_ep_fix := false; slice_delete_fix := false |}.

Definition up (svc bak : string) : upstream :=
  {| u_service := svc; u_backup := bak; u_backup_port := negb (String.eqb bak ""); u_subselector := false; u_use_cluster_ip := false |}.

Definition cl0 : cluster :=
  {| cl_policies := []; cl_secrets_ok := []; cl_ap_ok := [];
     cl_services := [("ns1/main", SvcPods); ("ns1/bak", SvcExternalName); ("ns1/podbak", SvcPods)]; cl_dos := [] |}.

(* F19a: VirtualServerRoute upstream with a backup Service *)
Definition vs_f19a : resource :=
  RVS {| vs_ns := "ns1"; vs_tls := None; vs_policies := []; vs_dos := ""; vs_upstreams := [up "main" ""];
         vs_routes := [{| rt_policies := []; rt_dos := "" |}];
         vs_vsrs := [{| vsr_ns := "ns1"; vsr_subroutes := []; vsr_upstreams := [up "main" "bak"] |}] |}.

Theorem vsr_backup_service_refuted :
  exists e cl r p ky ns name,
    cluster_wf cl /\ resource_wf r /\ valid_name ns /\ valid_name name /\ ky = key ns name /\
    In (p, (KService, ky)) (consulted e cl r) /\ reaches e cl KService ns name r = false.
Proof.
  exists env0, cl0, vs_f19a, PVsrUpstreamBackup, "ns1/bak", "ns1", "bak".
  witness.
Qed.

(* F19c: VirtualServer upstream whose backup Service has pod endpoints *)
Definition vs_f19c : resource :=
  RVS {| vs_ns := "ns1"; vs_tls := None; vs_policies := []; vs_dos := ""; vs_upstreams := [up "main" "podbak"];
         vs_routes := []; vs_vsrs := [] |}.

Theorem vs_backup_endpoints_refuted :
  exists e cl r p ky ns name,
    cluster_wf cl /\ resource_wf r /\ valid_name ns /\ valid_name name /\ ky = key ns name /\
    In (p, (KEndpoints, ky)) (consulted e cl r) /\ reaches e cl KEndpoints ns name r = false.
Proof.
  exists env0, cl0, vs_f19c, PVsUpstreamBackup, "ns1/podbak", "ns1", "podbak".
  witness.
Qed.

(* the full statement (no exclusion of positions) is therefore false of the faithful model *)
Theorem consulted_subset_findable_refuted :
  ~ (forall e cl r p k ky ns name,
        cluster_wf cl -> resource_wf r -> valid_name ns -> valid_name name ->
        In (p, (k, ky)) (consulted e cl r) -> ky = key ns name -> reaches e cl k ns name r = true).
Proof.
  intros All.
  destruct vsr_backup_service_refuted as [e [cl [r [p [ky [ns [name [WF [RWF [V1 [V2 [Hk [Hin Hr]]]]]]]]]]]]].
  rewrite (All e cl r p KService ky ns name WF RWF V1 V2 Hin Hk) in Hr. discriminate.
Qed.

(* F19b: the deletion of an EndpointSlice reaches nothing, whatever depends on it *)
Theorem endpointslice_delete_refuted :
  forall e cl relevant ns name r,
    slice_delete_fix e = false -> event_reaches e cl KEndpoints Delete relevant ns name r = false.
Proof. intros e cl relevant ns name r F. unfold event_reaches. rewrite F. reflexivity. Qed.

Theorem endpointslice_delete_consulted :
  exists e cl r p ky ns name,
    ky = key ns name /\ In (p, (KEndpoints, ky)) (consulted e cl r) /\ refuted_pos e p KEndpoints = false /\
    event_reaches e cl KEndpoints Update true ns name r = true /\
    event_reaches e cl KEndpoints Delete true ns name r = false.
Proof.
  exists env0, cl0, vs_f19c, PVsUpstream, "ns1/main", "ns1", "main".
  witness.
Qed.
