(* C18 -- Observers running beside the control loop never race with it.
   Only statements, each closed by [exact], each followed by Print Assumptions.

   What is proved here, once, for ALL programs (lists of goroutines, each a list of
   Acq/Rel/AcqR/RelR/Rd/Wr events) and ALL interleavings admitted by the mutex / RW-lock
   semantics of Lockset.Model.step: lock discipline implies absence of data races.

   What is NOT a committed theorem: the instance for the controller.  The access table
   gen/Accesses.v is regenerated from /repo's Go source on every run (translator c18t), so the
   instance statement
        protected_except_all known gen_accesses = true
   (every row of the table is protected against every row it conflicts with, in every start-up
   mode, except along the conflict edges (entry, entry, field) recorded as known findings in
   known/C18.jsonl) is a COMPUTED obligation: vlib/c18.py evaluates it by vm_compute on the
   freshly generated table and registers it with run.add_obligation-style accounting.
   [C18_table_races_only_among_known] below says what that computed fact means.

   Locations of the table: fields of the owner structs (Configurator, metricLabelsIndex,
   Configuration, LocalSecretStore, LoadBalancerController, nginx.LocalManager) and
   "object:<API type>.<field>" for memory inside Kubernetes API objects shared with the informer
   stores (a write counts unless the object is a fresh copy made in the writing function).

   PARTIAL by nature: the theorems are about the lock discipline on struct fields.  Torn reads
   through unsynchronised pointer publication (an object reached from a map entry and mutated
   elsewhere), aliasing the translator cannot see, and orderings created by channels or
   goroutine creation are outside the model (the last one only makes the model admit more
   interleavings).  The full property -- no data race of any kind between the listed
   components -- is observed, not proved: the race harness runs the real code under the race
   detector. *)
From Coq Require Import List String Bool.
From NIC Require Import Lockset.Model Lockset.Proofs.
Import ListNotations.
Open Scope string_scope.

(* lockset_sound: if every location x has a lock [protects x] that every goroutine holds at
   every access to x (exclusively for writes, at least shared for reads), then no reachable
   state of any interleaving has two goroutines about to perform conflicting accesses. *)
Theorem C18_lockset_sound :
  forall (p : prog) (protects : loc -> lock),
    (forall x t a, In t p -> In a (accesses t) -> a_loc a = x ->
       holds_at_least (a_held a) (protects x) (if a_write a then Ex else Sh) = true) ->
    forall x, ~ race p x.
Proof. exact lockset_sound. Qed.
Print Assumptions C18_lockset_sound.

(* The same for the weaker pairwise discipline (different pairs may rely on different locks;
   read-only locations and locations used by one goroutine need no lock at all). *)
Theorem C18_pairwise_sound :
  forall (p : prog) (x : loc), disciplined p x -> ~ race p x.
Proof. exact pairwise_sound. Qed.
Print Assumptions C18_pairwise_sound.

(* Trace form: no interleaving performs two conflicting accesses of different goroutines one
   right after the other (the happens-before formulation of a data race). *)
Theorem C18_no_adjacent_conflict :
  forall (p : prog) (x : loc) (s : state) (i : nat) (e1 : ev) (s1 : state) (j : nat) (e2 : ev) (s2 : state),
    disciplined p x -> reachable p s ->
    step s i e1 s1 -> step s1 j e2 s2 -> i <> j -> conflicting x e1 e2 -> False.
Proof. exact no_adjacent_conflict. Qed.
Print Assumptions C18_no_adjacent_conflict.

(* Completeness of the static view used by the translator: whenever a race state is reachable,
   the two accesses are visible in the static scans of the two goroutines, with lock contexts
   that share no lock held exclusively by either. *)
Theorem C18_race_is_statically_visible :
  forall (p : prog) (s : state) (x : loc) (i j : nat),
    reachable p s -> race_between s x i j ->
    exists ti tj a1 a2,
      nth_error p i = Some ti /\ nth_error p j = Some tj /\
      In a1 (accesses ti) /\ In a2 (accesses tj) /\
      a_loc a1 = x /\ a_loc a2 = x /\ (a_write a1 || a_write a2) = true /\
      common_lock (a_held a1) (a_held a2) = false.
Proof. exact race_has_unlocked_accesses. Qed.
Print Assumptions C18_race_is_statically_visible.

(* Meaning of the computed obligation: if the table passes [protected_except_all known] then,
   in every start-up mode [on], every race of every program summarised by the table
   ([conforms]: each goroutine was started at some entry point and each of its accesses is
   covered by a row claiming no more locks than it holds) runs along a conflict edge
   (entry, entry, field) that is a known finding. *)
Theorem C18_table_races_only_among_known :
  forall (known : list known_edge) (t : access_table) (on : list string)
         (p : prog) (ents : list string) (s : state) (x : loc) (i j : nat),
    protected_except_all known t = true -> conforms (inst on t) p ents ->
    reachable p s -> race_between s x i j ->
    exists ei ej, nth_error ents i = Some ei /\ nth_error ents j = Some ej /\
                  (In (ei, ej, x) known \/ In (ej, ei, x) known).
Proof. exact protected_except_all_sound. Qed.
Print Assumptions C18_table_races_only_among_known.

(* protected_sound: with no exceptions, a program summarised by a protected table has no race. *)
Theorem C18_protected_sound :
  forall (t : access_table) (on : list string) (p : prog) (ents : list string),
    protected t = true -> conforms (inst on t) p ents -> forall x, ~ race p x.
Proof. exact protected_sound. Qed.
Print Assumptions C18_protected_sound.

(* ---------- non-vacuity ---------- *)

(* The race definition is inhabited: a writer without the lock races with a locked reader
   (this is the shape of finding F20: Configurator maps written by the worker, read by
   service insight).  Witness schedule: the reader takes its read lock, then both are at x. *)
Definition ex_racy : prog := [[Wr "cnf.virtualServers"]; [AcqR "c.lock"; Rd "cnf.virtualServers"; RelR "c.lock"]].
Example C18_race_refuted_without_lock : race ex_racy "cnf.virtualServers".
Proof. apply (exec_race ex_racy [1] _ _ 0 1 eq_refl). vm_compute. reflexivity. Qed.

(* The hypotheses of the theorems are satisfiable by a program that really runs: a locked
   writer and a read-locked reader; the whole program executes to completion under the lock
   semantics (no deadlock hides the accesses), and the reader cannot enter while the writer is
   inside. *)
Definition ex_good : prog :=
  [[Acq "c.lock"; Wr "c.hosts"; Rel "c.lock"]; [AcqR "c.lock"; Rd "c.hosts"; RelR "c.lock"];
   [AcqR "c.lock"; Rd "c.hosts"; RelR "c.lock"]].
Example C18_good_runs_to_completion :
  exec (init ex_good) [1; 2; 1; 2; 1; 2; 0; 0; 0] = Some (mkState [[]; []; []] []).
Proof. vm_compute. reflexivity. Qed.
Example C18_good_writer_excluded : exec (init ex_good) [1; 0] = None.
Proof. vm_compute. reflexivity. Qed.
Example C18_good_is_guarded : forall x, ~ race ex_good x.
Proof.
  apply (C18_lockset_sound ex_good (fun _ => "c.lock")).
  intros x t a Ht Ha _. simpl in Ht.
  destruct Ht as [<-|[<-|[<-|[]]]]; simpl in Ha; destruct Ha as [<-|[]]; vm_compute; reflexivity.
Qed.

(* The table check on a miniature of the real situation: the worker takes the sync lock only
   when SPIFFE is configured, the rotation goroutine exists only then. *)
Definition ex_table : access_table :=
  [ mkRow "worker" false "" "cnf.isReloadsEnabled" true [("lbc.syncLock", Ex, "spiffe!=nil")];
    mkRow "spiffe-rotation" false "spiffe!=nil" "cnf.isReloadsEnabled" false [("lbc.syncLock", Ex, "")];
    mkRow "worker" false "" "c.hosts" true [("c.lock", Ex, ""); ("lbc.syncLock", Ex, "spiffe!=nil")];
    mkRow "leader-callbacks" false "" "c.hosts" false [("c.lock", Sh, "")] ].
Example C18_table_protected : protected ex_table = true /\ modes ex_table = [["spiffe!=nil"]; []].
Proof. vm_compute. split; reflexivity. Qed.
(* ... and it is not protected once a reader without the lock is added; the exception list
   then has to name that very edge *)
Definition ex_table_bad : access_table :=
  (ex_table ++ [ mkRow "service-insight" true "" "cnf.isReloadsEnabled" false [] ])%list.
Example C18_table_unprotected :
  protected ex_table_bad = false /\ bad_pairs ex_table_bad = [(0, 4); (0, 4)]%nat /\
  protected_except_all [("service-insight", "worker", "cnf.isReloadsEnabled")] ex_table_bad = true /\
  protected_except_all [("service-insight", "spiffe-rotation", "cnf.isReloadsEnabled")] ex_table_bad = false.
Proof. vm_compute. repeat split; reflexivity. Qed.
