//go:build verif

// Correspondence harness for C17 (no object the API server can admit makes the controller panic).
//
// X, exhaustive over shapes: the list of shape descriptors is printed by Rocq from the
// enumerations of coq/Shapes/Model.v (file given with -shapes); every descriptor is
// materialised as a concrete object and fed, under recover, to the validators, the real
// Configuration (against an empty and against populated states), createExtendedResources +
// the real Configurator over the real templates, Delete*, and the worker's sync function,
// in every combination of the feature flags the model reads (the remaining flags rotate in
// the quick tier and are swept in the thorough tier).  The observed Ok/Rejected/Panic digits
// are compared with the model's by the driver, shape by shape.
//
// S, random stream: schema-admissible objects with values; observable: no panic.
package main

import (
	"encoding/json"
	"flag"
	"fmt"
	"os"
	"runtime"
	"runtime/debug"
	"runtime/pprof"
	"strings"
	"sync"
	"time"

	"github.com/nginx/kubernetes-ingress/internal/k8s"
	"github.com/nginx/kubernetes-ingress/internal/verifh/vh"
	conf_v1 "github.com/nginx/kubernetes-ingress/pkg/apis/configuration/v1"
	api_v1 "k8s.io/api/core/v1"
	discovery_v1 "k8s.io/api/discovery/v1"
	networking "k8s.io/api/networking/v1"
	meta_v1 "k8s.io/apimachinery/pkg/apis/meta/v1"
	"k8s.io/apimachinery/pkg/types"
	"k8s.io/apimachinery/pkg/util/intstr"
)

// ---------------------------------------------------------------- cases

type PanicInfo struct {
	Combo string `json:"combo"`
	Stage string `json:"stage"`
	Msg   string `json:"msg"`
	Site  string `json:"site"`
}

type FlagDiff struct {
	Other int    `json:"other"` // bit set of the flags the model does not read
	Obs   string `json:"obs"`
}

type Case struct {
	Fam      string          `json:"fam"`
	ID       int             `json:"id"`
	Shape    string          `json:"shape,omitempty"`
	Obs      string          `json:"obs"`
	FlagDiff []FlagDiff      `json:"flagdiff,omitempty"`
	Panics   []PanicInfo     `json:"panics,omitempty"`
	Others   int             `json:"others,omitempty"` // how many settings of the remaining flags were run
	Kind     string          `json:"kind,omitempty"`   // random stream
	Flags    int             `json:"flags,omitempty"`
	Object   json.RawMessage `json:"object,omitempty"`
	Admitted *bool           `json:"admitted,omitempty"`
	Error    string          `json:"error,omitempty"`
}

// ---------------------------------------------------------------- flags

// bit order: plus, appProtect, appProtectDos, internalRoutes, snippets, certManager, tlsPassthrough
const (
	fPlus = 1 << iota
	fAppProtect
	fDos
	fInternal
	fSnippets
	fCertMgr
	fTLSPass
)

var repoRoot = func() string {
	if r := os.Getenv("VERIF_REPO"); r != "" {
		return r
	}
	return "/repo"
}()

var (
	tmplOnce sync.Once
	tmplOSS  *k8s.VerifC17Templates
	tmplPlus *k8s.VerifC17Templates
	tmplErr  error
)

func templates(plus bool) *k8s.VerifC17Templates {
	tmplOnce.Do(func() {
		tmplOSS, tmplErr = k8s.VerifC17LoadTemplates(repoRoot, false)
		if tmplErr == nil {
			tmplPlus, tmplErr = k8s.VerifC17LoadTemplates(repoRoot, true)
		}
	})
	if tmplErr != nil {
		fmt.Fprintf(os.Stderr, "c17: cannot parse the templates of %s: %v\n", repoRoot, tmplErr)
		os.Exit(4)
	}
	if plus {
		return tmplPlus
	}
	return tmplOSS
}

func newCtl(f int) *k8s.VerifC17 {
	o := k8s.VerifC17Opts{
		IsPlus: f&fPlus != 0, AppProtect: f&fAppProtect != 0, AppProtectDos: f&fDos != 0,
		InternalRoutes: f&fInternal != 0, Snippets: f&fSnippets != 0, CertManager: f&fCertMgr != 0,
		TLSPassthrough: f&fTLSPass != 0, ExternalDNS: f&fCertMgr != 0, OIDC: f&fPlus != 0, RepoRoot: repoRoot,
	}
	c := k8s.NewVerifC17(o, templates(o.IsPlus))
	fillListers(c)
	return c
}

// ---------------------------------------------------------------- recover

// guard runs f and returns "" or the panic text plus the innermost function of the
// kubernetes-ingress module on the panicking stack (not the harness, not the hook file).
func guard(f func()) (msg string, site string) {
	defer func() {
		if r := recover(); r != nil {
			msg = fmt.Sprint(r)
			site = panicSite()
		}
	}()
	f()
	return "", ""
}

func panicSite() string {
	pcs := make([]uintptr, 64)
	n := runtime.Callers(3, pcs)
	frames := runtime.CallersFrames(pcs[:n])
	for {
		fr, more := frames.Next()
		fn := fr.Function
		if strings.HasPrefix(fn, "github.com/nginx/kubernetes-ingress/") && !strings.Contains(fn, "/verifh/") &&
			!strings.Contains(fr.File, "zz_verif_") {
			return strings.TrimPrefix(fn, "github.com/nginx/kubernetes-ingress/")
		}
		if !more {
			break
		}
	}
	return "unknown"
}

// ---------------------------------------------------------------- fixtures

var t0 = time.Date(2024, 1, 1, 0, 0, 0, 0, time.UTC)

func meta(name string, created int) meta_v1.ObjectMeta {
	return meta_v1.ObjectMeta{Name: name, Namespace: "default", UID: types.UID(fmt.Sprintf("uid-%02d", created)),
		CreationTimestamp: meta_v1.NewTime(t0.Add(time.Duration(created) * time.Second)), Generation: 1}
}

const host1, host2 = "h1.example.com", "h2.example.com"

func fillListers(c *k8s.VerifC17) {
	tru := true
	p80 := int32(8080)
	pname := "http"
	_ = c.AddService(&api_v1.Service{ObjectMeta: meta("svc-a", 100), Spec: api_v1.ServiceSpec{
		ClusterIP: "10.0.0.1", Selector: map[string]string{"app": "a"},
		Ports: []api_v1.ServicePort{{Name: "http", Port: 80, TargetPort: intstr.FromInt(8080)}}}})
	sl := &discovery_v1.EndpointSlice{ObjectMeta: meta("svc-a-1", 101), AddressType: discovery_v1.AddressTypeIPv4,
		Endpoints: []discovery_v1.Endpoint{
			{Addresses: []string{"10.1.0.1"}, Conditions: discovery_v1.EndpointConditions{Ready: &tru},
				TargetRef: &api_v1.ObjectReference{Kind: "Pod", Namespace: "default", Name: "pod-a"}},
			{Addresses: []string{"10.1.0.2"}}, // ready nil, no targetRef
		},
		Ports: []discovery_v1.EndpointPort{{Name: &pname, Port: &p80}, {}}}
	sl.Labels = map[string]string{"kubernetes.io/service-name": "svc-a"}
	_ = c.AddSlice(sl)
	pod := &api_v1.Pod{ObjectMeta: meta("pod-a", 102), Status: api_v1.PodStatus{PodIP: "10.1.0.1"},
		Spec: api_v1.PodSpec{Containers: []api_v1.Container{{Name: "c", Ports: []api_v1.ContainerPort{{Name: "http", ContainerPort: 8080}}}}}}
	pod.Labels = map[string]string{"app": "a"}
	_ = c.AddPod(pod)
	_ = c.AddService(&api_v1.Service{ObjectMeta: meta("svc-ext", 103), Spec: api_v1.ServiceSpec{
		Type: api_v1.ServiceTypeExternalName, ExternalName: "ext.example.com",
		Ports: []api_v1.ServicePort{{Port: 80}}}})
}

func ctxVS() *conf_v1.VirtualServer {
	return &conf_v1.VirtualServer{ObjectMeta: meta("vs1", 0), Spec: conf_v1.VirtualServerSpec{
		IngressClass: "nginx", Host: host1,
		Upstreams: []conf_v1.Upstream{{Name: "u", Service: "svc-a", Port: 80}},
		Routes:    []conf_v1.Route{{Path: "/", Action: &conf_v1.Action{Pass: "u"}}}}}
}

func ctxMaster() *networking.Ingress {
	cls := "nginx"
	m := meta("a-master", 1)
	m.Annotations = map[string]string{"nginx.org/mergeable-ingress-type": "master"}
	return &networking.Ingress{ObjectMeta: m, Spec: networking.IngressSpec{IngressClassName: &cls,
		Rules: []networking.IngressRule{{Host: host1}}}}
}

func ctxMinion() *networking.Ingress {
	cls := "nginx"
	pt := networking.PathTypePrefix
	m := meta("a-minion", 2)
	m.Annotations = map[string]string{"nginx.org/mergeable-ingress-type": "minion"}
	return &networking.Ingress{ObjectMeta: m, Spec: networking.IngressSpec{IngressClassName: &cls,
		Rules: []networking.IngressRule{{Host: host1, IngressRuleValue: networking.IngressRuleValue{
			HTTP: &networking.HTTPIngressRuleValue{Paths: []networking.HTTPIngressPath{{Path: "/m", PathType: &pt,
				Backend: networking.IngressBackend{Service: &networking.IngressServiceBackend{Name: "svc-a",
					Port: networking.ServiceBackendPort{Number: 80}}}}}}}}}}}
}

// populate stores the objects of prior state number ctx through the real entry points.
// viaSync: through the worker's sync function (listers filled too), else straight into
// the Configuration.
func populate(c *k8s.VerifC17, ctx int, viaSync bool) {
	var objs []interface{}
	switch ctx {
	case 1:
		objs = []interface{}{ctxVS()}
	case 2:
		objs = []interface{}{ctxMaster(), ctxMinion()}
	case 3:
		objs = []interface{}{ctxMinion()}
	}
	for _, o := range objs {
		if viaSync {
			_ = c.Sync(o, false)
			continue
		}
		switch x := o.(type) {
		case *conf_v1.VirtualServer:
			c.Configuration().AddOrUpdateVirtualServer(x)
		case *networking.Ingress:
			c.Configuration().AddOrUpdateIngress(x)
		}
	}
}

// ---------------------------------------------------------------- Ingress shapes

// Shape codes (see coq/Shapes/Cases.v): 12 decimal digits 1 d t m c a n h s k k2 r2.
//   d default backend (0 none, 1 service, 2 resource, 3 neither); t tls; m mergeable type
//   (0 none, 1 master, 2 minion, 3 garbage); c challenge label; a annotations; n number of
//   rules; h http of rule 1 (0 nil, 1 no paths, 2 one path, 3 two paths); s pathType shape of
//   the first path (0 no pathType + "/p", 1 ImplementationSpecific + "", 2 Prefix + "/p");
//   k, k2 backends of the paths; r2 second rule (0 nil http, 1-3 backend of its one path).
func backendOf(k byte, svc string) networking.IngressBackend {
	switch k {
	case '1':
		return networking.IngressBackend{Service: &networking.IngressServiceBackend{Name: svc, Port: networking.ServiceBackendPort{Number: 80}}}
	case '2':
		g := "k8s.example.com"
		return networking.IngressBackend{Resource: &api_v1.TypedLocalObjectReference{APIGroup: &g, Kind: "StorageBucket", Name: "bucket"}}
	}
	return networking.IngressBackend{}
}

func pathOf(s byte, k byte, p string, svc string) networking.HTTPIngressPath {
	impl, pre := networking.PathTypeImplementationSpecific, networking.PathTypePrefix
	switch s {
	case '0':
		return networking.HTTPIngressPath{Path: p, Backend: backendOf(k, svc)}
	case '1':
		return networking.HTTPIngressPath{Path: "", PathType: &impl, Backend: backendOf(k, svc)}
	}
	return networking.HTTPIngressPath{Path: p, PathType: &pre, Backend: backendOf(k, svc)}
}

func ingressOfShape(d string) (*networking.Ingress, error) {
	bad := fmt.Errorf("bad ingress shape code %q", d)
	if len(d) != 12 || d[0] != '1' {
		return nil, bad
	}
	cls := "nginx"
	ing := &networking.Ingress{ObjectMeta: meta("z-new", 9), Spec: networking.IngressSpec{IngressClassName: &cls}}
	if d[1] != '0' {
		b := backendOf(d[1], "svc-d")
		ing.Spec.DefaultBackend = &b
	}
	if d[2] == '1' {
		ing.Spec.TLS = []networking.IngressTLS{{Hosts: []string{host1}, SecretName: "tls-secret"}}
	}
	ann := map[string]string{}
	switch d[3] {
	case '1':
		ann["nginx.org/mergeable-ingress-type"] = "master"
	case '2':
		ann["nginx.org/mergeable-ingress-type"] = "minion"
	case '3':
		ann["nginx.org/mergeable-ingress-type"] = "bogus"
	}
	if d[4] == '1' {
		ing.Labels = map[string]string{"acme.cert-manager.io/http01-solver": "true"}
	}
	switch d[5] {
	case '1':
		ann["nginx.org/use-cluster-ip"] = "true"
	case '2':
		ann["nginx.org/use-cluster-ip"] = "true"
		ann["nginx.com/health-checks"] = "true"
	}
	if len(ann) > 0 {
		ing.Annotations = ann // otherwise the map stays nil
	}
	n, h, sp, k, k2, r2 := d[6], d[7], d[8], d[9], d[10], d[11]
	if n == '0' {
		return ing, nil
	}
	var http *networking.HTTPIngressRuleValue
	switch h {
	case '0':
	case '1':
		http = &networking.HTTPIngressRuleValue{Paths: []networking.HTTPIngressPath{}}
	case '2':
		http = &networking.HTTPIngressRuleValue{Paths: []networking.HTTPIngressPath{pathOf(sp, k, "/p", "svc-a")}}
	case '3':
		http = &networking.HTTPIngressRuleValue{Paths: []networking.HTTPIngressPath{pathOf(sp, k, "/p", "svc-a"), pathOf('2', k2, "/q", "svc-b")}}
	default:
		return nil, bad
	}
	ing.Spec.Rules = []networking.IngressRule{{Host: host1, IngressRuleValue: networking.IngressRuleValue{HTTP: http}}}
	if n == '2' {
		rr := networking.IngressRule{Host: host2}
		if r2 != '0' {
			rr.HTTP = &networking.HTTPIngressRuleValue{Paths: []networking.HTTPIngressPath{pathOf('2', r2, "/p", "svc-a")}}
		}
		ing.Spec.Rules = append(ing.Spec.Rules, rr)
	}
	return ing, nil
}

const ingKey = "default/z-new"

// pool keeps, per worker goroutine, populated controllers keyed by (flags, prior state, via
// sync): in the quick tier a controller is reused for the next shape as long as nothing
// panicked on it (every scenario ends by deleting the object under test, which restores the
// prior state); any scenario that shows a panic is re-run on fresh controllers and the fresh
// result is what is reported.  The thorough tier and replays always use fresh controllers.
type pool map[[3]int]*k8s.VerifC17

func (p pool) get(f, ctx int, viaSync bool) *k8s.VerifC17 {
	if p == nil {
		c := newCtl(f)
		populate(c, ctx, viaSync)
		return c
	}
	v := 0
	if viaSync {
		v = 1
	}
	k := [3]int{f, ctx, v}
	if c, ok := p[k]; ok {
		return c
	}
	c := newCtl(f)
	populate(c, ctx, viaSync)
	p[k] = c
	return c
}

func (p pool) drop(f, ctx int, viaSync bool) {
	if p == nil {
		return
	}
	v := 0
	if viaSync {
		v = 1
	}
	delete(p, [3]int{f, ctx, v})
}

// runIngOnce: one Ingress object, one flag setting, one prior state -> 5 digits
// (validate, store, extend+generate, delete, sync); 0 ok, 1 rejected, 2 panic.
func runIngOnce(p pool, ing *networking.Ingress, f int, ctx int, combo string, panics *[]PanicInfo) string {
	var mine []PanicInfo
	out := []byte("00000")
	note := func(stage int, name, msg, site string) {
		out[stage] = '2'
		mine = append(mine, PanicInfo{Combo: combo, Stage: name, Msg: msg, Site: site})
	}
	c := p.get(f, ctx, false)
	// validator alone
	var nerr int
	if m, s := guard(func() { nerr = c.ValidateIngress(ing.DeepCopy()) }); m != "" {
		note(0, "validate", m, s)
	} else if nerr > 0 {
		out[0] = '1'
	}
	// arbitration against the prior state, then extension/generation, then deletion
	obj := ing.DeepCopy()
	var rejected bool
	m, s := guard(func() {
		ch, pr := c.Configuration().AddOrUpdateIngress(obj)
		_, _, we := k8s.VerifC17ChangeSummary(ch)
		rejected = we || k8s.VerifC17Rejected(pr)
	})
	if m != "" {
		note(1, "store", m, s)
	} else {
		if rejected {
			out[1] = '1'
		}
		if m, s := guard(func() { c.ExtendAll() }); m != "" {
			note(2, "extend", m, s)
		}
		if m, s := guard(func() { c.Configuration().DeleteIngress(ingKey) }); m != "" {
			note(3, "delete", m, s)
		}
	}
	// the worker's own path: add, then remove
	c2 := p.get(f, ctx, true)
	obj2 := ing.DeepCopy()
	if m, s := guard(func() { _ = c2.Sync(obj2, false); _ = c2.Sync(obj2, true) }); m != "" {
		note(4, "sync", m, s)
	}
	if len(mine) > 0 && p != nil {
		p.drop(f, ctx, false)
		p.drop(f, ctx, true)
		return runIngOnce(nil, ing, f, ctx, combo, panics)
	}
	*panics = append(*panics, mine...)
	return string(out)
}

// model-relevant flag settings of the Ingress pipeline, in the order of Model.all_iflags
var ingFlagCombos = []int{0, fCertMgr, fPlus, fPlus | fCertMgr}

// the flags the Ingress model does not read
var ingOtherBits = []int{fAppProtect, fDos, fInternal, fSnippets, fTLSPass}

func otherSetting(i int, bits []int) int {
	f := 0
	for b, bit := range bits {
		if i&(1<<b) != 0 {
			f |= bit
		}
	}
	return f
}

func runIngShape(p pool, id int, d string, thorough bool) Case {
	cs := Case{Fam: "ing", ID: id, Shape: d}
	ing, err := ingressOfShape(d)
	if err != nil {
		cs.Error = err.Error()
		return cs
	}
	nOther := 1 << len(ingOtherBits)
	settings := []int{id % nOther}
	if thorough {
		settings = settings[:0]
		for i := 0; i < nOther; i++ {
			settings = append(settings, i)
		}
	}
	cs.Others = len(settings)
	for si, oi := range settings {
		other := otherSetting(oi, ingOtherBits)
		var sb strings.Builder
		for _, fc := range ingFlagCombos {
			for ctx := 0; ctx < 4; ctx++ {
				combo := fmt.Sprintf("flags=%d ctx=%d", fc|other, ctx)
				sb.WriteString(runIngOnce(p, ing, fc|other, ctx, combo, &cs.Panics))
			}
		}
		if si == 0 {
			cs.Obs = sb.String()
		} else if sb.String() != cs.Obs {
			cs.FlagDiff = append(cs.FlagDiff, FlagDiff{Other: other, Obs: sb.String()})
		}
	}
	if len(cs.Panics) > 6 {
		cs.Panics = cs.Panics[:6]
	}
	return cs
}

// ---------------------------------------------------------------- driver

// allIngDescrs enumerates the Ingress shape space of coq/Shapes/Model.v (all_ing_shapes).
// The order is irrelevant: every case carries its code, Rocq decodes it, and the driver
// checks that the number of distinct codes equals the length of the Rocq enumeration.
func allIngDescrs() []string {
	ks := []string{"1", "2", "3"}
	https := []string{"0000", "1000"}
	for _, s := range []string{"0", "1", "2"} {
		for _, k := range ks {
			https = append(https, "2"+s+k+"0")
			for _, k2 := range ks {
				https = append(https, "3"+s+k+k2)
			}
		}
	}
	rules := []string{"000000"}
	for _, h := range https {
		rules = append(rules, "1"+h+"0")
		for _, r2 := range []string{"0", "1", "2", "3"} {
			rules = append(rules, "2"+h+r2)
		}
	}
	var out []string
	for _, d := range []string{"0", "1", "2", "3"} {
		for _, t := range []string{"0", "1"} {
			for _, m := range []string{"0", "1", "2", "3"} {
				for _, c := range []string{"0", "1"} {
					for _, a := range []string{"0", "1", "2"} {
						for _, r := range rules {
							out = append(out, "1"+d+t+m+c+a+r)
						}
					}
				}
			}
		}
	}
	return out
}

type job struct {
	fam   string
	id    int
	shape string
}

func runShape(p pool, j job, thorough bool) Case {
	var cs Case
	msg, site := guard(func() {
		switch j.fam {
		case "ing":
			cs = runIngShape(p, j.id, j.shape, thorough)
		default:
			cs = runCRDShape(p, j.fam, j.id, j.shape, thorough)
		}
	})
	if msg != "" { // a panic of the harness itself outside the guarded calls
		cs = Case{Fam: j.fam, ID: j.id, Shape: j.shape, Error: "harness panic: " + msg + " at " + site}
	}
	return cs
}

func main() {
	only := flag.String("only", "", "comma-separated families to run (default all)")
	prof := flag.String("cpuprofile", "", "")
	a := vh.ParseArgs()
	if *prof != "" {
		pf, _ := os.Create(*prof)
		pprof.StartCPUProfile(pf)
		defer pprof.StopCPUProfile()
	}
	w, err := vh.NewWriter(a.Out)
	if err != nil {
		fmt.Fprintln(os.Stderr, err)
		os.Exit(2)
	}
	defer w.Close()
	thorough := a.Tier == "thorough"
	debug.SetGCPercent(400)

	if a.Replay != "" {
		var cases []Case
		if err := vh.ReadReplay(a.Replay, &cases); err != nil {
			fmt.Fprintln(os.Stderr, err)
			os.Exit(2)
		}
		for _, c := range cases {
			if c.Fam == "rnd" {
				w.Emit(replayRandom(c))
			} else {
				w.Emit(runShape(nil, job{c.Fam, c.ID, c.Shape}, true))
			}
		}
		return
	}

	var jobs []job
	want := func(f string) bool { return *only == "" || strings.Contains(","+*only+",", ","+f+",") }
	if want("ing") {
		for _, d := range allIngDescrs() {
			jobs = append(jobs, job{"ing", len(jobs), d})
		}
	}
	for _, fam := range []string{"vs", "vsr", "ts", "pol", "gc"} {
		if want(fam) {
			for _, d := range allCRDDescrs(fam) {
				jobs = append(jobs, job{fam, len(jobs), d})
			}
		}
	}
	results := make([]Case, len(jobs))
	var wg sync.WaitGroup
	next := make(chan int, 1024)
	workers := runtime.NumCPU()
	if workers > 16 {
		workers = 16
	}
	for k := 0; k < workers; k++ {
		wg.Add(1)
		go func() {
			defer wg.Done()
			var p pool
			if !thorough {
				p = pool{}
			}
			for i := range next {
				results[i] = runShape(p, jobs[i], thorough)
			}
		}()
	}
	for i := range jobs {
		next <- i
	}
	close(next)
	wg.Wait()
	for i := range results {
		w.Emit(results[i])
	}
	// S: random stream
	rng := vh.NewRng(a.Seed)
	base := len(jobs)
	rres := make([]Case, a.N)
	next2 := make(chan int, 1024)
	for k := 0; k < workers; k++ {
		wg.Add(1)
		go func() {
			defer wg.Done()
			for i := range next2 {
				rres[i] = runRandom(base+i, rng.Fork(uint64(i)))
			}
		}()
	}
	if !want("rnd") {
		a.N = 0
		rres = nil
	}
	for i := 0; i < a.N; i++ {
		next2 <- i
	}
	close(next2)
	wg.Wait()
	for i := range rres {
		w.Emit(rres[i])
	}
}

// ---------------------------------------------------------------- CRD shapes (stub)

func runCRDShape(p pool, fam string, id int, d string, thorough bool) Case {
	return Case{Fam: fam, ID: id, Shape: d, Error: "not implemented"}
}

func allCRDDescrs(fam string) []string { return nil }

func runRandom(id int, r *vh.Rng) Case { return Case{Fam: "rnd", ID: id} }
func replayRandom(c Case) Case        { return c }
