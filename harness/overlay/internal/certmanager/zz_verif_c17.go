//go:build verif

package certmanager

import (
	clientset "github.com/cert-manager/cert-manager/pkg/client/clientset/versioned"
	cmlisters "github.com/cert-manager/cert-manager/pkg/client/listers/certmanager/v1"
	"k8s.io/client-go/tools/record"
)

// VerifC17SyncFn is the production SyncFnFor of the cert-manager sub-controller wired the way
// register() wires it, with one informer group entry that watches every namespace (add-only
// export for the C17 harness: namespacedInformer and cmLister are unexported).
func VerifC17SyncFn(rec record.EventRecorder, cl clientset.Interface, lister cmlisters.CertificateLister) SyncFn {
	return SyncFnFor(rec, cl, map[string]*namespacedInformer{"": {cmLister: lister}})
}
