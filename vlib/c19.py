"""C19 -- App Protect arbitration: one signature set per tag, policy usable iff satisfiable, DoS
protected resource usable iff its references resolve; order-independent; every flip reported."""
import os, json
from . import common as C


def cq_tf(f):
    k = f.get("k", 0)
    if k == 0:
        return "TAbsent"
    if k == 1:
        return "TBad"
    return "(TAt %d)" % f["t"]


def cq_event(op):
    key = C.cq_str(op["ns"] + "/" + op["name"])
    k = op["k"]
    if op.get("del"):
        return "(%s %s)" % (["EvDelPolicy", "EvDelLogConf", "EvDelUserSig", "EvDelDosPolicy", "EvDelDosLogConf", "EvDelDosPR"][k], key)
    valid = C.cq_bool(op["valid"])
    if k == 0:
        rk = op.get("reqs_kind", 0)
        if not op.get("wf") or rk == 0:
            reqs = "(Some [])"
        elif rk == 1:
            reqs = "None"
        else:
            reqs = "(Some %s)" % C.cq_list([
                "(Build_reqobj %s %s %s)" % (C.cq_opt(r["tag"] if r["has_tag"] else None, C.cq_str), cq_tf(r["min"]), cq_tf(r["max"]))
                for r in op.get("reqs") or []])
        return "(EvPolicy %s (Build_polobj %s %s))" % (key, valid, reqs)
    if k == 1:
        return "(EvLogConf %s (Build_logobj %s))" % (key, valid)
    if k == 2:
        tag = op.get("tag", "") if op.get("has_tag") else ""
        return "(EvUserSig %s (Build_sigobj %s %d %s %s %s))" % (key, C.cq_str(op.get("uid", "")), op.get("ts", 0), valid,
                                                               C.cq_str(tag), cq_tf(op.get("rev") or {}))
    if k == 3:
        return "(EvDosPolicy %s (Build_dpolobj %s))" % (key, valid)
    if k == 4:
        return "(EvDosLogConf %s (Build_dlogobj %s))" % (key, valid)
    log = C.cq_opt(op.get("log_ref", "") if op.get("has_log") else None, C.cq_str)
    return "(EvDosPR (Build_probj %s %s %s %s %s %s %s))" % (C.cq_str(op["ns"]), C.cq_str(op["name"]), valid,
                                                             C.cq_str(op.get("pol_ref", "")), log,
                                                             C.cq_bool(op.get("pr_enable", False)),
                                                             C.cq_bool(op.get("log_enable", False)))


def cq_strs(l):
    return C.cq_list([C.cq_str(x) for x in l or []])


def case_to_coq(c):
    runs = []
    for r in c["obs"]["runs"]:
        steps = C.cq_list(["(%s, %s, %s, %s)" % (cq_strs(s["ch"]), cq_strs(s["pr"]),
                                                 ("(Some %s)" % cq_strs(s["us"])) if s["is_us"] else "None",
                                                 C.cq_str(s["ans"])) for s in r["steps"]])
        runs.append("(%s%%nat, %s)" % (C.cq_list([str(i) for i in r["order"]]), steps))
    pkeys = C.cq_list(["(%s, %s)" % (C.cq_str(p[0]), C.cq_str(p[1])) for p in c["pkeys"]])
    ctl = c["obs"].get("ctl") or {"order": [], "steps": []}
    ctl_s = "(%s%%nat, %s)" % (C.cq_list([str(i) for i in ctl["order"]]),
                              C.cq_list(["(%d, %s, %s, %s, %s, %s)" % (s.get("m", 0), cq_strs(s["ld"]), cq_strs(s["fl"]), C.cq_str(s.get("pa", "")),
                                                                   cq_strs(s.get("pp")), cq_strs(s.get("rj"))) for s in ctl["steps"]]))
    return "c19_case %d %s %s %s %s\n    %s\n    %s\n    %s" % (
        c["id"], C.cq_bool(c.get("fx", False)), C.cq_bool(c["enabled"]), cq_strs(c["wkeys"]), pkeys,
        C.cq_list([cq_event(op) for op in c["hist"]]), C.cq_list(runs), ctl_s)


def usable(c):
    o = c.get("obs")
    return isinstance(o, dict) and "runs" in o and "panic" not in o and "error" not in o


def evaluate(run, cases, tag):
    cases = [c for c in cases if usable(c)]
    if not cases:
        return []
    body = "From NIC Require Import Base.SMap AppProtect.Model AppProtect.Spec AppProtect.Cases.\n"
    body += "Definition results : list (list Z) := Eval vm_compute in\n  [" + ";\n   ".join(case_to_coq(c) for c in cases) + "].\n"
    body += "Print results.\n"
    path = os.path.join(C.WORK, "cases", "C19_%s.v" % tag)
    C.write_cases_v(path, body)
    rc, out = C.coqc(path)
    res = C.parse_z_lists(out, "results")
    if rc != 0 or res is None or len(res) != len(cases):
        raise C.TieBroken("coqc could not evaluate the C19 cases file (%s): %s" % (path, out[-1500:]))
    return res


BITS = [
    (1, {"kind": "spec", "class": "revtime_tagonly"},
     "a well-formed policy whose required signature set is in force is NOT usable: answers differ from the specification "
     "exactly as isReqSatisfiedByUserSig's fall-through predicts (requirement without min/max vs signature with revisionDatetime)"),
    (2, {"kind": "report", "class": "usersig_delete_absent"},
     "DeleteUserSig of an absent key returned UserSigChange.UserSigs=nil although signatures are in force"),
    (4, {"kind": "spec", "class": "other"},
     "the implementation's answers / change lists violate the from-scratch specification"),
    (16, {"kind": "projection", "class": "usersig_files"},
     "controller projection: after an operation the user-signature index / files are not exactly the signature sets in force "
     "for the current objects (syncAppProtectUserSig -> processAppProtectUserSigChange -> RefreshAppProtectUserSigs)"),
    (32, {"kind": "report", "class": "controller_policy_flip_unprocessed"},
     "controller path: a policy changed usability during a signature operation / the clean-up of an unwatched namespace but no "
     "processed change carried it (its dependent Ingress was not regenerated) or no Rejected event was recorded for it"),
    (8, {"kind": "order", "class": "final_answers_differ"},
     "two orders of the same operations ending in the same object set give different answers"),
]


def judge(run, cases, res):
    byid = {c["id"]: c for c in cases}
    for c in cases:
        o = c.get("obs")
        if isinstance(o, dict) and "error" in o:
            run.failing({"kind": "harness-case-error"}, [c], "the harness could not run case %d: %s" % (c["id"], str(o["error"])[:300]),
                        theorem="correspondence harness c19", found_input=False)
        elif isinstance(o, dict) and "panic" in o:
            run.failing({"kind": "panic", "class": c["class"]}, [c], "the implementation panicked on case %d: %s" % (c["id"], str(o["panic"])[:300]),
                        theorem="AppProtect.Model.step is total")
    cov = run.cov.setdefault("by_class", {})
    st = run.cov.setdefault("stats", {"operations_compared": 0, "runs": 0, "cases_in_known_class_revtime": 0,
                                      "cases_in_known_class_delete_absent": 0})
    ans = run.cov.setdefault("answers_observed_first_run_all_steps", {})
    names = ["waf_duplicate_tag", "waf_missing_signature", "waf_invalid_timestamp", "waf_failed_validation", "dos_invalid",
             "dos_policy_missing", "dos_policy_invalid", "dos_logconf_missing", "dos_logconf_invalid", "usable"]
    for row in res:
        cid, agree, spec, nontrivial, bits, nruns, k1, f21free = row[:8]
        c = byid[cid]
        canon = {"enabled": c["enabled"], "hist": c["hist"], "perms": c["perms"]}
        run.count_case(canon, bool(nontrivial))
        run.cov["traces_validated_against_impl"] += nruns
        cov[c["class"]] = cov.get(c["class"], 0) + 1
        st["operations_compared"] += nruns * len(c["hist"])
        st["runs"] += nruns
        st["cases_meeting_K1_hypothesis"] = st.get("cases_meeting_K1_hypothesis", 0) + k1
        st["cases_meeting_f21_free_hypothesis"] = st.get("cases_meeting_f21_free_hypothesis", 0) + f21free
        if not k1:
            run.failing({"kind": "generator", "class": "K1-violated"}, [dict(c)],
                        "generated history %d violates K1 (duplicate uids): the generator is broken" % cid,
                        theorem="harness c19 generator", found_input=False)
        for nme, v in zip(names, row[8:]):
            ans[nme] = ans.get(nme, 0) + v
        st["usersig_recreate_updates"] = st.get("usersig_recreate_updates", 0) + sum(1 for o in c["hist"] if o.get("recreate"))
        st["controller_path_operations"] = st.get("controller_path_operations", 0) + len((c["obs"].get("ctl") or {}).get("order", []))
        st["cases_in_known_class_revtime"] += 1 if bits & 1 else 0
        st["cases_in_known_class_delete_absent"] += 1 if bits & 2 else 0
        small = dict(c)
        for bit, sig, what in BITS:
            if bits & bit:
                run.failing(sig, [small], "%s (case %d, class %s, %d operations)" % (what, cid, c["class"], len(c["hist"])),
                            theorem="AppProtect.Spec.spec_ok / AppProtect.Cases.report_bits")
        if not agree:
            run.failing({"kind": "correspondence", "class": c["class"]}, [small],
                        "model and implementation disagree on case %d (class %s, %d operations)%s" % (
                            cid, c["class"], len(c["hist"]), "" if bits else " but the specification holds on it"),
                        theorem="correspondence AppProtect.Model.step ~ appprotect.ConfigurationImpl / appprotectdos.Configuration",
                        found_input=False)


TRUSTED = [
    "Rocq 8.16.1 kernel incl. vm_compute (no native_compute); no axioms (Print Assumptions: closed)",
    "hand-written model coq/AppProtect/Model.v of internal/k8s/appprotect/app_protect_configuration.go and "
    "internal/k8s/appprotectdos/app_protect_dos_configuration.go, tied on every run by the correspondence harness "
    "harness/overlay/internal/verifh/c19 (real NewConfiguration, AddOrUpdate*/Delete*, GetAppResource, GetValidDosEx; "
    "change/problem lists and answers compared after every operation)",
    "validator verdicts (ValidateAppProtectPolicy/LogConf/UserSig, ValidateAppProtectDosPolicy/DosLogConf, "
    "ValidateDosProtectedResource) are oracle inputs of the model obtained by calling the real validators on the same object; "
    "unstructured.Nested*, time.Parse(RFC3339), metav1 creationTimestamp parsing, sort.Sort are called, not modelled",
    "Go map iteration order: the model iterates in key order and the lists are compared as sorted lists; that the flags do not "
    "depend on the order is argued in Model.v (disjoint groups, read-only UserSigs during verifyPolicies) and exercised by the "
    "runtime's random order on every run, the winner being independent of the order is proved (sig_sort_perm_invariant)",
    "projection of error/problem message prose to classes in the harness (string prefixes)",
    "controller projection: hook harness/overlay/internal/k8s/zz_verif_c19.go builds the LoadBalancerController fields the APUserSig "
    "path reads (real syncAppProtectUserSig, processAppProtectUserSigChange, Configurator.RefreshAppProtectUserSigs; the NGINX manager "
    "is a recorder of App Protect files; no Ingress/VirtualServer exists); APPolicy/APLogConf go straight into its Configuration",
    "the model's variant flag fx (F21 repaired or not) is set from a probe of the real isReqSatisfiedByUserSig through "
    "AddOrUpdateUserSig/AddOrUpdatePolicy/GetAppResource on every run; S never looks at it",
]


def check(run):
    n = 260 if run.tier == "quick" else 4000
    run.proof_obligations()
    binary = C.go_build("c19")
    out = os.path.join(C.WORK, "cases", "c19_%s.jsonl" % run.tier)
    rc, log = C.run_harness(binary, ["-seed", str(run.seed), "-n", str(n), "-out", out, "-tier", run.tier], timeout=3000)
    if rc != 0:
        raise C.TieBroken("c19 harness failed rc=%d: %s" % (rc, log[-1500:]))
    cases = C.read_jsonl(out)
    variants = sorted({bool(c.get("fx")) for c in cases})
    run.cov["code_variant"] = ("fixes/F21.diff applied (fx=true): C19_flags_are_spec_with_fix applies" if variants == [True] else
                               "unpatched isReqSatisfiedByUserSig (fx=false): C19_flags_are_spec under f21_free, C19_revtime_refuted"
                               if variants == [False] else "inconsistent probe results %s" % variants)
    run.add_obligation(len(variants) == 1, "code variant probe is consistent over the run", str(variants))
    shard = 150
    for k in range(0, len(cases), shard):
        part = cases[k:k + shard]
        judge(run, part, evaluate(run, part, "%s_%d" % (run.tier, k // shard)))
    # the two refutation witnesses must still reproduce on the real code (corpus cases 0 and 1)
    for c in cases[:3]:
        s = {"id": c["id"], "class": c["class"], "enabled": c["enabled"], "hist": c["hist"][:6], "perms": c["perms"][:1]}
        if usable(c):
            s["obs_first_run"] = c["obs"]["runs"][0]["steps"][:6]
        run.sample(s)
    run.cov["rule"] = ("2 fixed corpus cases (the witnesses of C19_revtime_refuted and C19_usersig_report_refuted) + generated histories in "
                       "three families (all six kinds / WAF kinds only / DoS kinds only, 2:1:1): "
                       "4-25 add/update/delete operations over APPolicy, APLogConf, APUserSig, APDosPolicy, APDosLogConf, "
                       "DosProtectedResource on 2 namespaces x 3 names, 3 tags + no tag, 3 creation timestamps (ties), 5 revision times "
                       "(boundary equalities), uid letters from a 3x3 pool; tag changes by update; malformed specs (missing required fields, "
                       "signature-requirements not a slice, unparsable min/max/revision times, bad DoS references / log destinations; every "
                       "sixth case draws mostly malformed specs); deletes of absent keys; DoS disabled in 1/12 of the cases; each history is "
                       "run as generated and in 3 random interleavings that keep the per-object order; 18% of the updates of a stored APUserSig are a "
                       "delete+re-create collapsed into one update (new uid and creation time, same spec); the WAF operations of every history "
                       "also go through the controller path with a file-recording manager (index.conf and files compared with the sets in force).  A case is distinct by its full input; "
                       "it is trivial when every answer at every step is not-found.")
    run.cov["trusted_base"] = TRUSTED
    run.assumptions += [
        "K1: simultaneously existing APUserSig objects have distinct UIDs (hypothesis of the theorems, enforced by the generator)",
        "object keys are namespace/name; types of spec.tag / requirement fields are strings as the CRD schema demands "
        "(a non-string tag or a non-map requirement makes createAppProtectPolicyEx panic; that is C17's subject)",
        "revision-time bounds are strict and a signature without revisionDatetime meets any bound, as coded; only the "
        "no-bound-at-all case is judged against the natural reading (F21)",
    ]


def _parse_coq_value(out, name):
    """parse `name = <lists/tuples/strings/Some/None>  : type` printed by Coq into python values"""
    import re, ast
    m = re.search(re.escape(name) + r'\s*=\s*(.*?)\n\s*:\s', out, re.S)
    if not m:
        return None
    body = m.group(1).replace(";", ",").replace("Some ", "").replace("%string", "")
    try:
        return ast.literal_eval(body)
    except Exception:
        return None


def traces(cases):
    """model outputs and specified answers per step, for every run of every case (for --replay)"""
    body = "From NIC Require Import Base.SMap AppProtect.Model AppProtect.Spec AppProtect.Cases.\n"
    names = []
    for c in cases:
        evs = C.cq_list([cq_event(op) for op in c["hist"]])
        pkeys = C.cq_list(["(%s, %s)" % (C.cq_str(p[0]), C.cq_str(p[1])) for p in c["pkeys"]])
        for i, r in enumerate(c["obs"]["runs"]):
            order = C.cq_list([str(j) for j in r["order"]]) + "%nat"
            body += "Definition xt_%d_%d := Eval vm_compute in x_trace %s (init %s) %s %s (pick %s %s).\nPrint xt_%d_%d.\n" % (
                c["id"], i, C.cq_bool(c.get("fx", False)), C.cq_bool(c["enabled"]), cq_strs(c["wkeys"]), pkeys, evs, order, c["id"], i)
            body += "Definition st_%d_%d := Eval vm_compute in s_trace %s objs0 %s %s (pick %s %s).\nPrint st_%d_%d.\n" % (
                c["id"], i, C.cq_bool(c["enabled"]), cq_strs(c["wkeys"]), pkeys, evs, order, c["id"], i)
            names.append((c["id"], i))
    path = os.path.join(C.WORK, "cases", "C19_replay_traces.v")
    C.write_cases_v(path, body)
    rc, out = C.coqc(path)
    res = {}
    for cid, i in names:
        res[(cid, i)] = (_parse_coq_value(out, "xt_%d_%d" % (cid, i)), _parse_coq_value(out, "st_%d_%d" % (cid, i)))
    return res


def replay(run, path):
    path = os.path.abspath(path)
    binary = C.go_build("c19")
    out = os.path.join(C.WORK, "cases", "c19_replay.jsonl")
    rc, log = C.run_harness(binary, ["-replay", path, "-out", out], timeout=600)
    if rc != 0:
        raise C.TieBroken("c19 harness failed on replay: %s" % log[-1500:])
    cases = C.read_jsonl(out)
    res = evaluate(run, cases, "replay")
    byid = {c["id"]: c for c in cases}
    tr = traces([c for c in cases if usable(c)])
    verbose = bool(os.environ.get("C19_VERBOSE"))
    for r in res:
        c = byid[r[0]]
        print("replay case %d (%s): model-agrees=%d spec=%d failure-bits=%d" % (r[0], c["class"], r[1], r[2], r[4]))
        for i, ro in enumerate(c["obs"]["runs"]):
            xt, st = tr.get((c["id"], i), (None, None))
            print("  run %d order=%s" % (i, ro["order"]))
            shown = 0
            nk = len(c["wkeys"])
            pk = [(p[1] if "/" in p[1] else p[0] + "/" + p[1]) for p in c["pkeys"]]
            keyed = [("0", k) for k in c["wkeys"]] + [("1", k) for k in c["wkeys"]] + [(None, k) for k in c["wkeys"]] + [("5", k) for k in pk]
            prev_ans = None
            for n, (j, s) in enumerate(zip(ro["order"], ro["steps"])):
                op = c["hist"][j]
                unreported = []
                if prev_ans is not None:
                    for (d, k), a, b in zip(keyed, prev_ans, s["ans"]):
                        if d is not None and (a == "0") != (b == "0") and (("A" if b == "0" else "D") + d + ":" + k) not in s["ch"]:
                            unreported.append("%s%s:%s (%s->%s)" % ("A" if b == "0" else "D", d, k, a, b))
                prev_ans = s["ans"]
                impl = (s["ch"], s["pr"], s["us"] if s["is_us"] else None, s["ans"])
                model = None
                if xt and n < len(xt):
                    m = xt[n]
                    model = (list(m[0]), list(m[1]), None if m[2] is None else list(m[2]), m[3])
                spec = st[n] if st and n < len(st) else None
                differs = (model is not None and model != impl) or (spec is not None and spec != s["ans"]) or bool(unreported)
                if differs and not verbose:
                    shown += 1
                    if shown > 3:
                        continue
                if verbose or differs:
                    print("    step %d op %s" % (n, json.dumps({k: v for k, v in op.items() if v not in (None, "", False, 0, [])})[:400]))
                    print("      impl : changes=%s problems=%s usersigs=%s answers=%s" % impl)
                    if model is not None and model != impl:
                        print("      MODEL: changes=%s problems=%s usersigs=%s answers=%s" % model)
                    if unreported:
                        print("      UNREPORTED usability flips (missing from the change list): %s" % unreported)
                    if spec is not None and spec != s["ans"]:
                        print("      SPEC :%sanswers=%s" % (" " * 60, spec))
        ctl = c["obs"].get("ctl")
        if ctl:
            print("  controller path (WAF operations in generated order): sets listed by index.conf / files in the folder")
            for j, stp in zip(ctl["order"], ctl["steps"]):
                op = c["hist"][j]
                if stp.get("m") == 1:
                    continue
                print("    op %d %s %s/%s%s -> index=%s files=%s policies=%s processed=%s rejected=%s" % (j, ["APPolicy", "APLogConf", "APUserSig"][op["k"]], op["ns"], op["name"],
                                                                      (" UNWATCH-NAMESPACE (group %d complete)" % op["unwatch"]) if op.get("unwatch") else " DELETE" if op.get("del") else (" (re-created)" if op.get("recreate") else ""),
                                                                      stp["ld"], stp["fl"], stp.get("pa"), stp.get("pp"), stp.get("rj")))
    judge(run, cases, res)
