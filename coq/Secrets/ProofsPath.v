(* C11 -- a reference to a Secret names only files derived from that very Secret, although the
   Configurator overwrites the Path inside the store's own reference. *)
From Coq Require Import List String Ascii Bool ZArith Lia.
From NIC Require Import Base.SMap Secrets.Model Secrets.Spec Secrets.ProofsNames Secrets.Proofs.
Import ListNotations.
Open Scope string_scope.
Open Scope list_scope.

Lemma path_ok_empty k : path_ok k "" = true.
Proof. reflexivity. Qed.

Lemma mgr_add_path_own k ns name v (d : disk) :
  key_to_fname k = fname ns name -> path_ok k (snd (mgr_add ns name v d)) = true.
Proof.
  intros E. unfold path_ok, own_paths, mgr_add. rewrite E.
  destruct (kind_of_type (vtype v)); cbn [snd mem_str existsb].
  - rewrite String.eqb_refl. destruct (String.eqb (fname ns name) ""); reflexivity.
  - rewrite String.eqb_refl. rewrite !orb_true_r. reflexivity.
  - reflexivity.
Qed.

Lemma path_ok_fname k n : key_to_fname k = n -> path_ok k n = true.
Proof.
  intros <-. unfold path_ok, own_paths. cbn [mem_str existsb]. rewrite String.eqb_refl. apply orb_true_r.
Qed.

(* the Ingresses that carry the JWT / basic-auth annotations have Kubernetes names *)
Definition force_ok (o : op) : Prop :=
  match o with ForcePath ns name => no_slash ns /\ no_slash name | _ => True end.

Section Paths.
  Variable cadel : bool.
  Variable U : string -> Prop.

  Definition Pinv (st : state) : Prop :=
    forall k e, lookup k (store st) = Some e -> path_ok k (e_path e) = true.

  Lemma entry_fname_of st g k e :
    Inv cadel U st g -> lookup k (store st) = Some e -> key_to_fname k = fname (e_ns e) (e_name e).
  Proof.
    intros I L. pose proof (inv_sg cadel U st g I k) as S. rewrite L in S.
    destruct S as (v & a & _ & EO). eapply entry_fname; eauto.
  Qed.

  Lemma pinv_insert st k e d :
    Pinv st -> path_ok k (e_path e) = true -> Pinv (mkstate (insert k e (store st)) d).
  Proof.
    intros P H k' e' L. cbn [store] in L. destruct (string_dec k' k) as [->|N].
    - rewrite lookup_insert_eq in L. injection L as <-. exact H.
    - rewrite lookup_insert_neq in L by exact N. eapply P; eauto.
  Qed.

  Lemma pinv_get st g k :
    Inv cadel U st g -> Pinv st ->
    Pinv (fst (do_get st k)) /\ path_ok k (fst (snd (do_get st k))) = true.
  Proof.
    intros I P. unfold do_get. destruct (lookup k (store st)) as [e|] eqn:L; [|split; [exact P|reflexivity]].
    destruct (negb (e_err e) && is_empty (e_path e)).
    - pose proof (mgr_add_path_own k (e_ns e) (e_name e) (e_ver e) (files st) (entry_fname_of st g k e I L)) as H.
      destruct (mgr_add (e_ns e) (e_name e) (e_ver e) (files st)) as [d p]. cbn [fst snd] in *.
      split; [|exact H]. apply pinv_insert; [exact P|exact H].
    - cbn [fst snd]. split; [exact P|]. eapply P; eauto.
  Qed.

  Lemma pinv_step st g o :
    Inv cadel U st g -> op_ok cadel U g o -> force_ok o -> Pinv st -> Pinv (step_st cadel st o).
  Proof.
    intros I OK FO P. destruct o as [ns name v|k|k|ns name]; unfold step_st; cbn [step].
    - cbn [fst]. destruct OK as (S1 & S2 & _).
      assert (KF : key_to_fname (key_of ns name) = fname ns name) by (apply key_to_fname_key_of; assumption).
      unfold do_upsert.
      destruct (is_empty _); [apply pinv_insert; [exact P|apply path_ok_empty]|].
      destruct (negb (vvalid v)); [apply pinv_insert; [exact P|apply path_ok_empty]|].
      pose proof (mgr_add_path_own (key_of ns name) ns name v (files st) KF) as H.
      destruct (mgr_add ns name v (files st)) as [d p]. cbn [snd] in H.
      apply pinv_insert; [exact P|exact H].
    - cbn [fst]. unfold do_delete. destruct (lookup k (store st)) as [e|] eqn:L; [|exact P].
      assert (R : forall d, Pinv (mkstate (remove k (store st)) d)).
      { intros d k' e' L'. cbn [store] in L'. apply lookup_remove_sub in L'; [|apply (inv_wfs cadel U st g I)].
        eapply P; eauto. }
      destruct (is_empty (e_path e)); apply R.
    - destruct (pinv_get st g k I P) as [H _]. destruct (do_get st k) as [s r]. exact H.
    - destruct FO as [S1 S2].
      destruct (pinv_get st g (key_of ns name) I P) as [H _].
      unfold do_force. destruct (do_get st (key_of ns name)) as [s r]. cbn [fst] in H.
      destruct (lookup (key_of ns name) (store s)) as [e|] eqn:L; cbn [fst]; [|exact H].
      apply pinv_insert; [exact H|]. cbn.
      apply path_ok_fname. apply key_to_fname_key_of; assumption.
  Qed.

  Lemma pinv_run h : forall st g,
    Inv cadel U st g -> Pinv st -> hist_ok cadel U g h -> Forall force_ok h ->
    Pinv (fold_left (step_st cadel) h st).
  Proof.
    induction h as [|o r IH]; intros st g I P OK FO; cbn [fold_left]; [exact P|].
    destruct OK as [O1 O2]. inversion FO as [|? ? F1 F2]; subst.
    apply (IH _ (gstep g o)); auto.
    - apply inv_step; assumption.
    - eapply pinv_step; eauto.
  Qed.

  (* every reference handed out after an admissible history names only files derived from the
     Secret it is a reference to *)
  Theorem reference_names_own_files h k st' p e :
    hist_ok cadel U gempty h -> Forall force_ok h ->
    step cadel (run cadel h) (Get k) = (st', Some (p, e)) -> path_ok k p = true.
  Proof.
    intros OK FO S.
    pose proof (inv_run cadel U h init gempty (inv_init cadel U) OK) as I.
    assert (P : Pinv (run cadel h)).
    { apply (pinv_run h init gempty); auto; [apply inv_init|]. intros k0 e0 L. discriminate. }
    fold (run cadel h) in I. fold (grun h) in I.
    destruct (pinv_get (run cadel h) (grun h) k I P) as [_ H].
    cbn [step] in S. destruct (do_get (run cadel h) k) as [s [p' e']]. injection S as _ <- _. exact H.
  Qed.

  Theorem force_names_own_file h ns name st' p e :
    step cadel (run cadel h) (ForcePath ns name) = (st', Some (p, e)) -> p = fname ns name.
  Proof.
    cbn [step]. unfold do_force. destruct (do_get (run cadel h) (key_of ns name)) as [s r].
    destruct (lookup (key_of ns name) (store s)); intros H; injection H as _ <- _; reflexivity.
  Qed.
End Paths.
